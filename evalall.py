#!/usr/bin/env python3
"""Run the registered checks against every seeded change (in a scratch worktree, never in /repo)
and record which checks catch which change in /verif/seeded/RESULTS.json.
usage: evalall.py [seed-name ...]"""
import json, os, subprocess, sys, glob, shutil
WT=os.environ.get('WT','/tmp/evalwt'); EV=WT+'_verif'; PC=os.environ.get('PCHECK','/verif/bin/pcheck')
def sh(cmd, **kw): return subprocess.run(cmd, shell=True, capture_output=True, text=True, **kw)
if not os.path.isdir(WT):
    sh(f'git -C /repo worktree add -f {WT} HEAD')
sh(f'git -C {WT} checkout -q --detach $(git -C /repo rev-parse HEAD) && git -C {WT} checkout -- . && git -C {WT} clean -fdq')
os.makedirs(EV+'/evidence/replay', exist_ok=True)
shutil.copy('/verif/known-findings.txt', EV)
claimed=[c['property_id'] for c in json.load(open('/verif/MANIFEST.json'))['checks']]
lexer={'C01','C02','C06','C07','C09','C10','C11','C12','C15'}
names=sys.argv[1:] or sorted(os.path.basename(d) for d in glob.glob('/verif/seeded/C*-m*'))
resf=os.environ.get('OUT','/verif/seeded/RESULTS.json')   # OUT: partial results of a parallel run, merged afterwards
res=json.load(open(resf)) if os.path.exists(resf) else {}
for n in names:
    prop=n.split('-')[0]
    props=[prop]
    if prop in lexer: props+=[p for p in ('C01','C02') if p!=prop]
    if prop in ('C03','C04'): props+=[p for p in ('C03','C04','C01') if p!=prop]
    if prop=='C08': props+=['C01']
    sh(f'git -C {WT} checkout -- . && git -C {WT} clean -fdq')
    a=sh(f'git -C {WT} apply /verif/seeded/{n}/patch.diff')
    if a.returncode!=0:
        res[n]={'error':'patch does not apply to the current tree: '+a.stderr[-200:]}; continue
    caught={}
    ps=[p for p in props if p in claimed]
    r=sh(f'{PC} -props {",".join(ps)} -repo {WT} -verif {EV}', timeout=3600)
    cur=[]
    for l in r.stdout.splitlines():
        if l.startswith('BATCH property='):
            p=l.split('property=')[1].split()[0]; code=int(l.split('exit=')[1])
            if code!=0: caught[p]={'exit':code,'reports':cur[:3]}
            cur=[]
        elif ('VIOLATED' in l or 'UNDECIDED' in l or 'CHECK-BROKEN' in l) and not l.startswith('VIOLATION'):
            cur.append(l.strip()[:220])
    res[n]={'property':prop,'checks_run':props,'caught_by':caught}
    print(n, 'CAUGHT by '+','.join(caught) if caught else 'missed', flush=True)
    json.dump(res, open(resf,'w'), indent=1, sort_keys=True)
sh(f'git -C {WT} checkout -- . && git -C {WT} clean -fdq')
sh(f'git -C /repo worktree remove --force {WT}')
