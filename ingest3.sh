#!/bin/bash
# ingest3.sh <prop>: confirm the three round-3 changes of a sub-agent (scratch worktree /tmp/wt3_<prop>) and store them as <prop>-m4..m6
p=$1
wt=/tmp/wt3_$p
for i in 1 2 3; do
  n=$((i+3))
  [ -d $wt/out/m$i ] || { echo "$p m$i: missing"; continue; }
  python3 /verif/verifyseed.py $wt $wt/out/m$i $p $p-m$n 2>&1 | head -3
done
[ -f $wt/out/preexisting.md ] && mkdir -p /verif/seeded/preexisting && cp $wt/out/preexisting.md /verif/seeded/preexisting/$p-round3.md
true
