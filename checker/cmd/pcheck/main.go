// Command pcheck decides the structural clauses of properties C01..C20 of
// tdewolff/parse from the current source of /repo (no code of /repo is run).
package main

import (
	"flag"
	"fmt"
	"os"
	"runtime"
	"runtime/debug"
	"runtime/metrics"
	"runtime/pprof"
	"strconv"
	"strings"
	"time"

	"verif/checker/core"
	"verif/checker/rules"
)

func main() {
	prop := flag.String("prop", "", "property id (C01..C20)")
	tier := flag.String("tier", "", "quick|thorough (default: $VERIF_TIER or quick)")
	repo := flag.String("repo", "/repo", "repository directory")
	verif := flag.String("verif", "/verif", "verification directory")
	only := flag.String("rule", "", "run only this rule")
	list := flag.Bool("list", false, "list rules")
	replay := flag.String("replay", "", "replay file: re-run the rule of the recorded obligation")
	manifest := flag.String("manifest", "", "write MANIFEST.json to this path and exit")
	cpuprof := flag.String("cpuprofile", "", "write cpu profile")
	batch := flag.String("props", "", "evaluation helper: comma-separated properties decided in one process on one load of the repository (quick tier); prints `BATCH property=<id> exit=<code>` after each")
	bsurvey := flag.String("bsurvey", "", "debug: comma-separated packages (rel paths, root is \"\") to survey with the bounds engine")
	flag.Parse()
	go heapWatchdog(*prop)
	if *bsurvey != "" {
		prog, err := core.Load(core.LoadConfig{Dir: *repo})
		if err != nil {
			fmt.Println(err)
			os.Exit(2)
		}
		pk := map[string]bool{}
		for _, x := range strings.Split(*bsurvey, ",") {
			if x == "root" {
				x = ""
			}
			pk[x] = true
		}
		rules.BoundsSurvey(core.NewRun("C16", "quick", 0, prog), pk, true)
		return
	}
	if *cpuprof != "" {
		f, _ := os.Create(*cpuprof)
		pprof.StartCPUProfile(f)
		go func() { time.Sleep(25 * time.Second); pprof.StopCPUProfile(); f.Close(); os.Exit(3) }()
	}
	if *manifest != "" {
		if err := writeManifest(*manifest); err != nil {
			fmt.Println(err)
			os.Exit(2)
		}
		return
	}
	if *list {
		for _, r := range rules.All() {
			fmt.Printf("%-16s %v  %s\n", r.ID, r.Props, r.Doc)
		}
		return
	}
	if *tier == "" {
		*tier = os.Getenv("VERIF_TIER")
	}
	if *tier != "thorough" {
		*tier = "quick"
	}
	seed, _ := strconv.ParseInt(os.Getenv("VERIF_SEED"), 10, 64)
	if *replay != "" {
		p, rl, err := core.ReadReplay(*replay)
		if err != nil {
			fmt.Println("CHECK-BROKEN cannot read replay:", err)
			os.Exit(2)
		}
		*prop, *only = p, rl
	}
	if *batch != "" {
		prog, err := core.Load(core.LoadConfig{Dir: *repo})
		worst := 0
		for _, pid := range strings.Split(*batch, ",") {
			m, ok := rules.Props[pid]
			if !ok || !m.Claimed {
				fmt.Printf("BATCH property=%s exit=2\n", pid)
				worst = 2
				continue
			}
			code := runOn(pid, "quick", seed, *verif, "", m, time.Now(), prog, err)
			fmt.Printf("BATCH property=%s exit=%d\n", pid, code)
			if code > worst {
				worst = code
			}
		}
		os.Exit(worst)
	}
	meta, ok := rules.Props[*prop]
	if !ok || !meta.Claimed {
		fmt.Printf("CHECK-BROKEN unknown or unclaimed property %q\n", *prop)
		os.Exit(2)
	}
	started := time.Now()
	code := run(*prop, *tier, seed, *repo, *verif, *only, meta, started)
	os.Exit(code)
}

func run(prop, tier string, seed int64, repo, verif, only string, meta rules.PropMeta, started time.Time) (code int) {
	configs := []core.LoadConfig{{Dir: repo}}
	if tier == "thorough" {
		configs = append(configs, core.LoadConfig{Dir: repo, Env: []string{"GOARCH=386"}})
	}
	var final *core.Run
	for ci, cfg := range configs {
		prog, err := core.Load(cfg)
		r := core.NewRun(prop, tier, seed, prog)
		if err != nil {
			r.Broken = append(r.Broken, err.Error())
			return r.Finish(verif, toMeta(meta, prop, tier), started)
		}
		r.Count("packages", len(prog.Pkgs))
		func() {
			defer func() {
				if e := recover(); e != nil {
					r.Broken = append(r.Broken, fmt.Sprintf("analyser panic in rule %s: %v\n%s", r.Rule(), e, debug.Stack()))
				}
			}()
			for _, rl := range rules.For(prop) {
				if only != "" && rl.ID != only {
					continue
				}
				r.SetRule(rl.ID)
				rl.Run(r)
			}
			if tier == "thorough" && ci == 0 && only == "" {
				rules.SelfTest(r, cfg)
			}
		}()
		if final == nil {
			final = r
		} else {
			// merge verdicts of the extra configuration: only non-discharged
			// obligations and counts are carried over
			have := map[string]bool{}
			for _, o := range final.Obs {
				if o.Status == core.Violated || o.Status == core.Undecided {
					have[o.Rule+"|"+o.Key] = true
				}
			}
			for _, o := range r.Obs {
				if (o.Status == core.Violated || o.Status == core.Undecided) && !have[o.Rule+"|"+o.Key] {
					o.Detail = "[only under " + strings.Join(cfg.Env, ",") + "] " + o.Detail
					final.Obs = append(final.Obs, o)
				}
			}
			final.Broken = append(final.Broken, r.Broken...)
			final.Count("obligations re-decided under "+strings.Join(cfg.Env, ","), len(r.Obs))
		}
	}
	return final.Finish(verif, toMeta(meta, prop, tier), started)
}

// runOn: one property, quick tier, on a program that is already loaded (the batch mode of the evaluation scripts; the
// registered checks always go through run, one process per property).
func runOn(prop, tier string, seed int64, verif, only string, meta rules.PropMeta, started time.Time, prog *core.Program, loadErr error) int {
	r := core.NewRun(prop, tier, seed, prog)
	if loadErr != nil {
		r.Broken = append(r.Broken, loadErr.Error())
		return r.Finish(verif, toMeta(meta, prop, tier), started)
	}
	r.Count("packages", len(prog.Pkgs))
	func() {
		defer func() {
			if e := recover(); e != nil {
				r.Broken = append(r.Broken, fmt.Sprintf("analyser panic in rule %s: %v\n%s", r.Rule(), e, debug.Stack()))
			}
		}()
		for _, rl := range rules.For(prop) {
			if only != "" && rl.ID != only {
				continue
			}
			r.SetRule(rl.ID)
			rl.Run(r)
		}
	}()
	return r.Finish(verif, toMeta(meta, prop, tier), started)
}

func toMeta(m rules.PropMeta, prop, tier string) core.Meta {
	tb := m.TrustedBase
	if tb == nil {
		tb = []string{}
	}
	return core.Meta{Level: m.Level, Explanation: m.Explanation, TrustedBase: tb,
		CheckerCmd: fmt.Sprintf("/verif/bin/pcheck -prop %s -tier %s", prop, tier)}
}

// heapWatchdog: an analysis that runs away on an unforeseen program shape must end as a broken check (exit 2,
// nothing it says is believed), not take the machine down.
func heapWatchdog(prop string) {
	limit := uint64(24)
	if s := os.Getenv("PCHECK_MAXHEAP_GB"); s != "" {
		if n, err := strconv.Atoi(s); err == nil && n > 0 {
			limit = uint64(n)
		}
	}
	if os.Getenv("GOMEMLIMIT") == "" {
		// the engines run with a lazy collector (GC percent 600): without a soft limit the *uncollected* garbage of
		// a few concurrent self-test variants alone can pass the budget; with it the collector works harder as the
		// heap nears a third of the budget (measured: thorough C01 peaks at 8 GB instead of 16-24 GB, same wall
		// time), and only live data can take the heap beyond
		debug.SetMemoryLimit(int64(limit) / 3 << 30)
	}
	adaptive := os.Getenv("GOMEMLIMIT") == ""
	base := int64(limit) / 3 << 30
	live := []metrics.Sample{{Name: "/gc/heap/live:bytes"}}
	var ms runtime.MemStats
	for {
		time.Sleep(time.Second)
		if adaptive {
			// an analysis whose *live* data outgrows the soft limit must not be left to a collector that runs back to
			// back (a run-away analysis then crawls for half an hour instead of failing in a minute): keep the limit
			// at twice the live heap, so that only the hard budget below ends it
			metrics.Read(live)
			if live[0].Value.Kind() == metrics.KindUint64 {
				want := base
				if l := int64(live[0].Value.Uint64()) * 2; l > want {
					want = l
				}
				debug.SetMemoryLimit(want)
			}
		}
		runtime.ReadMemStats(&ms)
		if ms.HeapAlloc > limit<<30 {
			if f := os.Getenv("PCHECK_HEAPPROF"); f != "" {
				if w, err := os.Create(f); err == nil {
					pprof.WriteHeapProfile(w)
					w.Close()
				}
			}
			fmt.Printf("CHECK-BROKEN property=%s analyser exceeded its memory budget (%d GB): the verdict is not available\n", prop, limit)
			os.Exit(2)
		}
	}
}
