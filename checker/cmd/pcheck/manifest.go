package main

import (
	"encoding/json"
	"fmt"
	"os"
	"sort"
	"strings"

	"verif/checker/rules"
)

// writeManifest generates MANIFEST.json from the rule registry and the
// property metadata, so the manifest can never disagree with the checker.
func writeManifest(path string) error {
	var ids []string
	for id := range rules.Props {
		ids = append(ids, id)
	}
	sort.Strings(ids)
	var checks []map[string]interface{}
	na := []map[string]string{}
	for _, id := range ids {
		m := rules.Props[id]
		if !m.Claimed {
			na = append(na, map[string]string{"property_id": id, "reason": m.NAReason})
			continue
		}
		var rn []string
		for _, r := range rules.For(id) {
			rn = append(rn, r.ID)
		}
		checks = append(checks, map[string]interface{}{
			"property_id":         id,
			"quick_cmd":           "./check " + id + " quick",
			"thorough_cmd":        "./check " + id + " thorough",
			"evidence_file":       "/verif/evidence/" + id + ".json",
			"replay_cmd_template": "./check --replay {path}",
			"engine":              "pcheck",
			"level_claimed": map[string]string{
				"category":   m.Level,
				"text":       m.LevelText,
				"design_ref": m.DesignRef,
			},
			"level_note": m.LevelNote + " Rules run: " + strings.Join(rn, ", ") + ".",
			"technique":  m.Technique,
		})
	}
	var served []string
	for _, c := range checks {
		served = append(served, c["property_id"].(string))
	}
	man := map[string]interface{}{
		"version":   1,
		"setup_cmd": "./setup.sh",
		"hooks": map[string]interface{}{
			"guard":            "verif",
			"enable":           "none needed: the checks analyse the source of /repo statically and do not build or run it; the guard tag `verif` is reserved and unused",
			"baseline_off_cmd": "cd /repo && go test -mod=mod -vet=off -count=1 ./...",
			"source_commits":   fixCommits(),
			"add_only":         true,
		},
		"engines": []map[string]interface{}{{
			"name": "pcheck", "path": "/verif/checker", "serves_properties": served,
			"kind_free_text": "repository-specific static analyser (go/packages + go/types + go/ssa + go/cfg-style path rules + VTA call graph, x/tools v0.29.0 vendored); loads /repo's current source on every run, never executes it",
		}},
		"checks":         checks,
		"not_applicable": na,
		"notes":          "All checks are static (see DESIGN.md). Exit 0 held; exit 1 with `VIOLATION property=<id> replay=<path>` lines; exit 2 `CHECK-BROKEN` when /repo does not load or type-check. known-findings.txt lists recorded findings and fixed defects.",
	}
	data, err := json.MarshalIndent(man, "", " ")
	if err != nil {
		return err
	}
	return os.WriteFile(path, append(data, '\n'), 0o644)
}

// fixCommits lists the fix: commits recorded in known-findings.txt.
func fixCommits() []string {
	out := []string{}
	data, err := os.ReadFile("/verif/known-findings.txt")
	if err != nil {
		return out
	}
	seen := map[string]bool{}
	for _, line := range strings.Split(string(data), "\n") {
		if strings.HasPrefix(line, "fixed:") {
			for _, f := range strings.Fields(line) {
				if strings.HasPrefix(f, "commit=") && !seen[f[7:]] {
					seen[f[7:]] = true
					out = append(out, f[7:])
				}
			}
		}
	}
	return out
}

func init() { _ = fmt.Sprint }
