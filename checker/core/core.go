// Package core holds the shared loader, obligation bookkeeping, evidence
// writer and known-findings handling of the static checker.
package core

import (
	"encoding/json"
	"fmt"
	"go/ast"
	"go/token"
	"go/types"
	"os"
	"path/filepath"
	"sort"
	"strings"
	"sync"
	"time"

	"golang.org/x/tools/go/callgraph"
	"golang.org/x/tools/go/callgraph/cha"
	"golang.org/x/tools/go/callgraph/vta"
	"golang.org/x/tools/go/packages"
	"golang.org/x/tools/go/ssa"
	"golang.org/x/tools/go/ssa/ssautil"
)

// ModPath is the module path of the analysed repository.
const ModPath = "github.com/tdewolff/parse/v2"

// Status of an obligation.
type Status int

const (
	Discharged Status = iota
	Violated
	Undecided
	Excepted
)

func (s Status) String() string {
	return [...]string{"discharged", "violated", "undecided", "excepted"}[s]
}

// Obligation is one instance of a rule.
type Obligation struct {
	Rule   string   `json:"rule"`
	Key    string   `json:"key"` // position independent
	Pos    string   `json:"pos,omitempty"`
	Status Status   `json:"-"`
	St     string   `json:"status"`
	Detail string   `json:"detail,omitempty"`
	Path   []string `json:"path,omitempty"`
}

// Program is the loaded, type-checked and SSA-built repository.
type Program struct {
	Dir    string
	Fset   *token.FileSet
	Pkgs   []*packages.Package // module packages only, sorted by path
	ByPath map[string]*packages.Package
	SSA    *ssa.Program
	cg     *callgraph.Graph
	Config string // description of build configuration
}

// LoadConfig selects build configuration.
type LoadConfig struct {
	Dir     string
	Env     []string // extra env (GOARCH=386 ...)
	Tags    string
	Overlay map[string][]byte
}

// Load loads the module at cfg.Dir. Any error is fatal for the check.
func Load(cfg LoadConfig) (*Program, error) {
	fset := token.NewFileSet()
	env := append(os.Environ(), "GOWORK=off", "GOFLAGS=-mod=mod", "GOPROXY=off", "GOSUMDB=off", "GOTOOLCHAIN=local")
	env = append(env, cfg.Env...)
	pc := &packages.Config{
		Mode:    packages.LoadAllSyntax,
		Dir:     cfg.Dir,
		Fset:    fset,
		Env:     env,
		Tests:   false,
		Overlay: cfg.Overlay,
	}
	if cfg.Tags != "" {
		pc.BuildFlags = []string{"-tags=" + cfg.Tags}
	}
	pkgs, err := packages.Load(pc, "./...")
	if err != nil {
		return nil, fmt.Errorf("load: %v", err)
	}
	var errs []string
	packages.Visit(pkgs, nil, func(p *packages.Package) {
		for _, e := range p.Errors {
			errs = append(errs, e.Error())
		}
	})
	if len(errs) > 0 {
		return nil, fmt.Errorf("load/type errors: %s", strings.Join(errs, "; "))
	}
	p := &Program{Dir: cfg.Dir, Fset: fset, ByPath: map[string]*packages.Package{}}
	for _, pk := range pkgs {
		if pk.PkgPath == ModPath || strings.HasPrefix(pk.PkgPath, ModPath+"/") {
			if strings.HasPrefix(pk.PkgPath, ModPath+"/tests") {
				continue
			}
			p.Pkgs = append(p.Pkgs, pk)
			p.ByPath[pk.PkgPath] = pk
		}
	}
	sort.Slice(p.Pkgs, func(i, j int) bool { return p.Pkgs[i].PkgPath < p.Pkgs[j].PkgPath })
	if len(p.Pkgs) == 0 {
		return nil, fmt.Errorf("no packages of %s found under %s", ModPath, cfg.Dir)
	}
	prog, _ := ssautil.AllPackages(pkgs, ssa.InstantiateGenerics)
	prog.Build()
	p.SSA = prog
	for _, pk := range p.Pkgs {
		progOf.Store(pk.Types, p)
	}
	p.Config = strings.Join(cfg.Env, ",") + " tags=" + cfg.Tags
	return p, nil
}

// progOf: module package -> the Program it was loaded in (for evaluators that are handed a package only).
var progOf sync.Map

// ProgramOf returns the loaded Program a module package belongs to.
func ProgramOf(pk *types.Package) *Program {
	if v, ok := progOf.Load(pk); ok {
		return v.(*Program)
	}
	return nil
}

// Release drops the registry entries of p (scratch variants).
func (p *Program) Release() {
	for _, pk := range p.Pkgs {
		progOf.Delete(pk.Types)
	}
}

// Pkg returns the package with the module-relative path rel ("" for root).
func (p *Program) Pkg(rel string) *packages.Package {
	path := ModPath
	if rel != "" {
		path += "/" + rel
	}
	return p.ByPath[path]
}

// SSAPkg returns the ssa package for rel.
func (p *Program) SSAPkg(rel string) *ssa.Package {
	pk := p.Pkg(rel)
	if pk == nil {
		return nil
	}
	return p.SSA.Package(pk.Types)
}

// CallGraph returns the VTA-refined call graph (built lazily).
func (p *Program) CallGraph() *callgraph.Graph {
	if p.cg == nil {
		fns := ssautil.AllFunctions(p.SSA)
		p.cg = vta.CallGraph(fns, cha.CallGraph(p.SSA))
	}
	return p.cg
}

// Position renders pos relative to the repository directory.
func (p *Program) Position(pos token.Pos) string {
	if !pos.IsValid() {
		return "-"
	}
	ps := p.Fset.Position(pos)
	rel, err := filepath.Rel(p.Dir, ps.Filename)
	if err != nil {
		rel = ps.Filename
	}
	return fmt.Sprintf("%s:%d:%d", rel, ps.Line, ps.Column)
}

// RelPkg gives the module-relative name of a package ("parse" for root).
func RelPkg(pkg *types.Package) string {
	if pkg == nil {
		return ""
	}
	if pkg.Path() == ModPath {
		return "parse"
	}
	return strings.TrimPrefix(pkg.Path(), ModPath+"/")
}

// InModule reports whether pkg belongs to the analysed module.
func InModule(pkg *types.Package) bool {
	return pkg != nil && (pkg.Path() == ModPath || strings.HasPrefix(pkg.Path(), ModPath+"/"))
}

// FuncDecl finds the declaration of a function or method in package rel.
// recv is "" for functions, the (pointer-less) type name for methods.
func (p *Program) FuncDecl(rel, recv, name string) (*ast.FuncDecl, *packages.Package) {
	pk := p.Pkg(rel)
	if pk == nil {
		return nil, nil
	}
	for _, f := range pk.Syntax {
		for _, d := range f.Decls {
			fd, ok := d.(*ast.FuncDecl)
			if !ok || fd.Name.Name != name {
				continue
			}
			if recv == "" {
				if fd.Recv == nil {
					return fd, pk
				}
				continue
			}
			if fd.Recv == nil || len(fd.Recv.List) == 0 {
				continue
			}
			t := fd.Recv.List[0].Type
			if st, ok := t.(*ast.StarExpr); ok {
				t = st.X
			}
			if id, ok := t.(*ast.Ident); ok && id.Name == recv {
				return fd, pk
			}
		}
	}
	return nil, pk
}

// SSAFunc finds the ssa function for a function or method in rel.
func (p *Program) SSAFunc(rel, recv, name string) *ssa.Function {
	sp := p.SSAPkg(rel)
	if sp == nil {
		return nil
	}
	if recv == "" {
		return sp.Func(name)
	}
	tn, ok := sp.Pkg.Scope().Lookup(recv).(*types.TypeName)
	if !ok {
		return nil
	}
	for _, t := range []types.Type{types.NewPointer(tn.Type()), tn.Type()} {
		ms := p.SSA.MethodSets.MethodSet(t)
		for i := 0; i < ms.Len(); i++ {
			if ms.At(i).Obj().Name() == name {
				if fn := p.SSA.MethodValue(ms.At(i)); fn != nil && fn.Synthetic == "" {
					return fn
				}
			}
		}
	}
	return nil
}

// ---------------------------------------------------------------------------

// Run is the state of one property check.
type Run struct {
	Prop     string
	Tier     string
	Seed     int64
	Prog     *Program
	Obs      []*Obligation
	Analysed map[string]int // free-form counters: functions, call sites ...
	Notes    []string
	Assume   []string
	Broken   []string // CHECK-BROKEN reasons
	rule     string
	floors   map[string][2]int // rule -> (seen, floor)
	seenKeys map[string]int
}

func NewRun(prop, tier string, seed int64, prog *Program) *Run {
	return &Run{Prop: prop, Tier: tier, Seed: seed, Prog: prog, Analysed: map[string]int{}, floors: map[string][2]int{}, seenKeys: map[string]int{}}
}

// SetRule sets the rule id attached to subsequently reported obligations.
func (r *Run) SetRule(id string) { r.rule = id }

// Rule returns the current rule id.
func (r *Run) Rule() string { return r.rule }

func (r *Run) add(st Status, key string, pos token.Pos, detail string, path []string) *Obligation {
	full := r.rule + "|" + key
	r.seenKeys[full]++
	if n := r.seenKeys[full]; n > 1 {
		key = fmt.Sprintf("%s #%d", key, n)
	}
	o := &Obligation{Rule: r.rule, Key: key, Status: st, St: st.String(), Detail: detail, Path: path}
	if r.Prog != nil && pos.IsValid() {
		o.Pos = r.Prog.Position(pos)
	}
	r.Obs = append(r.Obs, o)
	return o
}

func (r *Run) OK(key string, pos token.Pos, detail string) { r.add(Discharged, key, pos, detail, nil) }
func (r *Run) Fail(key string, pos token.Pos, detail string, path ...string) {
	r.add(Violated, key, pos, detail, path)
}
func (r *Run) Unknown(key string, pos token.Pos, detail string, path ...string) {
	r.add(Undecided, key, pos, detail, path)
}
func (r *Run) Except(key string, pos token.Pos, reason string) {
	r.add(Excepted, key, pos, reason, nil)
}

// Check records OK or Fail depending on cond.
func (r *Run) Check(cond bool, key string, pos token.Pos, okDetail, failDetail string) {
	if cond {
		r.OK(key, pos, okDetail)
	} else {
		r.Fail(key, pos, failDetail)
	}
}

// Floor records the number of instances a rule matched and the minimum
// number confirmed by reading the pinned tree.
func (r *Run) Floor(what string, seen, floor int) {
	r.floors[r.rule+" "+what] = [2]int{seen, floor}
	if seen < floor {
		r.add(Violated, "VACUOUS "+what, token.NoPos, fmt.Sprintf("rule matched %d instances of %q, fewer than the floor %d confirmed on the pinned tree: the rule no longer sees the code it is meant to check", seen, what, floor), nil)
	}
}

// BrokenAnchor records that a named construct the rule relies on is gone.
func (r *Run) BrokenAnchor(what string) {
	r.add(Undecided, "ANCHOR "+what, token.NoPos, "anchor does not resolve: "+what+" (rule cannot be evaluated; treated as undecided)", nil)
}

func (r *Run) Note(format string, a ...interface{}) {
	r.Notes = append(r.Notes, fmt.Sprintf(format, a...))
}
func (r *Run) Assumption(s string) {
	for _, a := range r.Assume {
		if a == s {
			return
		}
	}
	r.Assume = append(r.Assume, s)
}
func (r *Run) Count(what string, n int) { r.Analysed[what] += n }

// ---------------------------------------------------------------------------
// Known findings

type Finding struct {
	Kind string // finding | fixed
	Prop string
	Rule string
	Key  string
	Text string
}

// LoadFindings parses known-findings.txt.
// Syntax: `finding: property=C08 rule=R-EOFNEST key=<key> -- text`
//
//	`fixed: property=C01 <commit> <text>`
func LoadFindings(path string) ([]Finding, error) {
	data, err := os.ReadFile(path)
	if err != nil {
		if os.IsNotExist(err) {
			return nil, nil
		}
		return nil, err
	}
	var out []Finding
	for _, line := range strings.Split(string(data), "\n") {
		line = strings.TrimSpace(line)
		if line == "" || strings.HasPrefix(line, "#") {
			continue
		}
		var f Finding
		switch {
		case strings.HasPrefix(line, "finding:"):
			f.Kind = "finding"
			rest := strings.TrimSpace(strings.TrimPrefix(line, "finding:"))
			text := ""
			if i := strings.Index(rest, " -- "); i >= 0 {
				text = rest[i+4:]
				rest = rest[:i]
			}
			f.Text = text
			if i := strings.Index(rest, " key="); i >= 0 {
				f.Key = strings.TrimSpace(rest[i+5:])
				rest = rest[:i]
			}
			for _, fld := range strings.Fields(rest) {
				if strings.HasPrefix(fld, "property=") {
					f.Prop = fld[9:]
				}
				if strings.HasPrefix(fld, "rule=") {
					f.Rule = fld[5:]
				}
			}
			if f.Prop == "" || f.Rule == "" || f.Key == "" {
				return nil, fmt.Errorf("malformed finding line: %q", line)
			}
		case strings.HasPrefix(line, "fixed:"):
			f.Kind = "fixed"
			f.Text = strings.TrimSpace(strings.TrimPrefix(line, "fixed:"))
		default:
			return nil, fmt.Errorf("malformed known-findings line: %q", line)
		}
		out = append(out, f)
	}
	return out, nil
}

// ---------------------------------------------------------------------------
// Evidence

type Meta struct {
	Level       string
	Explanation string
	TrustedBase []string
	CheckerCmd  string
}

// Finish writes evidence, replay files, prints the verdict lines and returns
// the exit code.
func (r *Run) Finish(verifDir string, meta Meta, started time.Time) int {
	findings, ferr := LoadFindings(filepath.Join(verifDir, "known-findings.txt"))
	if ferr != nil {
		r.Broken = append(r.Broken, ferr.Error())
	}
	evDir := filepath.Join(verifDir, "evidence")
	os.MkdirAll(filepath.Join(evDir, "replay"), 0o755)
	// remove stale replay files of this property
	old, _ := filepath.Glob(filepath.Join(evDir, "replay", r.Prop+"-*.json"))
	for _, f := range old {
		os.Remove(f)
	}

	sort.SliceStable(r.Obs, func(i, j int) bool {
		if r.Obs[i].Rule != r.Obs[j].Rule {
			return r.Obs[i].Rule < r.Obs[j].Rule
		}
		return r.Obs[i].Key < r.Obs[j].Key
	})
	if f := os.Getenv("PCHECK_DUMPOBS"); f != "" { // debugging aid: every obligation, one per line
		if w, err := os.Create(f); err == nil {
			for _, o := range r.Obs {
				fmt.Fprintf(w, "%s|%s|%s\n", o.Rule, o.Key, o.St)
			}
			w.Close()
		}
	}
	counts := map[string]int{}
	perRule := map[string]map[string]int{}
	var viol []*Obligation
	var known []string
	for _, o := range r.Obs {
		counts[o.St]++
		if perRule[o.Rule] == nil {
			perRule[o.Rule] = map[string]int{}
		}
		perRule[o.Rule][o.St]++
		if o.Status == Violated || o.Status == Undecided {
			matched := false
			for _, f := range findings {
				if f.Kind == "finding" && f.Prop == r.Prop && f.Rule == o.Rule && f.Key == o.Key {
					matched = true
					known = append(known, fmt.Sprintf("KNOWN-FINDING: property=%s rule=%s key=%s -- %s", r.Prop, o.Rule, o.Key, f.Text))
				}
			}
			if !matched {
				viol = append(viol, o)
			}
		}
	}
	for _, k := range known {
		fmt.Println(k)
	}
	// samples: a few obligations of each rule, selected by seed
	var samples []interface{}
	byRule := map[string][]*Obligation{}
	var ruleNames []string
	for _, o := range r.Obs {
		if _, ok := byRule[o.Rule]; !ok {
			ruleNames = append(ruleNames, o.Rule)
		}
		byRule[o.Rule] = append(byRule[o.Rule], o)
	}
	for _, rn := range ruleNames {
		l := byRule[rn]
		for k := 0; k < 3 && k < len(l); k++ {
			idx := int((uint64(r.Seed)*2654435761 + uint64(k)*7919) % uint64(len(l)))
			samples = append(samples, l[idx])
		}
	}
	for _, o := range viol {
		samples = append(samples, o)
	}
	floors := map[string]interface{}{}
	for k, v := range r.floors {
		floors[k] = map[string]int{"matched": v[0], "floor": v[1]}
	}
	total := len(r.Obs)
	cov := map[string]interface{}{
		"obligations":  total,
		"discharged":   counts["discharged"],
		"excepted":     counts["excepted"],
		"violated":     counts["violated"],
		"undecided":    counts["undecided"],
		"known":        len(known),
		"per_rule":     perRule,
		"floors":       floors,
		"analysed":     r.Analysed,
		"samples":      samples,
		"explanation":  meta.Explanation,
		"checker_cmd":  meta.CheckerCmd,
		"trusted_base": meta.TrustedBase,
		"notes":        r.Notes,
		"build_config": r.configString(),
		"exhaustive":   true,
		"rule":         "every instance of every rule template in the current source of /repo is one obligation; keys are position independent",
	}
	if meta.Level == "proof" && (counts["discharged"] != total) {
		// a proof-level claim needs obligations == discharged; excepted
		// obligations are counted separately and make the level "other"
		meta.Level = "other"
	}
	ev := map[string]interface{}{
		"property_id": r.Prop,
		"tier":        r.Tier,
		"seed":        r.Seed,
		"level":       meta.Level,
		"coverage":    cov,
		"assumptions": r.Assume,
		"wall_s":      time.Since(started).Seconds(),
		"violations":  len(viol),
	}
	if r.Assume == nil {
		ev["assumptions"] = []string{}
	}
	data, _ := json.MarshalIndent(ev, "", " ")
	if err := os.WriteFile(filepath.Join(evDir, r.Prop+".json"), data, 0o644); err != nil {
		r.Broken = append(r.Broken, "cannot write evidence: "+err.Error())
	}
	fmt.Printf("property=%s tier=%s obligations=%d discharged=%d excepted=%d violated=%d undecided=%d known=%d wall=%.1fs\n",
		r.Prop, r.Tier, total, counts["discharged"], counts["excepted"], counts["violated"], counts["undecided"], len(known), time.Since(started).Seconds())
	var rn []string
	for k := range perRule {
		rn = append(rn, k)
	}
	sort.Strings(rn)
	for _, k := range rn {
		fmt.Printf("  rule %-16s %v\n", k, perRule[k])
	}
	if len(r.Broken) > 0 {
		for _, b := range r.Broken {
			fmt.Printf("CHECK-BROKEN property=%s %s\n", r.Prop, b)
		}
		return 2
	}
	for i, o := range viol {
		rp := filepath.Join(evDir, "replay", fmt.Sprintf("%s-%d.json", r.Prop, i+1))
		d, _ := json.MarshalIndent(map[string]interface{}{"property": r.Prop, "obligation": o}, "", " ")
		os.WriteFile(rp, d, 0o644)
		kind := "VIOLATED"
		if o.Status == Undecided {
			kind = "UNDECIDED"
		}
		fmt.Printf("  %s rule=%s key=%s at %s: %s\n", kind, o.Rule, o.Key, o.Pos, o.Detail)
		for _, s := range o.Path {
			fmt.Printf("      %s\n", s)
		}
		fmt.Printf("VIOLATION property=%s replay=%s\n", r.Prop, rp)
	}
	if len(viol) > 0 {
		return 1
	}
	return 0
}

func (r *Run) configString() string {
	if r.Prog == nil {
		return ""
	}
	return r.Prog.Config
}

// ReadReplay returns the property and rule recorded in a replay file.
func ReadReplay(path string) (prop, rule string, err error) {
	data, err := os.ReadFile(path)
	if err != nil {
		return "", "", err
	}
	var v struct {
		Property   string
		Obligation struct{ Rule string }
	}
	if err := json.Unmarshal(data, &v); err != nil {
		return "", "", err
	}
	return v.Property, v.Obligation.Rule, nil
}
