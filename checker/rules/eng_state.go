package rules

import (
	"fmt"
	"go/types"
	"math/bits"
	"os"
	"sort"
	"strings"

	"golang.org/x/tools/go/ssa"
)

// ---------------------------------------------------------------------------
// Byte sets

type ByteSet [4]uint64

var bsTop = ByteSet{^uint64(0), ^uint64(0), ^uint64(0), ^uint64(0)}

func bsOf(bs ...byte) ByteSet {
	var s ByteSet
	for _, b := range bs {
		s[b>>6] |= 1 << (b & 63)
	}
	return s
}
func bsRange(lo, hi int) ByteSet {
	var s ByteSet
	for c := lo; c <= hi && c < 256; c++ {
		if c >= 0 {
			s[c>>6] |= 1 << (uint(c) & 63)
		}
	}
	return s
}
func (s ByteSet) has(b byte) bool { return s[b>>6]&(1<<(b&63)) != 0 }
func (s ByteSet) and(t ByteSet) ByteSet {
	return ByteSet{s[0] & t[0], s[1] & t[1], s[2] & t[2], s[3] & t[3]}
}
func (s ByteSet) or(t ByteSet) ByteSet {
	return ByteSet{s[0] | t[0], s[1] | t[1], s[2] | t[2], s[3] | t[3]}
}
func (s ByteSet) not() ByteSet { return ByteSet{^s[0], ^s[1], ^s[2], ^s[3]} }
func (s ByteSet) empty() bool  { return s[0]|s[1]|s[2]|s[3] == 0 }
func (s ByteSet) isTop() bool  { return s == bsTop }
func (s ByteSet) count() int {
	return bits.OnesCount64(s[0]) + bits.OnesCount64(s[1]) + bits.OnesCount64(s[2]) + bits.OnesCount64(s[3])
}
func (s ByteSet) subset(t ByteSet) bool { return s.and(t) == s }
func (s ByteSet) single() (byte, bool) {
	if s.count() != 1 {
		return 0, false
	}
	for c := 0; c < 256; c++ {
		if s.has(byte(c)) {
			return byte(c), true
		}
	}
	return 0, false
}
func (s ByteSet) members() []byte {
	var out []byte
	for c := 0; c < 256; c++ {
		if s.has(byte(c)) {
			out = append(out, byte(c))
		}
	}
	return out
}
func (s ByteSet) String() string {
	if s.isTop() {
		return "any"
	}
	n := s.count()
	if n > 128 {
		return "not" + s.not().String()
	}
	var sb strings.Builder
	sb.WriteString("{")
	for i, c := range s.members() {
		if i >= 12 {
			fmt.Fprintf(&sb, "..%d more", n-i)
			break
		}
		if c >= 0x21 && c < 0x7f {
			sb.WriteByte(c)
		} else {
			fmt.Fprintf(&sb, "\\x%02x", c)
		}
	}
	sb.WriteString("}")
	return sb.String()
}

// ---------------------------------------------------------------------------
// Abstract values

const inf = 1 << 30

type vkind uint8

const (
	vTop     vkind = iota
	vInt           // finite set of small ints (enums, bools as 0/1, nil-ness as 0=nil/1=non-nil), or top
	vByte          // a byte read from the input (or any byte-typed value): set + optional coordinate link
	vMark          // value of pos-start at some earlier time (+ constant offset)
	vRuneLen       // length returned by PeekRune: 1 <= n <= max(S,1) at the time of the peek
	vAtomLen       // len(<lexer field>) : symbolic non-negative length
	vSlice         // result of Lexeme()/Shift(): length bounds fixed at creation
	vTuple         // multi-value
	vFunc          // function value (bound method / closure)
	vArr           // pointer to a small local array / slice of it (variadic arguments)
	vCmp           // boolean defined by a comparison (refines its operand when branched on)
	vErrAt         // result of Err()/PeekErr(k): nil-ness linked to the end-of-input position
	vTable         // boolean read from a [256]bool table indexed by a byte value
	vIdx           // a look-ahead index: an int used as Peek/Move argument whose relation to the terminator is tracked (eng_idx.go)
	vNegPos        // -Pos(): minus the selection length at the time it was taken (lower bound for backward look-ahead indices)
	vStrSet        // a string that is one of the constant strings of a package-level table (never reassigned: R-GLOBALS)
	vTabInt        // table[c] & mask for a package-level [256]integer literal indexed by a byte value (character-class bits)
	vLit           // a package-level table literal (lit), one of its rows (address or value), or the address of a field of a row
)

type AbsVal struct {
	k vkind
	// vInt
	ints []int64 // sorted, unique; nil with k==vInt means unknown int (kept as vTop instead)
	// vByte
	set    ByteSet
	linked bool
	coord  int // relative coordinate of the byte (valid while linked)
	// vMark: value interval and distance of the current position from the mark
	mlo, mhi int       // bounds of the mark's value
	dlo, dhi int       // bounds of (L_now - mark value)
	epoch    int       // start epoch at which the mark was taken
	dec      uint8     // number of times a lower bound of this value decreased at a join (widening trigger)
	fresh    bool      // no cursor movement since the value was created (vMark, vRuneLen, vSlice, kOffset)
	snap     *markSnap // vMark: cursor facts at the marked position
	snapOff  int       // vMark: constant added to the mark since the snapshot
	lenOf    ssa.Value // kLenOf: the slice value whose length this is
	// vRuneLen / vSlice
	seq          int // move sequence number at creation
	runeOK       bool
	lenLo, lenHi int
	marksAt      map[ssa.Value]AbsVal // vSlice: every live mark when the slice was taken
	// vAtomLen
	atom string
	emsg string // an error value built by NewError/NewErrorLexer: its message (kept until the value is stored in the error field)
	// vTuple
	elems []AbsVal
	// vFunc
	fn    *ssa.Function
	bound []AbsVal
	// vArr
	arr      *absArr
	alo, ahi int // slice window into arr
	// vCmp
	cmpX  ssa.Value
	cmpOp string // "==", "!=", "<", "<=", ">", ">="
	cmpK  int64
	cmpY  ssa.Value // comparison against another value (byte vs byte); nil when against constant
	// vErrAt
	errOff int // Err() == PeekErr(0)
	// vTable
	table *[256]bool
	tabX  ssa.Value
	neg   bool // logical negation applied (vCmp/vTable/vErrAt interpreted as "!= nil")
	// vIdx: the value lies in [ilo, ihi]; value + safe <= distance to the terminator (safe = -inf: unknown);
	// every byte at coordinates [0, value) is in cover (coverOK); value >= -(selection length) (back).
	// safe/cover/back describe the current position and are dropped by any cursor movement.
	ilo, ihi int
	safe     int
	cover    ByteSet
	coverOK  bool
	back     bool
	// vByte: the look-ahead index value the byte was read at (Peek(n)); cleared by cursor movement
	idx ssa.Value
	// vStrSet
	strs []string
	// vByte: constants the value may hold instead of the linked input byte (`c = 0` on one branch, `c = l.scan()` on the other)
	alt ByteSet
	// vLit: lit is the literal (table or row); field >= 0 selects a field of the row (address form)
	lit   *Lit
	field int
	// vTabInt (tabX is the index value)
	itable *[256]int64
	mask   int64
}

type absArr struct{ elems []AbsVal }

// markSnap records what was known about the cursor at the position of a mark;
// Rewind restores it (the buffer content in front of a mark does not change).
type markSnap struct {
	E        int
	atEOF    bool
	P        int
	bytes    map[int]ByteSet
	dispLo   int
	dispHi   int
	loopDisp map[*ssa.BasicBlock]int
	lex      ByteSet
	lexKnown bool
	marks    map[ssa.Value][2]int // distances of the marks alive at that time
	stale    int
}

var top = AbsVal{}

func intVal(vs ...int64) AbsVal {
	s := append([]int64{}, vs...)
	sort.Slice(s, func(i, j int) bool { return s[i] < s[j] })
	out := s[:0]
	for i, v := range s {
		if i == 0 || v != s[i-1] {
			out = append(out, v)
		}
	}
	return AbsVal{k: vInt, ints: out}
}
func boolVal(b bool) AbsVal {
	if b {
		return intVal(1)
	}
	return intVal(0)
}

func (v AbsVal) constInt() (int64, bool) {
	if v.k == vInt && len(v.ints) == 1 {
		return v.ints[0], true
	}
	return 0, false
}

// byteSetOf gives the set of possible byte values of v.
func (v AbsVal) byteSet() ByteSet {
	switch v.k {
	case vByte:
		return v.set
	case vInt:
		var s ByteSet
		for _, x := range v.ints {
			if x < 0 || x > 255 {
				return bsTop
			}
			s = s.or(bsOf(byte(x)))
		}
		return s
	}
	return bsTop
}

func (v AbsVal) String() string {
	switch v.k {
	case vTop:
		return "?"
	case vInt:
		return fmt.Sprint(v.ints)
	case vByte:
		if v.linked {
			return fmt.Sprintf("byte%s@%d", v.set, v.coord)
		}
		return "byte" + v.set.String()
	case vMark:
		return fmt.Sprintf("mark[%d..%s] dist[%d..%s]", v.mlo, infs(v.mhi), v.dlo, infs(v.dhi))
	case vRuneLen:
		return "runelen"
	case vAtomLen:
		return v.atom
	case vSlice:
		return fmt.Sprintf("slice[len %d..%s]", v.lenLo, infs(v.lenHi))
	case vCmp:
		return "cmp"
	case vErrAt:
		if v.idx != nil {
			return "err@" + v.idx.Name()
		}
		return "err@" + fmt.Sprint(v.errOff)
	case vIdx:
		return fmt.Sprintf("idx[%s..%s safe %s back %v]", infs(v.ilo), infs(v.ihi), infs(v.safe), v.back)
	case vNegPos:
		return "-pos"
	}
	return fmt.Sprintf("kind%d", v.k)
}

func infs(x int) string {
	if x >= inf {
		return "inf"
	}
	if x <= -inf {
		return "-inf"
	}
	return fmt.Sprint(x)
}

func eqAbs(a, b AbsVal) bool {
	if a.k != b.k {
		return false
	}
	switch a.k {
	case vTop:
		return true
	case vInt:
		if len(a.ints) != len(b.ints) {
			return false
		}
		for i := range a.ints {
			if a.ints[i] != b.ints[i] {
				return false
			}
		}
		return true
	case vByte:
		return a.set == b.set && a.linked == b.linked && (!a.linked || a.coord == b.coord) && a.idx == b.idx && a.alt == b.alt
	case vIdx:
		return a.ilo == b.ilo && a.ihi == b.ihi && a.safe == b.safe && a.coverOK == b.coverOK && (!a.coverOK || a.cover == b.cover) && a.back == b.back
	case vNegPos:
		return a.fresh == b.fresh
	case vTabInt:
		return a.itable == b.itable && a.mask == b.mask && a.tabX == b.tabX
	case vLit:
		return a.lit == b.lit && a.field == b.field
	case vStrSet:
		if len(a.strs) != len(b.strs) {
			return false
		}
		for i := range a.strs {
			if a.strs[i] != b.strs[i] {
				return false
			}
		}
		return true
	case vMark:
		return a.mlo == b.mlo && a.mhi == b.mhi && a.dlo == b.dlo && a.dhi == b.dhi && a.epoch == b.epoch && a.fresh == b.fresh && a.snap == b.snap && a.snapOff == b.snapOff
	case vRuneLen:
		return a.fresh == b.fresh && a.runeOK == b.runeOK && a.idx == b.idx
	case vAtomLen:
		return a.atom == b.atom
	case vSlice:
		return a.lenLo == b.lenLo && a.lenHi == b.lenHi && a.fresh == b.fresh
	case kLenOf:
		return a.lenOf == b.lenOf
	case vFunc:
		return a.fn == b.fn
	case vArr:
		return a.arr == b.arr && a.alo == b.alo && a.ahi == b.ahi
	case vCmp:
		return a.cmpX == b.cmpX && a.cmpOp == b.cmpOp && a.cmpK == b.cmpK && a.cmpY == b.cmpY && a.neg == b.neg
	case vErrAt:
		return a.errOff == b.errOff && a.neg == b.neg && a.idx == b.idx
	case vTable:
		return a.table == b.table && a.tabX == b.tabX && a.neg == b.neg
	case kHeapRef:
		return a.atom == b.atom && a.neg == b.neg
	case kFieldSlice:
		return a.atom == b.atom
	case kElemAddr:
		return a.arr == b.arr && a.alo == b.alo
	case kOffset:
		return a.fresh == b.fresh
	case vTuple:
		if len(a.elems) != len(b.elems) {
			return false
		}
		for i := range a.elems {
			if !eqAbs(a.elems[i], b.elems[i]) {
				return false
			}
		}
		return true
	}
	return false
}

// joinAbs is the least upper bound used at control-flow joins.
func joinAbs(a, b AbsVal, wl int) AbsVal {
	widen := wl >= 1
	hardWiden := wl >= 2
	if eqAbs(a, b) {
		return a
	}
	if a.k != b.k {
		// a rune length (1..4 bytes that PeekRune found at the position) joined with a look-ahead index
		if a.k == vRuneLen && b.k == vIdx {
			return joinIdx(runeLenIdx(a), b, widen)
		}
		if a.k == vIdx && b.k == vRuneLen {
			return joinIdx(a, runeLenIdx(b), widen)
		}
		// byte vs small int constant: the link to the input is kept, the constants become alternatives
		if (a.k == vByte && b.k == vInt) || (a.k == vInt && b.k == vByte) {
			out := AbsVal{k: vByte, set: a.byteSet().or(b.byteSet())}
			by, k := a, b
			if a.k == vInt {
				by, k = b, a
			}
			if by.linked && !k.byteSet().isTop() {
				out.linked, out.coord, out.alt = true, by.coord, by.alt.or(k.byteSet())
			}
			return out
		}
		return top
	}
	switch a.k {
	case vInt:
		u := intVal(append(append([]int64{}, a.ints...), b.ints...)...)
		if len(u.ints) > 64 || (widen && len(u.ints) > 48) {
			return top
		}
		return u
	case vByte:
		out := AbsVal{k: vByte, set: a.set.or(b.set)}
		if hardWiden && out.set != a.set {
			out.set = bsTop // a byte set that still grows after many visits: give up on it (finite but slow chains)
		}
		if a.linked && b.linked && a.coord == b.coord {
			out.linked, out.coord, out.alt = true, a.coord, a.alt.or(b.alt)
		}
		if a.idx == b.idx {
			out.idx = a.idx
		}
		return out
	case vIdx:
		return joinIdx(a, b, widen)
	case vNegPos:
		return AbsVal{k: vNegPos, fresh: a.fresh && b.fresh}
	case vStrSet:
		return strSetVal(append(append([]string{}, a.strs...), b.strs...))
	case vMark:
		if a.epoch != b.epoch {
			return top
		}
		out := AbsVal{k: vMark, epoch: a.epoch, mlo: min(a.mlo, b.mlo), mhi: max(a.mhi, b.mhi), dlo: min(a.dlo, b.dlo), dhi: max(a.dhi, b.dhi), fresh: a.fresh && b.fresh}
		if a.snapOff == b.snapOff {
			out.snap, out.snapOff = joinSnap(a.snap, b.snap), a.snapOff
			if eqSnap(out.snap, a.snap) {
				out.snap = a.snap
			}
		}
		out.dec = a.dec
		if b.dec > out.dec {
			out.dec = b.dec
		}
		if out.mlo < a.mlo || out.dlo < a.dlo {
			if out.dec < 255 {
				out.dec++
			}
			if out.dec > 10 {
				// threshold widening: 0, then -inf
				if out.mlo < a.mlo {
					out.mlo = lowerThreshold(out.mlo)
				}
				if out.dlo < a.dlo {
					out.dlo = lowerThreshold(out.dlo)
				}
			}
		}
		_ = hardWiden
		if widen {
			if out.mhi > a.mhi {
				out.mhi = inf
			}
			if out.dhi > a.dhi {
				out.dhi = inf
			}
		}
		return out
	case vRuneLen:
		if a.idx != b.idx {
			return top
		}
		return AbsVal{k: vRuneLen, fresh: a.fresh && b.fresh, runeOK: a.runeOK && b.runeOK, idx: a.idx}
	case kOffset:
		return AbsVal{k: kOffset, fresh: a.fresh && b.fresh}
	case vSlice:
		return AbsVal{k: vSlice, lenLo: min(a.lenLo, b.lenLo), lenHi: max(a.lenHi, b.lenHi), fresh: a.fresh && b.fresh, marksAt: joinMarksAt(a.marksAt, b.marksAt)}
	case vTuple:
		if len(a.elems) == len(b.elems) {
			out := AbsVal{k: vTuple, elems: make([]AbsVal, len(a.elems))}
			for i := range a.elems {
				out.elems[i] = joinAbs(a.elems[i], b.elems[i], wl)
			}
			return out
		}
	}
	return top
}

// lowerThreshold widens a decreasing lower bound to the next of a few
// thresholds that matter to the rules (token lengths 9, 4, 2, 1, 0).
var joinDebug = os.Getenv("PCHECK_JOINDEBUG") != ""

func lowerThreshold(v int) int {
	for _, t := range []int{9, 4, 2, 1, 0} {
		if v >= t {
			return t
		}
	}
	return -inf
}

func joinMarksAt(a, b map[ssa.Value]AbsVal) map[ssa.Value]AbsVal {
	if a == nil || b == nil {
		return nil
	}
	out := map[ssa.Value]AbsVal{}
	for k, av := range a {
		if bv, ok := b[k]; ok {
			j := joinAbs(av, bv, 0)
			if j.k == vMark {
				out[k] = j
			}
		}
	}
	return out
}

func eqSnap(a, b *markSnap) bool {
	if a == b {
		return true
	}
	if a == nil || b == nil {
		return false
	}
	if a.E != b.E || a.atEOF != b.atEOF || a.P != b.P || a.dispLo != b.dispLo || a.dispHi != b.dispHi || a.lex != b.lex || a.lexKnown != b.lexKnown ||
		len(a.bytes) != len(b.bytes) || len(a.loopDisp) != len(b.loopDisp) || len(a.marks) != len(b.marks) || a.stale != b.stale {
		return false
	}
	for k, v := range a.bytes {
		if b.bytes[k] != v {
			return false
		}
	}
	for k, v := range a.loopDisp {
		if w, ok := b.loopDisp[k]; !ok || w != v {
			return false
		}
	}
	for k, v := range a.marks {
		if w, ok := b.marks[k]; !ok || w != v {
			return false
		}
	}
	return true
}

func joinSnap(a, b *markSnap) *markSnap {
	if a == b || a == nil || b == nil {
		if a == b {
			return a
		}
		return nil
	}
	out := &markSnap{E: min(a.E, b.E), atEOF: a.atEOF && b.atEOF && a.E == b.E, P: min(a.P, b.P), bytes: map[int]ByteSet{},
		dispLo: min(a.dispLo, b.dispLo), dispHi: max(a.dispHi, b.dispHi), loopDisp: map[*ssa.BasicBlock]int{},
		lex: a.lex.or(b.lex), lexKnown: a.lexKnown && b.lexKnown, marks: map[ssa.Value][2]int{}, stale: max(a.stale, b.stale)}
	for k, v := range a.bytes {
		if w, ok := b.bytes[k]; ok {
			if u := v.or(w); !u.isTop() {
				out.bytes[k] = u
			}
		}
	}
	for h, d := range a.loopDisp {
		if d2, ok := b.loopDisp[h]; ok {
			out.loopDisp[h] = min(d, d2)
		}
	}
	for v, d := range a.marks {
		if d2, ok := b.marks[v]; ok {
			out.marks[v] = [2]int{min(d[0], d2[0]), max(d[1], d2[1])}
		}
	}
	return out
}

// ---------------------------------------------------------------------------
// Abstract state of one path (or a join of paths in the same partition)

type State struct {
	// cursor, in coordinates relative to the current position
	E          int  // the terminator lies at relative coordinate >= E (E >= 0)
	atEOF      bool // the terminator lies exactly at relative coordinate E
	P          int  // pos >= P (index of the current position in the buffer)
	Lmin       int  // bounds of pos-start
	Lmax       int
	bytes      map[int]ByteSet // known byte sets by relative coordinate (absent = any)
	eqc        map[int]int     // coordinates known to hold equal bytes (symmetric)
	atLen      map[string]bool // facts "E >= atom" valid at the current position
	atomPos    map[string]bool // facts "atom >= 1"
	epoch      int             // number of Shift/Skip/Reset so far
	decL, decD int             // how often Lmin / dispLo decreased at joins (widening trigger)
	moves      int             // number of cursor-changing operations on this path (capped)
	ownBack    bool            // the function being analysed itself moved the cursor backwards on this path (Rewind, Move(-k)); not inherited from callees
	stale      int             // number of in-place rewrites of consumed bytes so far
	wrote      uint8           // kinds of in-place rewrites on this path: wroteFold | wroteSpace | wroteOther
	dispLo     int             // net displacement of pos since the entry of the analysed entry point
	dispHi     int
	lex        ByteSet // union of possible values of all bytes moved over since the last Shift/Skip
	lexKnown   bool    // lex is meaningful (false after moves over unknown amounts backwards etc.)
	lastShift  bool    // the last cursor operation was Shift()
	shifts     int     // number of Shift/Skip executed on this path (capped)
	skips      int
	havoc      bool                    // cursor state was invalidated by an opaque call
	coarse     bool                    // parser-level analysis: only booleans partition the states
	errMsg     string                  // message of the error assigned on this path (for obligation keys)
	errSet     int                     // lexer's own err field on this path: 0 unknown, 1 assigned non-nil, 2 known nil
	loopDisp   map[*ssa.BasicBlock]int // lower bound of net displacement since the loop header was last passed

	vals  map[ssa.Value]*AbsVal
	heap  map[string]AbsVal
	trace []string
	dead  bool
}

const (
	wroteFold  uint8 = 1 << iota // parse.ToLower applied to a slice of the input
	wroteSpace                   // a tab / newline / carriage return of the input replaced by a space
	wroteOther                   // any other store into the input
)

func newState() *State {
	return &State{Lmax: inf, dispLo: 0, dispHi: 0, bytes: map[int]ByteSet{}, atLen: map[string]bool{}, atomPos: map[string]bool{},
		loopDisp: map[*ssa.BasicBlock]int{}, vals: map[ssa.Value]*AbsVal{}, heap: map[string]AbsVal{}, lexKnown: true}
}

func (s *State) clone() *State {
	c := *s
	c.bytes = make(map[int]ByteSet, len(s.bytes))
	for k, v := range s.bytes {
		c.bytes[k] = v
	}
	if len(s.eqc) > 0 {
		c.eqc = make(map[int]int, len(s.eqc))
		for k, v := range s.eqc {
			c.eqc[k] = v
		}
	}
	c.atLen = make(map[string]bool, len(s.atLen))
	for k, v := range s.atLen {
		c.atLen[k] = v
	}
	c.atomPos = make(map[string]bool, len(s.atomPos))
	for k, v := range s.atomPos {
		c.atomPos[k] = v
	}
	c.loopDisp = make(map[*ssa.BasicBlock]int, len(s.loopDisp))
	for k, v := range s.loopDisp {
		c.loopDisp[k] = v
	}
	c.vals = make(map[ssa.Value]*AbsVal, len(s.vals))
	for k, vP := range s.vals {
		v := *vP
		c.setv(k, v)
	}
	c.heap = make(map[string]AbsVal, len(s.heap))
	for k, v := range s.heap {
		c.heap[k] = v
	}
	c.trace = append([]string{}, s.trace...)
	return &c
}

func (s *State) getv(v ssa.Value) (AbsVal, bool) {
	p, ok := s.vals[v]
	if !ok {
		return AbsVal{}, false
	}
	return *p, true
}

func (s *State) setv(v ssa.Value, av AbsVal) {
	c := av
	s.vals[v] = &c
}

func (s *State) note(format string, a ...interface{}) {
	if len(s.trace) < 60 {
		s.trace = append(s.trace, fmt.Sprintf(format, a...))
	}
}

// byteAt returns the known set of the byte at relative coordinate k.
func (s *State) byteAt(k int) ByteSet {
	set, ok := s.bytes[k]
	if !ok {
		set = bsTop
	}
	if s.atEOF && k == s.E {
		set = set.and(bsOf(0))
	}
	return set
}

// refineByte intersects the knowledge about coordinate k and derives the
// terminator bound: a non-zero byte is not the terminator.
func (s *State) refineByte(k int, set ByteSet) {
	cur := s.byteAt(k).and(set)
	if cur.empty() {
		s.dead = true
		return
	}
	if !cur.isTop() {
		s.bytes[k] = cur
	}
	if !cur.has(0) && k >= 0 && k+1 > s.E {
		if s.atEOF {
			s.dead = true // a non-zero byte at or beyond the terminator position
			return
		}
		s.E = k + 1
	}
	for v, avP := range s.vals {
		av := *avP
		if av.k == vByte && av.linked && av.coord == k {
			av.set = av.set.and(cur.or(av.alt))
			s.setv(v, av)
		}
	}
	if o, ok := s.eqc[k]; ok && !s.byteAt(o).subset(cur) {
		s.refineByte(o, cur)
	}
}

// shift moves the coordinate system by n (the position advanced by n).
func (s *State) shiftCoords(n int) {
	if n == 0 {
		return
	}
	nb := make(map[int]ByteSet, len(s.bytes))
	for k, v := range s.bytes {
		if nk := k - n; nk >= -12 && nk <= 12 {
			nb[nk] = v
		}
	}
	s.bytes = nb
	if len(s.eqc) > 0 {
		ne := make(map[int]int, len(s.eqc))
		for k, v := range s.eqc {
			ne[k-n] = v - n
		}
		s.eqc = ne
	}
	for v, avP := range s.vals {
		av := *avP
		if av.k == vByte && av.linked {
			av.coord -= n
			s.setv(v, av)
		}
	}
}

func (s *State) dropByteKnowledge() {
	s.bytes = map[int]ByteSet{}
	s.eqc = nil
	for v, avP := range s.vals {
		av := *avP
		if av.k == vByte && av.linked {
			av.linked = false
			s.setv(v, av)
		}
	}
}

// moveBy advances the position by an exactly known amount n (may be negative).
func (s *State) moveBy(n int) {
	s.unfresh()
	s.lastShift = false
	s.atLen = map[string]bool{}
	if n > 0 && s.lexKnown {
		for k := 0; k < n; k++ {
			s.lex = s.lex.or(s.byteAt(k))
		}
	}
	if n < 0 {
		s.lexKnown = false
	}
	s.shiftCoords(n)
	s.E -= n
	if s.E < 0 {
		s.E = 0 // only reachable after a reported violation
		s.atEOF = false
	}
	s.P += n
	if s.P < 0 {
		s.P = 0
	}
	s.Lmin += n
	if s.Lmax < inf {
		s.Lmax += n
	}
	s.dispLo += n
	if s.dispHi < inf {
		s.dispHi += n
	}
	for h := range s.loopDisp {
		s.loopDisp[h] += n
	}
	for v, avP := range s.vals {
		av := *avP
		if av.k == vMark {
			av.dlo += n
			if av.dhi < inf {
				av.dhi += n
			}
			s.setv(v, av)
		}
	}
}

// moveFuzzy advances by an unknown amount in [lo, hi] (hi may be inf), lo >= 0.
func (s *State) moveFuzzy(lo, hi int) {
	s.unfresh()
	s.lastShift = false
	s.atLen = map[string]bool{}
	s.lex = bsTop
	s.dropByteKnowledge()
	if hi >= inf || s.E-hi < 0 {
		s.E = 0
	} else {
		s.E -= hi
	}
	s.atEOF = false
	s.P += lo
	s.Lmin += lo
	if s.Lmax < inf && hi < inf {
		s.Lmax += hi
	} else {
		s.Lmax = inf
	}
	s.dispLo += lo
	if s.dispHi < inf && hi < inf {
		s.dispHi += hi
	} else {
		s.dispHi = inf
	}
	for h := range s.loopDisp {
		s.loopDisp[h] += lo
	}
	for v, avP := range s.vals {
		av := *avP
		if av.k == vMark {
			av.dlo += lo
			if av.dhi < inf && hi < inf {
				av.dhi += hi
			} else {
				av.dhi = inf
			}
			s.setv(v, av)
		}
	}
}

// unfresh marks every position-dependent value as no longer describing the current position.
func (s *State) unfresh() {
	if s.moves < 1000 {
		s.moves++
	}
	for v, avP := range s.vals {
		switch {
		case avP.fresh:
			av := *avP
			av.fresh = false
			s.vals[v] = &av
		case avP.k == vIdx && (avP.safe > -inf || avP.coverOK || avP.back):
			av := *avP
			av.safe, av.coverOK, av.back = -inf, false, false
			s.vals[v] = &av
		case avP.k == vByte && avP.idx != nil:
			av := *avP
			av.idx = nil
			s.vals[v] = &av
		case (avP.k == vErrAt || avP.k == vRuneLen) && avP.idx != nil:
			delete(s.vals, v)
		}
	}
}

// snapshot records the cursor facts of the current position.
func (s *State) snapshot() *markSnap {
	sn := &markSnap{E: s.E, atEOF: s.atEOF, P: s.P, bytes: make(map[int]ByteSet, len(s.bytes)), dispLo: s.dispLo, dispHi: s.dispHi,
		loopDisp: make(map[*ssa.BasicBlock]int, len(s.loopDisp)), lex: s.lex, lexKnown: s.lexKnown, marks: map[ssa.Value][2]int{}, stale: s.stale}
	for k, v := range s.bytes {
		sn.bytes[k] = v
	}
	for h, d := range s.loopDisp {
		sn.loopDisp[h] = d
	}
	for v, avP := range s.vals {
		if avP.k == vMark && avP.epoch == s.epoch {
			sn.marks[v] = [2]int{avP.dlo, avP.dhi}
		}
	}
	return sn
}

// restore re-establishes the facts of a snapshot after rewinding to its position.
func (s *State) restore(sn *markSnap) {
	s.unfresh()
	s.lastShift = false
	s.atLen = map[string]bool{}
	s.E, s.atEOF = sn.E, sn.atEOF
	s.P = sn.P
	s.dropByteKnowledge()
	for k, v := range sn.bytes {
		if sn.stale == s.stale || k >= 0 {
			s.bytes[k] = v
		} else if !v.has(0) {
			s.bytes[k] = bsOf(0).not()
		}
	}
	s.dispLo, s.dispHi = sn.dispLo, sn.dispHi
	for h := range s.loopDisp {
		if d, ok := sn.loopDisp[h]; ok {
			s.loopDisp[h] = d
		} else {
			s.loopDisp[h] = -inf // header entered after the mark was taken
		}
	}
	s.lex, s.lexKnown = sn.lex, sn.lexKnown
}

// collapse implements Shift/Skip: start = pos.
func (s *State) collapse() {
	s.unfresh()
	s.epoch++
	s.Lmin, s.Lmax = 0, 0
	s.lex = ByteSet{}
	s.lexKnown = true
	for v, avP := range s.vals {
		av := *avP
		if av.k == vMark {
			delete(s.vals, v)
		}
	}
}

// havocCursor forgets everything about the cursor (opaque call that uses it).
func (s *State) havocCursor() {
	s.havoc = true
	s.E, s.atEOF, s.P = 0, false, 0
	s.Lmin, s.Lmax = 0, inf
	s.dropByteKnowledge()
	s.atLen = map[string]bool{}
	s.epoch++
	s.unfresh()
	s.lexKnown = false
	s.dispLo, s.dispHi = -inf, inf
	for v, avP := range s.vals {
		av := *avP
		if av.k == vMark || av.k == vRuneLen || av.k == vSlice {
			delete(s.vals, v)
		}
	}
}

func coarseKeys(s *State) bool { return s.coarse }

func isBoolValue(v ssa.Value) bool {
	b, ok := v.Type().Underlying().(*types.Basic)
	return ok && b.Kind() == types.Bool
}

// partition key: abstract constants of phi / call-result / parameter values of
// bool or enum type, and of the heap fields. States with equal keys are joined.
func (s *State) key(interesting []ssa.Value) string {
	var sb strings.Builder
	for _, v := range interesting {
		av, ok := s.getv(v)
		if !ok {
			continue
		}
		switch av.k {
		case vInt:
			if len(av.ints) <= 2 && (!coarseKeys(s) || isBoolValue(v)) {
				fmt.Fprintf(&sb, "%s=%v;", v.Name(), av.ints)
			}
		case vCmp, vErrAt, vTable:
			fmt.Fprintf(&sb, "%s~;", v.Name())
		}
	}
	var hk []string
	for k, av := range s.heap {
		if av.k == vInt && len(av.ints) <= 2 {
			if coarseKeys(s) && len(av.ints) == 1 && (av.ints[0] < 0 || av.ints[0] > 1) {
				continue // enum-valued fields do not partition in coarse mode
			}
			hk = append(hk, fmt.Sprintf("%s=%v", k, av.ints))
		}
	}
	sort.Strings(hk)
	sb.WriteString(strings.Join(hk, ";"))
	if s.atEOF {
		sb.WriteString("|eof")
	}
	if s.havoc {
		sb.WriteString("|havoc")
	}
	fmt.Fprintf(&sb, "|e%d|S%d|l%d", s.errSet, min(s.E, 4), max(min(s.Lmin, 2), -1))
	if s.errMsg != "" {
		// paths that recorded different errors stay apart: R-ERRSTUCK's obligations (and the known findings) are per message
		sb.WriteString("|m" + s.errMsg)
	}
	if s.Lmax == 0 {
		sb.WriteString("|L0")
	}
	return sb.String()
}

// subsumes reports whether every fact of s also holds in o (joining o into s changes nothing).
func (s *State) subsumes(o *State) bool {
	if o.E < s.E || (s.atEOF && (!o.atEOF || o.E != s.E)) || o.P < s.P || o.Lmin < s.Lmin || o.Lmax > s.Lmax ||
		o.dispLo < s.dispLo || o.dispHi > s.dispHi || s.epoch != o.epoch || (s.lexKnown && !o.lexKnown) || (s.lastShift && !o.lastShift) ||
		o.shifts < s.shifts || o.skips > s.skips || s.lex.or(o.lex) != s.lex || o.wrote&^s.wrote != 0 {
		return false
	}
	for k, v := range s.bytes {
		ov, ok := o.bytes[k]
		if !ok || !ov.subset(v) {
			return false
		}
	}
	for k, v := range s.eqc {
		if ov, ok := o.eqc[k]; !ok || ov != v {
			return false
		}
	}
	for k := range s.atLen {
		if !o.atLen[k] {
			return false
		}
	}
	for k := range s.atomPos {
		if !o.atomPos[k] {
			return false
		}
	}
	for h, d := range s.loopDisp {
		if od, ok := o.loopDisp[h]; ok && od < d {
			return false
		}
	}
	for v, avP := range s.vals {
		ovP, ok := o.vals[v]
		if !ok {
			return false
		}
		if avP != ovP && !eqAbs(*avP, *ovP) {
			return false
		}
	}
	for k, av := range s.heap {
		ov, ok := o.heap[k]
		if !ok || !eqAbs(av, ov) {
			return false
		}
	}
	return true
}

// exitKey is the (coarser) partition used when the exit states of an inlined callee are merged.
func (s *State) exitKey() string {
	var hk []string
	for k, av := range s.heap {
		if av.k == vInt && len(av.ints) <= 2 {
			hk = append(hk, fmt.Sprintf("%s=%v", k, av.ints))
		}
	}
	sort.Strings(hk)
	return fmt.Sprintf("%s|eof%v|e%d|h%v|m%d|%s", strings.Join(hk, ";"), s.atEOF, s.errSet, s.havoc, min(max(s.dispLo, 0), 1), s.errMsg)
}

// joinInto merges o into s (same partition). Returns true if s changed.
func (s *State) joinInto(o *State, wl int) bool {
	widen := wl >= 1
	hardWiden := wl >= 2
	changed := false
	sE0, sL0 := s.E, s.Lmin // before the join: each side's look-ahead constants are judged against its own facts
	setInt := func(dst *int, v int) {
		if *dst != v {
			*dst = v
			changed = true
		}
	}
	if o.E < s.E {
		setInt(&s.E, o.E)
	}
	if s.atEOF && (!o.atEOF || o.E != s.E) {
		s.atEOF = false
		changed = true
	}
	if o.P < s.P {
		setInt(&s.P, o.P)
	}
	if o.Lmin < s.Lmin {
		nv := o.Lmin
		s.decL++
		if s.decL > 10 {
			nv = lowerThreshold(o.Lmin)
		}
		setInt(&s.Lmin, nv)
	}
	if o.Lmax > s.Lmax {
		nv := o.Lmax
		if widen {
			nv = inf
		}
		setInt(&s.Lmax, nv)
	}
	if o.dispLo < s.dispLo {
		nv := o.dispLo
		s.decD++
		if s.decD > 10 {
			nv = lowerThreshold(o.dispLo)
		}
		setInt(&s.dispLo, nv)
	}
	if o.dispHi > s.dispHi {
		nv := o.dispHi
		if widen {
			nv = inf
		}
		setInt(&s.dispHi, nv)
	}
	for k, v := range s.bytes {
		ov, ok := o.bytes[k]
		if !ok {
			delete(s.bytes, k)
			changed = true
			continue
		}
		u := v.or(ov)
		if u != v {
			if hardWiden {
				u = bsTop
			}
			if u.isTop() {
				delete(s.bytes, k)
			} else {
				s.bytes[k] = u
			}
			changed = true
		}
	}
	for k, v := range s.eqc {
		if ov, ok := o.eqc[k]; !ok || ov != v {
			delete(s.eqc, k)
			changed = true
		}
	}
	for k := range s.atLen {
		if !o.atLen[k] {
			delete(s.atLen, k)
			changed = true
		}
	}
	for k := range s.atomPos {
		if !o.atomPos[k] {
			delete(s.atomPos, k)
			changed = true
		}
	}
	if s.epoch != o.epoch {
		// different number of collapses: marks of the other epoch are dropped
		for v, avP := range s.vals {
			av := *avP
			if av.k == vMark {
				delete(s.vals, v)
				changed = true
			}
		}
		if o.epoch > s.epoch {
			s.epoch = o.epoch
		}
	}
	if o.stale > s.stale {
		s.stale = o.stale
	}
	if o.wrote&^s.wrote != 0 {
		s.wrote |= o.wrote
		changed = true
	}
	if o.ownBack && !s.ownBack {
		s.ownBack = true
	}
	if o.moves > s.moves {
		s.moves = o.moves
	}
	if nl := s.lex.or(o.lex); nl != s.lex {
		s.lex = nl
		changed = true
	}
	if s.lexKnown && !o.lexKnown {
		s.lexKnown = false
		changed = true
	}
	if s.lastShift && !o.lastShift {
		s.lastShift = false
		changed = true
	}
	if o.shifts < s.shifts {
		setInt(&s.shifts, o.shifts)
	}
	if o.skips > s.skips {
		setInt(&s.skips, o.skips)
	}
	for h, d := range s.loopDisp {
		od, ok := o.loopDisp[h]
		if !ok {
			continue
		}
		if od < d {
			if hardWiden && od < 0 {
				od = -inf
			}
			s.loopDisp[h] = od
			changed = true
		}
	}
	for h, d := range o.loopDisp {
		if _, ok := s.loopDisp[h]; !ok {
			s.loopDisp[h] = d
		}
	}
	for v, avP := range s.vals {
		av := *avP
		ov, ok := o.getv(v)
		if !ok {
			delete(s.vals, v)
			changed = true
			continue
		}
		switch {
		case av.k == vIdx && ov.k == vInt:
			ov = o.idxOfInts(ov)
		case av.k == vInt && ov.k == vIdx:
			av = s.idxOfIntsAt(av, sE0, sL0)
		case av.k == vRuneLen && ov.k == vInt && isPlainInt(v.Type()):
			av, ov = runeLenIdx(av), o.idxOfInts(ov)
		case av.k == vInt && ov.k == vRuneLen && isPlainInt(v.Type()):
			av, ov = s.idxOfIntsAt(av, sE0, sL0), runeLenIdx(ov)
		case av.k == vInt && ov.k == vInt && isPlainInt(v.Type()) && len(av.ints) == 1 && len(ov.ints) == 1 && av.ints[0] != ov.ints[0] &&
			av.ints[0] >= 0 && ov.ints[0] >= 0 && int(av.ints[0]) <= sE0 && int(ov.ints[0]) <= o.E:
			// two different look-ahead constants, each in front of its own terminator bound: keep that relation
			av, ov = s.idxOfIntsAt(av, sE0, sL0), o.idxOfInts(ov)
		}
		j := joinAbs(av, ov, wl)
		if !eqAbs(j, *avP) {
			if joinDebug {
				fmt.Fprintf(os.Stderr, "JOIN change val %s: %s + %s -> %s | dec %d %d %d off %d %d %d snap %p %p %p fresh %v %v %v\n", v.Name(), av, ov, j, av.dec, ov.dec, j.dec, av.snapOff, ov.snapOff, j.snapOff, av.snap, ov.snap, j.snap, av.fresh, ov.fresh, j.fresh)
			}
			if j.k == vTop {
				delete(s.vals, v)
			} else {
				s.setv(v, j)
			}
			changed = true
		}
	}
	for k, av := range s.heap {
		ov, ok := o.heap[k]
		if !ok {
			delete(s.heap, k)
			changed = true
			continue
		}
		j := joinAbs(av, ov, wl)
		if !eqAbs(j, av) {
			if j.k == vTop {
				delete(s.heap, k)
			} else {
				s.heap[k] = j
			}
			changed = true
		}
	}
	return changed
}

func min(a, b int) int {
	if a < b {
		return a
	}
	return b
}
func max(a, b int) int {
	if a > b {
		return a
	}
	return b
}
