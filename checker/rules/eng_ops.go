package rules

import (
	"fmt"
	"go/constant"
	"go/token"
	"go/types"
	"os"
	"sort"
	"strconv"
	"strings"

	"golang.org/x/tools/go/ssa"

	"verif/checker/core"
)

// ---------------------------------------------------------------------------
// refinement on a branch

func setForOp(op string, k int64, truth bool) ByteSet {
	var s ByteSet
	for c := 0; c < 256; c++ {
		var r bool
		switch op {
		case "==":
			r = int64(c) == k
		case "!=":
			r = int64(c) != k
		case "<":
			r = int64(c) < k
		case "<=":
			r = int64(c) <= k
		case ">":
			r = int64(c) > k
		case ">=":
			r = int64(c) >= k
		}
		if r == truth {
			s = s.or(bsOf(byte(c)))
		}
	}
	return s
}

func (e *Engine) refineByteVal(st *State, v ssa.Value, set ByteSet) {
	av, ok := st.getv(v)
	if !ok {
		return
	}
	switch av.k {
	case vByte:
		av.set = av.set.and(set)
		if av.set.empty() {
			st.dead = true
			return
		}
		st.setv(v, av)
		if av.linked && av.alt.and(av.set).empty() {
			// (with alternatives left, the value need not be the input byte)
			st.refineByte(av.coord, av.set)
		}
		if av.idx != nil && !av.set.has(0) {
			// a non-zero byte at look-ahead index n: the terminator lies beyond n
			if iv, ok := st.getv(av.idx); ok && iv.k == vIdx && iv.ilo >= 0 && iv.safe < 1 {
				iv.safe = 1
				st.setv(av.idx, iv)
				e.propagateSafe(st, av.idx, 1, 0)
			}
		}
	case vInt:
		var keep []int64
		for _, x := range av.ints {
			if x >= 0 && x <= 255 && set.has(byte(x)) {
				keep = append(keep, x)
			}
		}
		if len(keep) == 0 {
			st.dead = true
			return
		}
		st.setv(v, intVal(keep...))
	}
}

// propagateSafe: index value v = x + k (k a constant) was shown to have `safe` more bytes of input in front of it:
// then x has safe + k of them (z.Peek(i+n) read a non-zero byte: the count n itself is an index with n + (i+1) <= E).
func (e *Engine) propagateSafe(st *State, v ssa.Value, safe int, depth int) {
	bo, ok := v.(*ssa.BinOp)
	if !ok || bo.Op != token.ADD || depth > 3 {
		return
	}
	for _, pr := range [][2]ssa.Value{{bo.X, bo.Y}, {bo.Y, bo.X}} {
		k, isK := e.eval(st, pr[1]).constInt()
		xv, has := st.getv(pr[0])
		if !isK || !has || xv.k != vIdx || k < 0 || k > 64 {
			continue
		}
		if xv.safe < safe+int(k) {
			xv.safe = safe + int(k)
			st.setv(pr[0], xv)
			e.propagateSafe(st, pr[0], xv.safe, depth+1)
		}
	}
}

func (e *Engine) refine(st *State, cv AbsVal, cond ssa.Value, truth bool) {
	if cv.neg {
		truth = !truth
	}
	switch cv.k {
	case vInt:
		// undecided small set: record the decision for the SSA value
		st.setv(cond, boolVal(truth))
	case vTop:
		st.setv(cond, boolVal(truth))
	case kHeapRef:
		st.heap[cv.atom] = boolVal(truth)
		st.setv(cond, boolVal(truth))
		if cv.atom == e.cfg.ErrPath {
			st.errSet = 0
		}
	case vTable:
		var set ByteSet
		for c := 0; c < 256; c++ {
			if cv.table[c] == truth {
				set = set.or(bsOf(byte(c)))
			}
		}
		e.refineByteVal(st, cv.tabX, set)
	case vErrAt:
		nonNil := truth
		off := cv.errOff
		if cv.idx != nil {
			if iv, ok := st.getv(cv.idx); ok && iv.k == vIdx && !nonNil && iv.ilo >= 0 && iv.safe < 1 {
				iv.safe = 1
				st.setv(cv.idx, iv)
			}
			return
		}
		if nonNil {
			// the terminator is at relative coordinate <= off
			switch {
			case st.E > off:
				st.dead = true
			case st.E == off:
				st.atEOF = true
				st.refineByte(off, bsOf(0))
			}
		} else {
			if st.atEOF && st.E <= off {
				st.dead = true
				return
			}
			if off+1 > st.E {
				st.E = off + 1
			}
		}
	case vCmp:
		xv, ok := st.getv(cv.cmpX)
		if !ok {
			xv = e.eval(st, cv.cmpX)
		}
		if cv.cmpY != nil && xv.k == vIdx {
			yv := e.eval(st, cv.cmpY)
			op := cv.cmpOp
			if !truth {
				op = map[string]string{"==": "!=", "!=": "==", "<": ">=", "<=": ">", ">": "<=", ">=": "<"}[op]
			}
			switch yv.k {
			case vNegPos:
				// i >= -Pos(): the index does not reach behind the start of the selection
				if yv.fresh && (op == ">=" || op == ">" || op == "==") {
					xv.back = true
					st.setv(cv.cmpX, xv)
				}
			case vInt:
				if len(yv.ints) > 0 {
					lo, hi := int(yv.ints[0]), int(yv.ints[len(yv.ints)-1])
					switch op {
					case "==":
						xv.ilo, xv.ihi = max(xv.ilo, lo), min(xv.ihi, hi)
					case "<":
						xv.ihi = min(xv.ihi, hi-1)
					case "<=":
						xv.ihi = min(xv.ihi, hi)
					case ">":
						xv.ilo = max(xv.ilo, lo+1)
					case ">=":
						xv.ilo = max(xv.ilo, lo)
					}
					if xv.ilo > xv.ihi {
						st.dead = true
						return
					}
					st.setv(cv.cmpX, xv)
				}
			}
			return
		}
		if cv.cmpY != nil {
			yv := e.eval(st, cv.cmpY)
			if os.Getenv("PCHECK_STRDEBUG") != "" {
				fmt.Fprintf(os.Stderr, "CMPY %s %s x=%s y=%s truth=%v\n", cv.cmpX.Name(), cv.cmpY.Name(), xv, yv, truth)
			}
			eq := (cv.cmpOp == "==") == truth
			if eq {
				common := xv.byteSet().and(yv.byteSet())
				e.refineByteVal(st, cv.cmpX, common)
				e.refineByteVal(st, cv.cmpY, common)
				if xv.k == vByte && yv.k == vByte && xv.linked && yv.linked && xv.coord != yv.coord {
					if st.eqc == nil {
						st.eqc = map[int]int{}
					}
					st.eqc[xv.coord], st.eqc[yv.coord] = yv.coord, xv.coord
				}
			} else {
				if b, ok := yv.byteSet().single(); ok {
					e.refineByteVal(st, cv.cmpX, bsOf(b).not())
				}
				if b, ok := xv.byteSet().single(); ok {
					e.refineByteVal(st, cv.cmpY, bsOf(b).not())
				}
			}
			return
		}
		switch xv.k {
		case vByte:
			e.refineByteVal(st, cv.cmpX, setForOp(cv.cmpOp, cv.cmpK, truth))
		case vInt:
			var keep []int64
			for _, x := range xv.ints {
				if cmpStr(x, cv.cmpOp, cv.cmpK) == truth {
					keep = append(keep, x)
				}
			}
			if len(keep) == 0 {
				st.dead = true
				return
			}
			nv := intVal(keep...)
			if xv.atom != "" {
				// the value was loaded from a field that still holds the same set: refine the field as well
				if hv, ok := st.heap[xv.atom]; ok && hv.k == vInt && len(hv.ints) == len(xv.ints) {
					st.heap[xv.atom] = nv
				}
				nv.atom = xv.atom
			}
			st.setv(cv.cmpX, nv)
		case vMark:
			// only a mark taken at the current position with no move since refines L
			if xv.dlo == 0 && xv.dhi == 0 && xv.epoch == st.epoch && xv.fresh {
				lo, hi := refineInterval(st.Lmin, st.Lmax, cv.cmpOp, int(cv.cmpK), truth)
				if lo > hi {
					st.dead = true
					return
				}
				st.Lmin, st.Lmax = lo, hi
				xv.mlo, xv.mhi = lo, hi
				st.setv(cv.cmpX, xv)
			} else {
				// an older mark (or mark arithmetic): the comparison bounds its value only
				lo, hi := refineInterval(xv.mlo, xv.mhi, cv.cmpOp, int(cv.cmpK), truth)
				if lo > hi {
					st.dead = true
					return
				}
				xv.mlo, xv.mhi = lo, hi
				st.setv(cv.cmpX, xv)
			}
		case vIdx:
			lo, hi := refineInterval(xv.ilo, xv.ihi, cv.cmpOp, int(cv.cmpK), truth)
			if lo > hi {
				st.dead = true
				return
			}
			xv.ilo, xv.ihi = lo, hi
			if lo >= 0 {
				xv.back = true
			}
			st.setv(cv.cmpX, xv)
		case kLenOf:
			if sv, ok := st.getv(xv.lenOf); ok && sv.k == vSlice {
				lo, hi := refineInterval(sv.lenLo, sv.lenHi, cv.cmpOp, int(cv.cmpK), truth)
				if lo > hi {
					st.dead = true
					return
				}
				sv.lenLo, sv.lenHi = lo, hi
				st.setv(xv.lenOf, sv)
			}
		case kOffset:
			if xv.fresh {
				lo, _ := refineInterval(st.P, inf, cv.cmpOp, int(cv.cmpK), truth)
				if lo > st.P {
					st.P = lo
				}
			}
		case vAtomLen:
			// the length of a lexer field does not change during a call: remember the decision
			clo, chi := atomBounds(st, xv.atom)
			nlo, nhi := refineInterval(clo, chi, cv.cmpOp, int(cv.cmpK), truth)
			if nlo > nhi {
				st.dead = true
				return
			}
			if nlo >= 1 {
				st.heap["pos:"+xv.atom] = intVal(1)
			} else if nhi < 1 {
				st.heap["pos:"+xv.atom] = intVal(0)
			}
			if nlo > clo {
				st.heap["lo:"+xv.atom] = intVal(int64(nlo))
			}
			if nhi < chi {
				st.heap["hi:"+xv.atom] = intVal(int64(nhi))
			}
		case kHeapRef:
			if (cv.cmpOp == "==") == truth {
				st.heap[xv.atom] = intVal(cv.cmpK)
			} else if cv.cmpK == 0 && (cv.cmpOp == "==" || cv.cmpOp == "!=") && isNilable(cv.cmpX.Type()) {
				st.heap[xv.atom] = intVal(1) // known non-nil
			}
			if xv.atom == e.cfg.ErrPath {
				if c, ok := st.heap[xv.atom].constInt(); ok && c == 1 {
					st.errSet = 1 // an error is recorded (observed by the code itself)
				} else if ok {
					st.errSet = 2
				}
			}
		}
	}
}

func isNilable(t types.Type) bool {
	switch t.Underlying().(type) {
	case *types.Interface, *types.Pointer, *types.Slice, *types.Map, *types.Signature, *types.Chan:
		return true
	}
	return false
}

func cmpStr(a int64, op string, b int64) bool {
	switch op {
	case "==":
		return a == b
	case "!=":
		return a != b
	case "<":
		return a < b
	case "<=":
		return a <= b
	case ">":
		return a > b
	case ">=":
		return a >= b
	}
	return false
}

// refineInterval intersects [lo,hi] with {v | (v op k) == truth}.
func refineInterval(lo, hi int, op string, k int, truth bool) (int, int) {
	if !truth {
		op = map[string]string{"==": "!=", "!=": "==", "<": ">=", "<=": ">", ">": "<=", ">=": "<"}[op]
	}
	switch op {
	case "==":
		return max(lo, k), min(hi, k)
	case "!=":
		if lo == k {
			lo++
		}
		if hi == k {
			hi--
		}
	case "<":
		hi = min(hi, k-1)
	case "<=":
		hi = min(hi, k)
	case ">":
		lo = max(lo, k+1)
	case ">=":
		lo = max(lo, k)
	}
	return lo, hi
}

// ---------------------------------------------------------------------------
// map lookups in package-level tables

func (e *Engine) byteMap(g *ssa.Global) map[int64]int64 {
	if m, ok := e.bmaps[g]; ok {
		return m
	}
	var out map[int64]int64
	if pk := e.prog.ByPath[g.Pkg.Pkg.Path()]; pk != nil && core.InModule(g.Pkg.Pkg) {
		if l, err := evalGlobal(pk, g.Name()); err == nil && len(l.Keys) > 0 {
			out = map[int64]int64{}
			for i, k := range l.Keys {
				kv, ok1 := k.Int()
				vv, ok2 := l.Vals[i].Int()
				if !ok1 || !ok2 {
					out = nil
					break
				}
				out[kv] = vv
			}
		}
	}
	e.bmaps[g] = out
	return out
}

func (e *Engine) stringMapVals(g *ssa.Global) []int64 {
	if m, ok := e.smaps[g]; ok {
		return m
	}
	var out []int64
	if pk := e.prog.ByPath[g.Pkg.Pkg.Path()]; pk != nil && core.InModule(g.Pkg.Pkg) {
		if l, err := evalGlobal(pk, g.Name()); err == nil {
			for _, v := range l.Vals {
				if vv, ok := v.Int(); ok {
					out = append(out, vv)
				}
			}
		}
	}
	e.smaps[g] = out
	return out
}

func (e *Engine) lookup(st *State, in *ssa.Lookup) []*State {
	set := func(s *State, v AbsVal, present AbsVal) {
		if in.CommaOk {
			s.setv(in, AbsVal{k: vTuple, elems: []AbsVal{v, present}})
		} else if v.k == vTop {
			delete(s.vals, in)
		} else {
			s.setv(in, v)
		}
	}
	if sv := e.eval(st, in.X); sv.k == vStrSet && !in.CommaOk {
		// a byte of a constant string: the set of the bytes the strings can have at that index
		set(st, strSetByte(sv, e.eval(st, in.Index)), top)
		return []*State{st}
	}
	u, ok := in.X.(*ssa.UnOp)
	if !ok {
		set(st, top, top)
		return []*State{st}
	}
	g, ok := u.X.(*ssa.Global)
	if !ok {
		set(st, top, top)
		return []*State{st}
	}
	if outs := e.structKeyLookup(st, in, g, set); outs != nil {
		return outs
	}
	if m := e.byteMap(g); m != nil {
		idx := e.eval(st, in.Index)
		bs := idx.byteSet()
		if bs.count() <= 24 {
			// split per key so that the result stays correlated with the byte
			var outs []*State
			for _, b := range bs.members() {
				s := st.clone()
				e.refineByteVal(s, in.Index, bsOf(b))
				if s.dead {
					continue
				}
				if v, has := m[int64(b)]; has {
					set(s, intVal(v), boolVal(true))
				} else {
					set(s, intVal(0), boolVal(false))
					s.note("%s: %s[%q] has no entry: zero value", e.prog.Position(in.Pos()), g.Name(), rune(b))
				}
				outs = append(outs, s)
			}
			return outs
		}
		if in.CommaOk {
			// present: one of the table's values; absent: the zero value
			var vs []int64
			for _, v := range m {
				vs = append(vs, v)
			}
			a, b := st.clone(), st
			set(a, intVal(vs...), boolVal(true))
			set(b, intVal(0), boolVal(false))
			return []*State{a, b}
		}
		vals := []int64{0}
		for _, v := range m {
			vals = append(vals, v)
		}
		set(st, intVal(vals...), top)
		return []*State{st}
	}
	if vs := e.stringMapVals(g); len(vs) > 0 {
		if in.CommaOk {
			// present: any value of the table; absent: zero
			a, b := st.clone(), st
			set(a, AbsVal{k: vInt, ints: intVal(vs...).ints}, boolVal(true))
			set(b, intVal(0), boolVal(false))
			return []*State{a, b}
		}
		set(st, intVal(append([]int64{0}, vs...)...), top)
		return []*State{st}
	}
	set(st, top, top)
	return []*State{st}
}

// ---------------------------------------------------------------------------
// slices of the current lexeme

func (e *Engine) slice(fi *fnInfo, st *State, x *ssa.Slice) AbsVal {
	base := e.eval(st, x.X)
	switch base.k {
	case vArr:
		lo, hi := base.alo, base.ahi
		if x.Low != nil {
			if c, ok := e.eval(st, x.Low).constInt(); ok {
				lo = base.alo + int(c)
			} else {
				return top
			}
		}
		if x.High != nil {
			if c, ok := e.eval(st, x.High).constInt(); ok {
				hi = base.alo + int(c)
			} else {
				return top
			}
		}
		return AbsVal{k: vArr, arr: base.arr, alo: lo, ahi: hi}
	case vSlice:
		label := fi.labels[x]
		// bounds as (lo,hi) intervals relative to the slice's own length interval
		type bnd struct {
			lo, hi int // value bounds
			slack  int // proven lower bound of len - value (when derived from a mark)
			hasSl  bool
		}
		get := func(v ssa.Value, def int) (bnd, bool) {
			if v == nil {
				return bnd{lo: def, hi: def}, true
			}
			av := e.eval(st, v)
			if c, ok := av.constInt(); ok {
				return bnd{lo: int(c), hi: int(c)}, true
			}
			if av.k == vMark {
				b := bnd{lo: av.mlo, hi: av.mhi}
				if base.fresh && av.epoch == st.epoch {
					b.slack, b.hasSl = av.dlo, true // len == L_now, so len - mark = distance
				} else if m, ok := base.marksAt[v]; ok {
					b.slack, b.hasSl = m.dlo, true
				}
				return b, true
			}
			if m, ok := base.marksAt[v]; ok && av.k == vTop {
				return bnd{lo: m.mlo, hi: m.mhi, slack: m.dlo, hasSl: true}, true
			}
			return bnd{}, false
		}
		low, ok1 := get(x.Low, 0)
		var high bnd
		ok2 := true
		if x.High != nil {
			high, ok2 = get(x.High, 0)
		}
		if !ok1 || !ok2 {
			if fromHeap(x.X) {
				// a stored token (l.text) re-sliced with bounds computed from len(): not a cursor operation (see DESIGN: E7)
				return AbsVal{k: vSlice, lenLo: 0, lenHi: base.lenHi}
			}
			if boundsProven(e.prog, x.Parent(), x) {
				// bounds computed by index arithmetic on the slice itself: discharged by the bounds engine
				e.check(st, "R-CURSOR", label, x.Pos(), true, "")
				return AbsVal{k: vSlice, lenLo: 0, lenHi: base.lenHi}
			}
			e.undecided(st, "R-CURSOR", label, x.Pos(), "slice bound of a lexeme is neither a constant nor a cursor mark")
			return AbsVal{k: vSlice, lenLo: 0, lenHi: base.lenHi}
		}
		// low <= len
		okLow := low.lo >= 0 && (low.hi <= base.lenLo || (low.hasSl && low.slack >= 0))
		okHigh := true
		resLo, resHi := max(0, base.lenLo-low.hi), base.lenHi
		if base.lenHi < inf {
			resHi = base.lenHi - low.lo
		}
		if x.High != nil {
			okHigh = high.lo >= 0 && (high.hi <= base.lenLo || (high.hasSl && high.slack >= 0))
			// low <= high
			ordered := low.hi <= high.lo
			if !ordered && x.Low != nil {
				lv, hv := e.eval(st, x.Low), e.eval(st, x.High)
				if lv.k == vMark && hv.k == vMark && lv.epoch == hv.epoch {
					if lv.dlo >= hv.dhi && hv.dhi < inf {
						ordered = true
					}
					// the later mark recorded the distance of the earlier one when it was taken
					if hv.snap != nil && hv.snapOff == 0 {
						if d, ok := hv.snap.marks[x.Low]; ok && d[0] >= 0 {
							ordered = true
						}
					}
				}
			}
			okHigh = okHigh && ordered
			resLo, resHi = max(0, high.lo-low.hi), inf
			if high.hi < inf {
				resHi = high.hi - low.lo
			}
		}
		if !(okLow && okHigh) && boundsProven(e.prog, x.Parent(), x) {
			okLow, okHigh = true, true
		}
		e.check(st, "R-CURSOR", label, x.Pos(), okLow && okHigh,
			fmt.Sprintf("slice [%s:%s] of a lexeme of length [%d,%s] is not provably in range (distance of the lower bound mark from the end >= %s, fresh=%v): on some input this panics (slice bounds out of range)",
				bndStr(x.Low, low.lo, low.hi), bndStr(x.High, high.lo, high.hi), base.lenLo, infs(base.lenHi), infs(low.slack), base.fresh))
		return AbsVal{k: vSlice, lenLo: resLo, lenHi: resHi, marksAt: map[ssa.Value]AbsVal{}}
	}
	return top
}

// fromHeap: the value is loaded from a field of a lexer object.
func fromHeap(v ssa.Value) bool {
	u, ok := v.(*ssa.UnOp)
	if !ok || u.Op != token.MUL {
		return false
	}
	_, ok = heapPath(u.X)
	return ok
}

func bndStr(v ssa.Value, lo, hi int) string {
	if v == nil {
		return ""
	}
	if lo == hi {
		return fmt.Sprint(lo)
	}
	return fmt.Sprintf("%d..%s", lo, infs(hi))
}

func (e *Engine) sliceIndex(fi *fnInfo, st *State, x *ssa.IndexAddr, base, idx AbsVal) {
	label := fi.labels[x]
	if fromHeap(x.X) {
		return // a stored token (l.text) indexed with a len()-derived value: not a cursor operation (DESIGN: E7, not covered)
	}
	ok := false
	if c, isC := idx.constInt(); isC {
		ok = c >= 0 && int(c) < base.lenLo
	} else if idx.k == vMark {
		// Lexeme()[Pos()-1]: value in [mlo,mhi], distance >= 1 means index < L
		d, has := idx.dlo, base.fresh && idx.epoch == st.epoch
		if !has {
			if m, in := base.marksAt[x.Index]; in {
				d, has = m.dlo, true
			}
		}
		ok = idx.mlo >= 0 && has && d >= 1
	} else if phi, isPhi := x.Index.(*ssa.Phi); isPhi {
		// decreasing index initialised below the length and guarded by >= 0 (json consumeStringToken)
		ok = e.decreasingIndex(st, phi, base)
	}
	if !ok {
		// index arithmetic on the slice itself (i := len(lexeme)-1; i >= 0; i--) is the bounds engine's domain
		ok = boundsProven(e.prog, x.Parent(), x)
	}
	if ok {
		e.check(st, "R-CURSOR", label, x.Pos(), true, "")
	} else {
		e.check(st, "R-CURSOR", label, x.Pos(), false, fmt.Sprintf("index into a lexeme of length [%d,%s] is not provably in range", base.lenLo, infs(base.lenHi)))
	}
}

// decreasingIndex: phi(i0, phi-1) where i0 is mark-1 taken at the current
// position, and the access is dominated by `phi >= 0`.
func (e *Engine) decreasingIndex(st *State, phi *ssa.Phi, base AbsVal) bool {
	hdr := phi.Block()
	okInit, okStep := false, false
	for i, ed := range phi.Edges {
		if hdr.Dominates(hdr.Preds[i]) {
			d := linOf(ed).add(linAtom("%"+phi.Name()), -1)
			okStep = d.isConst() && d.C == -1
		} else {
			av := e.eval(st, ed)
			okInit = av.k == vMark && av.dlo >= 1
			if c, ok := av.constInt(); ok {
				okInit = int(c) < base.lenLo
			}
		}
	}
	if !okInit || !okStep {
		return false
	}
	iff, ok := lastInstr(hdr).(*ssa.If)
	if !ok {
		return false
	}
	bo, ok := iff.Cond.(*ssa.BinOp)
	if !ok || bo.X != ssa.Value(phi) || bo.Op != token.GEQ {
		return false
	}
	c, ok := bo.Y.(*ssa.Const)
	return ok && c.Int64() == 0
}

// ---------------------------------------------------------------------------
// calls

func (e *Engine) owner(fn *ssa.Function) bool {
	if fn == nil || len(fn.Blocks) == 0 {
		return false
	}
	p := fnPkg(fn)
	if p == nil || core.RelPkg(p) != e.cfg.Rel && !(e.cfg.Rel == "" && core.RelPkg(p) == "parse") {
		return false
	}
	// methods (and bound-method wrappers / closures) of owner types, or plain functions of the package
	name := recvName(fn)
	if name == "" {
		if fn.Parent() != nil {
			return e.owner(fn.Parent())
		}
		if len(fn.FreeVars) > 0 { // $bound wrapper
			if tp, ok := modTypePath(fn.FreeVars[0].Type()); ok {
				return e.cfg.Owners[tp]
			}
		}
		if e.cfg.Owners[core.RelPkg(p)+".*func"] || higherOrder(fn) {
			return true
		}
		// a plain function of the package that is handed the cursor explicitly (consumeStringToken(r *parse.Input)):
		// a scanner written as a function instead of a method (one Input per lexer: identity by type)
		for _, prm := range fn.Params {
			if tp, ok := modTypePath(prm.Type()); ok && tp == "parse.Input" {
				if _, isPtr := prm.Type().Underlying().(*types.Pointer); isPtr {
					return true
				}
			}
		}
		return false
	}
	if e.cfg.Owners[core.RelPkg(p)+"."+name] {
		return true
	}
	// a type of the package that wraps the cursor (type scanner struct{ *parse.Input }): its methods are scanners too;
	// not at parser level, where the lexer (which also holds the cursor) is a black box by construction
	if rt := fn.Signature.Recv().Type(); rt != nil && !e.opaqueOK {
		if pt, isPtr := rt.Underlying().(*types.Pointer); isPtr {
			rt = pt.Elem()
		}
		if st, isSt := rt.Underlying().(*types.Struct); isSt {
			for i := 0; i < st.NumFields(); i++ {
				if tp, ok := modTypePath(st.Field(i).Type()); ok && tp == "parse.Input" {
					return true
				}
			}
		}
	}
	return false
}

func (e *Engine) call(fi *fnInfo, st *State, in *ssa.Call) []*State {
	cc := &in.Call
	setRes := func(s *State, v AbsVal) {
		if v.k == vTop {
			delete(s.vals, in)
		} else {
			s.setv(in, v)
		}
	}
	if b, ok := cc.Value.(*ssa.Builtin); ok {
		switch b.Name() {
		case "len":
			a := e.eval(st, cc.Args[0])
			switch a.k {
			case vArr:
				setRes(st, intVal(int64(a.ahi-a.alo)))
			case kFieldSlice:
				setRes(st, AbsVal{k: vAtomLen, atom: "len(" + a.atom + ")"})
			case vSlice:
				if a.lenLo == a.lenHi {
					setRes(st, intVal(int64(a.lenLo)))
				} else {
					setRes(st, AbsVal{k: kLenOf, lenOf: cc.Args[0]})
				}
			case vLit:
				if a.field < 0 && a.lit != nil && a.lit.Elems != nil {
					setRes(st, intVal(int64(len(a.lit.Elems))))
				} else {
					setRes(st, top)
				}
			case vStrSet:
				var ls []int64
				for _, s := range a.strs {
					ls = append(ls, int64(len(s)))
				}
				setRes(st, intVal(ls...))
			default:
				setRes(st, top)
			}
		default:
			setRes(st, top)
		}
		return []*State{st}
	}
	var callee *ssa.Function
	if f := cc.StaticCallee(); f != nil {
		callee = f
	} else if !cc.IsInvoke() {
		if fv := e.eval(st, cc.Value); fv.k == vFunc {
			callee = fv.fn
			// a method expression used as a function value ((*Lexer).identToken) is a thunk around the method
			if callee != nil && callee.Synthetic != "" && len(callee.FreeVars) == 0 {
				if t := thunkTarget(callee); t != nil && t != callee && len(t.Params) == len(callee.Params) {
					callee = t
				}
			}
		}
	}
	if callee == nil && !cc.IsInvoke() && len(e.cfg.DynTargets) > 0 {
		// call through the state stack: try every candidate state function
		var outs []*State
		for i, t := range e.cfg.DynTargets {
			s := st
			if i < len(e.cfg.DynTargets)-1 {
				s = st.clone()
			}
			outs = append(outs, e.callKnown(fi, s, in, t)...)
		}
		return outs
	}
	if callee == nil {
		if e.mayTouchCursor(cc) {
			st.havocCursor()
		}
		setRes(st, top)
		return []*State{st}
	}
	if isInputRecv(callee) {
		return e.primitive(fi, st, in, callee)
	}
	if kind := e.atKind(callee); kind > 0 {
		return e.atCall(fi, st, in, callee, kind)
	}
	if e.reaches(callee) && e.owner(callee) {
		return e.callKnown(fi, st, in, callee)
	}
	if (callee.Name() == "NewErrorLexer" || callee.Name() == "NewError") && core.RelPkg(fnPkg(callee)) == "parse" {
		// reads Bytes()/Offset() of the cursor only (its body is checked by R-ERRCTOR)
		ev := intVal(1)
		ev.emsg = "?"
		for _, a := range cc.Args {
			if k, ok := a.(*ssa.Const); ok && k.Value != nil && k.Value.Kind() == constant.String {
				ev.emsg = constant.StringVal(k.Value)
			}
		}
		setRes(st, ev)
		return []*State{st}
	}
	// opaque callee
	if e.reaches(callee) {
		if e.opaqueOK {
			st.havocCursor()
			setRes(st, e.enumResult(callee))
			return []*State{st}
		}
		e.undecided(st, "R-CURSOR", "opaque cursor client "+fnLabel(callee)+" called from "+fnLabel(fi.fn), in.Pos(), "a function that uses the cursor is called but is outside the analysed owner types")
		st.havocCursor()
		setRes(st, top)
		return []*State{st}
	}
	if e.owner(callee) && e.writesFields(callee) {
		// a method of the lexer/parser that does not use the cursor but assigns its fields (p.fail(msg, offset),
		// l.setRawTag(h)): analysed like the lexer's own code, so that the assignment is seen
		return e.callKnown(fi, st, in, callee)
	}
	if e.pureHelper(callee) {
		// a small pure helper of the package (l.tmpl.enabled(), isTagOpen(c, next)): analysed like the lexer's own code
		return e.callKnown(fi, st, in, callee)
	}
	// arguments that are constants in this calling context (a class handed down through the caller's own parameter:
	// consumeClass(class) -> isClass(l.r.Peek(0), class)) are bound like literal constants
	predArgs, copied := cc.Args, false
	for i, a := range cc.Args {
		if _, isC := a.(*ssa.Const); isC {
			continue
		}
		if av := e.eval(st, a); av.k == vInt && av.atom == "" {
			if c, ok := av.constInt(); ok && (isIntType(a.Type()) || isByteType(a.Type())) {
				if !copied {
					predArgs, copied = append([]ssa.Value{}, cc.Args...), true
				}
				predArgs[i] = ssa.NewConst(constant.MakeInt64(c), a.Type())
			}
		}
	}
	if pi := e.bytePredicateAt(callee, predArgs); pi.table != nil && pi.param < len(cc.Args) {
		// a pure predicate over one byte: treated like a [256]bool table indexed by the argument
		arg := cc.Args[pi.param]
		set := e.eval(st, arg).byteSet()
		allT, allF := true, true
		for _, bb := range set.members() {
			if pi.table[bb] {
				allF = false
			} else {
				allT = false
			}
		}
		switch {
		case allT:
			setRes(st, boolVal(true))
		case allF:
			setRes(st, boolVal(false))
		default:
			setRes(st, AbsVal{k: vTable, table: pi.table, tabX: arg})
		}
		return []*State{st}
	}
	if outs := e.intPredicateCall(st, in, callee); outs != nil {
		return outs
	}
	if tt := e.byteTupleFunction(callee); tt != nil && len(cc.Args) == 1 {
		// several results that depend on one byte: one state per distinct result tuple among the bytes still possible,
		// so that the results stay correlated with each other and with the byte
		set := e.eval(st, cc.Args[0]).byteSet()
		groups := map[string]ByteSet{}
		rep := map[string][]int64{}
		var order []string
		for _, b := range set.members() {
			k := fmt.Sprint(tt[b])
			if _, seen := groups[k]; !seen {
				order = append(order, k)
				rep[k] = tt[b]
			}
			groups[k] = groups[k].or(bsOf(b))
		}
		if len(order) >= 1 && len(order) <= 12 {
			var outs []*State
			for i, k := range order {
				s := st
				if i < len(order)-1 {
					s = st.clone()
				}
				e.refineByteVal(s, cc.Args[0], groups[k])
				if s.dead {
					continue
				}
				tup := AbsVal{k: vTuple}
				for _, x := range rep[k] {
					tup.elems = append(tup.elems, intVal(x))
				}
				s.setv(in, tup)
				outs = append(outs, s)
			}
			return outs
		}
	}
	if t := e.byteFunction(callee); t != nil && len(cc.Args) == 1 {
		// a pure integer function of one byte: a per-byte table indexed by the argument
		set := e.eval(st, cc.Args[0]).byteSet()
		if v := tableValues(t, set); v.k == vInt && len(v.ints) == 1 {
			setRes(st, v)
		} else {
			setRes(st, AbsVal{k: vTabInt, itable: t, tabX: cc.Args[0], mask: -1})
		}
		return []*State{st}
	}
	switch callee.Name() {
	case "NewErrorLexer", "NewError":
		setRes(st, intVal(1))
	case "ToLower":
		// in-place case folding of (part of) the current lexeme
		if a := e.eval(st, cc.Args[0]); a.k == vSlice {
			// judged where the token is returned (checkReturn): only tag and attribute names may be case-folded in place
			st.wrote |= wroteFold
			e.staleBehind(st)
			setRes(st, a)
		} else {
			setRes(st, top)
		}
	default:
		setRes(st, top)
	}
	return []*State{st}
}

// Scanners that deliberately leave the cursor where the scan failed.

// reaches: does fn (transitively) perform cursor operations? Functions the
// call graph does not know (bound-method wrappers) are scanned one level deep.
func (e *Engine) reaches(fn *ssa.Function) bool {
	if e.reach[fn] {
		return true
	}
	for _, b := range fn.Blocks {
		for _, in := range b.Instrs {
			if c, ok := in.(ssa.CallInstruction); ok {
				if f := c.Common().StaticCallee(); f != nil && (e.reach[f] || isInputRecv(f)) {
					e.reach[fn] = true
					return true
				}
			}
		}
	}
	return false
}

// intPredicateCall: a pure predicate of the module over one integer argument that is one of a few known values
// (isBlockEnd(p.tt)): its body is folded for each value; the call yields one state per truth value with the
// argument (and the field it was loaded from) narrowed accordingly.
func (e *Engine) intPredicateCall(st *State, in *ssa.Call, callee *ssa.Function) []*State {
	cc := &in.Call
	res := callee.Signature.Results()
	if res.Len() != 1 || len(callee.FreeVars) > 0 || len(callee.Blocks) == 0 || len(callee.Blocks) > 16 || fnPkg(callee) == nil || !core.InModule(fnPkg(callee)) {
		return nil
	}
	if b, ok := res.At(0).Type().Underlying().(*types.Basic); !ok || b.Kind() != types.Bool {
		return nil
	}
	args := make([]constant.Value, len(cc.Args))
	vi := -1
	var set AbsVal
	for i, a := range cc.Args {
		av := e.eval(st, a)
		if c, ok := av.constInt(); ok && (isAnyInt(a.Type()) || isBoolType(a.Type())) {
			if isBoolType(a.Type()) {
				args[i] = constant.MakeBool(c != 0)
			} else {
				args[i] = constant.MakeInt64(c)
			}
			continue
		}
		if av.k == vInt && len(av.ints) >= 2 && len(av.ints) <= 64 && isAnyInt(a.Type()) && vi < 0 {
			vi, set = i, av
			continue
		}
		if i < len(callee.Params) {
			if refs := callee.Params[i].Referrers(); refs == nil || len(*refs) == 0 {
				continue // unused parameter
			}
		}
		return nil
	}
	if vi < 0 {
		return nil
	}
	var yes, no []int64
	for _, x := range set.ints {
		args[vi] = constant.MakeInt64(x)
		v, ok := evalPure(e, callee, args, 0)
		if !ok || v.Kind() != constant.Bool {
			return nil
		}
		if constant.BoolVal(v) {
			yes = append(yes, x)
		} else {
			no = append(no, x)
		}
	}
	narrow := func(s *State, keep []int64, truth bool) *State {
		nv := intVal(keep...)
		if set.atom != "" {
			if hv, ok := s.heap[set.atom]; ok && hv.k == vInt && len(hv.ints) == len(set.ints) {
				s.heap[set.atom] = nv
			}
			nv.atom = set.atom
		}
		s.setv(cc.Args[vi], nv)
		s.setv(in, boolVal(truth))
		s.note("%s: %s(%s) is %v", e.prog.Position(in.Pos()), callee.Name(), shortVal(cc.Args[vi]), truth)
		return s
	}
	switch {
	case len(no) == 0:
		st.setv(in, boolVal(true))
		return []*State{st}
	case len(yes) == 0:
		st.setv(in, boolVal(false))
		return []*State{st}
	}
	t := st.clone()
	return []*State{narrow(t, yes, true), narrow(st, no, false)}
}

// enumResult: abstract result of an opaque call: results of a module enum type may be any declared constant.
func (e *Engine) enumResult(callee *ssa.Function) AbsVal {
	res := callee.Signature.Results()
	one := func(t types.Type) AbsVal {
		n, ok := t.(*types.Named)
		if !ok || n.Obj().Pkg() == nil || !core.InModule(n.Obj().Pkg()) {
			return top
		}
		if b, ok := n.Underlying().(*types.Basic); !ok || b.Info()&types.IsInteger == 0 {
			return top
		}
		pk := e.prog.ByPath[n.Obj().Pkg().Path()]
		if pk == nil {
			return top
		}
		var vals []int64
		for _, c := range constsOfType(pk, n.Obj().Name()) {
			if v, ok := constant.Int64Val(constant.ToInt(c)); ok {
				vals = append(vals, v)
			}
		}
		if len(vals) == 0 || len(vals) > 64 {
			return top
		}
		return intVal(vals...)
	}
	switch res.Len() {
	case 0:
		return top
	case 1:
		return one(res.At(0).Type())
	}
	out := AbsVal{k: vTuple}
	for i := 0; i < res.Len(); i++ {
		out.elems = append(out.elems, one(res.At(i).Type()))
	}
	return out
}

// callKnown analyses (or replays the summary of) callee for the call instruction in.
func (e *Engine) callKnown(fi *fnInfo, st *State, in *ssa.Call, callee *ssa.Function) []*State {
	cc := &in.Call
	setRes := func(s *State, v AbsVal) {
		if v.k == vTop {
			delete(s.vals, in)
		} else {
			s.setv(in, v)
		}
	}
	var args []AbsVal
	for _, a := range cc.Args {
		args = append(args, e.eval(st, a))
	}
	st.note("%s: call %s", e.prog.Position(in.Pos()), fnLabel(callee))
	sums := e.summaries(callee, st, args)
	var outs []*State
	for i, x := range sums {
		s := st
		if i < len(sums)-1 {
			s = st.clone()
		}
		e.applySummary(s, x, e.usesL(callee))
		if strings.HasPrefix(s.errMsg, "\x00param:") {
			// the callee recorded an error whose message is one of its parameters
			idx, _ := strconv.Atoi(strings.TrimPrefix(s.errMsg, "\x00param:"))
			s.errMsg = "?"
			if idx < len(cc.Args) {
				if av := e.eval(st, cc.Args[idx]); av.k == vStrSet && len(av.strs) == 1 {
					s.errMsg = av.strs[0] // the message is a value the caller holds (tt, msg := l.consumeX(); l.fail(msg))
				}
				switch a := cc.Args[idx].(type) {
				case *ssa.Const:
					if a.Value != nil && a.Value.Kind() == constant.String {
						s.errMsg = constant.StringVal(a.Value)
					}
				case *ssa.Parameter:
					for i, q := range in.Parent().Params {
						if q == a {
							s.errMsg = fmt.Sprintf("\x00param:%d", i)
						}
					}
				}
			}
		}
		ret := x.ret
		if engDebug && callee.Name() == "isEOFAt" {
			fmt.Fprintf(os.Stderr, "RET %s: %v args %v\n", callee.Name(), retString(ret), args)
		}
		for ri, rv := range ret {
			if rv.idx == nil {
				continue
			}
			// a value linked to a look-ahead index parameter of the callee: linked to the argument in the caller
			var to ssa.Value
			for pi, q := range callee.Params {
				if ssa.Value(q) == rv.idx && pi < len(cc.Args) {
					if av, ok := s.getv(cc.Args[pi]); ok && av.k == vIdx {
						to = cc.Args[pi]
					}
				}
			}
			if ri == 0 {
				ret = append([]AbsVal{}, ret...)
			}
			if to == nil && rv.k == vErrAt {
				ret[ri] = top
				continue
			}
			rv.idx = to
			ret[ri] = rv
		}
		switch len(ret) {
		case 0:
			delete(s.vals, in)
		case 1:
			setRes(s, ret[0])
		default:
			s.setv(in, AbsVal{k: vTuple, elems: ret})
		}
		if x.at != nil {
			s.note("%s: %s returns %s", e.prog.Position(x.at.Pos()), callee.Name(), retString(x.ret))
		}
		outs = append(outs, s)
	}
	return outs
}

func retString(r []AbsVal) string {
	var s []string
	for _, v := range r {
		s = append(s, v.String())
	}
	return strings.Join(s, ", ")
}

func (e *Engine) mayTouchCursor(cc *ssa.CallCommon) bool {
	for _, a := range cc.Args {
		if tp, ok := modTypePath(a.Type()); ok && (tp == "parse.Input" || e.cfg.Owners[tp]) {
			return true
		}
	}
	return false
}

// ---------------------------------------------------------------------------
// at(b ...byte) helpers: recognised structurally, used as primitives.
//
// Shape: func (l *T) f(b ...byte) bool { for i, c := range b { if l.r.Peek(i) != c [&& Peek(i)+32 != c] { return false } }; return true }

func (e *Engine) atKind(fn *ssa.Function) int {
	if k, ok := e.atLike[fn]; ok {
		return k
	}
	kind := -1
	defer func() { e.atLike[fn] = kind }()
	sig := fn.Signature
	if sig.Results().Len() != 1 || len(fn.Blocks) == 0 {
		return kind
	}
	// l.at(b ...byte), l.at(b []byte), or the same as a plain function handed the cursor: at(r *parse.Input, b ...byte)
	// ... optionally with an offset in front of the bytes: l.at(n int, b ...byte) compares at n, n+1, ...
	offParam := -1
	switch {
	case sig.Recv() != nil && sig.Params().Len() == 1:
	case sig.Recv() != nil && sig.Params().Len() == 2 && isPlainInt(sig.Params().At(0).Type()):
		offParam = 1 // index into fn.Params (receiver first)
	case sig.Recv() == nil && sig.Params().Len() == 2:
		if tp, ok := modTypePath(sig.Params().At(0).Type()); !ok || tp != "parse.Input" {
			return kind
		}
	default:
		return kind
	}
	if sl, isSl := sig.Params().At(sig.Params().Len() - 1).Type().Underlying().(*types.Slice); !isSl || !isByteType(sl.Elem()) {
		return kind
	}
	// all cursor operations are Peek(i) with i the range index; no stores; returns only constants
	var rangeIdx ssa.Value
	peeks, adds := 0, 0
	for _, b := range fn.Blocks {
		for _, in := range b.Instrs {
			switch x := in.(type) {
			case *ssa.Store, *ssa.MapUpdate:
				return kind
			case *ssa.Call:
				if bi, ok := x.Call.Value.(*ssa.Builtin); ok && bi.Name() == "len" {
					continue
				}
				f := x.Call.StaticCallee()
				if f == nil || !isInputRecv(f) || f.Name() != "Peek" {
					return kind
				}
				peeks++
				if rangeIdx == nil {
					rangeIdx = x.Call.Args[1]
				} else if rangeIdx != x.Call.Args[1] {
					return kind
				}
			case *ssa.BinOp:
				if x.Op == token.ADD {
					if c, ok := x.Y.(*ssa.Const); ok && c.Int64() == 32 {
						adds++
					}
				}
			case *ssa.Return:
				if _, ok := x.Results[0].(*ssa.Const); !ok {
					return kind
				}
			}
		}
	}
	if peeks == 0 || rangeIdx == nil {
		return kind
	}
	// the index must be a counter phi starting at -1/0 with stride 1 bounded by len(b) (plus the offset parameter)
	l := linOf(rangeIdx)
	if offParam >= 0 {
		if l.T[fn.Params[offParam].Name()] != 1 || len(l.T) != 2 {
			return kind
		}
		if e.atOff == nil {
			e.atOff = map[*ssa.Function]int{}
		}
		e.atOff[fn] = offParam
	} else if len(l.T) != 1 {
		return kind
	}
	kind = 1
	if adds > 0 {
		kind = 2
	}
	return kind
}

func (e *Engine) atCall(fi *fnInfo, st *State, in *ssa.Call, callee *ssa.Function, kind int) []*State {
	arg := e.eval(st, in.Call.Args[len(in.Call.Args)-1])
	label := fmt.Sprintf("%s %s(...) #%s", fnLabel(fi.fn), callee.Name(), e.prog.Position(in.Pos()))
	_ = label
	key := fmt.Sprintf("%s call %s", fnLabel(fi.fn), callee.Name())
	// the offset the comparison starts at: 0, a constant, or a look-ahead index
	off := 0
	var offIdx ssa.Value
	if oi, has := e.atOff[callee]; has && oi < len(in.Call.Args) {
		ov := e.eval(st, in.Call.Args[oi])
		if c, isC := ov.constInt(); isC && c >= 0 {
			off = int(c)
			e.check(st, "R-CURSOR", key+" (offset within the input)", in.Pos(), off <= st.E, fmt.Sprintf("the comparison starts at offset %d with only %d byte(s) proven before the terminator", off, st.E))
		} else {
			if ov.k == vInt && len(ov.ints) > 1 {
				ov = st.idxOfInts(ov)
				st.setv(in.Call.Args[oi], ov)
			}
			if ov.k != vIdx {
				e.undecided(st, "R-CURSOR", key+" (offset)", in.Pos(), "the offset of the byte-sequence helper is neither a constant nor a look-ahead index")
				st.setv(in, top)
				return []*State{st}
			}
			offIdx = in.Call.Args[oi]
			fwd := ov.ilo >= 0 && ov.safe >= 0
			e.check(st, "R-CURSOR", key+" (offset within the input)", in.Pos(), fwd, fmt.Sprintf("the comparison starts at a look-ahead index in [%s,%s] that was not established to be within the input", infs(ov.ilo), infs(ov.ihi)))
		}
	}
	if offIdx != nil {
		// at a look-ahead index: a match of n non-NUL constants proves n more bytes of input in front of the index
		t, f := st.clone(), st
		if arg.k == vArr {
			n, nonNul := 0, true
			for i := arg.alo; i < arg.ahi; i++ {
				if arg.arr.elems[i].byteSet().has(0) {
					nonNul = false
				}
				n++
			}
			if iv, ok := t.getv(offIdx); ok && iv.k == vIdx && nonNul && iv.safe < n {
				iv.safe = n
				t.setv(offIdx, iv)
			}
			e.check(st, "R-CURSOR", key+" (constant bytes are non-NUL)", in.Pos(), nonNul, "a NUL byte in the compared sequence lets the helper peek beyond the terminator")
		} else if arg.k == kFieldSlice {
			e.assume = append(e.assume, "A-TMPL: template delimiters passed to NewTemplateLexer contain no NUL byte (the six exported dialects are checked by T-TMPL)")
		} else {
			e.undecided(st, "R-CURSOR", key+" (argument shape)", in.Pos(), "argument of the byte-sequence helper is neither a literal byte list nor a lexer field")
		}
		t.setv(in, boolVal(true))
		f.setv(in, boolVal(false))
		return []*State{t, f}
	}
	switch arg.k {
	case vArr:
		var want []ByteSet
		for i := arg.alo; i < arg.ahi; i++ {
			bs := arg.arr.elems[i].byteSet()
			if kind == 2 {
				bs = bs.or(shiftSet(bs, -32))
			}
			want = append(want, bs)
		}
		// the helper peeks byte i only after bytes 0..i-1 matched; they must be non-NUL for the peek to be safe
		safe := true
		for i, w := range want {
			if i < len(want)-1 && w.has(0) {
				safe = false
			}
		}
		e.check(st, "R-CURSOR", key+" (constant bytes are non-NUL)", in.Pos(), safe, "a NUL byte in the compared sequence lets the helper peek beyond the terminator")
		t, f := st.clone(), st
		for i, w := range want {
			t.refineByte(off+i, w)
			if t.dead {
				break
			}
		}
		if len(want) == 1 {
			if b, ok := want[0].single(); ok {
				f.refineByte(off, bsOf(b).not())
			}
		}
		var outs []*State
		if !t.dead {
			t.setv(in, boolVal(true))
			outs = append(outs, t)
		}
		if !f.dead {
			f.setv(in, boolVal(false))
			outs = append(outs, f)
		}
		return outs
	case kFieldSlice:
		// dynamic delimiter: assumption A-TMPL (no NUL inside template delimiters)
		e.assume = append(e.assume, "A-TMPL: template delimiters passed to NewTemplateLexer contain no NUL byte (the six exported dialects are checked by T-TMPL)")
		t, f := st.clone(), st
		t.atLen["len("+arg.atom+")"] = true
		if pz, known := st.heap["pos:len("+arg.atom+")"].constInt(); known && pz == 1 {
			// a non-empty delimiter (without NUL, A-TMPL) matched: at least one input byte follows
			if t.atEOF && t.E == 0 {
				t.dead = true
			} else if t.E < 1 {
				t.E = 1
			}
			if !t.dead {
				t.refineByte(0, bsOf(0).not())
			}
		}
		t.setv(in, boolVal(true))
		f.setv(in, boolVal(false))
		if t.dead {
			return []*State{f}
		}
		return []*State{t, f}
	}
	e.undecided(st, "R-CURSOR", key+" (argument shape)", in.Pos(), "argument of the byte-sequence helper is neither a literal byte list nor a lexer field")
	st.setv(in, top)
	return []*State{st}
}

// ---------------------------------------------------------------------------
// cursor primitives

func (e *Engine) primitive(fi *fnInfo, st *State, in *ssa.Call, callee *ssa.Function) []*State {
	label := fi.labels[in]
	pos := in.Pos()
	args := in.Call.Args[1:]
	argInt := func(i int) (int, bool) {
		if i >= len(args) {
			return 0, false
		}
		c, ok := e.eval(st, args[i]).constInt()
		return int(c), ok
	}
	setRes := func(v AbsVal) {
		if v.k == vTop {
			delete(st.vals, in)
		} else {
			st.setv(in, v)
		}
	}
	switch callee.Name() {
	case "Peek", "PeekRune":
		j, ok := argInt(0)
		if av := e.eval(st, args[0]); !ok && (av.k == vIdx || av.k == vInt && len(av.ints) > 1) {
			// look-ahead at an index variable
			if av.k == vInt {
				av = st.idxOfInts(av)
				st.setv(args[0], av)
			}
			fwd := av.ihi <= 0 || av.safe >= 0
			bwd := av.ilo >= 0 || av.back || -av.ilo <= st.P || -av.ilo <= st.Lmin
			e.check(st, "R-CURSOR", label, pos, fwd && bwd, fmt.Sprintf("Peek(n) with n in [%s,%s]: %s", infs(av.ilo), infs(av.ihi), idxWhy(fwd, bwd)))
			if callee.Name() == "PeekRune" {
				// the rune at the index: its reported length never exceeds what remains when the byte at the index is input
				rl := AbsVal{k: vRuneLen, idx: args[0], runeOK: av.ilo >= 0 && av.safe >= 1}
				setRes(AbsVal{k: vTuple, elems: []AbsVal{top, rl}})
				return []*State{st}
			}
			res := AbsVal{k: vByte, set: bsTop, idx: args[0]}
			if av.ilo == av.ihi {
				res.set, res.linked, res.coord = st.byteAt(av.ilo), true, av.ilo
			} else if av.safe >= 1 && av.ilo >= 0 {
				res.set = bsOf(0).not()
			} else if av.ihi < 0 {
				res.set = bsTop // behind the position: any byte, NUL included
			}
			setRes(res)
			return []*State{st}
		}
		if !ok {
			e.undecided(st, "R-CURSOR", label, pos, "look-ahead offset is not a constant on this path")
			setRes(top)
			return []*State{st}
		}
		inRange := j <= st.E && -j <= st.P
		e.check(st, "R-CURSOR", label, pos, inRange, fmt.Sprintf("%s(%d) with only %d byte(s) proven before the terminator (and %d behind): the byte at offset %d-1 was not established to be input, so this reads past the NUL terminator (index out of range)", callee.Name(), j, st.E, st.P, j))
		if callee.Name() == "Peek" {
			setRes(AbsVal{k: vByte, set: st.byteAt(j), linked: true, coord: j})
		} else {
			rl := AbsVal{k: vRuneLen, fresh: true, runeOK: j == 0 && st.E >= 1}
			setRes(AbsVal{k: vTuple, elems: []AbsVal{top, rl}})
		}
	case "Move":
		av := e.eval(st, args[0])
		if n, ok := av.constInt(); ok {
			good := true
			if n > 0 {
				good = int(n) <= st.E
			} else if n < 0 {
				good = int(-n) <= st.P || int(-n) <= st.Lmin
			}
			e.check(st, "R-CURSOR", label, pos, good, fmt.Sprintf("Move(%d) with only %d byte(s) proven before the terminator (%d behind): the cursor steps over the NUL terminator (later Peek/Shift are out of range, the token includes the terminator)", n, st.E, max(st.P, st.Lmin)))
			if n < 0 {
				st.ownBack = true
			}
			st.moveBy(int(n))
			break
		}
		if av.k == vInt && len(av.ints) > 1 {
			av = st.idxOfInts(av)
		}
		switch av.k {
		case vIdx:
			fwd := av.ihi <= 0 || av.safe >= 0
			bwd := av.ilo >= 0 || -av.ilo <= st.P || -av.ilo <= st.Lmin
			e.check(st, "R-CURSOR", label, pos, fwd && bwd, fmt.Sprintf("Move(n) with n in [%s,%s]: %s", infs(av.ilo), infs(av.ihi), idxWhy(fwd, bwd)))
			st.moveIdx(av)
		case vRuneLen:
			good := av.fresh && av.runeOK
			e.check(st, "R-CURSOR", label, pos, good, "Move(n) with n from PeekRune(0) taken where no input byte was proven at the position: the rune length can exceed the remaining input")
			st.moveFuzzy(1, max(1, st.E))
		case vAtomLen:
			good := st.atLen[av.atom]
			e.check(st, "R-CURSOR", label, pos, good, "Move("+av.atom+") without a preceding successful comparison of the input with that delimiter at this position")
			lo := 0
			if pz, known := st.heap["pos:"+av.atom].constInt(); known && pz == 1 {
				lo = 1
			}
			st.moveFuzzy(lo, inf)
		default:
			e.undecided(st, "R-CURSOR", label, pos, "Move amount is not a constant, a rune length or a delimiter length on this path")
			st.havocCursor()
		}
	case "MoveRune":
		e.check(st, "R-CURSOR", label, pos, st.E >= 1, "MoveRune() where no input byte was proven at the position: at end of input this steps over the NUL terminator")
		st.moveFuzzy(1, max(1, min(4, st.E)))
	case "Pos":
		setRes(AbsVal{k: vMark, mlo: st.Lmin, mhi: st.Lmax, epoch: st.epoch, fresh: true, snap: st.snapshot()})
	case "Offset":
		setRes(AbsVal{k: kOffset, fresh: true})
	case "Rewind":
		st.ownBack = true
		av := e.eval(st, args[0])
		if av.k != vMark || av.epoch != st.epoch {
			if c, ok := av.constInt(); ok && st.Lmin == st.Lmax {
				st.moveBy(int(c) - st.Lmin)
				break
			}
			e.undecided(st, "R-CURSOR", label, pos, "Rewind target is not a mark of the current selection")
			st.havocCursor()
			break
		}
		good := av.mlo >= 0 && (av.dlo >= 0 || -av.dlo <= st.E)
		e.check(st, "R-CURSOR", label, pos, good, fmt.Sprintf("Rewind to a mark with value >= %d at distance >= %d: the target may lie before the start of the selection or beyond the proven input", av.mlo, av.dlo))
		switch {
		case av.dlo == av.dhi:
			st.moveBy(-av.dlo)
		case av.snap != nil:
			// back to the marked position: restore what was known there, then apply the constant offset
			e.rewindFuzzy(st, av)
			st.restore(av.snap)
			for v, d := range av.snap.marks {
				if mv, ok := st.getv(v); ok && mv.k == vMark && mv.epoch == st.epoch {
					mv.dlo, mv.dhi = d[0]+av.snapOff, d[1]
					if d[1] < inf {
						mv.dhi = d[1] + av.snapOff
					}
					st.setv(v, mv)
				}
			}
			if av.snapOff != 0 {
				keepLo, keepHi := st.Lmin, st.Lmax
				st.moveBy(av.snapOff)
				st.Lmin, st.Lmax = keepLo, keepHi
			}
			if mv, ok := st.getv(args[0]); ok && mv.k == vMark {
				mv.dlo, mv.dhi = 0, 0
				st.setv(args[0], mv)
			}
		default:
			e.rewindFuzzy(st, av)
			if mv, ok := st.getv(args[0]); ok && mv.k == vMark {
				mv.dlo, mv.dhi = 0, 0
				st.setv(args[0], mv)
			}
		}
		st.Lmin, st.Lmax = max(av.mlo, 0), av.mhi
	case "Lexeme", "Shift":
		e.check(st, "R-CURSOR", label, pos, st.Lmin >= 0, "selection may be negative (pos < start)")
		marks := map[ssa.Value]AbsVal{}
		for v, mvP := range st.vals {
			if mvP.k == vMark && mvP.epoch == st.epoch {
				marks[v] = *mvP
			}
		}
		res := AbsVal{k: vSlice, lenLo: max(st.Lmin, 0), lenHi: st.Lmax, fresh: true, marksAt: marks}
		if callee.Name() == "Shift" {
			st.collapse()
			st.lastShift = true
			if st.shifts < 3 {
				st.shifts++
			}
			res.fresh = false
		}
		setRes(res)
	case "Skip":
		if e.cfg.NoTile {
			// entry point outside the token stream (RegExp re-scan, Position): Skip is its documented purpose
		} else if e.cfg.AllowSkip {
			okSet := st.lexKnown && st.lex.subset(e.cfg.SkipWS)
			e.check(st, "R-TILE", label, pos, okSet, fmt.Sprintf("Skip() drops bytes that may be %s: only whitespace inside a tag may be left uncovered by tokens", st.lex.and(e.cfg.SkipWS.not())))
		} else if st.Lmax != 0 {
			e.check(st, "R-TILE", label, pos, false, "Skip() drops input bytes: the tokens no longer tile the consumed input")
		}
		st.collapse()
		st.lastShift = false
		if st.skips < 3 {
			st.skips++
		}
	case "Err", "PeekErr":
		off := 0
		if callee.Name() == "PeekErr" {
			var ok bool
			off, ok = argInt(0)
			if !ok {
				if av := e.eval(st, args[0]); av.k == vIdx || av.k == vInt && len(av.ints) > 1 {
					// the end-of-input test at a look-ahead index: no error there means the byte at the index is input
					if av.k == vInt {
						st.setv(args[0], st.idxOfInts(av))
					}
					setRes(AbsVal{k: vErrAt, idx: args[0]})
					break
				}
				setRes(top)
				break
			}
		}
		switch {
		case st.atEOF && st.E <= off:
			setRes(intVal(1))
		case st.E > off:
			setRes(intVal(0))
		default:
			setRes(AbsVal{k: vErrAt, errOff: off})
		}
	case "Restore", "Len", "Bytes":
		setRes(top)
	case "Reset":
		e.undecided(st, "R-CURSOR", label, pos, "Reset() inside a lexer is not modelled")
		st.havocCursor()
	default:
		e.undecided(st, "R-CURSOR", label, pos, "unmodelled Input method "+callee.Name())
		st.havocCursor()
	}
	return []*State{st}
}

func (e *Engine) rewindFuzzy(st *State, m AbsVal) {
	st.unfresh()
	st.lastShift = false
	st.atLen = map[string]bool{}
	st.dropByteKnowledge()
	st.lexKnown = false
	back := max(m.dlo, 0)
	st.E += back
	st.atEOF = false
	st.P = max(0, max(m.mlo, 0))
	st.dispLo -= m.dhi
	if m.dhi >= inf {
		st.dispLo = -inf
	}
	if st.dispHi < inf {
		st.dispHi -= m.dlo
	}
	for h := range st.loopDisp {
		if m.dhi >= inf {
			st.loopDisp[h] = -inf
		} else {
			st.loopDisp[h] -= m.dhi
		}
	}
	for v, avP := range st.vals {
		av := *avP
		if av.k == vMark {
			nlo, nhi := av.dlo-m.dhi, av.dhi-m.dlo
			if m.dhi >= inf {
				nlo = -inf
			}
			if av.dhi >= inf {
				nhi = inf
			}
			av.dlo, av.dhi = nlo, nhi
			st.setv(v, av)
		}
	}
}

var _ = types.Typ

// ---------------------------------------------------------------------------
// callee summaries (frame rule): a callee is analysed on the part of the state
// it can observe; the result is replayed on every caller state with the same
// projection.

type summary struct {
	st  *State // projected exit state
	ret []AbsVal
	at  *ssa.Return
	rw  *heapSet
}

// heapSet: abstract heap locations a function may read or write (transitively).
type heapSet struct{ paths map[string]bool }

func (h *heapSet) touches(key string) bool {
	if h == nil {
		return true
	}
	k := key
	for _, pre := range []string{"pos:len(", "lo:len(", "hi:len("} {
		if strings.HasPrefix(k, pre) {
			k = strings.TrimSuffix(k[len(pre):], ")")
		}
	}
	return h.paths[k]
}

func (e *Engine) heapRW(fn *ssa.Function) *heapSet {
	if h, ok := e.rwCache[fn]; ok {
		return h
	}
	h := &heapSet{paths: map[string]bool{}}
	e.rwCache[fn] = h // cycle guard: partial set during the computation (call graphs here are acyclic)
	for _, b := range fn.Blocks {
		for _, in := range b.Instrs {
			switch x := in.(type) {
			case *ssa.FieldAddr:
				if p, ok := heapPath(x); ok {
					h.paths[p] = true
				}
			case ssa.CallInstruction:
				f := x.Common().StaticCallee()
				if _, isBuiltin := x.Common().Value.(*ssa.Builtin); isBuiltin {
					continue
				}
				if f == nil {
					if !x.Common().IsInvoke() {
						// dynamic call: candidates of the state stack, or unknown
						for _, t := range e.cfg.DynTargets {
							if sub := e.heapRW(t); sub == nil {
								h.paths["*"] = true
							} else {
								for p := range sub.paths {
									h.paths[p] = true
								}
							}
						}
						if len(e.cfg.DynTargets) == 0 {
							// function-typed parameter (bound scanner): conservatively everything of the owner types
							h.paths["*"] = true
						}
					}
					continue
				}
				if len(f.Blocks) > 0 && core.InModule(fnPkg(f)) {
					if sub := e.heapRW(f); sub == nil {
						h.paths["*"] = true
					} else {
						for p := range sub.paths {
							h.paths[p] = true
						}
					}
				}
			}
		}
	}
	if h.paths["*"] {
		e.rwCache[fn] = nil
		return nil
	}
	return h
}

func (e *Engine) usesL(fn *ssa.Function) bool {
	if v, ok := e.usesLCache[fn]; ok {
		return v
	}
	e.usesLCache[fn] = true // recursion guard: conservative
	res := false
	for _, b := range fn.Blocks {
		for _, in := range b.Instrs {
			c, ok := in.(ssa.CallInstruction)
			if !ok {
				continue
			}
			f := c.Common().StaticCallee()
			if _, isBuiltin := c.Common().Value.(*ssa.Builtin); isBuiltin {
				continue
			}
			if f == nil {
				if !c.Common().IsInvoke() {
					res = true // dynamic call (bound scanner): be conservative
				}
				continue
			}
			if isInputRecv(f) {
				switch f.Name() {
				case "Pos", "Lexeme", "Shift", "Skip", "Rewind", "Reset":
					res = true
				}
			} else if len(f.Blocks) > 0 && e.reaches(f) && e.usesL(f) {
				res = true
			}
		}
	}
	e.usesLCache[fn] = res
	return res
}

func (e *Engine) summaries(callee *ssa.Function, st *State, args []AbsVal) []summary {
	usesL := e.usesL(callee)
	proj := newState()
	proj.E, proj.atEOF, proj.P = st.E, st.atEOF, st.P
	if usesL {
		proj.Lmin, proj.Lmax = st.Lmin, st.Lmax
	}
	for k, v := range st.bytes {
		proj.bytes[k] = v
	}
	if len(st.eqc) > 0 {
		proj.eqc = map[int]int{}
		for k, v := range st.eqc {
			proj.eqc[k] = v
		}
	}
	for k, v := range st.atLen {
		proj.atLen[k] = v
	}
	for k, v := range st.atomPos {
		proj.atomPos[k] = v
	}
	rw := e.heapRW(callee)
	for k, v := range st.heap {
		if rw.touches(k) {
			proj.heap[k] = v
		}
	}
	proj.errSet, proj.havoc, proj.stale = st.errSet, st.havoc, st.stale
	proj.coarse = st.coarse
	proj.lex, proj.lexKnown = st.lex, st.lexKnown
	proj.lastShift, proj.shifts, proj.skips = st.lastShift, 0, 0
	// byte arguments keep their link to the input
	var sb strings.Builder
	fmt.Fprintf(&sb, "E%d/%v/P%d/L%d-%d/e%d/h%v/s%v/x%v,%v|", proj.E, proj.atEOF, proj.P, proj.Lmin, proj.Lmax, proj.errSet, proj.havoc, proj.lastShift, proj.lex, proj.lexKnown)
	var ks []int
	for k := range proj.bytes {
		ks = append(ks, k)
	}
	sort.Ints(ks)
	for _, k := range ks {
		fmt.Fprintf(&sb, "%d:%x,", k, proj.bytes[k])
	}
	var ss []string
	for k, v := range proj.eqc {
		ss = append(ss, fmt.Sprintf("q%d=%d", k, v))
	}
	for k := range proj.atLen {
		ss = append(ss, "a"+k)
	}
	for k := range proj.atomPos {
		ss = append(ss, "p"+k)
	}
	for k, v := range proj.heap {
		ss = append(ss, "h"+k+"="+absSig(v))
	}
	sort.Strings(ss)
	sb.WriteString(strings.Join(ss, ","))
	for _, a := range args {
		sb.WriteString("|" + absSig(a))
	}
	sig := sb.String()
	m := e.summ[callee]
	if m == nil {
		m = map[string][]summary{}
		e.summ[callee] = m
	}
	if s, ok := m[sig]; ok {
		e.summHits++
		return s
	}
	e.summMiss++
	if engDebug && callee.Name() == "popToken" {
		fmt.Fprintf(os.Stderr, "SIG %s RW %v\n", sig, rw)
	}
	exits := e.run(callee, proj, args)
	var out []summary
	for _, x := range exits {
		// R-RESTORE: a scanner that reports failure without recording an error leaves the cursor where it started
		if len(x.ret) == 1 && x.at != nil && x.st.errSet != 1 && !x.st.havoc {
			if c, ok := x.ret[0].constInt(); ok && c == 0 && isFailureResult(callee) && callee.Synthetic == "" {
				// judged when the engine is done (finishRestore): only a scanner that restores the position on some
				// failing path is held to restoring it on all of them
				// one record per distinct outcome (return site, displacement, own restore): the verdict does not depend on
				// how many calling contexts produced it
				fx := failExit{pos: x.at.Pos(), lo: x.st.dispLo, hi: x.st.dispHi, moved: x.st.ownBack}
				dup := false
				for _, old := range e.failExits[callee] {
					if old.pos == fx.pos && old.lo == fx.lo && old.hi == fx.hi && old.moved == fx.moved {
						dup = true
						break
					}
				}
				if !dup {
					fx.st = x.st.clone()
					e.failExits[callee] = append(e.failExits[callee], fx)
				}
			}
		}
		// callee-local values are of no use to the caller
		x.st.vals = map[ssa.Value]*AbsVal{}
		out = append(out, summary{st: x.st, ret: x.ret, at: x.at, rw: rw})
	}
	m[sig] = out
	return out
}

// isFailureResult: an unexported scanner method — it has a receiver and a single result that is a bool
// (false = failure) or a token type (0 = the error token).
func isFailureResult(fn *ssa.Function) bool {
	res := fn.Signature.Results()
	if res.Len() != 1 || fn.Signature.Recv() == nil || fn.Object() == nil || fn.Object().Exported() {
		return false
	}
	t := res.At(0).Type()
	if b, ok := t.Underlying().(*types.Basic); ok {
		if b.Kind() == types.Bool {
			return true
		}
		if n, named := t.(*types.Named); named && n.Obj().Name() == "TokenType" {
			return true
		}
	}
	return false
}

func absSig(v AbsVal) string {
	switch v.k {
	case vTop:
		return "?"
	case vInt:
		return fmt.Sprint(v.ints)
	case vByte:
		if v.linked {
			return fmt.Sprintf("b%x@%d", v.set, v.coord)
		}
		return fmt.Sprintf("b%x", v.set)
	case vSlice:
		return fmt.Sprintf("s%d-%d", v.lenLo, v.lenHi)
	case vFunc:
		return "f" + v.fn.String()
	case vArr:
		var s []string
		for i := v.alo; i < v.ahi; i++ {
			s = append(s, absSig(v.arr.elems[i]))
		}
		return "[" + strings.Join(s, ",") + "]"
	case kFieldSlice, kHeapRef, vAtomLen:
		return fmt.Sprintf("k%d:%s", v.k, v.atom)
	case vIdx:
		return fmt.Sprintf("i%d-%d/%d/%v%x/%v", v.ilo, v.ihi, v.safe, v.coverOK, v.cover, v.back)
	case vStrSet:
		return fmt.Sprintf("S%q", v.strs)
	}
	// marks and other position-dependent values are not passed between the analysed functions;
	// make the signature unique so that such a call is never shared
	return fmt.Sprintf("u%p%d", &v, v.k)
}

// applySummary replays the effect of a summarised callee on the caller state s.
func (e *Engine) applySummary(s *State, x summary, usesL bool) {
	ex := x.st
	dlo, dhi := ex.dispLo, ex.dispHi
	collapsed := ex.epoch != 0
	moved := ex.moves > 0
	s.E, s.atEOF, s.P = ex.E, ex.atEOF, ex.P
	// caller values linked to input coordinates
	if moved {
		if dlo == dhi && !collapsed {
			for v, avP := range s.vals {
				if avP.k == vByte && avP.linked {
					av := *avP
					av.coord -= dlo
					s.vals[v] = &av
				}
			}
		} else {
			for v, avP := range s.vals {
				if avP.k == vByte && avP.linked {
					av := *avP
					av.linked = false
					s.vals[v] = &av
				}
			}
		}
		s.unfresh()
	}
	s.bytes = make(map[int]ByteSet, len(ex.bytes))
	for k, v := range ex.bytes {
		s.bytes[k] = v
	}
	s.eqc = nil
	if len(ex.eqc) > 0 {
		s.eqc = map[int]int{}
		for k, v := range ex.eqc {
			s.eqc[k] = v
		}
	}
	// refinements of still-linked caller bytes
	for v, avP := range s.vals {
		if avP.k == vByte && avP.linked {
			if set := avP.set.and(s.byteAt(avP.coord)); set != avP.set && !set.empty() {
				av := *avP
				av.set = set
				s.vals[v] = &av
			}
		}
	}
	s.atLen = map[string]bool{}
	for k, v := range ex.atLen {
		s.atLen[k] = v
	}
	for k, v := range ex.atomPos {
		s.atomPos[k] = v
	}
	// heap: locations the callee may touch are taken from its exit state, the others are untouched
	if x.rw != nil {
		for k := range s.heap {
			if x.rw.touches(k) {
				delete(s.heap, k)
			}
		}
	} else {
		s.heap = make(map[string]AbsVal, len(ex.heap))
	}
	for k, v := range ex.heap {
		s.heap[k] = v
	}
	s.errSet, s.havoc = ex.errSet, ex.havoc
	if ex.errMsg != "" {
		s.errMsg = ex.errMsg
	}
	s.stale = ex.stale
	s.wrote |= ex.wrote
	s.lex, s.lexKnown = ex.lex, ex.lexKnown
	if moved {
		s.lastShift = ex.lastShift
	}
	s.shifts = min(3, s.shifts+ex.shifts)
	s.skips = min(3, s.skips+ex.skips)
	if collapsed {
		s.epoch += ex.epoch
		for v, avP := range s.vals {
			if avP.k == vMark {
				delete(s.vals, v)
			}
		}
		s.Lmin, s.Lmax = ex.Lmin, ex.Lmax
	} else {
		if usesL {
			s.Lmin, s.Lmax = ex.Lmin, ex.Lmax
		} else {
			s.Lmin += dlo
			if s.Lmax < inf && dhi < inf {
				s.Lmax += dhi
			} else {
				s.Lmax = inf
			}
		}
		for v, avP := range s.vals {
			if avP.k == vMark {
				av := *avP
				av.dlo += dlo
				if av.dhi < inf && dhi < inf {
					av.dhi += dhi
				} else {
					av.dhi = inf
				}
				s.vals[v] = &av
			}
		}
	}
	if dlo <= -inf {
		s.dispLo = -inf
	} else {
		s.dispLo += dlo
	}
	if s.dispHi < inf && dhi < inf {
		s.dispHi += dhi
	} else {
		s.dispHi = inf
	}
	for h := range s.loopDisp {
		if dlo <= -inf {
			s.loopDisp[h] = -inf
		} else {
			s.loopDisp[h] += dlo
		}
	}
	for _, t := range ex.trace {
		s.note("%s", t)
	}
}

func isBoolType(t types.Type) bool {
	b, ok := t.Underlying().(*types.Basic)
	return ok && b.Kind() == types.Bool
}
