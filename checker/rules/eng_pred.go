package rules

import (
	"fmt"
	"go/constant"
	"go/token"
	"go/types"
	"sync"

	"golang.org/x/tools/go/ssa"

	"verif/checker/core"
)

// Byte predicates: small pure functions `func(c byte) bool` (isDigit, isNameStart, isWhitespace …) that a
// refactoring extracts from inline comparisons. Their truth table is computed by evaluating the SSA body
// for each of the 256 byte values (constants, comparisons, boolean control flow, [256]bool table look-ups and
// calls of other byte predicates only); the call is then treated like a table look-up indexed by the argument.

var predCache sync.Map // predicate key (function + constant arguments) -> *predInfo

type predInfo struct {
	table *[256]bool
	param int // index of the byte parameter
}

func (e *Engine) bytePredicate(fn *ssa.Function) *predInfo { return e.bytePredicateAt(fn, nil) }

// bytePredicateAt: the predicate fn with the constant arguments of a call bound (is(c, digitClass|hexClass):
// args[1] is a constant, the byte parameter is the remaining one).
func (e *Engine) bytePredicateAt(fn *ssa.Function, args []ssa.Value) *predInfo {
	bound := map[int]constant.Value{}
	key := fmt.Sprintf("%p", fn)
	for i, a := range args {
		if k, ok := a.(*ssa.Const); ok && k.Value != nil && (k.Value.Kind() == constant.Int || k.Value.Kind() == constant.Bool) {
			bound[i] = k.Value
			key += fmt.Sprintf("|%d=%s", i, k.Value.ExactString())
		}
	}
	if v, ok := predCache.Load(key); ok {
		return v.(*predInfo)
	}
	info := computeBytePredicateBound(e, fn, bound, 0)
	predCache.Store(key, info)
	return info
}

func computeBytePredicate(e *Engine, fn *ssa.Function, depth int) *predInfo {
	return computeBytePredicateBound(e, fn, nil, depth)
}

func computeBytePredicateBound(e *Engine, fn *ssa.Function, bound map[int]constant.Value, depth int) *predInfo {
	none := &predInfo{}
	if fn == nil || len(fn.Blocks) == 0 || depth > 3 || fnPkg(fn) == nil || !core.InModule(fnPkg(fn)) {
		return none
	}
	res := fn.Signature.Results()
	if res.Len() != 1 {
		return none
	}
	if b, ok := res.At(0).Type().Underlying().(*types.Basic); !ok || b.Kind() != types.Bool {
		return none
	}
	pi := -1
	for i, p := range fn.Params {
		if _, isBound := bound[i]; isBound {
			continue
		}
		if b, ok := p.Type().Underlying().(*types.Basic); ok && (b.Kind() == types.Uint8) {
			if pi >= 0 {
				return none
			}
			pi = i
		} else if refs := p.Referrers(); refs != nil && len(*refs) > 0 {
			return none // another parameter is used
		}
	}
	if pi < 0 || len(fn.FreeVars) > 0 {
		return none
	}
	var tab [256]bool
	args := make([]constant.Value, len(fn.Params))
	for i, v := range bound {
		if i < len(args) {
			args[i] = v
		}
	}
	for c := 0; c < 256; c++ {
		args[pi] = constant.MakeInt64(int64(c))
		v, ok := evalPure(e, fn, args, depth)
		if !ok || v.Kind() != constant.Bool {
			return none
		}
		tab[c] = constant.BoolVal(v)
	}
	return &predInfo{table: &tab, param: pi}
}

// evalPure interprets the small pure function fn with its parameters bound to constants (nil: unused).
func evalPure(e *Engine, fn *ssa.Function, args []constant.Value, depth int) (constant.Value, bool) {
	rs, ok := evalPureTuple(e, fn, args, depth, 1)
	if !ok || len(rs) != 1 {
		return nil, false
	}
	return rs[0], true
}

// evalPureTuple: like evalPure for a function with nres results.
func evalPureTuple(e *Engine, fn *ssa.Function, args []constant.Value, depth int, nres int) ([]constant.Value, bool) {
	if fn == nil || len(fn.Blocks) == 0 || depth > 4 || fnPkg(fn) == nil || !core.InModule(fnPkg(fn)) || len(fn.FreeVars) > 0 {
		return nil, false
	}
	env := map[ssa.Value]constant.Value{}
	for i, p := range fn.Params {
		if i < len(args) && args[i] != nil {
			env[p] = args[i]
		}
	}
	get := func(v ssa.Value) (constant.Value, bool) {
		if k, ok := v.(*ssa.Const); ok {
			if k.Value == nil {
				return nil, false
			}
			return k.Value, true
		}
		x, ok := env[v]
		return x, ok
	}
	wrap := func(r constant.Value, t types.Type) constant.Value {
		if r.Kind() != constant.Int {
			return r
		}
		return wrapInt(r, t)
	}
	blk := fn.Blocks[0]
	var prev *ssa.BasicBlock
	for steps := 0; steps < 2000; steps++ {
		for _, in := range blk.Instrs {
			switch x := in.(type) {
			case *ssa.Phi:
				idx := -1
				for i, p := range blk.Preds {
					if p == prev {
						idx = i
					}
				}
				if idx < 0 {
					return nil, false
				}
				v, ok := get(x.Edges[idx])
				if !ok {
					return nil, false
				}
				env[x] = v
			case *ssa.BinOp:
				a, ok1 := get(x.X)
				b, ok2 := get(x.Y)
				if !ok1 || !ok2 {
					return nil, false
				}
				switch x.Op {
				case token.EQL, token.NEQ, token.LSS, token.LEQ, token.GTR, token.GEQ:
					if a.Kind() == constant.Bool || b.Kind() == constant.Bool {
						if (x.Op != token.EQL && x.Op != token.NEQ) || a.Kind() != b.Kind() {
							return nil, false
						}
						eq := constant.BoolVal(a) == constant.BoolVal(b)
						env[x] = constant.MakeBool(eq == (x.Op == token.EQL))
					} else {
						env[x] = constant.MakeBool(constant.Compare(constant.ToInt(a), x.Op, constant.ToInt(b)))
					}
				case token.ADD, token.SUB, token.AND, token.OR, token.XOR, token.MUL:
					env[x] = wrap(constant.BinaryOp(constant.ToInt(a), x.Op, constant.ToInt(b)), x.Type())
				case token.AND_NOT:
					nb := constant.UnaryOp(token.XOR, constant.ToInt(b), 0)
					env[x] = wrap(constant.BinaryOp(constant.ToInt(a), token.AND, nb), x.Type())
				case token.SHL, token.SHR:
					sh, exact := constant.Uint64Val(constant.ToInt(b))
					if !exact || sh > 64 {
						return nil, false
					}
					env[x] = wrap(constant.Shift(constant.ToInt(a), x.Op, uint(sh)), x.Type())
				default:
					return nil, false
				}
			case *ssa.UnOp:
				switch x.Op {
				case token.NOT:
					a, ok := get(x.X)
					if !ok || a.Kind() != constant.Bool {
						return nil, false
					}
					env[x] = constant.MakeBool(!constant.BoolVal(a))
				case token.MUL:
					ia, ok := x.X.(*ssa.IndexAddr)
					if !ok {
						return nil, false
					}
					g, ok := ia.X.(*ssa.Global)
					if !ok || e == nil {
						return nil, false
					}
					idx, ok2 := get(ia.Index)
					if !ok2 {
						return nil, false
					}
					i, _ := constant.Int64Val(constant.ToInt(idx))
					if i < 0 || i > 255 {
						return nil, false
					}
					if t := e.boolTable(g); t != nil {
						env[x] = constant.MakeBool(t[i])
					} else if it := e.intTable(g); it != nil {
						env[x] = constant.MakeInt64(it[i])
					} else {
						return nil, false
					}
				default:
					return nil, false
				}
			case *ssa.IndexAddr:
				// consumed by the load above
			case *ssa.Convert:
				a, ok := get(x.X)
				if !ok || a.Kind() != constant.Int {
					return nil, false
				}
				if !isAnyInt(x.Type()) {
					return nil, false
				}
				env[x] = wrap(a, x.Type())
			case *ssa.ChangeType:
				a, ok := get(x.X)
				if !ok {
					return nil, false
				}
				env[x] = a
			case *ssa.Call:
				callee := x.Call.StaticCallee()
				if callee == nil || x.Call.IsInvoke() {
					return nil, false
				}
				sub := make([]constant.Value, len(x.Call.Args))
				for i, a := range x.Call.Args {
					if v, ok := get(a); ok {
						sub[i] = v
					} else if i < len(callee.Params) {
						if refs := callee.Params[i].Referrers(); refs != nil && len(*refs) > 0 {
							return nil, false
						}
					}
				}
				r, ok := evalPure(e, callee, sub, depth+1)
				if !ok {
					return nil, false
				}
				env[x] = r
			case *ssa.If:
				cv, ok := get(x.Cond)
				if !ok || cv.Kind() != constant.Bool {
					return nil, false
				}
				prev = blk
				if constant.BoolVal(cv) {
					blk = blk.Succs[0]
				} else {
					blk = blk.Succs[1]
				}
			case *ssa.Jump:
				prev = blk
				blk = blk.Succs[0]
			case *ssa.Return:
				if len(x.Results) != nres {
					return nil, false
				}
				var out []constant.Value
				for _, rv := range x.Results {
					r, ok := get(rv)
					if !ok {
						return nil, false
					}
					out = append(out, r)
				}
				return out, true
			case *ssa.DebugRef:
			default:
				return nil, false
			}
		}
	}
	return nil, false
}

// byteFunction: a pure function of one byte that returns a small integer (digitValue(c), classOf(c)): its value table
// over all 256 bytes, computed like the truth table of a predicate; the call is then a [256]int table look-up.
var byteFnCache sync.Map // *ssa.Function -> *[256]int64 (nil: not such a function)

func (e *Engine) byteFunction(fn *ssa.Function) *[256]int64 {
	if v, ok := byteFnCache.Load(fn); ok {
		t, _ := v.(*[256]int64)
		return t
	}
	var out *[256]int64
	func() {
		if fn == nil || len(fn.Blocks) == 0 || len(fn.Blocks) > 24 || len(fn.Params) != 1 || len(fn.FreeVars) > 0 || fnPkg(fn) == nil || !core.InModule(fnPkg(fn)) {
			return
		}
		if !isByteType(fn.Params[0].Type()) || fn.Signature.Results().Len() != 1 {
			return
		}
		if b, ok := fn.Signature.Results().At(0).Type().Underlying().(*types.Basic); !ok || b.Info()&types.IsInteger == 0 {
			return
		}
		var t [256]int64
		for c := 0; c < 256; c++ {
			v, ok := evalPure(e, fn, []constant.Value{constant.MakeInt64(int64(c))}, 0)
			if !ok || v.Kind() != constant.Int {
				return
			}
			x, exact := constant.Int64Val(v)
			if !exact {
				return
			}
			t[c] = x
		}
		out = &t
	}()
	if out == nil {
		byteFnCache.Store(fn, (*[256]int64)(nil))
	} else {
		byteFnCache.Store(fn, out)
	}
	return out
}

// byteTupleFunction: a pure function of one byte with several integer/boolean results (numericPrefix(c) (base int,
// tt TokenType)): its results for each of the 256 bytes.
var byteTupCache sync.Map // *ssa.Function -> *[256][]int64

func (e *Engine) byteTupleFunction(fn *ssa.Function) *[256][]int64 {
	if v, ok := byteTupCache.Load(fn); ok {
		t, _ := v.(*[256][]int64)
		return t
	}
	var out *[256][]int64
	func() {
		if fn == nil || len(fn.Blocks) == 0 || len(fn.Blocks) > 32 || len(fn.Params) != 1 || len(fn.FreeVars) > 0 || fnPkg(fn) == nil || !core.InModule(fnPkg(fn)) {
			return
		}
		nres := fn.Signature.Results().Len()
		if !isByteType(fn.Params[0].Type()) || nres < 2 || nres > 4 {
			return
		}
		for i := 0; i < nres; i++ {
			if b, ok := fn.Signature.Results().At(i).Type().Underlying().(*types.Basic); !ok || b.Info()&(types.IsInteger|types.IsBoolean) == 0 {
				return
			}
		}
		var t [256][]int64
		for c := 0; c < 256; c++ {
			vs, ok := evalPureTuple(e, fn, []constant.Value{constant.MakeInt64(int64(c))}, 0, nres)
			if !ok {
				return
			}
			for _, v := range vs {
				switch v.Kind() {
				case constant.Int:
					x, exact := constant.Int64Val(v)
					if !exact {
						return
					}
					t[c] = append(t[c], x)
				case constant.Bool:
					if constant.BoolVal(v) {
						t[c] = append(t[c], 1)
					} else {
						t[c] = append(t[c], 0)
					}
				default:
					return
				}
			}
		}
		out = &t
	}()
	if out == nil {
		byteTupCache.Store(fn, (*[256][]int64)(nil))
	} else {
		byteTupCache.Store(fn, out)
	}
	return out
}
