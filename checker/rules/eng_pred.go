package rules

import (
	"go/constant"
	"go/token"
	"go/types"
	"sync"

	"golang.org/x/tools/go/ssa"

	"verif/checker/core"
)

// Byte predicates: small pure functions `func(c byte) bool` (isDigit, isNameStart, isWhitespace …) that a
// refactoring extracts from inline comparisons. Their truth table is computed by evaluating the SSA body
// for each of the 256 byte values (constants, comparisons, boolean control flow, [256]bool table look-ups and
// calls of other byte predicates only); the call is then treated like a table look-up indexed by the argument.

var predCache sync.Map // *ssa.Function -> *predInfo

type predInfo struct {
	table *[256]bool
	param int // index of the byte parameter
}

func (e *Engine) bytePredicate(fn *ssa.Function) *predInfo {
	if v, ok := predCache.Load(fn); ok {
		return v.(*predInfo)
	}
	info := computeBytePredicate(e, fn, 0)
	predCache.Store(fn, info)
	return info
}

func computeBytePredicate(e *Engine, fn *ssa.Function, depth int) *predInfo {
	none := &predInfo{}
	if fn == nil || len(fn.Blocks) == 0 || depth > 3 || fnPkg(fn) == nil || !core.InModule(fnPkg(fn)) {
		return none
	}
	res := fn.Signature.Results()
	if res.Len() != 1 {
		return none
	}
	if b, ok := res.At(0).Type().Underlying().(*types.Basic); !ok || b.Kind() != types.Bool {
		return none
	}
	pi := -1
	for i, p := range fn.Params {
		if b, ok := p.Type().Underlying().(*types.Basic); ok && (b.Kind() == types.Uint8) {
			if pi >= 0 {
				return none
			}
			pi = i
		} else if refs := p.Referrers(); refs != nil && len(*refs) > 0 {
			return none // another parameter is used
		}
	}
	if pi < 0 || len(fn.FreeVars) > 0 {
		return none
	}
	var tab [256]bool
	for c := 0; c < 256; c++ {
		v, ok := evalPred(e, fn, pi, int64(c), depth)
		if !ok {
			return none
		}
		tab[c] = v
	}
	return &predInfo{table: &tab, param: pi}
}

// evalPred interprets fn with its byte parameter bound to c.
func evalPred(e *Engine, fn *ssa.Function, pi int, c int64, depth int) (bool, bool) {
	env := map[ssa.Value]constant.Value{fn.Params[pi]: constant.MakeInt64(c)}
	get := func(v ssa.Value) (constant.Value, bool) {
		if k, ok := v.(*ssa.Const); ok {
			if k.Value == nil {
				return nil, false
			}
			return k.Value, true
		}
		x, ok := env[v]
		return x, ok
	}
	blk := fn.Blocks[0]
	var prev *ssa.BasicBlock
	for steps := 0; steps < 2000; steps++ {
		for _, in := range blk.Instrs {
			switch x := in.(type) {
			case *ssa.Phi:
				idx := -1
				for i, p := range blk.Preds {
					if p == prev {
						idx = i
					}
				}
				if idx < 0 {
					return false, false
				}
				v, ok := get(x.Edges[idx])
				if !ok {
					return false, false
				}
				env[x] = v
			case *ssa.BinOp:
				a, ok1 := get(x.X)
				b, ok2 := get(x.Y)
				if !ok1 || !ok2 {
					return false, false
				}
				switch x.Op {
				case token.EQL, token.NEQ, token.LSS, token.LEQ, token.GTR, token.GEQ:
					if a.Kind() == constant.Bool || b.Kind() == constant.Bool {
						if x.Op != token.EQL && x.Op != token.NEQ {
							return false, false
						}
						eq := constant.BoolVal(a) == constant.BoolVal(b)
						env[x] = constant.MakeBool(eq == (x.Op == token.EQL))
					} else {
						env[x] = constant.MakeBool(constant.Compare(constant.ToInt(a), x.Op, constant.ToInt(b)))
					}
				case token.ADD, token.SUB, token.AND, token.OR, token.XOR:
					r := constant.BinaryOp(constant.ToInt(a), x.Op, constant.ToInt(b))
					// wrap to the operand type when it is an unsigned 8-bit value
					if bt, ok := x.Type().Underlying().(*types.Basic); ok && bt.Kind() == types.Uint8 {
						r = constant.BinaryOp(r, token.AND, constant.MakeInt64(0xff))
					}
					env[x] = r
				default:
					return false, false
				}
			case *ssa.UnOp:
				switch x.Op {
				case token.NOT:
					a, ok := get(x.X)
					if !ok || a.Kind() != constant.Bool {
						return false, false
					}
					env[x] = constant.MakeBool(!constant.BoolVal(a))
				case token.MUL:
					ia, ok := x.X.(*ssa.IndexAddr)
					if !ok {
						return false, false
					}
					g, ok := ia.X.(*ssa.Global)
					if !ok || e == nil {
						return false, false
					}
					t := e.boolTable(g)
					idx, ok2 := get(ia.Index)
					if t == nil || !ok2 {
						return false, false
					}
					i, _ := constant.Int64Val(constant.ToInt(idx))
					if i < 0 || i > 255 {
						return false, false
					}
					env[x] = constant.MakeBool(t[i])
				default:
					return false, false
				}
			case *ssa.IndexAddr:
				// consumed by the load above
			case *ssa.Convert:
				a, ok := get(x.X)
				if !ok || a.Kind() != constant.Int {
					return false, false
				}
				if !isAnyInt(x.Type()) {
					return false, false
				}
				if bt, ok := x.Type().Underlying().(*types.Basic); ok && bt.Kind() == types.Uint8 {
					a = constant.BinaryOp(a, token.AND, constant.MakeInt64(0xff))
				}
				env[x] = a
			case *ssa.ChangeType:
				a, ok := get(x.X)
				if !ok {
					return false, false
				}
				env[x] = a
			case *ssa.Call:
				callee := x.Call.StaticCallee()
				if callee == nil || x.Call.IsInvoke() {
					return false, false
				}
				sub := computeBytePredicate(e, callee, depth+1)
				if sub.table == nil {
					return false, false
				}
				a, ok := get(x.Call.Args[sub.param])
				if !ok {
					return false, false
				}
				i, _ := constant.Int64Val(constant.ToInt(a))
				if i < 0 || i > 255 {
					return false, false
				}
				env[x] = constant.MakeBool(sub.table[i])
			case *ssa.If:
				cv, ok := get(x.Cond)
				if !ok || cv.Kind() != constant.Bool {
					return false, false
				}
				prev = blk
				if constant.BoolVal(cv) {
					blk = blk.Succs[0]
				} else {
					blk = blk.Succs[1]
				}
			case *ssa.Jump:
				prev = blk
				blk = blk.Succs[0]
			case *ssa.Return:
				if len(x.Results) != 1 {
					return false, false
				}
				r, ok := get(x.Results[0])
				if !ok || r.Kind() != constant.Bool {
					return false, false
				}
				return constant.BoolVal(r), true
			case *ssa.DebugRef:
			default:
				return false, false
			}
		}
	}
	return false, false
}
