package rules

// R-LAYOUT, reader side. The fixed-width reads of BinaryReader are checked in a way that does not depend on
// where the code sits: the value returned is followed through φ-nodes and through unexported composition
// helpers (le16(data), r.compose32(data)) to the OR-tree of shifted bytes; the byte slice of that tree is
// followed back — through an unexported "read exactly k bytes" helper returning `[]byte`, `([]byte, bool)`
// — to the ReadBytes call that produced it; the byte order that holds where the tree is built comes
// from guard atoms, in the helper's frame or, failing that, at its call site.

import (
	"fmt"
	"go/constant"
	"go/token"
	"go/types"
	"strings"

	"golang.org/x/tools/go/ssa"

	"verif/checker/core"
)

// layCase: one way a fixed-width read can return.
type layCase struct {
	fn    *ssa.Function   // frame in which the value is produced
	blk   *ssa.BasicBlock // block whose guards hold for this case
	edge  *ssa.BasicBlock // if non-nil the case is the edge blk -> edge (a φ operand)
	pos   token.Pos
	zero  bool             // the constant zero
	m     map[int64]int64  // byte index -> shift
	data  ssa.Value        // the slice indexed, in frame fn
	loads []*ssa.IndexAddr // the byte loads
	via   []*ssa.Call      // calls through which the case was reached (outermost first)
	other string           // not recognised: reason
	// decoding through encoding/binary (order.Uint16(data)): the library composes the bytes (m is its documented
	// layout) and indexes data[width-1] itself, so len(data) >= needLen must hold at the call; orderOv is the byte
	// order that the guards of the place where the order value was chosen imply
	needLen int64
	orderOv string
	stdCall *ssa.Call // the library call, in frame fn
}

// stdDecodeCall: c is X.Uint16/32/64(data) of encoding/binary: the width, the data, the receiver (interface calls) or
// the fixed order (calls on binary.LittleEndian / binary.BigEndian themselves).
func stdDecodeCall(c *ssa.Call) (width int64, data, recv ssa.Value, fixed string, ok bool) {
	widths := map[string]int64{"Uint16": 2, "Uint32": 4, "Uint64": 8}
	if c.Call.IsInvoke() {
		n, isN := c.Call.Value.Type().(*types.Named)
		if !isN || n.Obj().Pkg() == nil || n.Obj().Pkg().Path() != "encoding/binary" || n.Obj().Name() != "ByteOrder" || len(c.Call.Args) != 1 {
			return
		}
		w, has := widths[c.Call.Method.Name()]
		return w, c.Call.Args[0], c.Call.Value, "", has
	}
	f := c.Call.StaticCallee()
	if f == nil || f.Pkg == nil || f.Pkg.Pkg.Path() != "encoding/binary" || f.Signature.Recv() == nil || len(c.Call.Args) != 2 {
		return
	}
	w, has := widths[f.Name()]
	switch recvName(f) {
	case "littleEndian":
		fixed = "LittleEndian"
	case "bigEndian":
		fixed = "BigEndian"
	default:
		return
	}
	return w, c.Call.Args[1], nil, fixed, has
}

func stdLayout(order string, width int64) map[int64]int64 {
	m := map[int64]int64{}
	for i := int64(0); i < width; i++ {
		if order == "LittleEndian" {
			m[i] = 8 * i
		} else {
			m[i] = 8 * (width - 1 - i)
		}
	}
	return m
}

// orderLeaf: one way a binary.ByteOrder value is chosen: which of the two library orders, and the place whose guards
// decide that choice.
type orderLeaf struct {
	order string
	blk   *ssa.BasicBlock
	edge  *ssa.BasicBlock
	bad   string
}

func orderLeaves(v ssa.Value, blk, edge *ssa.BasicBlock, depth int) []orderLeaf {
	if mi, ok := v.(*ssa.MakeInterface); ok {
		v = mi.X
	}
	if u, ok := v.(*ssa.UnOp); ok && u.Op == token.MUL {
		if g, ok := u.X.(*ssa.Global); ok && g.Pkg != nil && g.Pkg.Pkg.Path() == "encoding/binary" && (g.Name() == "LittleEndian" || g.Name() == "BigEndian") {
			return []orderLeaf{{order: g.Name(), blk: blk, edge: edge}}
		}
	}
	if depth < 3 {
		if ph, ok := v.(*ssa.Phi); ok {
			var out []orderLeaf
			for i, e := range ph.Edges {
				out = append(out, orderLeaves(e, ph.Block().Preds[i], ph.Block(), depth+1)...)
			}
			return out
		}
		if c, ok := v.(*ssa.Call); ok {
			if h := c.Call.StaticCallee(); h != nil && fnPkg(h) != nil && core.InModule(fnPkg(h)) && len(h.Blocks) > 0 && h.Signature.Results().Len() == 1 {
				var out []orderLeaf
				for _, b := range h.Blocks {
					if ret, isRet := lastInstr(b).(*ssa.Return); isRet {
						out = append(out, orderLeaves(ret.Results[0], b, nil, depth+1)...)
					}
				}
				return out
			}
		}
	}
	return []orderLeaf{{bad: "the byte order handed to encoding/binary is not one of binary.LittleEndian / binary.BigEndian chosen under a test of the ByteOrder field"}}
}

// orTermsV: like orTerms, also collects the slice value and the IndexAddr instructions.
func orTermsV(v ssa.Value, out map[int64]int64, data *ssa.Value, loads *[]*ssa.IndexAddr) bool {
	v = stripConv(v)
	load := func(x ssa.Value, shift int64) bool {
		x = stripConv(x)
		u, ok := x.(*ssa.UnOp)
		if !ok || u.Op != token.MUL {
			return false
		}
		ia, ok := u.X.(*ssa.IndexAddr)
		if !ok {
			return false
		}
		i := linOf(ia.Index)
		if !i.isConst() {
			return false
		}
		if *data != nil && *data != ia.X {
			return false
		}
		*data = ia.X
		if _, dup := out[i.C]; dup {
			return false
		}
		out[i.C] = shift
		*loads = append(*loads, ia)
		return true
	}
	switch x := v.(type) {
	case *ssa.BinOp:
		if x.Op == token.OR || x.Op == token.ADD || x.Op == token.XOR {
			return orTermsV(x.X, out, data, loads) && orTermsV(x.Y, out, data, loads)
		}
		if x.Op == token.SHL {
			s := linOf(x.Y)
			if !s.isConst() {
				return false
			}
			return load(x.X, s.C)
		}
	case *ssa.UnOp:
		return load(x, 0)
	}
	return false
}

func isZeroConst(v ssa.Value) bool {
	c, ok := v.(*ssa.Const)
	return ok && c.Value != nil && c.Int64() == 0
}

// valueCases expands the value v, used at the end of block blk of fn, into cases.
func valueCases(r *core.Run, fn *ssa.Function, v ssa.Value, blk, edge *ssa.BasicBlock, pos token.Pos, via []*ssa.Call, depth int) []layCase {
	base := layCase{fn: fn, blk: blk, edge: edge, pos: pos, via: via}
	sv := stripConv(v)
	if isZeroConst(sv) {
		base.zero = true
		return []layCase{base}
	}
	if ph, ok := sv.(*ssa.Phi); ok && depth < 4 {
		var out []layCase
		for i, e := range ph.Edges {
			out = append(out, valueCases(r, fn, e, ph.Block().Preds[i], ph.Block(), pos, via, depth+1)...)
		}
		return out
	}
	if c, ok := sv.(*ssa.Call); ok && depth < 4 {
		if h := c.Call.StaticCallee(); h != nil && fnPkg(h) != nil && core.InModule(fnPkg(h)) && len(h.Blocks) > 0 && (h.Object() == nil || !h.Object().Exported()) && h.Signature.Results().Len() == 1 {
			var out []layCase
			for _, b := range h.Blocks {
				if ret, isRet := lastInstr(b).(*ssa.Return); isRet {
					out = append(out, valueCases(r, h, ret.Results[0], b, nil, ret.Pos(), append(append([]*ssa.Call{}, via...), c), depth+1)...)
				}
			}
			return out
		}
	}
	// one result of a tuple-returning method of the same reader (v, _ := r.ReadByte()): the corresponding result of
	// each of its returns
	if ex, ok := sv.(*ssa.Extract); ok && depth < 4 {
		if c, isCall := ex.Tuple.(*ssa.Call); isCall && !c.Call.IsInvoke() {
			h := c.Call.StaticCallee()
			if h != nil && fnPkg(h) != nil && core.InModule(fnPkg(h)) && len(h.Blocks) > 0 && h.Signature.Recv() != nil && fn.Signature.Recv() != nil && recvName(h) == recvName(fn) && h != fn {
				var out []layCase
				for _, b := range h.Blocks {
					if ret, isRet := lastInstr(b).(*ssa.Return); isRet && ex.Index < len(ret.Results) {
						out = append(out, valueCases(r, h, ret.Results[ex.Index], b, nil, ret.Pos(), append(append([]*ssa.Call{}, via...), c), depth+1)...)
					}
				}
				if len(out) > 0 {
					return out
				}
			}
		}
	}
	if c, ok := sv.(*ssa.Call); ok {
		if width, ddata, recv, fixed, isStd := stdDecodeCall(c); isStd {
			if fixed != "" {
				// binary.LittleEndian.Uint16(data) under whatever guards hold here
				cs := base
				cs.m, cs.data, cs.needLen, cs.stdCall = stdLayout(fixed, width), ddata, width, c
				return []layCase{cs}
			}
			var out []layCase
			for _, lf := range orderLeaves(recv, blk, edge, 0) {
				cs := base
				if lf.bad != "" {
					cs.other = lf.bad
					out = append(out, cs)
					continue
				}
				at := guardsAt(lf.blk)
				if lf.edge != nil {
					at = append(at, edgeAtoms(lf.blk, lf.edge, 0)...)
				}
				cs.orderOv = orderOfAtoms(at)
				if cs.orderOv == "" {
					cs.orderOv = "BigEndian" // the code's default when ByteOrder is not LittleEndian
				}
				cs.m, cs.data, cs.needLen, cs.stdCall = stdLayout(lf.order, width), ddata, width, c
				out = append(out, cs)
			}
			return out
		}
	}
	m := map[int64]int64{}
	var data ssa.Value
	var loads []*ssa.IndexAddr
	if orTermsV(sv, m, &data, &loads) && data != nil {
		base.m, base.data, base.loads = m, data, loads
		return []layCase{base}
	}
	base.other = "result is neither zero nor an OR of shifted bytes data[i]<<s with constant, distinct indices of one slice"
	return []layCase{base}
}

// caseAtoms: guard atoms that hold for the case in its own frame.
func (c layCase) atoms() []condAtom {
	out := guardsAt(c.blk)
	if c.edge != nil {
		out = append(out, edgeAtoms(c.blk, c.edge, 0)...)
	}
	return out
}

func (c layCase) facts() []Fact {
	if c.edge != nil {
		return edgeFacts(c.blk, c.edge)
	}
	return blockFacts(c.blk)
}

func orderOfAtoms(atoms []condAtom) string {
	endian := func(v ssa.Value) string {
		if mi, ok := v.(*ssa.MakeInterface); ok {
			if u, ok := mi.X.(*ssa.UnOp); ok {
				if g, ok := u.X.(*ssa.Global); ok && g.Pkg.Pkg.Path() == "encoding/binary" {
					return g.Name()
				}
			}
		}
		return ""
	}
	other := map[string]string{"LittleEndian": "BigEndian", "BigEndian": "LittleEndian"}
	for _, a := range atoms {
		if a.call != nil {
			// a predicate such as r.littleEndian(): its single return is the comparison with the byte-order value
			if g := a.call.Call.StaticCallee(); g != nil && len(g.Blocks) == 1 {
				if ret, ok := lastInstr(g.Blocks[0]).(*ssa.Return); ok && len(ret.Results) == 1 {
					if o := orderOfAtoms(condAtoms(ret.Results[0], a.truth, 0)); o != "" {
						return o
					}
				}
			}
			continue
		}
		e := endian(a.x)
		if e == "" {
			e = endian(a.y)
		}
		if e == "" {
			continue
		}
		switch a.op {
		case token.EQL:
			return e
		case token.NEQ:
			return other[e]
		}
	}
	return ""
}

// order: the byte order that holds for the case: in its own frame, else at the calls that lead to it (innermost first).
func (c layCase) order() string {
	if c.orderOv != "" {
		return c.orderOv
	}
	if o := orderOfAtoms(c.atoms()); o != "" {
		return o
	}
	for i := len(c.via) - 1; i >= 0; i-- {
		if o := orderOfAtoms(guardsAt(c.via[i].Block())); o != "" {
			return o
		}
	}
	return ""
}

// boolKnown: boolean SSA values whose truth is fixed whenever block b executes (plain `if ok` / `if !ok` tests).
func boolKnown(b, edge *ssa.BasicBlock) map[ssa.Value]bool {
	out := map[ssa.Value]bool{}
	add := func(cond ssa.Value, truth bool) {
		for {
			if u, ok := cond.(*ssa.UnOp); ok && u.Op == token.NOT {
				cond, truth = u.X, !truth
				continue
			}
			break
		}
		out[cond] = truth
	}
	step := func(d, p *ssa.BasicBlock) {
		if iff, ok := lastInstr(d).(*ssa.If); ok && d.Succs[0] != d.Succs[1] {
			add(iff.Cond, d.Succs[0] == p)
		}
	}
	if edge != nil {
		step(b, edge)
	}
	for p := b; p != nil; p = p.Idom() {
		d := p.Idom()
		if d == nil {
			break
		}
		if len(p.Preds) == 1 && p.Preds[0] == d {
			step(d, p)
		}
	}
	return out
}

// readSource: the origin of a byte slice.
type readSource struct {
	rb     *ssa.Call     // the ReadBytes call
	width  Lin           // its length argument, in the frame of the value asked about
	helper *ssa.Function // the "read exactly k" helper the slice came through (nil: direct)
	hcall  *ssa.Call     // the call of that helper
	okIdx  int           // index of the helper's bool result, -1 if none
	why    string        // failure reason
}

func isReadBytesCall(c *ssa.Call) bool {
	f := c.Call.StaticCallee()
	return f != nil && f.Name() == "ReadBytes" && f.Signature.Recv() != nil && len(c.Call.Args) == 2
}

func sliceSource(data ssa.Value) readSource {
	switch d := data.(type) {
	case *ssa.Call:
		if isReadBytesCall(d) {
			return readSource{rb: d, width: linOf(d.Call.Args[1]), okIdx: -1}
		}
		return helperSource(d, 0)
	case *ssa.Extract:
		if c, ok := d.Tuple.(*ssa.Call); ok {
			return helperSource(c, d.Index)
		}
	}
	return readSource{why: "the bytes composed do not come from a ReadBytes call (directly or through an unexported helper)"}
}

func helperSource(c *ssa.Call, ri int) readSource {
	h := c.Call.StaticCallee()
	if h == nil || fnPkg(h) == nil || !core.InModule(fnPkg(h)) || len(h.Blocks) == 0 || (h.Object() != nil && h.Object().Exported()) {
		return readSource{why: "the bytes composed come from a call that is not an unexported module helper"}
	}
	var rb *ssa.Call
	for _, b := range h.Blocks {
		for _, in := range b.Instrs {
			if cc, ok := in.(*ssa.Call); ok && isReadBytesCall(cc) {
				if rb != nil {
					return readSource{why: "helper " + h.Name() + " calls ReadBytes more than once"}
				}
				rb = cc
			}
		}
	}
	if rb == nil {
		return readSource{why: "helper " + h.Name() + " does not call ReadBytes"}
	}
	// every returned slice is the ReadBytes result or nil
	okIdx := -1
	res := h.Signature.Results()
	for i := 0; i < res.Len(); i++ {
		if b, isB := res.At(i).Type().Underlying().(*types.Basic); isB && b.Kind() == types.Bool {
			okIdx = i
		}
	}
	for _, b := range h.Blocks {
		ret, ok := lastInstr(b).(*ssa.Return)
		if !ok {
			continue
		}
		for _, leaf := range phiLeaves(ret.Results[ri], 0) {
			if leaf == ssa.Value(rb) {
				continue
			}
			if k, isK := leaf.(*ssa.Const); isK && k.Value == nil {
				continue
			}
			return readSource{why: "helper " + h.Name() + " returns a slice that is neither its ReadBytes result nor nil"}
		}
	}
	w, okW := substParams(linOf(rb.Call.Args[1]), h, c.Call.Args)
	if !okW {
		return readSource{why: "the length argument of ReadBytes in " + h.Name() + " is not expressible at the call site"}
	}
	return readSource{rb: rb, width: w, helper: h, hcall: c, okIdx: okIdx}
}

func phiLeaves(v ssa.Value, depth int) []ssa.Value {
	if ph, ok := v.(*ssa.Phi); ok && depth < 4 {
		var out []ssa.Value
		for _, e := range ph.Edges {
			out = append(out, phiLeaves(e, depth+1)...)
		}
		return out
	}
	return []ssa.Value{v}
}

// helperFailsOnlyWhenShort: in the helper, every return that reports failure (nil slice / false) is guarded by
// len(data) < k.
func helperFailsOnlyWhenShort(src readSource, ri int) (bool, string) {
	h := src.helper
	lenAtom := linAtom("len(%" + src.rb.Name() + ")")
	k := linOf(src.rb.Call.Args[1])
	short := k.add(lenAtom, -1).add(linConst(1), -1) // k - len - 1 >= 0
	for _, b := range h.Blocks {
		ret, ok := lastInstr(b).(*ssa.Return)
		if !ok {
			continue
		}
		fails := false
		var extra []Fact
		if kk, isK := ret.Results[ri].(*ssa.Const); isK && kk.Value == nil {
			fails = true
		}
		if src.okIdx >= 0 {
			bv := ret.Results[src.okIdx]
			if kk, isK := bv.(*ssa.Const); isK {
				if kk.Value != nil && kk.Value.String() == "false" {
					fails = true
				}
			} else {
				// `return data, len(data) >= k`: failure is the comparison being false
				fails = true
				extra = factsOfCond(bv, false)
				if extra == nil {
					return false, fmt.Sprintf("helper %s returns a success flag that is not a comparison of the length read", h.Name())
				}
			}
		}
		if !fails {
			continue
		}
		fs := append(blockFacts(b), extra...)
		if !entails(strengthen(fs), short) {
			return false, fmt.Sprintf("helper %s reports failure under %v, which does not imply that fewer bytes than asked were read", h.Name(), factStrings(fs))
		}
	}
	return true, ""
}

func layoutReaders(r *core.Run) int {
	n := 0
	for _, tc := range []struct {
		name  string
		width int64
	}{{"ReadUint16", 2}, {"ReadUint24", 3}, {"ReadUint32", 4}, {"ReadUint64", 8}, {"ReadUint8", 1}, {"ReadByte", 1}} {
		fn := r.Prog.SSAFunc("", "BinaryReader", tc.name)
		if fn == nil {
			r.BrokenAnchor("parse.BinaryReader." + tc.name)
			continue
		}
		var cases []layCase
		for _, b := range fn.Blocks {
			if ret, ok := lastInstr(b).(*ssa.Return); ok {
				cases = append(cases, valueCases(r, fn, ret.Results[0], b, nil, ret.Pos(), nil, 0)...)
			}
		}
		unread := false
		for _, c := range cases {
			if c.other != "" {
				unread = true
			}
		}
		if unread {
			// the composition may be a loop over the width in a shared helper (readUint(size)): read it off the helper's
			// paths with the width bound to the constant of this call (peval.go)
			if k, ok := peLayoutCheck(r, tc.name, tc.width, fn); ok {
				n += k
				continue
			}
		}
		composed := 0
		widthSeen := map[*ssa.Call]bool{}
		for _, c := range cases {
			if c.other != "" {
				r.Unknown(tc.name+" composition", c.pos, c.other)
				continue
			}
			if c.zero {
				continue
			}
			composed++
			n++
			order := c.order()
			if order == "" {
				order = "BigEndian" // the code's default when ByteOrder is not LittleEndian
			}
			lay := layoutName(c.m, tc.width)
			tag := tc.name + " " + order
			if tc.width == 1 {
				tag = tc.name
			}
			if tc.width > 1 {
				r.Check(lay == order || lay == "both", tag+" layout", c.pos, fmt.Sprint(c.m),
					fmt.Sprintf("bytes are combined as index->shift %v on the %s path, which is %s", c.m, order, lay))
			} else {
				r.Check(lay == "both", tag+" value", c.pos, "", fmt.Sprintf("a single-byte read must return data[0], found index->shift %v", c.m))
			}
			// where do the bytes come from? (in the frame of the composing function; translate through helper parameters)
			data := c.data
			for i := len(c.via) - 1; i >= 0; i-- {
				p, isP := data.(*ssa.Parameter)
				if !isP {
					break
				}
				h := c.via[i].Call.StaticCallee()
				idx := -1
				for j, q := range h.Params {
					if q == p {
						idx = j
					}
				}
				if idx < 0 || idx >= len(c.via[i].Call.Args) {
					break
				}
				data = c.via[i].Call.Args[idx]
			}
			src := sliceSource(data)
			if src.rb == nil {
				r.Unknown(tc.name+" shape", c.pos, src.why)
				continue
			}
			key := src.rb
			if src.hcall != nil {
				key = src.hcall
			}
			if !widthSeen[key] {
				widthSeen[key] = true
				r.Check(src.width.isConst() && src.width.C == tc.width, tc.name+" reads width bytes", key.Pos(), "", fmt.Sprintf("ReadBytes(%s) for a %d-byte integer", src.width, tc.width))
			}
			// every byte load is in range: the bounds engine's verdict (guards, helper summaries), else the affine facts of the frame
			okB := true
			var why string
			for _, ia := range c.loads {
				if boundsProven(r.Prog, c.fn, ia) {
					continue
				}
				fs := c.facts()
				need := linAtom("len("+canon(ia.X)+")").add(linOf(ia.Index), -1).add(linConst(1), -1)
				if entails(fs, need) {
					continue
				}
				// a composition helper indexes its parameter: the caller must know the length
				proved := false
				if p, isP := ia.X.(*ssa.Parameter); isP && len(c.via) > 0 {
					call := c.via[len(c.via)-1]
					h := call.Call.StaticCallee()
					for j, q := range h.Params {
						if q == p && j < len(call.Call.Args) {
							cf := blockFacts(call.Block())
							need2 := linAtom("len("+canon(call.Call.Args[j])+")").add(linOf(ia.Index), -1).add(linConst(1), -1)
							proved = entails(cf, need2)
						}
					}
				}
				if !proved {
					okB = false
					why = fmt.Sprintf("data[%s] is read under %v, which does not imply len(data) > %s: a back end that returns fewer bytes (an empty non-nil slice together with io.EOF) makes this index out of range", linOf(ia.Index), factStrings(fs), linOf(ia.Index))
				}
			}
			if c.needLen > 0 {
				// the library indexes data[needLen-1] before anything else
				need := linAtom("len("+canon(data)+")").add(linConst(c.needLen), -1)
				if fs := c.facts(); !entails(fs, need) && !(c.stdCall != nil && boundsLenAtLeast(r.Prog, c.fn, c.stdCall, c.data, c.needLen)) {
					okB = false
					why = fmt.Sprintf("encoding/binary reads %d bytes of data under %v, which does not imply len(data) >= %d: a short read makes the library panic (index out of range)", c.needLen, factStrings(fs), c.needLen)
				}
			}
			r.Check(okB, tag+" bounds", c.pos, "", why)
		}
		if composed == 0 {
			r.Unknown(tc.name+" shape", fn.Pos(), "no return composes bytes obtained from ReadBytes")
			continue
		}
		// zero is returned only when fewer than width bytes were read
		for _, c := range cases {
			if !c.zero {
				continue
			}
			key := tc.name + " short-read guard"
			if c.fn != fn {
				// the zero is produced inside a helper that reads the bytes itself (v, _ := r.ReadByte()): judged in the
				// helper's own frame, where the read and its length test are
				if ok, _ := zeroOnlyWhenShort(c.fn, c, tc.width); ok {
					r.OK(key, c.pos, "in helper "+c.fn.Name())
					continue
				}
				r.Unknown(key, c.pos, "zero is produced inside helper "+c.fn.Name()+": not modelled")
				continue
			}
			ok, why := zeroOnlyWhenShort(fn, c, tc.width)
			r.Check(ok, key, c.pos, "", why)
		}
	}
	return n
}

// zeroOnlyWhenShort: the zero case of fn is guarded by "fewer than width bytes were read": directly by
// len(data) < width on the ReadBytes result, or by the failure report (nil / false) of a helper that fails only
// when short.
func zeroOnlyWhenShort(fn *ssa.Function, c layCase, width int64) (bool, string) {
	fs := c.facts()
	// direct: some ReadBytes call of fn whose length is known short
	for _, b := range fn.Blocks {
		for _, in := range b.Instrs {
			cc, ok := in.(*ssa.Call)
			if !ok {
				continue
			}
			if isReadBytesCall(cc) {
				goal := linConst(width-1).add(linAtom("len(%"+cc.Name()+")"), -1)
				if entails(fs, goal) {
					return true, ""
				}
				continue
			}
			// helper
			h := cc.Call.StaticCallee()
			if h == nil || fnPkg(h) == nil || !core.InModule(fnPkg(h)) || (h.Object() != nil && h.Object().Exported()) {
				continue
			}
			ri := -1
			for i := 0; i < h.Signature.Results().Len(); i++ {
				if _, isS := h.Signature.Results().At(i).Type().Underlying().(*types.Slice); isS {
					ri = i
				}
			}
			if ri < 0 {
				continue
			}
			src := helperSource(cc, ri)
			if src.rb == nil {
				continue
			}
			// is the helper's failure known here?
			failed := false
			known := boolKnown(c.blk, c.edge)
			var sliceVal, okVal ssa.Value
			if h.Signature.Results().Len() == 1 {
				sliceVal = cc
			} else {
				for _, ref := range *cc.Referrers() {
					if x, isX := ref.(*ssa.Extract); isX {
						if x.Index == ri {
							sliceVal = x
						}
						if x.Index == src.okIdx {
							okVal = x
						}
					}
				}
			}
			if okVal != nil {
				if t, has := known[okVal]; has && !t {
					failed = true
				}
			}
			for _, a := range c.atoms() {
				if a.op != token.EQL || sliceVal == nil {
					continue
				}
				for _, pr := range [][2]ssa.Value{{a.x, a.y}, {a.y, a.x}} {
					if k, isK := pr[1].(*ssa.Const); isK && k.Value == nil && pr[0] == sliceVal {
						failed = true
					}
				}
				// len(data) == 0 is not a failure report
			}
			if !failed {
				// the helper's slice may also be tested by length in the caller
				if sliceVal != nil {
					goal := linConst(width-1).add(linAtom("len("+canon(sliceVal)+")"), -1)
					if entails(fs, goal) {
						if k, okK := substParams(linOf(src.rb.Call.Args[1]), h, cc.Call.Args); okK && k.isConst() && k.C == width {
							return true, ""
						}
					}
				}
				continue
			}
			return helperFailsOnlyWhenShort(src, ri)
		}
	}
	return false, fmt.Sprintf("zero is returned under %v, expected exactly: fewer than %d bytes were read", factStrings(fs), width)
}

// peLayoutCheck: `return uintN(r.helper(K))` where the helper reads K bytes and composes them in a loop over its
// size parameter. With the size bound to K every loop is concrete; the helper's paths give, per byte order, the
// composed index->shift map, and the conditions on the number of bytes read under which zero / the composition is
// returned. Checked: the bytes come from ReadBytes(K); each composing path's layout matches the byte order the path
// assumed; the composition is returned only when at least K bytes were read (so every index is in range) and zero
// only when fewer were. Returns the number of composing cases decided, and whether the method has this shape.
func peLayoutCheck(r *core.Run, name string, width int64, fn *ssa.Function) (int, bool) {
	var call *ssa.Call
	for _, b := range fn.Blocks {
		ret, ok := lastInstr(b).(*ssa.Return)
		if !ok || len(ret.Results) == 0 {
			continue
		}
		c, isCall := stripConv(ret.Results[0]).(*ssa.Call)
		if !isCall || call != nil {
			return 0, false
		}
		call = c
	}
	if call == nil || call.Call.IsInvoke() {
		return 0, false
	}
	h := call.Call.StaticCallee()
	if h == nil || h.Signature.Recv() == nil || recvName(h) != recvName(fn) || (h.Object() != nil && h.Object().Exported()) || len(call.Call.Args) < 2 {
		return 0, false
	}
	bind := map[int]interface{}{}
	for i, a := range call.Call.Args[1:] {
		k, isK := a.(*ssa.Const)
		if !isK || !ssaIntConst(k) {
			return 0, false
		}
		bind[i+1] = k.Value
	}
	paths, ok := peFunc(r, h, bind)
	if !ok || len(paths) == 0 {
		return 0, false
	}
	composed := 0
	for _, pt := range paths {
		if pt.outcome != "return" || len(pt.ret) != 1 {
			r.Unknown(name+" composition", call.Pos(), "a path of "+h.Name()+" does not end in a return of one value")
			return 0, true
		}
		// what the path assumed
		order := ""
		short, enough := false, false
		for _, c := range pt.conds {
			switch {
			case strings.HasPrefix(c.sym, "order="):
				o := strings.TrimPrefix(c.sym, "order=")
				if c.op == token.NEQ {
					o = map[string]string{"LittleEndian": "BigEndian", "BigEndian": "LittleEndian"}[o]
				}
				order = o
			case strings.HasPrefix(c.sym, "len:"):
				// len(data) op k
				switch {
				case c.op == token.LSS && c.k <= width, c.op == token.LEQ && c.k < width:
					short = true
				case c.op == token.GEQ && c.k >= width, c.op == token.GTR && c.k >= width-1:
					enough = true
				}
			}
		}
		// the read: ReadBytes(width)
		var rb *peEvent
		for i := range pt.events {
			if pt.events[i].name == "ReadBytes" {
				rb = &pt.events[i]
			}
		}
		if rb == nil || len(rb.args) != 2 {
			r.Unknown(name+" shape", call.Pos(), "no ReadBytes call on a path of "+h.Name())
			return 0, true
		}
		if k, isK := peInt(rb.args[1]); !isK || k != width {
			r.Fail(name+" reads width bytes", rb.pos, fmt.Sprintf("ReadBytes is not called with %d for a %d-byte integer", width, width))
			continue
		}
		switch v := pt.ret[0].(type) {
		case constant.Value:
			z, isZ := peInt(v)
			r.Check(isZ && z == 0 && short, name+" short-read guard", call.Pos(), "", "a constant is returned on a path that has not established that fewer than the width bytes were read")
		case pTerm:
			composed++
			if order == "" {
				order = "BigEndian"
			}
			lay := layoutName(v.m, width)
			tag := name + " " + order
			if width > 1 {
				r.Check(lay == order || lay == "both", tag+" layout", call.Pos(), fmt.Sprint(v.m), fmt.Sprintf("bytes are combined as index->shift %v on the %s path, which is %s", v.m, order, lay))
			} else {
				r.Check(lay == "both", name+" value", call.Pos(), "", fmt.Sprintf("a single-byte read must return data[0], found index->shift %v", v.m))
			}
			src, isCall := v.data.(*ssa.Call)
			fromRead := isCall && src.Pos() == rb.pos
			r.Check(fromRead, tag+" composes the bytes that were read", call.Pos(), "", "the composed bytes do not come from the ReadBytes result")
			r.Check(enough, tag+" bounds", call.Pos(), "", fmt.Sprintf("the bytes are indexed on a path that has not established len(data) >= %d: a back end that returns fewer bytes makes an index out of range", width))
		default:
			r.Unknown(name+" composition", call.Pos(), "result of "+h.Name()+" is neither zero nor an OR of shifted bytes of the slice that was read")
		}
	}
	r.Check(composed > 0, name+" composes bytes", call.Pos(), "", "no path of "+h.Name()+" composes the bytes read")
	return composed, true
}
