package rules

// R-SCOPEORDER — ECMAScript evaluates some parts of a construct in the *enclosing* scope although the construct
// opens a scope of its own: the discriminant of `switch (e) { … }` (14.12: only the CaseBlock gets the new
// declarative environment) and the computed name of a method `[e]() { … }` (15.4: the name is evaluated before the
// function environment exists). In the parser this is an ordering fact: the expression that becomes such a field
// must be parsed before the construct's scope is entered — otherwise identifiers in it are resolved (and
// `let`/`const` shadowing is applied) in the wrong scope. The table below is transcribed from the specification.

import (
	"fmt"
	"go/types"

	"golang.org/x/tools/go/ssa"

	"verif/checker/core"
)

func init() {
	register(&Rule{ID: "R-SCOPEORDER", Props: []string{"C04"}, Doc: "js parser: parts of a construct that ECMAScript evaluates in the enclosing scope are parsed before the construct's own scope is entered", Run: runScopeOrder})
}

// node type -> fields evaluated in the enclosing scope
var outsideOwnScope = map[string][]string{
	"SwitchStmt": {"Init"},
	"MethodDecl": {"Name"},
}

// allocRoot: the Alloc a chain of FieldAddr is rooted at, and the first field of the chain.
func allocRoot(v ssa.Value) (*ssa.Alloc, int, bool) {
	first := -1
	for depth := 0; depth < 6; depth++ {
		switch x := v.(type) {
		case *ssa.FieldAddr:
			first = x.Field
			v = x.X
		case *ssa.Alloc:
			return x, first, first >= 0
		default:
			return nil, 0, false
		}
	}
	return nil, 0, false
}

// producingCalls: the call instructions of the same function whose results flow into v.
func producingCalls(v ssa.Value, depth int, out *[]*ssa.Call) {
	if depth > 5 {
		return
	}
	switch x := v.(type) {
	case *ssa.Call:
		*out = append(*out, x)
	case *ssa.Extract:
		producingCalls(x.Tuple, depth+1, out)
	case *ssa.MakeInterface:
		producingCalls(x.X, depth+1, out)
	case *ssa.ChangeInterface:
		producingCalls(x.X, depth+1, out)
	case *ssa.ChangeType:
		producingCalls(x.X, depth+1, out)
	case *ssa.Phi:
		for _, e := range x.Edges {
			producingCalls(e, depth+1, out)
		}
	case *ssa.UnOp:
		producingCalls(x.X, depth+1, out)
	}
}

func runScopeOrder(r *core.Run) {
	n := 0
	for _, fn := range parserFuncs(r) {
		for _, b := range fn.Blocks {
			for _, in := range b.Instrs {
				enter, ok := in.(*ssa.Call)
				if !ok || scopeEnterVal(enter, 0) == nil || len(enter.Call.Args) < 2 {
					continue
				}
				// the scope that is entered: the *Scope argument (of enterScope, or of a wrapper such as enterFunc(&m.Body.Scope, …))
				var scopeArg ssa.Value
				for _, a := range enter.Call.Args[1:] {
					if isScopePtr(a.Type()) {
						scopeArg = a
						break
					}
				}
				if scopeArg == nil {
					continue
				}
				node, _, rooted := allocRoot(scopeArg)
				if !rooted {
					continue
				}
				nt, _ := derefType(node.Type()).(*types.Named)
				if nt == nil {
					continue
				}
				fields := outsideOwnScope[nt.Obj().Name()]
				if len(fields) == 0 {
					continue
				}
				st, _ := nt.Underlying().(*types.Struct)
				for _, fname := range fields {
					fidx := -1
					for i := 0; st != nil && i < st.NumFields(); i++ {
						if st.Field(i).Name() == fname {
							fidx = i
						}
					}
					if fidx < 0 {
						r.BrokenAnchor("js." + nt.Obj().Name() + "." + fname)
						continue
					}
					// every parse call whose result is stored (directly or into a sub-field) under node.<field>
					for _, b2 := range fn.Blocks {
						for _, in2 := range b2.Instrs {
							sto, isSt := in2.(*ssa.Store)
							if !isSt {
								continue
							}
							root, first, ok2 := allocRoot(sto.Addr)
							if !ok2 || root != node || first != fidx {
								continue
							}
							var calls []*ssa.Call
							producingCalls(sto.Val, 0, &calls)
							for _, c := range calls {
								g := c.Call.StaticCallee()
								if g == nil || recvName(g) != "Parser" {
									continue // not a parse step (a Declare on the scope object, a conversion)
								}
								n++
								key := fmt.Sprintf("%s: %s.%s is parsed before the scope of the %s is entered", fnLabel(fn), nt.Obj().Name(), fname, nt.Obj().Name())
								r.Check(!instrBefore(enter, c), key, c.Pos(), "",
									fmt.Sprintf("%s.%s is parsed after enterScope(&%s.….Scope): ECMAScript evaluates it in the enclosing scope, so an identifier in it that is also declared inside the construct (let/const/class in a case clause, a parameter or local of the method) is bound to the wrong variable", nt.Obj().Name(), fname, nt.Obj().Name()))
							}
						}
					}
				}
			}
		}
	}
	r.Floor("scope-order sites", n, 2)
}
