package rules

import (
	"fmt"
	"go/ast"
	"go/constant"
	"go/token"
	"go/types"
	"math/big"
	"strconv"
	"strings"

	"golang.org/x/tools/go/packages"

	"verif/checker/core"
)

func init() {
	register(&Rule{ID: "T-LENUINT", Props: []string{"C14"}, Doc: "LenUint returns k on the whole k-th decade (static interval folding); LenInt adds the sign", Run: runLenUint})
	register(&Rule{ID: "T-POW10", Props: []string{"C14"}, Doc: "float64pow10[k]==10^k, int64pow10[k]==10^k", Run: runPow10})
	register(&Rule{ID: "T-HASH", Props: []string{"C16", "C09", "C08"}, Doc: "generated perfect hash agrees with its text table", Run: runHash})
	register(&Rule{ID: "T-TABLES", Props: []string{"C16", "C17"}, Doc: "IsWhitespace/IsNewline truth tables over all bytes; EncodeURL escapes iff table[c]", Run: runByteTables})
}

// ---------------------------------------------------------------- T-LENUINT

func runLenUint(r *core.Run) {
	lu := r.Prog.SSAFunc("strconv", "", "LenUint")
	if lu == nil {
		r.BrokenAnchor("strconv.LenUint")
		return
	}
	// decade by decade: for every i in [10^(k-1), 10^k - 1] (and [0, 9], and [10^19, 2^64-1]) the function, folded
	// statically with i as an interval, returns k — whatever its form (comparison ladder, loop over a table of
	// powers of ten); a comparison that splits a decade leaves the decade undecided
	ten := big.NewInt(10)
	lo := big.NewInt(0)
	pow := big.NewInt(10)
	max64 := new(big.Int).SetUint64(^uint64(0))
	for k := 1; k <= 20; k++ {
		hi := new(big.Int).Sub(pow, big.NewInt(1))
		if k == 20 {
			hi = max64
		}
		key := fmt.Sprintf("LenUint rung %d", k)
		got, why := evalUintFunc(r, lu, lo, hi)
		if why != "" {
			r.Unknown(key, lu.Pos(), fmt.Sprintf("for i in [%s, %s] the result cannot be folded statically: %s", lo, hi, why))
		} else {
			r.Check(got == int64(k), key, lu.Pos(), fmt.Sprintf("[%s, %s] -> %d", lo, hi, k),
				fmt.Sprintf("for i in [%s, %s] LenUint returns %d; these numbers have %d decimal digits", lo, hi, got, k))
		}
		lo = new(big.Int).Set(pow)
		pow = new(big.Int).Mul(pow, ten)
	}
	// LenInt: negative -> 1 + LenUint(uint64(-i)), MinInt64 -> 20, else LenUint(uint64(i))
	fn := r.Prog.SSAFunc("strconv", "", "LenInt")
	if fn == nil {
		r.BrokenAnchor("strconv.LenInt")
		return
	}
	checkLenInt(r, fn)
}

// ---------------------------------------------------------------- T-POW10

func runPow10(r *core.Run) {
	pk := r.Prog.Pkg("strconv")
	if pk == nil {
		r.BrokenAnchor("package strconv")
		return
	}
	for _, tc := range []struct {
		name string
		min  int
	}{{"float64pow10", 23}, {"int64pow10", 19}} {
		l, err := evalGlobal(pk, tc.name)
		if err != nil {
			r.Unknown(tc.name, token.NoPos, err.Error())
			continue
		}
		pow := big.NewInt(1)
		for i, e := range l.Elems {
			key := fmt.Sprintf("%s[%d]", tc.name, i)
			if e == nil || e.Const == nil {
				r.Fail(key, l.Pos, "missing element")
				continue
			}
			got := constant.ToInt(e.Const)
			ok := got.Kind() == constant.Int && got.ExactString() == pow.String()
			r.Check(ok, key, e.Pos, "10^"+strconv.Itoa(i), fmt.Sprintf("%s = %s, want 10^%d", key, e.Const.ExactString(), i))
			pow = new(big.Int).Mul(pow, big.NewInt(10))
		}
		r.Floor(tc.name+" entries", len(l.Elems), tc.min)
	}
}

// ---------------------------------------------------------------- T-HASH

func runHash(r *core.Run) {
	pkgs := []string{"css", "html"}
	switch r.Prop {
	case "C09":
		pkgs = []string{"html"}
	case "C08":
		pkgs = []string{"css"}
	}
	for _, rel := range pkgs {
		hashPkg(r, rel)
	}
}

func hashPkg(r *core.Run, rel string) {
	pk := r.Prog.Pkg(rel)
	if pk == nil {
		r.BrokenAnchor("package " + rel)
		return
	}
	textL, err := evalGlobal(pk, "_Hash_text")
	if err != nil {
		r.Unknown(rel+"._Hash_text", token.NoPos, err.Error())
		return
	}
	text, _ := textL.Str()
	tabL, err := evalGlobal(pk, "_Hash_table")
	if err != nil {
		r.Unknown(rel+"._Hash_table", token.NoPos, err.Error())
		return
	}
	table := make([]uint64, len(tabL.Elems))
	for i, e := range tabL.Elems {
		if e != nil {
			table[i], _ = e.Uint()
		}
	}
	n := len(table)
	if n == 0 || n&(n-1) != 0 {
		r.Fail(rel+" table size", tabL.Pos, fmt.Sprintf("_Hash_table has %d slots; the mask `len-1` needs a power of two", n))
		return
	}
	hash0, ok0 := constInt(pk, "_Hash_hash0")
	maxLen, ok1 := constInt(pk, "_Hash_maxLen")
	if !ok0 || !ok1 {
		r.BrokenAnchor(rel + "._Hash_hash0/_Hash_maxLen")
		return
	}
	fd, _ := r.Prog.FuncDecl(rel, "", "ToHash")
	if fd == nil {
		r.BrokenAnchor(rel + ".ToHash")
		return
	}
	probe, perr := extractHashProbe(pk, fd)
	if perr != "" {
		r.Unknown(rel+".ToHash shape", fd.Pos(), perr)
		return
	}
	r.OK(rel+".ToHash shape", fd.Pos(), fmt.Sprintf("FNV-style loop h^=s[i]; h*=%d; probes h&mask, (h>>%d)&mask; compare loops present", probe.mult, probe.shift))
	consts := constsOfType(pk, "Hash")
	textOf := func(v uint64) (string, bool) {
		start, ln := v>>8, v&0xff
		if start+ln > uint64(len(text)) {
			return "", false
		}
		return text[start : start+ln], true
	}
	slotOf := func(s string) (uint64, uint64) {
		h := uint32(hash0)
		for i := 0; i < len(s); i++ {
			h ^= uint32(s[i])
			h *= uint32(probe.mult)
		}
		return uint64(h & uint32(n-1)), uint64((h >> probe.shift) & uint32(n-1))
	}
	names := make([]string, 0, len(consts))
	for nme := range consts {
		names = append(names, nme)
	}
	sortStrings(names)
	valSet := map[uint64]string{}
	for _, nme := range names {
		v, _ := constant.Uint64Val(constant.ToInt(consts[nme]))
		key := rel + ".Hash " + nme
		s, ok := textOf(v)
		if !ok || s == "" {
			r.Fail(key, token.NoPos, fmt.Sprintf("constant %#x points outside _Hash_text or has length 0", v))
			continue
		}
		valSet[v] = nme
		// the documented meaning: the constant's text is its lower-cased name ('_' for '-')
		wantName := strings.ReplaceAll(strings.ToLower(nme), "_", "-")
		if s != wantName {
			r.Fail(key, token.NoPos, fmt.Sprintf("constant %s decodes to the text %q, expected %q", nme, s, wantName))
			continue
		}
		if int64(len(s)) > maxLen {
			r.Fail(key, token.NoPos, fmt.Sprintf("text %q is longer than _Hash_maxLen=%d, ToHash returns 0 for it", s, maxLen))
			continue
		}
		a, b := slotOf(s)
		hit := table[a] == v || ((table[a]&0xff != uint64(len(s)) || mustText(textOf, table[a]) != s) && table[b] == v)
		r.Check(hit, key, token.NoPos, fmt.Sprintf("ToHash(%q) probes slots %d,%d and finds %#x", s, a, b, v),
			fmt.Sprintf("ToHash(%q) probes slots %d (=%#x) and %d (=%#x) and does not find %s=%#x: the tag/at-rule name is no longer recognised", s, a, table[a], b, table[b], nme, v))
	}
	// every non-zero slot is a constant (a non-constant slot would be returned for its own text)
	for i, v := range table {
		if v == 0 {
			continue
		}
		_, ok := valSet[v]
		r.Check(ok, fmt.Sprintf("%s._Hash_table[%d]", rel, i), tabL.Pos, "", fmt.Sprintf("slot %d holds %#x which is not a Hash constant", i, v))
	}
	r.Floor(rel+" Hash constants", len(names), map[string]int{"css": 6, "html": 8}[rel])
	// Hash.Bytes(): for every constant the bounds guard lets the text through and the slice is text[start:start+n]
	bd, _ := r.Prog.FuncDecl(rel, "Hash", "Bytes")
	if bd == nil || bd.Body == nil || bd.Recv == nil || len(bd.Recv.List) == 0 || len(bd.Recv.List[0].Names) == 0 {
		r.BrokenAnchor(rel + ".Hash.Bytes")
		return
	}
	recv := bd.Recv.List[0].Names[0].Name
	for _, nme := range names {
		v, _ := constant.Uint64Val(constant.ToInt(consts[nme]))
		want, _ := textOf(v)
		got, why := evalHashBytes(pk, bd, recv, v, text)
		r.Check(why == "" && got == want, rel+".Hash "+nme+" Bytes()", bd.Pos(), "",
			fmt.Sprintf("%s.Bytes() does not return the constant's text %q (%s %q): raw-text end tags and at-rule names compared through Bytes()/String() stop matching", nme, want, why, got))
	}
}

// evalHashBytes evaluates the straight-line body of Hash.Bytes for one receiver value: assignments of
// integer expressions, `if cond { return <empty> }` guards, and a final `return _Hash_text[lo:hi]`.
func evalHashBytes(pk *packages.Package, fd *ast.FuncDecl, recv string, val uint64, text string) (string, string) {
	env := map[string]constant.Value{recv: constant.MakeUint64(val)}
	var eval func(e ast.Expr) (constant.Value, bool)
	eval = func(e ast.Expr) (constant.Value, bool) {
		if tv, ok := pk.TypesInfo.Types[e]; ok && tv.Value != nil {
			return constant.ToInt(tv.Value), true
		}
		switch x := e.(type) {
		case *ast.ParenExpr:
			return eval(x.X)
		case *ast.Ident:
			v, ok := env[x.Name]
			return v, ok
		case *ast.CallExpr:
			if len(x.Args) != 1 {
				return nil, false
			}
			if id, ok := x.Fun.(*ast.Ident); ok && id.Name == "len" {
				if a, ok := x.Args[0].(*ast.Ident); ok && a.Name == "_Hash_text" {
					return constant.MakeInt64(int64(len(text))), true
				}
				return nil, false
			}
			if tv, ok := pk.TypesInfo.Types[x.Fun]; ok && tv.IsType() {
				v, ok := eval(x.Args[0])
				if !ok {
					return nil, false
				}
				if b, isB := tv.Type.Underlying().(*types.Basic); isB && b.Kind() == types.Uint32 {
					u, _ := constant.Uint64Val(v)
					return constant.MakeUint64(u & 0xffffffff), true
				}
				return v, true
			}
		case *ast.BinaryExpr:
			a, ok1 := eval(x.X)
			c, ok2 := eval(x.Y)
			if !ok1 || !ok2 {
				return nil, false
			}
			switch x.Op {
			case token.SHR, token.SHL:
				k, _ := constant.Uint64Val(c)
				return constant.Shift(a, x.Op, uint(k)), true
			case token.ADD, token.SUB, token.AND, token.OR, token.MUL:
				return constant.BinaryOp(a, x.Op, c), true
			case token.LSS, token.LEQ, token.GTR, token.GEQ, token.EQL, token.NEQ:
				return constant.MakeBool(constant.Compare(a, x.Op, c)), true
			}
		}
		return nil, false
	}
	for _, st := range fd.Body.List {
		switch x := st.(type) {
		case *ast.AssignStmt:
			if len(x.Lhs) != 1 || len(x.Rhs) != 1 {
				return "", "unsupported assignment"
			}
			id, ok := x.Lhs[0].(*ast.Ident)
			v, ok2 := eval(x.Rhs[0])
			if !ok || !ok2 {
				return "", "assignment not evaluable"
			}
			env[id.Name] = v
		case *ast.IfStmt:
			c, ok := eval(x.Cond)
			if !ok || c.Kind() != constant.Bool || x.Else != nil || x.Init != nil {
				return "", "guard not evaluable"
			}
			if constant.BoolVal(c) {
				return "", "the bounds guard rejects the constant and returns"
			}
		case *ast.ReturnStmt:
			if len(x.Results) != 1 {
				return "", "unsupported return"
			}
			se, ok := x.Results[0].(*ast.SliceExpr)
			if !ok || se.Low == nil || se.High == nil {
				return "", "return is not a slice of _Hash_text"
			}
			if id, ok := se.X.(*ast.Ident); !ok || id.Name != "_Hash_text" {
				return "", "return is not a slice of _Hash_text"
			}
			lo, ok1 := eval(se.Low)
			hi, ok2 := eval(se.High)
			if !ok1 || !ok2 {
				return "", "slice bounds not evaluable"
			}
			l, _ := constant.Uint64Val(lo)
			h, _ := constant.Uint64Val(hi)
			if l > h || h > uint64(len(text)) {
				return "", "slice bounds out of range"
			}
			return text[l:h], ""
		default:
			return "", "unsupported statement"
		}
	}
	return "", "no return reached"
}

func mustText(f func(uint64) (string, bool), v uint64) string {
	s, _ := f(v)
	return s
}

type hashProbe struct {
	mult  uint64
	shift uint
}

// extractHashProbe recognises the generated lookup: a loop `h ^= uint32(s[i]);
// h *= M`, two table probes indexed `h & mask` and `(h>>K) & mask`, each
// guarded by the length test and followed by a byte-compare loop that returns
// the slot value only if all bytes are equal.
func extractHashProbe(pk *packages.Package, fd *ast.FuncDecl) (hashProbe, string) {
	var p hashProbe
	var xor, mul bool
	probes := 0
	compareLoops := 0
	shiftSeen := false
	ast.Inspect(fd.Body, func(n ast.Node) bool {
		switch s := n.(type) {
		case *ast.AssignStmt:
			if len(s.Lhs) == 1 && len(s.Rhs) == 1 {
				if id, ok := s.Lhs[0].(*ast.Ident); ok && id.Name == "h" {
					if s.Tok == token.XOR_ASSIGN {
						xor = true
					}
					if s.Tok == token.MUL_ASSIGN {
						if v := pk.TypesInfo.Types[s.Rhs[0]].Value; v != nil {
							p.mult, _ = constant.Uint64Val(constant.ToInt(v))
							mul = true
						}
					}
				}
			}
		case *ast.IndexExpr:
			if id, ok := s.X.(*ast.Ident); ok && id.Name == "_Hash_table" {
				probes++
				ast.Inspect(s.Index, func(m ast.Node) bool {
					if be, ok := m.(*ast.BinaryExpr); ok && be.Op == token.SHR {
						if v := pk.TypesInfo.Types[be.Y].Value; v != nil {
							k, _ := constant.Uint64Val(constant.ToInt(v))
							p.shift = uint(k)
							shiftSeen = true
						}
					}
					return true
				})
			}
		case *ast.ForStmt:
			// compare loop: body contains `if t[i] != s[i] { goto NEXT / return 0 }`: a mismatch must never fall
			// through to the `return i` that follows the loop
			ast.Inspect(s.Body, func(m ast.Node) bool {
				if ifs, ok := m.(*ast.IfStmt); ok {
					if be, ok := ifs.Cond.(*ast.BinaryExpr); ok && be.Op == token.NEQ {
						_, l := be.X.(*ast.IndexExpr)
						_, r := be.Y.(*ast.IndexExpr)
						if l && r && len(ifs.Body.List) == 1 {
							switch st := ifs.Body.List[0].(type) {
							case *ast.BranchStmt:
								if st.Tok == token.GOTO {
									compareLoops++
								}
							case *ast.ReturnStmt:
								if len(st.Results) == 1 {
									if v := pk.TypesInfo.Types[st.Results[0]].Value; v != nil && constant.Sign(constant.ToInt(v)) == 0 {
										compareLoops++
									}
								}
							}
						}
					}
				}
				return true
			})
		}
		return true
	})
	switch {
	case !xor || !mul:
		return p, "hash loop `h ^= uint32(s[i]); h *= M` not found"
	case probes != 2 || !shiftSeen:
		return p, fmt.Sprintf("expected two probes of _Hash_table (h&mask and (h>>K)&mask), found %d", probes)
	case compareLoops != 2:
		return p, fmt.Sprintf("expected after each probe a byte-compare loop whose mismatch branch leaves the probe (goto NEXT / return 0); found %d such loops: a mismatching argument could be reported as a member", compareLoops)
	}
	return p, ""
}

func sortStrings(s []string) {
	for i := 1; i < len(s); i++ {
		for j := i; j > 0 && s[j] < s[j-1]; j-- {
			s[j], s[j-1] = s[j-1], s[j]
		}
	}
}

// ---------------------------------------------------------------- T-TABLES

func runByteTables(r *core.Run) {
	pk := r.Prog.Pkg("")
	if pk == nil {
		r.BrokenAnchor("root package")
		return
	}
	// the class tables are the [256]bool globals that the exported predicates IsWhitespace / IsNewline index with their argument
	for _, tc := range []struct {
		fn  string
		set string
	}{{"IsWhitespace", " \t\n\f\r"}, {"IsNewline", "\n\r"}} {
		fn := r.Prog.SSAFunc("", "", tc.fn)
		if fn == nil {
			r.BrokenAnchor("parse." + tc.fn)
			continue
		}
		// the predicate's truth table over all 256 byte values, whatever its form (table look-up, comparison chain, switch):
		// evaluated statically from its body (constant folding over the finite domain of its byte parameter)
		pi := computeBytePredicate(NewEngine(r, EngCfg{Rel: ""}), fn, 0)
		if pi == nil || pi.table == nil {
			r.Unknown(tc.fn+" truth table", fn.Pos(), tc.fn+" is not a pure predicate over its byte argument that can be evaluated for all 256 values (a table look-up or comparisons of the argument with constants)")
			continue
		}
		t := pi.table
		bad := -1
		for c := 0; c < 256; c++ {
			if t[c] != strings.ContainsRune(tc.set, rune(c)) || (c >= 128 && t[c]) {
				bad = c
			}
		}
		r.Check(bad < 0, "table of "+tc.fn, token.NoPos, fmt.Sprintf("equals %q on all 256 byte values", tc.set), fmt.Sprintf("%s(%#x) disagrees with the documented set %q", tc.fn, bad, tc.set))
	}
	if r.Prop == "C17" {
		return
	}
	// both encoding tables: must escape '%' (else DecodeURL cannot invert) and all non-ASCII/control bytes
	for _, name := range []string{"URLEncodingTable", "DataURIEncodingTable"} {
		t, err := boolTable(pk, name)
		if err != nil {
			r.Unknown(name, token.NoPos, err.Error())
			continue
		}
		bad := -1
		for c := 0; c < 256; c++ {
			must := c < 0x20 || c >= 0x7f || c == '%'
			if must && !t[c] {
				bad = c
			}
		}
		r.Check(bad < 0, name+" escapes %, controls and non-ASCII", token.NoPos, "", fmt.Sprintf("%s[%#x] is false: the byte would be emitted raw and the encoding is no longer decodable/valid", name, bad))
		alnum := -1
		for c := 0; c < 256; c++ {
			if (c >= '0' && c <= '9' || c >= 'a' && c <= 'z' || c >= 'A' && c <= 'Z') && t[c] {
				alnum = c
			}
		}
		r.Check(alnum < 0, name+" keeps alphanumerics", token.NoPos, "", fmt.Sprintf("%s[%q] is true", name, rune(alnum)))
	}
	// EncodeURL: the single escape branch is conditioned on table[c]; digits from c>>4 and c&15
	fd, _ := r.Prog.FuncDecl("", "", "EncodeURL")
	if fd == nil {
		r.BrokenAnchor("parse.EncodeURL")
		return
	}
	var conds, hi, lo, pct int
	ast.Inspect(fd.Body, func(n ast.Node) bool {
		switch s := n.(type) {
		case *ast.IfStmt:
			if ix, ok := ast.Unparen(s.Cond).(*ast.IndexExpr); ok {
				if id, ok := ix.X.(*ast.Ident); ok && id.Name == "table" {
					conds++
				}
			} else {
				conds += 100
			}
		case *ast.IndexExpr:
			if v := pk.TypesInfo.Types[s.X].Value; v != nil && v.Kind() == constant.String && constant.StringVal(v) == "0123456789ABCDEF" {
				if be, ok := ast.Unparen(s.Index).(*ast.BinaryExpr); ok {
					cv := pk.TypesInfo.Types[be.Y].Value
					if be.Op == token.SHR && cv != nil && cv.ExactString() == "4" {
						hi++
					}
					if be.Op == token.AND && cv != nil && cv.ExactString() == "15" {
						lo++
					}
				}
			}
		case *ast.BasicLit:
			if s.Value == "'%'" {
				pct++
			}
		}
		return true
	})
	r.Check(conds == 1 && hi == 1 && lo == 1 && pct == 1, "EncodeURL escapes iff table[c]", fd.Pos(), "single branch on table[c]; '%', HEX[c>>4], HEX[c&15]",
		fmt.Sprintf("EncodeURL no longer has the shape `if table[c] { '%%', HEX[c>>4], HEX[c&15] }` (branches=%d hi=%d lo=%d pct=%d)", conds, hi, lo, pct))
}

// ---------------------------------------------------------------- T-ESCLEN

// entityByte decodes the single character an entity literal stands for.
func entityByte(s string) (byte, bool) {
	switch s {
	case "&lt;":
		return '<', true
	case "&gt;":
		return '>', true
	case "&amp;":
		return '&', true
	case "&quot;":
		return '"', true
	case "&apos;":
		return '\'', true
	}
	if strings.HasPrefix(s, "&#") && strings.HasSuffix(s, ";") {
		body := s[2 : len(s)-1]
		base := 10
		if strings.HasPrefix(body, "x") || strings.HasPrefix(body, "X") {
			body, base = body[1:], 16
		}
		v, err := strconv.ParseUint(body, base, 8)
		if err == nil {
			return byte(v), true
		}
	}
	return 0, false
}

func runEscLen(r *core.Run) {
	n := 0
	n += escQuoteFunc(r, "html", "EscapeAttrVal")
	n += escQuoteFunc(r, "xml", "EscapeAttrVal")
	n += escCDATA(r)
	r.Floor("size-increment sites", n, 6)
}

// condByte: if cond is `c == 'x'` (either order) with a constant byte, return x.
func condByte(pk *packages.Package, cond ast.Expr) (int64, *ast.Ident, bool) {
	be, ok := ast.Unparen(cond).(*ast.BinaryExpr)
	if !ok || be.Op != token.EQL {
		return 0, nil, false
	}
	for _, pair := range [][2]ast.Expr{{be.X, be.Y}, {be.Y, be.X}} {
		if v := pk.TypesInfo.Types[pair[1]].Value; v != nil {
			if id, ok := ast.Unparen(pair[0]).(*ast.Ident); ok {
				c, ok := constant.Int64Val(constant.ToInt(v))
				return c, id, ok
			}
		}
	}
	return 0, nil, false
}

func globalBytes(pk *packages.Package, e ast.Expr) (string, string, bool) {
	id, ok := ast.Unparen(e).(*ast.Ident)
	if !ok {
		return "", "", false
	}
	v, ok := pk.TypesInfo.Uses[id].(*types.Var)
	if !ok || v.Parent() != pk.Types.Scope() {
		return "", "", false
	}
	l, err := evalGlobal(pk, v.Name())
	if err != nil {
		return "", "", false
	}
	s, ok := l.Str()
	return s, v.Name(), ok
}

// escQuoteFunc handles the two EscapeAttrVal functions.
func escQuoteFunc(r *core.Run, rel, fname string) int {
	fd, pk := r.Prog.FuncDecl(rel, "", fname)
	if fd == nil {
		r.BrokenAnchor(rel + "." + fname)
		return 0
	}
	// counters: `X++` under `c == 'q'`
	counterOf := map[types.Object]int64{}
	var walkIf func(n ast.Node, under []int64)
	ast.Inspect(fd.Body, func(n ast.Node) bool {
		ifs, ok := n.(*ast.IfStmt)
		if !ok {
			return true
		}
		if q, _, ok := condByte(pk, ifs.Cond); ok {
			for _, st := range ifs.Body.List {
				if inc, ok := st.(*ast.IncDecStmt); ok && inc.Tok == token.INC {
					if id, ok := inc.X.(*ast.Ident); ok {
						counterOf[pk.TypesInfo.Uses[id]] = q
					}
				}
			}
		}
		return true
	})
	_ = walkIf
	// counters computed with bytes.Count(b, []byte{q}) / bytes.Count(b, []byte("q"))
	ast.Inspect(fd.Body, func(n ast.Node) bool {
		as, ok := n.(*ast.AssignStmt)
		if !ok || len(as.Lhs) != 1 || len(as.Rhs) != 1 {
			return true
		}
		ce, ok := as.Rhs[0].(*ast.CallExpr)
		if !ok || len(ce.Args) != 2 {
			return true
		}
		if se, ok := ce.Fun.(*ast.SelectorExpr); !ok || se.Sel.Name != "Count" {
			return true
		}
		l, err := evalExpr(pk, ce.Args[1])
		if err != nil {
			return true
		}
		q := int64(-1)
		if sv, ok := l.Str(); ok && len(sv) == 1 {
			q = int64(sv[0])
		} else if len(l.Elems) == 1 {
			q, _ = l.Elems[0].Int()
		}
		if id, ok := as.Lhs[0].(*ast.Ident); ok && q >= 0 {
			if obj := pk.TypesInfo.Defs[id]; obj != nil {
				counterOf[obj] = q
			} else if obj := pk.TypesInfo.Uses[id]; obj != nil {
				counterOf[obj] = q
			}
		}
		return true
	})
	sites := 0
	// branches: blocks that contain `n += cnt*K`, `quote = q`, `escapedQuote = G`
	ast.Inspect(fd.Body, func(n ast.Node) bool {
		blk, ok := n.(*ast.BlockStmt)
		if !ok {
			return true
		}
		var cnt types.Object
		var cntName string
		var K int64 = -1
		var q int64 = -1
		var ent, entName string
		var pos token.Pos
		for _, st := range blk.List {
			as, ok := st.(*ast.AssignStmt)
			if !ok || len(as.Lhs) != 1 || len(as.Rhs) != 1 {
				continue
			}
			if as.Tok == token.ADD_ASSIGN {
				if be, ok := ast.Unparen(as.Rhs[0]).(*ast.BinaryExpr); ok && be.Op == token.MUL {
					for _, pair := range [][2]ast.Expr{{be.X, be.Y}, {be.Y, be.X}} {
						if v := pk.TypesInfo.Types[pair[1]].Value; v != nil {
							if id, ok := ast.Unparen(pair[0]).(*ast.Ident); ok {
								K, _ = constant.Int64Val(constant.ToInt(v))
								cnt = pk.TypesInfo.Uses[id]
								cntName = id.Name
								pos = as.Pos()
							}
						}
					}
				}
			}
			if as.Tok == token.ASSIGN {
				if v := pk.TypesInfo.Types[as.Rhs[0]].Value; v != nil {
					if t, ok := pk.TypesInfo.Types[as.Lhs[0]].Type.Underlying().(*types.Basic); ok && t.Kind() == types.Uint8 {
						q, _ = constant.Int64Val(constant.ToInt(v))
					}
				} else if s, name, ok := globalBytes(pk, as.Rhs[0]); ok {
					ent, entName = s, name
				}
			}
		}
		if cnt == nil {
			return true
		}
		sites++
		key := fmt.Sprintf("%s.%s branch quote=%q", rel, fname, rune(q))
		if q < 0 || ent == "" {
			r.Unknown(key, pos, "branch with a size increment does not also select the quote byte and its entity")
			return true
		}
		eb, okE := entityByte(ent)
		cq, okC := counterOf[cnt]
		switch {
		case !okE || int64(eb) != q:
			r.Fail(key, pos, fmt.Sprintf("quote %q is escaped with %s=%q which does not decode to that quote", rune(q), entName, ent))
		case !okC || cq != q:
			r.Fail(key, pos, fmt.Sprintf("size grows by %s*%d but %s counts occurrences of %q, while the byte escaped in this branch is %q: the buffer can be too small", cntName, K, cntName, rune(cq), rune(q)))
		case K != int64(len(ent))-1:
			r.Fail(key, pos, fmt.Sprintf("size grows by %d per %q but the entity %q adds %d bytes", K, rune(q), ent, len(ent)-1))
		default:
			r.OK(key, pos, fmt.Sprintf("%s*%d, entity %q", cntName, K, ent))
		}
		return true
	})
	// copy loop: the split condition compares with the selected quote variable
	ok := false
	ast.Inspect(fd.Body, func(n ast.Node) bool {
		ifs, isIf := n.(*ast.IfStmt)
		if !isIf {
			return true
		}
		be, isBe := ast.Unparen(ifs.Cond).(*ast.BinaryExpr)
		if !isBe || be.Op != token.EQL {
			return true
		}
		x, ok1 := be.X.(*ast.Ident)
		y, ok2 := be.Y.(*ast.Ident)
		if ok1 && ok2 && (y.Name == "quote" || x.Name == "quote") {
			copies := 0
			ast.Inspect(ifs.Body, func(m ast.Node) bool {
				if ce, isCall := m.(*ast.CallExpr); isCall {
					if id, isID := ce.Fun.(*ast.Ident); isID && id.Name == "copy" && len(ce.Args) == 2 {
						if a, isA := ce.Args[1].(*ast.Ident); isA && a.Name == "escapedQuote" {
							copies++
						}
					}
				}
				return true
			})
			if copies == 1 {
				ok = true
			}
		}
		return true
	})
	r.Check(ok, rel+"."+fname+" copy loop splits at c==quote", fd.Pos(), "", "no `if c == quote { ... copy(t[j:], escapedQuote) ... }` found: the chosen quote may be emitted unescaped")
	return sites
}

func escCDATA(r *core.Run) int {
	fd, pk := r.Prog.FuncDecl("xml", "", "EscapeCDATAVal")
	if fd == nil {
		r.BrokenAnchor("xml.EscapeCDATAVal")
		return 0
	}
	incr := map[int64]int64{} // byte -> size increment
	ent := map[int64]string{} // byte -> entity copied
	pos := map[int64]token.Pos{}
	var bail int64 = -1
	ast.Inspect(fd.Body, func(n ast.Node) bool {
		ifs, ok := n.(*ast.IfStmt)
		if !ok {
			return true
		}
		if be, ok := ast.Unparen(ifs.Cond).(*ast.BinaryExpr); ok && be.Op == token.GTR {
			if v := pk.TypesInfo.Types[be.Y].Value; v != nil {
				bail, _ = constant.Int64Val(constant.ToInt(v))
			}
		}
		var handle func(cond ast.Expr, body *ast.BlockStmt)
		handle = func(cond ast.Expr, body *ast.BlockStmt) {
			q, _, ok := condByte(pk, cond)
			if !ok {
				return
			}
			for _, st := range body.List {
				switch s := st.(type) {
				case *ast.AssignStmt:
					if s.Tok == token.ADD_ASSIGN && len(s.Rhs) == 1 {
						if v := pk.TypesInfo.Types[s.Rhs[0]].Value; v != nil {
							incr[q], _ = constant.Int64Val(constant.ToInt(v))
							pos[q] = s.Pos()
						} else if ce, ok := s.Rhs[0].(*ast.CallExpr); ok && len(ce.Args) == 2 {
							if str, _, ok := globalBytes(pk, ce.Args[1]); ok {
								ent[q] = str
							}
						}
					}
				}
			}
		}
		handle(ifs.Cond, ifs.Body)
		// `else { n += 4 }` of an `if c == '<'` inside `if c == '<' || c == '&'`
		if els, ok := ifs.Else.(*ast.BlockStmt); ok {
			if q, _, ok := condByte(pk, ifs.Cond); ok {
				// the else branch covers the other byte of the enclosing disjunction
				for _, st := range els.List {
					if s, ok := st.(*ast.AssignStmt); ok && s.Tok == token.ADD_ASSIGN {
						if v := pk.TypesInfo.Types[s.Rhs[0]].Value; v != nil {
							other := int64('&')
							if q == '&' {
								other = '<'
							}
							incr[other], _ = constant.Int64Val(constant.ToInt(v))
							pos[other] = s.Pos()
						}
					}
				}
			}
		}
		return true
	})
	sites := 0
	for _, q := range []int64{'<', '&'} {
		key := fmt.Sprintf("xml.EscapeCDATAVal byte %q", rune(q))
		k, ok1 := incr[q]
		e, ok2 := ent[q]
		if !ok1 || !ok2 {
			r.Unknown(key, fd.Pos(), "size increment or entity copy for this byte not recognised")
			continue
		}
		sites++
		eb, okE := entityByte(e)
		r.Check(okE && int64(eb) == q && k == int64(len(e))-1, key, pos[q], fmt.Sprintf("+%d, entity %q", k, e),
			fmt.Sprintf("size grows by %d for %q but the entity copied is %q (adds %d, decodes to %q)", k, rune(q), e, len(e)-1, rune(eb)))
	}
	r.Check(bail == int64(len("<![CDATA[]]>")), "xml.EscapeCDATAVal bail-out constant", fd.Pos(), "", fmt.Sprintf("bail-out threshold is %d, the CDATA wrapper costs %d bytes", bail, len("<![CDATA[]]>")))
	return sites
}
