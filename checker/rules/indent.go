package rules

import (
	"fmt"
	"go/token"
	"go/types"
	"sort"

	"golang.org/x/tools/go/ssa"

	"verif/checker/core"
)

func init() {
	register(&Rule{ID: "R-INDENT", Props: []string{"C05"}, Doc: "literals that may contain line breaks are written to the unwrapped writer; Indenters never nest", Run: runIndent})
}

// []byte fields whose content may contain a line break and must therefore bypass the Indenter.
var multilineFields = map[string]bool{
	"Comment.Value": true, "LiteralExpr.Data": true, "TemplatePart.Value": true, "TemplateExpr.Tail": true,
	"DirectivePrologueStmt.Value": true, "ImportStmt.Module": true, "ExportStmt.Module": true,
}

func isIndenterType(t types.Type) bool {
	n, ok := t.(*types.Named)
	return ok && n.Obj().Name() == "Indenter" && n.Obj().Pkg() != nil && n.Obj().Pkg().Path() == core.ModPath
}

// indenterAssert: v is the value result of `x.(parse.Indenter)` (comma-ok); returns the assertion.
func indenterAssertOf(v ssa.Value) *ssa.TypeAssert {
	ex, ok := v.(*ssa.Extract)
	if !ok || ex.Index != 0 {
		return nil
	}
	ta, ok := ex.Tuple.(*ssa.TypeAssert)
	if !ok || !isIndenterType(ta.AssertedType) {
		return nil
	}
	return ta
}

// unwrappedWriter: the io.Writer value cannot be an Indenter at the use in block b.
//   - wi.Writer where wi is the result of a (successful) assertion to Indenter;
//   - a phi of unwrapped values;
//   - the original writer on a path where the assertion to Indenter failed;
//   - a parameter of a function all of whose module call sites pass an unwrapped writer (one level).
func unwrappedWriter(v ssa.Value, b *ssa.BasicBlock, fromEdge *ssa.BasicBlock, depth int, callers func(*ssa.Function) []*ssa.Call) bool {
	if depth > 4 {
		return false
	}
	switch x := v.(type) {
	case *ssa.Field:
		if fieldName(x.X.Type(), x.Field) == "Writer" && indenterAssertOf(x.X) != nil {
			return true
		}
	case *ssa.UnOp:
		if x.Op == token.MUL {
			if fa, ok := x.X.(*ssa.FieldAddr); ok && fieldName(fa.X.Type(), fa.Field) == "Writer" {
				// load of (&wi).Writer where wi is a spilled assertion result
				return isIndenterType(derefType(fa.X.Type()))
			}
		}
	case *ssa.Phi:
		for i, e := range x.Edges {
			if !unwrappedWriter(e, x.Block(), x.Block().Preds[i], depth+1, callers) {
				return false
			}
		}
		return true
	case *ssa.Call:
		// an unwrapping helper: func unwrap(w io.Writer) io.Writer { if wi, ok := w.(Indenter); ok { return wi.Writer }; return w }
		// — every value it returns is unwrapped in its own frame (its parameter counts only on the failing side of the assertion)
		g := x.Call.StaticCallee()
		if g == nil || x.Call.IsInvoke() || fnPkg(g) == nil || !core.InModule(fnPkg(g)) || len(g.Blocks) == 0 {
			return false
		}
		n := 0
		for _, gb := range g.Blocks {
			ret, ok := lastInstr(gb).(*ssa.Return)
			if !ok || len(ret.Results) != 1 {
				continue
			}
			n++
			if !unwrappedWriter(ret.Results[0], gb, nil, depth+1, nil) {
				return false
			}
		}
		return n > 0
	case *ssa.Parameter:
		// (a) reached through the failing edge of an Indenter assertion on this parameter
		at := b
		if fromEdge != nil {
			at = fromEdge
		}
		if notIndenterOn(x, at, b) {
			return true
		}
		// (b) every module call site passes an unwrapped writer
		if callers != nil {
			cs := callers(x.Parent())
			if len(cs) == 0 {
				return false
			}
			idx := -1
			for i, p := range x.Parent().Params {
				if p == x {
					idx = i
				}
			}
			for _, c := range cs {
				if idx >= len(c.Call.Args) || !unwrappedWriter(c.Call.Args[idx], c.Block(), nil, depth+1, nil) {
					return false
				}
			}
			return true
		}
	}
	return false
}

func derefType(t types.Type) types.Type {
	if p, ok := t.Underlying().(*types.Pointer); ok {
		return p.Elem()
	}
	return t
}

// notIndenterOn: block `at` (or the edge at->succ) lies on the false side of `ok` of param.(Indenter).
func notIndenterOn(param ssa.Value, at, succ *ssa.BasicBlock) bool {
	check := func(d *ssa.BasicBlock, child *ssa.BasicBlock) bool {
		iff, ok := lastInstr(d).(*ssa.If)
		if !ok {
			return false
		}
		ex, ok := iff.Cond.(*ssa.Extract)
		if !ok || ex.Index != 1 {
			return false
		}
		ta, ok := ex.Tuple.(*ssa.TypeAssert)
		if !ok || ta.X != param || !isIndenterType(ta.AssertedType) {
			return false
		}
		return d.Succs[1] == child && d.Succs[0] != child
	}
	if check(at, succ) {
		return true
	}
	for p := at; p != nil; p = p.Idom() {
		d := p.Idom()
		if d == nil {
			break
		}
		if check(d, p) && len(p.Preds) == 1 {
			return true
		}
	}
	return false
}

func runIndent(r *core.Run) {
	// call sites of each js method (static calls inside the module)
	callSites := map[*ssa.Function][]*ssa.Call{}
	for _, fn := range allModuleFuncs(r) {
		for _, b := range fn.Blocks {
			for _, in := range b.Instrs {
				if c, ok := in.(*ssa.Call); ok {
					if f := c.Call.StaticCallee(); f != nil && core.RelPkg(fnPkg(f)) == "js" {
						callSites[f] = append(callSites[f], c)
					}
				}
			}
		}
	}
	callers := func(f *ssa.Function) []*ssa.Call { return callSites[f] }
	var fns []*ssa.Function
	for _, fn := range allModuleFuncs(r) {
		if core.RelPkg(fnPkg(fn)) == "js" && fn.Name() == "JS" {
			fns = append(fns, fn)
		}
	}
	sort.Slice(fns, func(i, j int) bool { return fns[i].String() < fns[j].String() })
	sites := 0
	for _, fn := range fns {
		for _, b := range fn.Blocks {
			for _, in := range b.Instrs {
				c, ok := in.(*ssa.Call)
				if !ok || !c.Call.IsInvoke() || c.Call.Method.Name() != "Write" || len(c.Call.Args) != 1 {
					continue
				}
				// argument: load of a multi-line []byte field (possibly re-sliced)
				arg := c.Call.Args[0]
				if sl, ok := arg.(*ssa.Slice); ok {
					arg = sl.X
				}
				u, ok := arg.(*ssa.UnOp)
				if !ok || u.Op != token.MUL {
					// value-receiver methods read the field with ssa.Field
					if f, isF := arg.(*ssa.Field); isF {
						if fk := fieldKeyOf(f.X.Type(), f.Field); multilineFields[fk] {
							sites++
							okW := unwrappedWriter(c.Call.Value, b, nil, 0, callers)
							r.Check(okW, fmt.Sprintf("%s writes %s past the Indenter", fnLabel(fn), fk), c.Pos(), "", fmt.Sprintf("%s may contain a line break but is written through a writer that can still be an Indenter: spaces are inserted inside the literal/comment at nested indentation levels, so the printed program differs from the tree", fk))
						}
					}
					continue
				}
				fk, ok := fieldKey(u.X)
				if !ok || !multilineFields[fk] {
					continue
				}
				sites++
				okW := unwrappedWriter(c.Call.Value, b, nil, 0, callers)
				r.Check(okW, fmt.Sprintf("%s writes %s past the Indenter", fnLabel(fn), fk), c.Pos(), "", fmt.Sprintf("%s may contain a line break but is written through a writer that can still be an Indenter: spaces are inserted inside the literal/comment at nested indentation levels, so the printed program differs from the tree", fk))
			}
		}
	}
	r.Floor("writes of multi-line literals", sites, 5)
	// Indenter values are built only by NewIndenter, which unwraps a nested Indenter
	ni := r.Prog.SSAFunc("", "", "NewIndenter")
	if ni == nil {
		r.BrokenAnchor("parse.NewIndenter")
		return
	}
	for _, fn := range allModuleFuncs(r) {
		for _, b := range fn.Blocks {
			for _, in := range b.Instrs {
				if al, ok := in.(*ssa.Alloc); ok && isIndenterType(derefType(al.Type())) && fn != ni {
					// local copies of an asserted Indenter (spills) are fine; composite literals store fields
					for _, ref := range *al.Referrers() {
						if fa, ok := ref.(*ssa.FieldAddr); ok {
							for _, r2 := range *fa.Referrers() {
								if _, isStore := r2.(*ssa.Store); isStore {
									r.Fail(fmt.Sprintf("%s builds an Indenter", fnLabel(fn)), al.Pos(), "a parse.Indenter is constructed outside NewIndenter: its Writer may itself be an Indenter, and literal writers unwrap only one level")
								}
							}
						}
					}
				}
			}
		}
	}
	okFlat := false
	for _, b := range ni.Blocks {
		for _, in := range b.Instrs {
			st, ok := in.(*ssa.Store)
			if !ok {
				continue
			}
			fa, ok := st.Addr.(*ssa.FieldAddr)
			if !ok || fieldName(fa.X.Type(), fa.Field) != "Writer" || !isIndenterType(derefType(fa.X.Type())) {
				continue
			}
			okFlat = unwrappedWriter(st.Val, b, nil, 0, nil)
		}
	}
	r.Check(okFlat, "NewIndenter unwraps a nested Indenter", ni.Pos(), "", "NewIndenter stores its writer argument without first replacing an Indenter by its inner writer: nested Indenters arise at block depth >= 2 and literal writers (which unwrap one level) would still write through an Indenter")
}

func fieldKeyOf(t types.Type, idx int) string {
	t = derefType(t)
	n, ok := t.(*types.Named)
	if !ok {
		return ""
	}
	return n.Obj().Name() + "." + fieldName(t, idx)
}
