package rules

import (
	"fmt"
	"go/constant"
	"go/token"
	"go/types"
	"runtime/debug"
	"sort"
	"strings"
	"sync"

	"golang.org/x/tools/go/ssa"

	"verif/checker/core"
)

// Rules served by the cursor engine. The engine is run once per process and
// its obligations are distributed to the rule ids below.
func init() {
	mk := func(id string, props []string, doc string) {
		register(&Rule{ID: id, Props: props, Doc: doc, Run: func(r *core.Run) { emitEngine(r, id) }})
	}
	mk("R-CURSOR", []string{"C01", "C02", "C15"}, "no Peek/Move/Rewind/Lexeme slice leaves [start, terminator] on any path (abstract interpretation of every Input client)")
	mk("R-PROGRESS", []string{"C01", "C02"}, "every loop advances the cursor or is a bounded counter; non-error tokens are non-empty")
	mk("R-EOF", []string{"C01"}, "at end of input Next reports the end (after at most one flush) and keeps reporting it")
	mk("R-ERRMOVE", []string{"C01", "C06"}, "an error token is never produced silently after consuming input in the middle of the data")
	mk("R-ERRSTUCK", []string{"C01"}, "a non-EOF error return consumes at least one byte (calling Next again cannot repeat the same error forever)")
	mk("R-TILE", []string{"C02"}, "every non-error return yields the Shift() that is the last cursor operation; Skip only drops in-tag whitespace")
	mk("R-SPELL", []string{"C06", "C07", "C09", "C10", "C11"}, "fixed-spelling token types are returned only after consuming exactly their spelling")
	mk("R-INPLACE", []string{"C02"}, "a call that rewrites input bytes in place returns only the tokens that may carry that rewrite (HTML: case folding with tag/attribute tokens; XML: space over tab/newline with attribute tokens)")
	mk("R-RESTORE", []string{"C02", "C06", "C07"}, "a scanner that puts the cursor back on some failing path puts it back on every failing path")
	mk("R-EOFNEST", []string{"C08"}, "css parser: while a block is open ErrorGrammar is returned only together with a recorded parse error (the end of input is never reported silently inside a block)")
	mk("R-TAGSTATE", []string{"C09", "C11"}, "attribute tokens only between a start tag and its closing token (inTag protocol)")
}

type lexSpec struct {
	rel, typ, entry string
	owners          []string
	errPath         string
	allowSkip       bool
	skipWS          ByteSet
	tiles           bool                               // css/js: tokens tile the input, no Skip at all
	spell           func(r *core.Run) map[int64]string // fixed-spelling token types
	inTagPath       string
	extraEntries    []string // further entry points analysed for R-CURSOR/R-PROGRESS only
	props           []string
}

var wsHTML = bsOf(' ', '\t', '\n', '\r', '\f')

var lexSpecs = []lexSpec{
	{rel: "css", typ: "Lexer", entry: "Next", owners: []string{"css.Lexer"}, tiles: true, spell: cssSpell, extraEntries: []string{"css.IsIdent", "css.IsURLUnquoted"}},
	{rel: "js", typ: "Lexer", entry: "Next", owners: []string{"js.Lexer"}, errPath: "js.Lexer.err", tiles: true, spell: jsSpell, extraEntries: []string{"js.Lexer.RegExp"}},
	{rel: "html", typ: "Lexer", entry: "Next", owners: []string{"html.Lexer"}, errPath: "html.Lexer.err", allowSkip: true, skipWS: wsHTML, spell: htmlSpell, inTagPath: "html.Lexer.inTag"},
	{rel: "xml", typ: "Lexer", entry: "Next", owners: []string{"xml.Lexer"}, errPath: "xml.Lexer.err", allowSkip: true, skipWS: wsHTML, spell: xmlSpell, inTagPath: "xml.Lexer.inTag"},
	{rel: "json", typ: "Parser", entry: "Next", owners: []string{"json.Parser"}, errPath: "json.Parser.err", allowSkip: true, skipWS: bsOf(' ', '\t', '\n', '\r', ','), spell: jsonSpell},
}

func constVals(r *core.Run, rel, typ string, names map[string]string) map[int64]string {
	out := map[int64]string{}
	pk := r.Prog.Pkg(rel)
	if pk == nil {
		return out
	}
	cs := constsOfType(pk, typ)
	for n, sp := range names {
		if v, ok := cs[n]; ok {
			if i, ok := constant.Int64Val(constant.ToInt(v)); ok {
				out[i] = sp
			}
		} else {
			r.BrokenAnchor(rel + "." + n)
		}
	}
	return out
}

func cssSpell(r *core.Run) map[int64]string {
	return constVals(r, "css", "TokenType", map[string]string{
		"ColonToken": ":", "SemicolonToken": ";", "CommaToken": ",", "LeftBracketToken": "[", "RightBracketToken": "]",
		"LeftParenthesisToken": "(", "RightParenthesisToken": ")", "LeftBraceToken": "{", "RightBraceToken": "}",
		"IncludeMatchToken": "~=", "DashMatchToken": "|=", "PrefixMatchToken": "^=", "SuffixMatchToken": "$=", "SubstringMatchToken": "*=",
		"ColumnToken": "||", "CDOToken": "<!--", "CDCToken": "-->"})
}

func jsSpell(r *core.Run) map[int64]string {
	pk := r.Prog.Pkg("js")
	out := map[int64]string{}
	if pk == nil {
		return out
	}
	// spelling table evaluated from TokenType.Bytes(): operators and punctuators
	sub := core.NewRun(r.Prop, r.Tier, r.Seed, r.Prog)
	sp, ok := jsSpellings(sub, pk)
	if !ok {
		r.BrokenAnchor("js.TokenType.Bytes spelling tables")
		return out
	}
	groups, _ := constGroups(pk, "TokenType")
	for _, g := range []string{"PunctuatorToken", "OperatorToken"} {
		for _, n := range groups[g] {
			if n == "PosToken" {
				break
			}
			if s, ok := sp[n]; ok && n != g {
				if v, ok := constInt(pk, n); ok {
					out[v] = s
				}
			}
		}
	}
	return out
}

func htmlSpell(r *core.Run) map[int64]string {
	return constVals(r, "html", "TokenType", map[string]string{"StartTagCloseToken": ">", "StartTagVoidToken": "/>"})
}

func xmlSpell(r *core.Run) map[int64]string {
	return constVals(r, "xml", "TokenType", map[string]string{"StartTagCloseToken": ">", "StartTagCloseVoidToken": "/>", "StartTagClosePIToken": "?>"})
}

func jsonSpell(r *core.Run) map[int64]string {
	return constVals(r, "json", "GrammarType", map[string]string{"StartObjectGrammar": "{", "EndObjectGrammar": "}", "StartArrayGrammar": "[", "EndArrayGrammar": "]"})
}

// ---------------------------------------------------------------------------

type engResult struct {
	aborted [][2]string // engines that gave up: tag, reason
	obs     []*core.Obligation
	notes   []string
	assume  []string
	counts  map[string]int
}

// engine results per program and per view (propEngineView): a property that looks at one package never consumes
// another property's view (the evaluation's batch mode decides several properties on one load)
type engCacheKey struct {
	prog *core.Program
	view string
}

var engCache = map[engCacheKey]*engResult{}
var engCacheMu sync.Mutex

func emitEngine(r *core.Run, rule string) {
	ck := engCacheKey{r.Prog, propEngineView[r.Prop]}
	engCacheMu.Lock()
	res := engCache[ck]
	engCacheMu.Unlock()
	if res == nil {
		res = runEngineAll(r)
		engCacheMu.Lock()
		engCache[ck] = res
		engCacheMu.Unlock()
	}
	pkgFilter := map[string][]string{"C06": {"js."}, "C07": {"css."}, "C09": {"html."}, "C10": {"json."}, "C11": {"xml."}}
	n := 0
	for _, o := range res.obs {
		if o.Rule != rule {
			continue
		}
		if pf, ok := pkgFilter[r.Prop]; ok && (rule == "R-SPELL" || rule == "R-TAGSTATE" || rule == "R-ERRMOVE" || rule == "R-RESTORE") {
			keep := false
			for _, p := range pf {
				if strings.Contains(o.Key, p) {
					keep = true
				}
			}
			if !keep {
				continue
			}
		}
		if r.Prop == "C15" && !strings.Contains(o.Key, "parse.Position") && !strings.Contains(o.Key, "parse.positionContext") {
			continue
		}
		n++
		c := *o
		r.Obs = append(r.Obs, &c)
	}
	for _, a := range res.assume {
		r.Assumption(a)
	}
	// an engine that gave up decided nothing: a property that does not consume R-CURSOR (where the abort is an
	// obligation of its own) must not read the missing obligations as discharged
	if rule != "R-CURSOR" && !propHasRule(r.Prop, "R-CURSOR") {
		for _, ab := range res.aborted {
			r.Unknown("engine "+ab[0]+" ["+rule+"]", token.NoPos, ab[1])
		}
	}
	if rule == "R-CURSOR" {
		for k, v := range res.counts {
			r.Count(k, v)
		}
		for _, nn := range res.notes {
			r.Note("%s", nn)
		}
	}
	floors := map[string]int{"R-CURSOR": 300, "R-PROGRESS": 40, "R-EOF": 5, "R-ERRMOVE": 10, "R-TILE": 30, "R-SPELL": 30, "R-TAGSTATE": 6, "R-ERRSTUCK": 6, "R-INPLACE": 2, "R-RESTORE": 4, "R-EOFNEST": 3}
	if engineFilter(r.Prog) != "" {
		return
	}
	if _, filtered := pkgFilter[r.Prop]; !filtered && r.Prop != "C15" {
		r.Floor("engine obligations "+rule, n, floors[rule])
	} else {
		r.Floor("engine obligations "+rule, n, 1)
	}
}

// propEngineView: the part of the engine a property's rules consume (see pkgFilter in emitEngine).
var propEngineView = map[string]string{"C06": "js", "C07": "css", "C09": "html", "C10": "json", "C11": "xml", "C08": "cssparser", "C15": "position"}

func runEngineAll(r *core.Run) *engResult {
	sub := core.NewRun(r.Prop, r.Tier, r.Seed, r.Prog)
	res := &engResult{counts: map[string]int{}}
	r.Prog.CallGraph() // build before going parallel
	old := debug.SetGCPercent(600)
	defer debug.SetGCPercent(old)
	var tasks []*engTask
	only := engineFilter(r.Prog)
	if only == "" {
		// a property whose engine rules look at one package analyses only that package
		only = propEngineView[r.Prop]
	}
	for _, sp := range lexSpecs {
		if only != "" && only != sp.rel {
			continue
		}
		runLexer(sub, sp, &tasks)
	}
	if only == "" || only == "position" {
		runPosition(sub, &tasks)
	}
	if only == "" {
		runJSParsePrefix(sub, &tasks)
	}
	if only == "" || only == "cssparser" {
		runCSSParser(sub, &tasks)
	}
	var wg sync.WaitGroup
	sem := make(chan struct{}, 14)
	for _, t := range tasks {
		wg.Add(1)
		sem <- struct{}{}
		go func(t *engTask) {
			defer wg.Done()
			defer func() { <-sem }()
			defer func() {
				if x := recover(); x != nil {
					t.e.aborted = fmt.Sprintf("analyser panic: %v\n%s", x, debug.Stack())
				}
			}()
			t.run()
			t.e.finishRestore()
		}(t)
	}
	wg.Wait()
	// merge obligations of all engines by key (an obligation fails if it fails in any configuration)
	merged := map[string]*engOb{}
	var order []string
	for _, t := range tasks {
		e := t.e
		res.counts["abstract steps"] += e.steps
		res.counts["steps "+e.cfg.Tag] = e.steps
		res.counts["callee summaries computed"] += e.summMiss
		res.counts["callee summaries reused"] += e.summHits
		for _, a := range e.assume {
			sub.Assumption(a)
		}
		if e.aborted != "" {
			sub.SetRule("R-CURSOR")
			sub.Unknown("engine "+e.cfg.Tag, token.NoPos, e.aborted)
			res.aborted = append(res.aborted, [2]string{e.cfg.Tag, e.aborted})
		}
		for _, k := range e.obOrder {
			o := e.obs[k]
			m := merged[k]
			if m == nil {
				c := *o
				merged[k] = &c
				order = append(order, k)
				continue
			}
			m.evals += o.evals
			if o.fails > 0 && m.fails == 0 {
				m.detail, m.path = o.detail, o.path
			}
			if o.undecided > 0 && m.undecided == 0 && m.fails == 0 {
				m.detail, m.path = o.detail, o.path
			}
			m.fails += o.fails
			m.undecided += o.undecided
		}
	}
	sort.Strings(order)
	for _, k := range order {
		o := merged[k]
		sub.SetRule(o.rule)
		switch {
		case o.fails > 0:
			sub.Fail(o.key, o.pos, o.detail, o.path...)
		case o.undecided > 0:
			sub.Unknown(o.key, o.pos, o.detail, o.path...)
		default:
			sub.OK(o.key, o.pos, fmt.Sprintf("%d abstract evaluations", o.evals))
		}
	}
	res.counts["engine configurations"] = len(tasks)
	res.obs = sub.Obs
	res.notes = sub.Notes
	res.assume = sub.Assume
	for i := range res.obs {
		res.obs[i].St = res.obs[i].Status.String()
	}
	return res
}

func freshEntry() *State {
	st := newState()
	return st
}

func engCfgFor(sp lexSpec, tag string) EngCfg {
	ow := map[string]bool{}
	for _, o := range sp.owners {
		ow[o] = true
	}
	return EngCfg{Rel: sp.rel, Owners: ow, ErrPath: sp.errPath, AllowSkip: sp.allowSkip, SkipWS: sp.skipWS, Tag: tag}
}

type engTask struct {
	e   *Engine
	run func()
}

func runLexer(r *core.Run, sp lexSpec, tasks *[]*engTask) {
	fn := r.Prog.SSAFunc(sp.rel, sp.typ, sp.entry)
	name := sp.rel + "." + sp.typ + "." + sp.entry
	if fn == nil {
		r.SetRule("R-CURSOR")
		r.BrokenAnchor(name)
		return
	}
	var spell map[int64]string
	if sp.spell != nil {
		r.SetRule("R-SPELL")
		spell = sp.spell(r)
	}
	// fields by role, not by name: the lexer's own error is its field of type error; the tag-mode flag is the
	// bool field that Next itself reads to decide how to continue
	if recv := fn.Signature.Recv(); recv != nil {
		if st, ok := derefType(recv.Type()).Underlying().(*types.Struct); ok {
			tp := sp.rel + "." + sp.typ
			if sp.errPath != "" {
				var errs []string
				for i := 0; i < st.NumFields(); i++ {
					if types.Identical(st.Field(i).Type(), types.Universe.Lookup("error").Type()) {
						errs = append(errs, st.Field(i).Name())
					}
				}
				if len(errs) == 1 {
					sp.errPath = tp + "." + errs[0]
				}
			}
			if sp.inTagPath != "" {
				loaded := map[string]bool{}
				for _, b := range fn.Blocks {
					for _, in := range b.Instrs {
						if u, ok := in.(*ssa.UnOp); ok && u.Op == token.MUL {
							if fa, ok := u.X.(*ssa.FieldAddr); ok && fa.X == ssa.Value(fn.Params[0]) {
								if bt, ok := u.Type().Underlying().(*types.Basic); ok && bt.Kind() == types.Bool {
									loaded[fieldName(fa.X.Type(), fa.Field)] = true
								}
							}
						}
					}
				}
				if len(loaded) == 1 {
					for f := range loaded {
						sp.inTagPath = tp + "." + f
					}
				}
			}
		}
	}
	errTok := int64(0)
	add := func(e *Engine, run func()) { *tasks = append(*tasks, &engTask{e: e, run: run}) }

	// configuration A: weakest entry state (called at any time, also after errors)
	{
		e := NewEngine(r, engCfgFor(sp, name+" [any state]"))
		e.onReturn = func(st *State, ret []AbsVal, at *ssa.Return) {
			checkReturn(e, sp, name, st, ret, at, errTok, false, nil)
		}
		add(e, func() { e.Run(fn, freshEntry(), nil) })
	}
	// configuration B: at a token boundary (L = 0): tiling, spelling, tag state
	for _, v := range []int{0, 1} {
		if sp.inTagPath == "" && v == 1 {
			continue
		}
		e := NewEngine(r, engCfgFor(sp, fmt.Sprintf("%s [token boundary %d]", name, v)))
		e.onReturn = func(st *State, ret []AbsVal, at *ssa.Return) {
			checkReturn(e, sp, name, st, ret, at, errTok, true, spell)
		}
		st := freshEntry()
		st.Lmax = 0
		e.tagEntry = -1
		if sp.inTagPath != "" {
			st.heap[sp.inTagPath] = boolVal(v == 1)
			e.tagEntry = v
		}
		add(e, func() { e.Run(fn, st, nil) })
	}
	// configuration C: at end of input
	for _, lknown := range []bool{false, true} {
		lknown := lknown
		tag := " [at EOF, leftover selection]"
		if lknown {
			tag = " [at EOF, empty selection]"
		}
		e := NewEngine(r, engCfgFor(sp, name+tag))
		e.onReturn = func(st *State, ret []AbsVal, at *ssa.Return) {
			checkEOFReturn(e, sp, name, st, ret, at, errTok, lknown)
		}
		st := freshEntry()
		st.atEOF = true
		st.refineByte(0, bsOf(0))
		if lknown {
			st.Lmax = 0
		}
		add(e, func() { e.Run(fn, st, nil) })
	}
	// further entry points: safety rules only
	for _, ex := range sp.extraEntries {
		parts := strings.Split(ex, ".")
		var f *ssa.Function
		if len(parts) == 2 {
			f = r.Prog.SSAFunc(parts[0], "", parts[1])
		} else {
			f = r.Prog.SSAFunc(parts[0], parts[1], parts[2])
		}
		if f == nil {
			r.SetRule("R-CURSOR")
			r.BrokenAnchor(ex)
			continue
		}
		cfg := engCfgFor(sp, ex)
		cfg.Owners[sp.rel+".*func"] = true
		cfg.NoTile = true
		e := NewEngine(r, cfg)
		st := freshEntry()
		if len(parts) == 2 {
			st.Lmax = 0 // fresh lexer over the argument
		}
		add(e, func() { e.Run(f, st, nil) })
	}
}

func tokName(r *core.Run, rel string, v int64) string {
	pk := r.Prog.Pkg(rel)
	if pk == nil {
		return fmt.Sprint(v)
	}
	for _, tn := range []string{"TokenType", "GrammarType"} {
		for n, c := range constsOfType(pk, tn) {
			if i, ok := constant.Int64Val(constant.ToInt(c)); ok && i == v {
				return n
			}
		}
	}
	return fmt.Sprint(v)
}

func retKey(e *Engine, name string, at *ssa.Return) string {
	fi := e.info(at.Parent())
	n := 0
	for _, b := range at.Parent().Blocks {
		if r, ok := lastInstr(b).(*ssa.Return); ok {
			n++
			if r == at {
				break
			}
		}
	}
	_ = fi
	return fmt.Sprintf("%s return #%d", name, n)
}

// checkReturn applies the per-return rules of Next.
func checkReturn(e *Engine, sp lexSpec, name string, st *State, ret []AbsVal, at *ssa.Return, errTok int64, boundary bool, spell map[int64]string) {
	if len(ret) < 2 {
		return
	}
	tt := ret[0]
	key := retKey(e, name, at)
	mayErr, onlyErr := true, false
	if tt.k == vInt {
		mayErr = false
		for _, v := range tt.ints {
			if v == errTok {
				mayErr = true
			}
		}
		onlyErr = mayErr && len(tt.ints) == 1
	}
	pos := at.Pos()
	if onlyErr {
		// R-ERRMOVE
		silentMid := !(st.dispLo == 0 && st.dispHi == 0) && st.errSet != 1 && !(st.atEOF && st.E == 0)
		if sp.errPath == "" {
			silentMid = !(st.dispLo == 0 && st.dispHi == 0) && !(st.atEOF && st.E == 0)
		}
		e.check(st, "R-ERRMOVE", key, pos, !silentMid, "the error token is returned after the cursor moved, without an error being recorded and not at end of input: the caller sees a bare error with Err() == nil/EOF in the middle of the data (e.g. the zero value of a failed table lookup)")
		// the bare error token (no error recorded) is the end-of-input report: it may only be given at the end
		// (decided for calls that start at a token boundary, i.e. up to and including the first error; after an
		// error the selection may be non-empty and the recorded error is sticky, which the weakest entry state cannot correlate)
		if boundary && st.dispLo == 0 && st.dispHi == 0 && st.errSet != 1 {
			e.check(st, "R-ERRMOVE", key+" only at the end", pos, st.atEOF && st.E == 0, "the error token is returned without an error being recorded at a position that is not established to be the end of input (e.g. at an embedded NUL byte): the caller takes it for the end-of-input report and the rest of the data is never tokenised")
		}
		// R-ERRSTUCK
		if st.errSet == 1 && !(st.atEOF && st.E == 0) {
			skey := fmt.Sprintf("%s error %q", name, st.errMsg)
			e.check(st, "R-ERRSTUCK", skey, pos, st.dispLo >= 1, "a lexical error is reported without consuming any input and not at end of input: every further call reports the same error again, so a caller that continues until io.EOF never terminates")
		}
		return
	}
	if mayErr {
		e.undecided(st, "R-ERRMOVE", key, pos, "token type is not determined on this path (may or may not be the error token)")
		return
	}
	// non-error token
	if st.wrote != 0 && tt.k == vInt {
		// R-INPLACE: which tokens may come with rewritten input bytes
		allowed := map[string]map[string]uint8{
			"html": {"StartTagToken": wroteFold, "EndTagToken": wroteFold, "AttributeToken": wroteFold, "SVGToken": wroteFold, "MathToken": wroteFold, "XMLToken": wroteFold}, // foreign-content tokens start with their (folded) tag name
			"xml":  {"AttributeToken": wroteSpace},
		}[sp.rel]
		okW := true
		for _, v := range tt.ints {
			if st.wrote&^allowed[tokName(e.r, sp.rel, v)] != 0 {
				okW = false
			}
		}
		e.check(st, "R-INPLACE", key+" rewrites only what the token may rewrite", pos, okW, fmt.Sprintf("the call returns %s after rewriting input bytes in place (case folding: %v, tab/newline to space: %v, other store: %v): the only bytes a lexer may alter are the ASCII case of HTML tag and attribute names and tab/newline inside quoted XML attribute values; anything else makes tokens differ from the input they are slices of (copy first: parse.Copy)", tokSet(e.r, sp.rel, tt), st.wrote&wroteFold != 0, st.wrote&wroteSpace != 0, st.wrote&wroteOther != 0))
	}
	data := ret[1]
	nonEmpty := data.k == vSlice && data.lenLo >= 1
	e.check(st, "R-PROGRESS", key+" non-empty", pos, nonEmpty, fmt.Sprintf("a non-error token (%s) may be empty (%s): repeated calls need not make progress", tokSet(e.r, sp.rel, tt), data))
	if boundary && (sp.tiles || sp.allowSkip) && sp.rel != "json" {
		okTile := data.k == vSlice && st.lastShift
		if sp.tiles {
			okTile = okTile && st.skips == 0 && st.shifts == 1
		}
		e.check(st, "R-TILE", key, pos, okTile, "the returned bytes are not the result of a Shift() that is the last cursor operation of the call (or bytes were skipped): the token does not end at the reported offset / tokens do not tile the input")
	}
	if boundary && spell != nil && tt.k == vInt {
		for _, v := range tt.ints {
			want, fixed := spell[v]
			if !fixed {
				continue
			}
			skey := fmt.Sprintf("%s spells %s", key, tokName(e.r, sp.rel, v))
			got, known := tokenText(st, data)
			if !known {
				e.check(st, "R-SPELL", skey, pos, false, fmt.Sprintf("token type with the fixed spelling %q is returned but the consumed bytes are not determined on this path", want))
				continue
			}
			e.check(st, "R-SPELL", skey, pos, got == want, fmt.Sprintf("token type %s (spelling %q) is returned after consuming %q", tokName(e.r, sp.rel, v), want, got))
		}
	}
	if boundary && sp.inTagPath != "" {
		checkTagState(e, sp, name, key, st, tt, pos)
	}
}

func tokSet(r *core.Run, rel string, tt AbsVal) string {
	if tt.k != vInt {
		return "?"
	}
	var s []string
	for i, v := range tt.ints {
		if i > 4 {
			s = append(s, "…")
			break
		}
		s = append(s, tokName(r, rel, v))
	}
	return strings.Join(s, "|")
}

// tokenText reconstructs the bytes of the token just shifted, if all are known.
func tokenText(st *State, data AbsVal) (string, bool) {
	if data.k != vSlice || data.lenLo != data.lenHi || data.lenLo > 8 {
		return "", false
	}
	n := data.lenLo
	var sb strings.Builder
	for i := -n; i < 0; i++ {
		b, ok := st.byteAt(i).single()
		if !ok {
			return "", false
		}
		sb.WriteByte(b)
	}
	return sb.String(), true
}

// checkEOFReturn: R-EOF.
func checkEOFReturn(e *Engine, sp lexSpec, name string, st *State, ret []AbsVal, at *ssa.Return, errTok int64, emptySel bool) {
	if len(ret) < 1 {
		return
	}
	key := retKey(e, name, at)
	tt := ret[0]
	c, isConst := tt.constInt()
	moved := !(st.dispLo == 0 && st.dispHi == 0)
	e.check(st, "R-EOF", key+" no move at EOF", at.Pos(), !moved, "at end of input the call moves the cursor: it steps over the terminator")
	if emptySel {
		e.check(st, "R-EOF", key+" reports the end", at.Pos(), isConst && c == errTok, fmt.Sprintf("at end of input with an empty selection the call returns %s instead of the error token: the end is not reported (again) and a caller looping on Next never stops", tokSet(e.r, sp.rel, tt)))
	} else if !(isConst && c == errTok) {
		// a flush of the leftover selection: must go through Shift so that the next call starts empty
		e.check(st, "R-EOF", key+" flushes then ends", at.Pos(), st.Lmax == 0, "at end of input a non-error token is returned without collapsing the selection: the same token would be returned forever")
	}
}

// checkTagState: R-TAGSTATE on configuration B with a known entry value of inTag.
func checkTagState(e *Engine, sp lexSpec, name, key string, st *State, tt AbsVal, pos token.Pos) {
	if e.tagEntry < 0 || tt.k != vInt {
		return
	}
	pk := e.r.Prog.Pkg(sp.rel)
	cs := constsOfType(pk, "TokenType")
	val := func(n string) int64 {
		v, _ := constant.Int64Val(constant.ToInt(cs[n]))
		return v
	}
	attr := val("AttributeToken")
	entryIn := e.tagEntry == 1
	exit, known := st.heap[sp.inTagPath].constInt()
	for _, v := range tt.ints {
		tn := tokName(e.r, sp.rel, v)
		k := fmt.Sprintf("%s inTag=%v -> %s", key, entryIn, tn)
		if v == attr {
			e.check(st, "R-TAGSTATE", k, pos, entryIn && known && exit == 1, "an attribute token is returned although the lexer was not inside a tag (or leaves the tag state): attributes would appear outside a start tag")
			continue
		}
		opens := strings.HasPrefix(tn, "StartTag") && !strings.Contains(tn, "Close") && !strings.Contains(tn, "Void")
		closes := strings.Contains(tn, "StartTagClose") || strings.Contains(tn, "StartTagVoid")
		foreign := tn == "SVGToken" || tn == "MathToken" || tn == "XMLToken"
		switch {
		case opens:
			e.check(st, "R-TAGSTATE", k, pos, !entryIn && known && exit == 1, "a start tag token must be returned from outside a tag and enter the tag state")
		case closes:
			e.check(st, "R-TAGSTATE", k, pos, entryIn && known && exit == 0, "a tag-closing token must be returned from inside a tag and leave the tag state")
		case foreign:
			e.check(st, "R-TAGSTATE", k, pos, !entryIn && known && exit == 0, "a foreign-content token must be returned from outside a tag and leave the tag state cleared")
		default:
			e.check(st, "R-TAGSTATE", k, pos, !entryIn && known && exit == 0, "a content token is returned while inside a tag, or changes the tag state")
		}
	}
}

// ---------------------------------------------------------------------------
// parse.Position and the shebang prefix of js.Parse

func runPosition(r *core.Run, tasks *[]*engTask) {
	fn := r.Prog.SSAFunc("", "", "Position")
	if fn == nil {
		r.SetRule("R-CURSOR")
		r.BrokenAnchor("parse.Position")
		return
	}
	e := NewEngine(r, EngCfg{Rel: "", Owners: map[string]bool{"parse.*func": true}, Tag: "parse.Position", NoTile: true})
	st := freshEntry()
	st.Lmax = 0
	*tasks = append(*tasks, &engTask{e: e, run: func() { e.Run(fn, st, nil) }})
}

func runJSParsePrefix(r *core.Run, tasks *[]*engTask) {
	fn := r.Prog.SSAFunc("js", "", "Parse")
	if fn == nil {
		r.SetRule("R-CURSOR")
		r.BrokenAnchor("js.Parse")
		return
	}
	e := NewEngine(r, EngCfg{Rel: "js", Owners: map[string]bool{"js.Lexer": true}, ErrPath: "js.Lexer.err", Tag: "js.Parse prefix", NoTile: true})
	e.opaqueOK = true
	st := freshEntry()
	st.Lmax = 0
	*tasks = append(*tasks, &engTask{e: e, run: func() { e.Run(fn, st, nil) }})
}

var _ = sort.Strings
var _ = types.Typ

// runCSSParser: R-EOFNEST. css.Parser.Next is analysed with at least one block open
// (len(state) >= 2); the dynamic call through the state stack is resolved to each
// of the state functions that are ever pushed.
func runCSSParser(r *core.Run, tasks *[]*engTask) {
	fn := r.Prog.SSAFunc("css", "Parser", "Next")
	if fn == nil {
		r.SetRule("R-EOFNEST")
		r.BrokenAnchor("css.Parser.Next")
		return
	}
	cm := cssModelOf(r)
	pushed := cm.pushed
	errPath, stackPath := "css.Parser."+cm.errField, "css.Parser."+cm.stack
	if cm.errField == "" || cm.stack == "" {
		r.SetRule("R-EOFNEST")
		r.BrokenAnchor("css.Parser error-message / state-stack fields")
		return
	}
	var targets []*ssa.Function
	for f := range pushed {
		targets = append(targets, f)
	}
	sort.Slice(targets, func(i, j int) bool { return targets[i].Name() < targets[j].Name() })
	if len(targets) < 3 {
		r.SetRule("R-EOFNEST")
		r.BrokenAnchor("pushed css state functions")
		return
	}
	for _, t := range targets {
		t := t
		cfg := EngCfg{Rel: "css", Owners: map[string]bool{"css.Parser": true}, Only: "R-EOFNEST", NoTile: true,
			DynTargets: []*ssa.Function{t}, StrPaths: map[string]bool{errPath: true}, Tag: "css.Parser.Next in state " + t.Name()}
		e := NewEngine(r, cfg)
		e.opaqueOK = true // the lexer is a black box here: any token type, cursor unknown
		e.onReturn = func(st *State, ret []AbsVal, at *ssa.Return) {
			if len(ret) < 1 {
				return
			}
			gt, isConst := ret[0].constInt()
			key := "css.Parser.Next in " + t.Name()
			if ret[0].k == vInt {
				has0 := false
				for _, v := range ret[0].ints {
					if v == 0 {
						has0 = true
					}
				}
				if !has0 {
					e.check(st, "R-EOFNEST", key+" (no error unit)", at.Pos(), true, "")
					return
				}
			}
			errv, known := st.heap[errPath].constInt()
			switch {
			case isConst && gt == 0 && known && errv == 1:
				e.check(st, "R-EOFNEST", key+" (ErrorGrammar with a parse error)", at.Pos(), true, "")
			case isConst && gt == 0 && known && errv == 0:
				e.check(st, "R-EOFNEST", key+" silent ErrorGrammar", at.Pos(), false, "with a block open (state "+t.Name()+" on the stack) Next can return ErrorGrammar without a parse error: the consumer sees the end-of-input report (Err() == io.EOF) before the matching End unit, so a Begin unit is never closed for a consumer that stops at the end of input")
			default:
				e.undecided(st, "R-EOFNEST", key+" undetermined", at.Pos(), "the returned grammar type or the error state is not determined on this path")
			}
		}
		st := freshEntry()
		st.coarse = true
		st.heap["lo:len("+stackPath+")"] = intVal(2)
		*tasks = append(*tasks, &engTask{e: e, run: func() { e.Run(fn, st, nil) }})
	}
}

func propHasRule(prop, rule string) bool {
	for _, rl := range For(prop) {
		if rl.ID == rule {
			return true
		}
	}
	return false
}
