package rules

import (
	"fmt"
	"go/ast"
	"go/token"
	"go/types"
	"sort"
	"strings"

	"golang.org/x/tools/go/ssa"

	"verif/checker/core"
)

func init() {
	register(&Rule{ID: "R-GLOBALS", Props: []string{"C20"}, Doc: "no package-level variable (or memory it owns) is written outside package initialisation", Run: runGlobals})
	register(&Rule{ID: "R-NOSHARE", Props: []string{"C20"}, Doc: "no goroutines, unsafe, cgo; sync/atomic only in the audited reader; constructors capture no global mutable object", Run: runNoShare})
}

// allModuleFuncs lists every function (incl. closures and methods) of the module's non-test packages.
func allModuleFuncs(r *core.Run) []*ssa.Function {
	var out []*ssa.Function
	seen := map[*ssa.Function]bool{}
	var add func(f *ssa.Function)
	add = func(f *ssa.Function) {
		if f == nil || seen[f] {
			return
		}
		seen[f] = true
		if len(f.Blocks) > 0 {
			out = append(out, f)
		}
		for _, a := range f.AnonFuncs {
			add(a)
		}
	}
	for _, pk := range r.Prog.Pkgs {
		sp := r.Prog.SSA.Package(pk.Types)
		if sp == nil {
			continue
		}
		for _, m := range sp.Members {
			switch x := m.(type) {
			case *ssa.Function:
				add(x)
			case *ssa.Type:
				for _, t := range []types.Type{x.Type(), types.NewPointer(x.Type())} {
					ms := r.Prog.SSA.MethodSets.MethodSet(t)
					for i := 0; i < ms.Len(); i++ {
						if fn := r.Prog.SSA.MethodValue(ms.At(i)); fn != nil && fn.Synthetic == "" {
							add(fn)
						}
					}
				}
			}
		}
	}
	sort.Slice(out, func(i, j int) bool { return out[i].String() < out[j].String() })
	return out
}

func moduleGlobals(r *core.Run) []*ssa.Global {
	var out []*ssa.Global
	for _, pk := range r.Prog.Pkgs {
		sp := r.Prog.SSA.Package(pk.Types)
		if sp == nil {
			continue
		}
		for _, m := range sp.Members {
			if g, ok := m.(*ssa.Global); ok && !strings.HasPrefix(g.Name(), "init$") {
				out = append(out, g)
			}
		}
	}
	sort.Slice(out, func(i, j int) bool { return out[i].String() < out[j].String() })
	return out
}

func isRefType(t types.Type) bool {
	switch t.Underlying().(type) {
	case *types.Slice, *types.Map, *types.Pointer, *types.Chan:
		return true
	}
	return false
}

// globalRoot follows address computations back to a module global:
// returns (global, viaLoad) where viaLoad means the path passes through a load
// of a reference-typed value stored in the global (memory owned by it).
func globalRoot(v ssa.Value, local map[ssa.Value]*ssa.Global, depth int) (*ssa.Global, bool) {
	if depth > 10 || v == nil {
		return nil, false
	}
	if g, ok := local[v]; ok {
		return g, true
	}
	switch x := v.(type) {
	case *ssa.Global:
		if core.InModule(x.Pkg.Pkg) {
			return x, false
		}
	case *ssa.IndexAddr:
		return globalRoot(x.X, local, depth+1)
	case *ssa.FieldAddr:
		return globalRoot(x.X, local, depth+1)
	case *ssa.Slice:
		return globalRoot(x.X, local, depth+1)
	case *ssa.ChangeType:
		return globalRoot(x.X, local, depth+1)
	case *ssa.Convert:
		if isRefType(x.Type()) && isRefType(x.X.Type()) {
			return globalRoot(x.X, local, depth+1)
		}
	case *ssa.UnOp:
		if x.Op == token.MUL && isRefType(x.Type()) {
			if g, _ := globalRoot(x.X, local, depth+1); g != nil {
				return g, true
			}
		}
	case *ssa.Phi:
		for _, e := range x.Edges {
			if e == v {
				continue
			}
			if g, via := globalRoot(e, local, depth+1); g != nil {
				return g, via
			}
		}
	}
	return nil, false
}

// Audited sites where a slice that may alias a package-level byte slice is the
// first argument of append.
var globalAliasExceptions = map[string]string{}

func runGlobals(r *core.Run) {
	globals := moduleGlobals(r)
	r.Count("package-level variables", len(globals))
	r.Floor("package-level variables", len(globals), 35)
	writes := map[*ssa.Global][]string{}
	fns := allModuleFuncs(r)
	r.Count("functions scanned", len(fns))
	report := func(g *ssa.Global, fn *ssa.Function, pos token.Pos, what string) {
		writes[g] = append(writes[g], fmt.Sprintf("%s at %s in %s", what, r.Prog.Position(pos), fnLabel(fn)))
	}
	for _, fn := range fns {
		if fn.Name() == "init" && fn.Synthetic != "" {
			continue // package initialiser
		}
		if strings.HasPrefix(fn.Name(), "init#") && fn.Parent() == nil && fn.Signature.Recv() == nil {
			continue // a declared func init(): runs once, before any caller exists, and cannot be called
		}
		for _, b := range fn.Blocks {
			for _, in := range b.Instrs {
				switch x := in.(type) {
				case *ssa.Store:
					if g, via := globalRoot(x.Addr, nil, 0); g != nil {
						w := "assignment to the variable or its element"
						if via {
							w = "store into memory owned by the variable"
						}
						report(g, fn, x.Pos(), w)
					}
				case *ssa.MapUpdate:
					if g, _ := globalRoot(x.Map, nil, 0); g != nil {
						report(g, fn, x.Pos(), "map update")
					}
				case *ssa.Call:
					if bi, ok := x.Call.Value.(*ssa.Builtin); ok {
						switch bi.Name() {
						case "copy", "delete", "clear":
							if g, _ := globalRoot(x.Call.Args[0], nil, 0); g != nil {
								report(g, fn, x.Pos(), bi.Name()+" into the variable's memory")
							}
						case "append":
							if g, _ := globalRoot(x.Call.Args[0], nil, 0); g != nil {
								// append to a global-owned slice may write into its spare capacity
								report(g, fn, x.Pos(), "append onto the variable's backing array")
							}
						}
						continue
					}
					// module callees that write through a parameter
					if callee := x.Call.StaticCallee(); callee != nil && core.InModule(fnPkg(callee)) {
						for i, a := range x.Call.Args {
							if g, _ := globalRoot(a, nil, 0); g != nil && writesThroughParam(callee, i, 0) {
								report(g, fn, x.Pos(), "passed to "+fnLabel(callee)+", which writes through that parameter")
							}
						}
					}
				}
			}
		}
	}
	// closures created during package initialisation that write through a captured variable:
	// the captured variable is shared by every caller of the closure (state hidden from the list of globals)
	nclos := 0
	for _, pk := range r.Prog.Pkgs {
		sp := r.Prog.SSA.Package(pk.Types)
		if sp == nil {
			continue
		}
		initFn := sp.Func("init")
		if initFn == nil {
			continue
		}
		var scan func(fn *ssa.Function, depth int)
		seen := map[*ssa.Function]bool{}
		scan = func(fn *ssa.Function, depth int) {
			if fn == nil || seen[fn] || depth > 4 {
				return
			}
			seen[fn] = true
			for _, b := range fn.Blocks {
				for _, in := range b.Instrs {
					switch x := in.(type) {
					case *ssa.MakeClosure:
						cf, _ := x.Fn.(*ssa.Function)
						if cf == nil {
							continue
						}
						nclos++
						if closureOnlyCalledInPlace(x) {
							// a helper closure of the enclosing function (set := func(…){ table[c] |= … }; set(…)): the
							// function value never leaves the invocation that created it, so the variable it captured
							// is that invocation's local and dies with it — not state shared between callers
							scan(cf, depth+1)
							continue
						}
						for i, fv := range cf.FreeVars {
							if w := writesThroughFreeVar(cf, fv); w != nil {
								r.Fail(fmt.Sprintf("closure %s created at package init writes captured %s", fnLabel(cf), fv.Name()), w.Pos(), "a function value built during package initialisation mutates a variable it captured: that variable is process-wide shared state (instances interfere, concurrent calls race)")
							}
							_ = i
						}
						scan(cf, depth+1)
					case *ssa.Call:
						if f := x.Call.StaticCallee(); f != nil && core.InModule(fnPkg(f)) {
							scan(f, depth+1)
						} else if mc, ok := x.Call.Value.(*ssa.MakeClosure); ok {
							if f, ok := mc.Fn.(*ssa.Function); ok {
								scan(f, depth+1)
							}
						}
					}
				}
			}
			for _, a := range fn.AnonFuncs {
				scan(a, depth+1)
			}
		}
		scan(initFn, 0)
	}
	r.Count("closures created during package initialisation", nclos)
	for _, g := range globals {
		key := "global " + core.RelPkg(g.Pkg.Pkg) + "." + g.Name()
		if ws := writes[g]; len(ws) > 0 {
			r.Fail(key, g.Pos(), fmt.Sprintf("package-level variable is written after initialisation (%s): shared mutable state makes instances interfere and races under concurrent use", ws[0]), ws...)
		} else {
			r.OK(key, g.Pos(), "only written by the package initialiser")
		}
	}
}

// writesThroughFreeVar: a store (or copy/append) whose destination derives from the captured variable.
func writesThroughFreeVar(fn *ssa.Function, fv *ssa.FreeVar) ssa.Instruction {
	derived := map[ssa.Value]bool{fv: true}
	for changed := true; changed; {
		changed = false
		for _, b := range fn.Blocks {
			for _, in := range b.Instrs {
				v, ok := in.(ssa.Value)
				if !ok || derived[v] {
					continue
				}
				switch x := in.(type) {
				case *ssa.IndexAddr:
					if derived[x.X] {
						derived[v], changed = true, true
					}
				case *ssa.FieldAddr:
					if derived[x.X] {
						derived[v], changed = true, true
					}
				case *ssa.Slice:
					if derived[x.X] {
						derived[v], changed = true, true
					}
				case *ssa.UnOp:
					if x.Op == token.MUL && derived[x.X] && isRefType(x.Type()) {
						derived[v], changed = true, true
					}
				}
			}
		}
	}
	for _, b := range fn.Blocks {
		for _, in := range b.Instrs {
			switch x := in.(type) {
			case *ssa.Store:
				if derived[x.Addr] {
					return x
				}
			case *ssa.MapUpdate:
				if derived[x.Map] {
					return x
				}
			case *ssa.Call:
				if bi, ok := x.Call.Value.(*ssa.Builtin); ok && (bi.Name() == "copy" || bi.Name() == "clear") && derived[x.Call.Args[0]] {
					return x
				}
			}
		}
	}
	return nil
}

// writesThroughParam: does fn store through its i-th parameter (directly or by
// passing it on to a module callee that does)?
func writesThroughParam(fn *ssa.Function, i int, depth int) bool {
	if depth > 4 || i >= len(fn.Params) || len(fn.Blocks) == 0 {
		return false
	}
	p := fn.Params[i]
	if !isRefType(p.Type()) {
		return false
	}
	derived := map[ssa.Value]bool{p: true}
	for changed := true; changed; {
		changed = false
		for _, b := range fn.Blocks {
			for _, in := range b.Instrs {
				v, ok := in.(ssa.Value)
				if !ok || derived[v] {
					continue
				}
				switch x := in.(type) {
				case *ssa.IndexAddr:
					if derived[x.X] {
						derived[v], changed = true, true
					}
				case *ssa.Slice:
					if derived[x.X] {
						derived[v], changed = true, true
					}
				case *ssa.FieldAddr:
					if derived[x.X] {
						derived[v], changed = true, true
					}
				case *ssa.Phi:
					for _, e := range x.Edges {
						if derived[e] {
							derived[v], changed = true, true
						}
					}
				case *ssa.ChangeType:
					if derived[x.X] {
						derived[v], changed = true, true
					}
				}
			}
		}
	}
	for _, b := range fn.Blocks {
		for _, in := range b.Instrs {
			switch x := in.(type) {
			case *ssa.Store:
				if derived[x.Addr] {
					return true
				}
			case *ssa.MapUpdate:
				if derived[x.Map] {
					return true
				}
			case *ssa.Call:
				if bi, ok := x.Call.Value.(*ssa.Builtin); ok {
					if (bi.Name() == "copy" || bi.Name() == "clear" || bi.Name() == "delete") && derived[x.Call.Args[0]] {
						return true
					}
					continue
				}
				if callee := x.Call.StaticCallee(); callee != nil && core.InModule(fnPkg(callee)) {
					for j, a := range x.Call.Args {
						if derived[a] && writesThroughParam(callee, j, depth+1) {
							return true
						}
					}
				}
			}
		}
	}
	return false
}

// ---------------------------------------------------------------- R-NOSHARE

func runNoShare(r *core.Run) {
	// go statements, unsafe, cgo, sync/atomic imports
	goStmts := 0
	for _, fn := range allModuleFuncs(r) {
		for _, b := range fn.Blocks {
			for _, in := range b.Instrs {
				if g, ok := in.(*ssa.Go); ok {
					goStmts++
					r.Fail("go statement in "+fnLabel(fn), g.Pos(), "the library starts a goroutine: its state is shared with the caller's goroutine")
				}
			}
		}
	}
	if goStmts == 0 {
		r.OK("no go statements", token.NoPos, "")
	}
	allowedSync := map[string]string{"parse": "binaryReaderSeeker.mu serialises Seek+Read on a caller-supplied io.ReadSeeker"}
	for _, pk := range r.Prog.Pkgs {
		rel := core.RelPkg(pk.Types)
		for _, f := range pk.Syntax {
			for _, im := range f.Imports {
				path := strings.Trim(im.Path.Value, `"`)
				key := fmt.Sprintf("import %s in %s", path, rel)
				switch path {
				case "unsafe", "C":
					r.Fail(key, im.Pos(), "unsafe/cgo escapes the memory model the non-interference argument relies on")
				case "sync/atomic":
					r.Fail(key, im.Pos(), "atomics indicate shared mutable state")
				case "sync":
					if why, ok := allowedSync[rel]; ok {
						// every use of sync in this package must be the audited mutex field
						uses := syncUses(pk.TypesInfo, f)
						bad := ""
						for _, u := range uses {
							if u != "Mutex" {
								bad = u
							}
						}
						r.Check(bad == "", key, im.Pos(), why, "sync."+bad+" is used: only the audited sync.Mutex of binaryReaderSeeker is expected")
					} else {
						r.Fail(key, im.Pos(), "package uses sync: indicates state shared between goroutines (e.g. a pool or a once-initialised cache)")
					}
				}
			}
		}
	}
	// sync.Mutex appears only as a field (per-instance lock, today: the seeker-backed binary reader)
	if pk := r.Prog.Pkg(""); pk != nil {
		n := 0
		for id, obj := range pk.TypesInfo.Defs {
			v, ok := obj.(*types.Var)
			if !ok || !strings.HasSuffix(v.Type().String(), "sync.Mutex") {
				continue
			}
			n++
			_ = id
			// a lock that is a field belongs to one instance; a package-level lock serialises state that every
			// instance shares (the holder is identified by where it lives, not by its name)
			r.Check(v.IsField() || v.Parent() != pk.Types.Scope(), "sync.Mutex holder "+v.Name(), v.Pos(), "", "a package-level sync.Mutex exists: it can only be there to guard state shared by all instances")
		}
		r.Count("sync.Mutex declarations", n)
	}
	// constructors: values stored into a freshly allocated instance are parameters,
	// constants, fresh allocations, or audited immutable globals
	auditedShared := map[string]string{
		"parse.nullBuffer":  "one-byte terminator-only buffer for empty input; never written (Input writes nothing; lexers write only inside tokens, which exclude the terminator)",
		"buffer.nullBuffer": "same as parse.nullBuffer for buffer.Lexer",
	}
	ctor := 0
	for _, fn := range allModuleFuncs(r) {
		if !strings.HasPrefix(fn.Name(), "New") && fn.Name() != "Parse" {
			continue
		}
		if fn.Signature.Recv() != nil {
			continue
		}
		ctor++
		for _, b := range fn.Blocks {
			for _, in := range b.Instrs {
				st, ok := in.(*ssa.Store)
				if !ok {
					continue
				}
				if g, _ := globalRoot(st.Val, nil, 0); g != nil && isRefType(st.Val.Type()) {
					name := core.RelPkg(g.Pkg.Pkg) + "." + g.Name()
					key := fmt.Sprintf("%s captures %s", fnLabel(fn), name)
					if why, ok := auditedShared[name]; ok {
						r.Except(key, st.Pos(), why)
					} else if isNulOnlyGlobal(r, g) {
						// the same buffer under another name: recognised by what it is (a []byte literal holding only the terminator)
						r.Except(key, st.Pos(), auditedShared["parse.nullBuffer"])
					} else {
						r.Fail(key, st.Pos(), "constructor stores a reference to package-level memory into the new instance: instances share it")
					}
				}
			}
		}
	}
	r.Count("constructors scanned", ctor)
	r.Floor("constructors scanned", ctor, 20)
}

func syncUses(info *types.Info, f *ast.File) []string {
	var out []string
	ast.Inspect(f, func(n ast.Node) bool {
		se, ok := n.(*ast.SelectorExpr)
		if !ok {
			return true
		}
		if id, ok := se.X.(*ast.Ident); ok {
			if pn, ok := info.Uses[id].(*types.PkgName); ok && pn.Imported().Path() == "sync" {
				out = append(out, se.Sel.Name)
			}
		}
		return true
	})
	return out
}

// closureOnlyCalledInPlace: every use of the function value is a direct call of it in the function that built it.
func closureOnlyCalledInPlace(mc *ssa.MakeClosure) bool {
	refs := mc.Referrers()
	if refs == nil || len(*refs) == 0 {
		return false
	}
	for _, u := range *refs {
		switch x := u.(type) {
		case *ssa.DebugRef:
		case *ssa.Call:
			if x.Call.Value != ssa.Value(mc) {
				return false // handed on as an argument
			}
			for _, a := range x.Call.Args {
				if a == ssa.Value(mc) {
					return false
				}
			}
		default:
			return false // stored, returned, deferred, sent, captured by another closure …
		}
	}
	return true
}
