package rules

// Property metadata. Each entry states exactly which clauses the registered
// rules decide and which they do not; MANIFEST.json is generated from it.

const commonNote = "Trusted: go/types, go/ssa (x/tools v0.29.0) model the source faithfully; the default build configuration (linux/amd64, thorough also GOARCH=386) is the one analysed; test files are not analysed."

func claim(id, level, text, note, technique, ref, expl string) {
	Props[id] = PropMeta{Claimed: true, Level: level, LevelText: text, LevelNote: note + " " + commonNote, Technique: technique, DesignRef: ref, Explanation: expl,
		TrustedBase: []string{"go/types + go/ssa (golang.org/x/tools v0.29.0)", "rule implementations under /verif/checker/rules", "frozen reference tables in the checker (ECMAScript punctuators/keyword blocks, power-of-ten ladder)"}}
}

func notYet(id string) {
	Props[id] = PropMeta{NAReason: "check not built yet (DESIGN.md section 10 lists the planned static rules); no claim is made until the rule exists"}
}

func init() {
	for _, id := range []string{"C03", "C04", "C05", "C08"} {
		notYet(id)
	}
	claim("C06", "other",
		"Static table agreement: for every keyword, punctuator and operator the type the lexer's lookup tables return spells (TokenType.Bytes) exactly the text that selects it. Decides the 'type of a keyword, punctuator or operator token is the one whose canonical spelling equals its text' clause for all table-driven returns; does not decide numeric/string/template/regexp/identifier grammars or maximal munch.",
		"Only the table-agreement clause is decided.", "constant evaluation of package-level tables over the type-checked AST; table-agreement rules", "DESIGN.md 4/C06",
		"Decided: Keywords map is a bijection onto the reserved/identifier constant blocks and each value's Bytes() equals its key; op*Tokens maps agree with operatorBytes for the four spelling forms c, c=, cc, cc=; punctuator spellings equal ECMAScript's; Is* bit tests agree with the constant blocks; ASCII identifier tables equal [$_A-Za-z]/[$_0-9A-Za-z]. Not decided: numeric, string, template, regexp and identifier-escape grammars, maximal munch, template nesting (value-level).")
	claim("C14", "other",
		"Proof by constant evaluation that LenUint is the digit-count ladder (i<10^k -> k for k=1..19, else 20) and LenInt adds exactly one for the sign; the power-of-ten tables hold exactly 10^k. Parsed/printed values are not decided.",
		"Only LenInt/LenUint and the pow10 tables are decided.", "constant evaluation + SSA shape matching", "DESIGN.md 4/C14",
		"Decided: LenUint ladder and LenInt shape (so LenInt equals len(strconv.Itoa) for every int64); float64pow10/int64pow10 contents. Not decided: values of ParseFloat/ParseDecimal/Append* (numeric, value-level), destination-prefix preservation.")
	claim("C16", "other",
		"Static agreement of the generated perfect hashes with their text tables (every Hash constant is found by the probe sequence extracted from ToHash, every slot is a constant, texts equal names) and of the byte-class tables with their documented sets; EncodeURL escapes exactly table[c]. Helper scanners' agreement with regexp/net/url/mime references is not decided.",
		"Hash clause and table clause only.", "constant evaluation of tables; structural extraction of the hash probe", "DESIGN.md 4/C16",
		"Decided: T-HASH for css and html (for every constant ToHash(text)==constant; non-zero results are constants whose text equals the argument by the compare loops), whitespace/newline tables, EncodeURL branch shape, encoding tables escape %, controls and non-ASCII. Not decided: Number/Dimension/Mediatype/DataURI/DecodeURL reference equivalence (value-level).")
	claim("C09", "other",
		"Static agreement of the html tag-name perfect hash with its table (the raw-text and foreign-content elements are recognised by name for every constant).",
		"Hash clause only so far.", "constant evaluation of tables", "DESIGN.md 4/C09",
		"Decided: T-HASH(html). Not decided: token-per-construct conformance, script double-escape automaton, case handling.")
	claim("C17", "other",
		"Static check that every size increment in the attribute/CDATA escapers equals len(entity)-1 of the entity copied for the same byte and that the entity decodes to the byte escaped, so the output buffer can never be too small and the chosen quote is never emitted raw. Semantic preservation of whitespace/entity replacement is not decided.",
		"Only the buffer-size/entity-agreement clause is decided.", "AST pattern rules with constant evaluation", "DESIGN.md 4/C17",
		"Decided: T-ESCLEN for html.EscapeAttrVal, xml.EscapeAttrVal, xml.EscapeCDATAVal; whitespace/newline table membership used by ReplaceMultipleWhitespace. Not decided: decoded-text preservation, idempotence, whitespace-run semantics (value-level).")
	claim("C18", "proof",
		"Structural proof over js.Walk and the node type definitions: every node struct type with child fields has an arm (or is opened in place by its container), every child field is passed to Walk on every path that has not established it is nil, nodes are addressed inside the tree (no range/by-value copies), typed-nil pointers are guarded, Enter dominates all children, Exit is deferred exactly once on the visitor returned by Enter, and a nil visitor skips exactly the subtree. This is the property for the tree types as defined; it holds for every tree, not for sampled programs.",
		"Walkability is defined by go/types method sets (a field is a child iff its type is an INode interface, or a (slice of) struct/pointer whose pointer type implements INode); Var.Link is tabled as a scope-table link; ClassElement/ClassElementName are tabled as documented unions.",
		"exhaustiveness + per-arm coverage rules on the type-checked AST; dominator rules on SSA", "DESIGN.md 4/C18",
		"Decided: R-WALK (arms, field coverage, in-tree addressing, typed-nil guards), R-WALKORDER (Enter/Exit protocol). Not decided: nothing of the stated property for trees built from the declared node types; that js.Parse only builds such trees is by Go's type system.")
	claim("C19", "other",
		"Static rules over binary.go/binary_unix.go: Seek's target per whence has the io.Seeker affine form and its guards entail 0<=target<=Len; in-memory Bytes() produce io.EOF only under guards implying fewer than n bytes remain and return a capped full slice; fixed-width reads compose bytes in exactly the big-/little-endian layout with matching width guards and mirror the writer; Bitmap end/growth tests bound the byte actually accessed; Read/ReadBytes advance pos by len(data), ReadAt does not, first error wins. Dynamic behaviour of io.Reader/Seeker/ReaderAt/file back ends is not decided.",
		"Integer conversions are treated as exact (no overflow modelling); encoding/binary's AppendUintN is trusted.",
		"affine normalisation of SSA index/compare expressions + dominator-derived path facts (entailment by linear combination); byte-layout extraction from OR-trees", "DESIGN.md 4/C19",
		"Decided: R-SEEK, R-EOFSTRICT, R-BITIDX, R-LAYOUT, R-READPOS as described. Not decided: behaviour of the io.Reader/io.ReadSeeker/io.ReaderAt/file/mmap back ends beyond the in-memory Bytes() implementations (mmap's Bytes() is covered on unix builds); value round trip of arbitrary write/read sequences.")
	claim("C12", "other",
		"Static check that the bodies of parse.Input and buffer.Lexer implement exactly the documented start/pos arithmetic (affine normal forms of every store, index, slice bound and EOF comparison), that every escaping slice is capped (buf[a:b:b]), that PeekRune/MoveRune look-ahead reads and reported lengths are covered by guards that account for the position argument (arithmetically or by the sentinel argument), and that the constructors write the caller's array only at index len(b) under cap(b)>len(b) with Restore putting the byte back. History-level behaviour and UTF-8 decoding values are not decided.",
		"Integer arithmetic treated as exact.", "affine normalisation of SSA expressions + dominator path facts; AST pattern rule for the borrow/restore idiom", "DESIGN.md 4/C12",
		"Decided: R-INPUT, R-PEEKRUNE, R-BORROW. Not decided: behaviour over operation histories, decoded rune values, readers failing mid-stream (value/history-level).")
	claim("C13", "other",
		"Static necessary conditions of three clauses: (ShiftLen) whenever StreamLexer installs a different backing array every field living in the buffer's coordinate system is re-based by the same offset; (Err timing) Err() hides io.EOF exactly while pos < len(buf) and never hides another error; (unfreed tokens intact) bufferPool reuses the current buffer only when tail==0, pos>=len(oldBuf), size<=cap, reuses a pooled block only when inactive, and deactivates a block only once pos passed its length. Chunking independence, the memory bound and token lifetime as such are schedule/history-valued and not decided.",
		"Coordinate fields are inferred (used as index/bound of z.buf or assigned from such).", "field-coordinate inference + affine offset comparison on SSA; dominator path facts", "DESIGN.md 4/C13",
		"Decided: R-REBASE, R-STREAMERR, R-POOLREUSE (structural necessary conditions). Not decided: equivalence with a cursor over the whole input for all chunkings, memory bound, token lifetime vs Free (history/schedule-valued).")
	claim("C01", "other",
		"(in progress) recursion and cursor-primitive rules", "", "call-graph SCC analysis; affine guards", "DESIGN.md 4/C01", "in progress")
	claim("C20", "other",
		"Static non-interference argument over every function of every non-test package: no package-level variable, and no memory reachable by one load from a reference-typed package-level variable (followed through phis, slicing, element/field addressing and module callees that write through a parameter), is written outside package initialisation; no goroutine is started; no unsafe/cgo/atomic; sync only as the audited mutex of binaryReaderSeeker; constructors store no reference to package-level memory into new instances except the audited terminator buffers. With no shared mutable state, instances on disjoint data cannot race under any interleaving and results cannot depend on earlier calls.",
		"Assumes the Go memory model for disjoint data, race-free standard library callees, and callers not mutating exported variables or shared constant slices handed to them. Aliases that travel through struct fields (e.g. css.Parser.data = endBytes) are followed only one load deep; the append onto such a field is covered by the audited-site note in DESIGN.md.",
		"who-may-write analysis over SSA (global-rooted address/alias tracking, write-through-parameter summaries)", "DESIGN.md 4/C20",
		"Decided: R-GLOBALS (one obligation per package-level variable), R-NOSHARE. Not decided: aliasing of package-level byte slices that flows through struct fields across calls (field-sensitive points-to), dynamic race detection.")
	claim("C15", "other",
		"(in progress) who-may-construct rule for parse.Error and offset provenance", "", "who-may-construct / value-origin rules on SSA", "DESIGN.md 4/C15", "in progress")
	claim("C07", "other",
		"(in progress) IsIdent/IsURLUnquoted reuse the lexer's scanners", "", "call-shape rule on SSA", "DESIGN.md 4/C07", "in progress")
	claim("C02", "other", "(in progress) cursor engine", "", "abstract interpretation", "DESIGN.md 4/C02", "in progress")
	claim("C10", "other", "(in progress)", "", "abstract interpretation", "DESIGN.md 4/C10", "in progress")
	claim("C11", "other", "(in progress)", "", "abstract interpretation", "DESIGN.md 4/C11", "in progress")
}
