package rules

// Property metadata. Each entry states exactly which clauses the registered
// rules decide and which they do not; MANIFEST.json is generated from it.

const commonNote = "Trusted: go/types, go/ssa (x/tools v0.29.0) model the source faithfully; the default build configuration (linux/amd64, thorough also GOARCH=386) is the one analysed; test files are not analysed."

func claim(id, level, text, note, technique, ref, expl string) {
	Props[id] = PropMeta{Claimed: true, Level: level, LevelText: text, LevelNote: note + " " + commonNote, Technique: technique, DesignRef: ref, Explanation: expl,
		TrustedBase: []string{"go/types + go/ssa (golang.org/x/tools v0.29.0)", "rule implementations under /verif/checker/rules", "frozen reference tables in the checker (ECMAScript punctuators/keyword blocks, power-of-ten ladder)"}}
}

func notYet(id string) {
	Props[id] = PropMeta{NAReason: "check not built yet (DESIGN.md section 10 lists the planned static rules); no claim is made until the rule exists"}
}

func init() {
	for _, id := range []string{} {
		notYet(id)
	}
	claim("C06", "other",
		"Static table agreement: for every keyword, punctuator and operator the type the lexer's lookup tables return spells (TokenType.Bytes) exactly the text that selects it. Decides the 'type of a keyword, punctuator or operator token is the one whose canonical spelling equals its text' clause for all table-driven returns; does not decide numeric/string/template/regexp/identifier grammars or maximal munch.",
		"Only the table-agreement clause is decided.", "constant evaluation of package-level tables over the type-checked AST; table-agreement rules", "DESIGN.md 4/C06",
		"Decided: R-SPELL(js) by abstract interpretation of js.Lexer.Next (every path returning a punctuator/operator type consumed exactly its Bytes()); R-ERRMOVE(js); Keywords map is a bijection onto the reserved/identifier constant blocks and each value's Bytes() equals its key; op*Tokens maps agree with operatorBytes for the four spelling forms c, c=, cc, cc=; punctuator spellings equal ECMAScript's; Is* bit tests agree with the constant blocks; ASCII identifier tables equal [$_A-Za-z]/[$_0-9A-Za-z]. Not decided: numeric, string, template, regexp and identifier-escape grammars, maximal munch, template nesting (value-level).")
	claim("C14", "other",
		"Proof by constant evaluation that LenUint is the digit-count ladder (i<10^k -> k for k=1..19, else 20) and LenInt adds exactly one for the sign; the power-of-ten tables hold exactly 10^k. Parsed/printed values are not decided.",
		"Only LenInt/LenUint and the pow10 tables are decided.", "constant evaluation + SSA shape matching", "DESIGN.md 4/C14",
		"Decided: LenUint ladder and LenInt shape (so LenInt equals len(strconv.Itoa) for every int64); float64pow10/int64pow10 contents. Not decided: values of ParseFloat/ParseDecimal/Append* (numeric, value-level), destination-prefix preservation.")
	claim("C16", "other",
		"Static agreement of the generated perfect hashes with their text tables (every Hash constant is found by the probe sequence extracted from ToHash, every slot is a constant, texts equal names) and of the byte-class tables with their documented sets; EncodeURL escapes exactly table[c]. Helper scanners' agreement with regexp/net/url/mime references is not decided.",
		"Hash clause and table clause only.", "constant evaluation of tables; structural extraction of the hash probe", "DESIGN.md 4/C16",
		"Decided: T-HASH for css and html (for every constant ToHash(text)==constant; non-zero results are constants whose text equals the argument by the compare loops), whitespace/newline tables, EncodeURL branch shape, encoding tables escape %, controls and non-ASCII. Not decided: Number/Dimension/Mediatype/DataURI/DecodeURL reference equivalence (value-level).")
	claim("C09", "other",
		"Static agreement of the html tag-name perfect hash with its table (the raw-text and foreign-content elements are recognised by name for every constant).",
		"Hash clause only so far.", "constant evaluation of tables", "DESIGN.md 4/C09",
		"Decided: T-HASH(html); R-TAGSTATE(html) and R-SPELL(html) by abstract interpretation of html.Lexer.Next for both entry values of inTag. Not decided: token-per-construct conformance, script double-escape automaton, case handling.")
	claim("C17", "other",
		"Static check that every size increment in the attribute/CDATA escapers equals len(entity)-1 of the entity copied for the same byte and that the entity decodes to the byte escaped, so the output buffer can never be too small and the chosen quote is never emitted raw. Semantic preservation of whitespace/entity replacement is not decided.",
		"Only the buffer-size/entity-agreement clause is decided.", "AST pattern rules with constant evaluation", "DESIGN.md 4/C17",
		"Decided: T-ESCLEN for html.EscapeAttrVal, xml.EscapeAttrVal, xml.EscapeCDATAVal; whitespace/newline table membership used by ReplaceMultipleWhitespace. Not decided: decoded-text preservation, idempotence, whitespace-run semantics (value-level).")
	claim("C18", "proof",
		"Structural proof over js.Walk and the node type definitions: every node struct type with child fields has an arm (or is opened in place by its container), every child field is passed to Walk on every path that has not established it is nil, nodes are addressed inside the tree (no range/by-value copies), typed-nil pointers are guarded, Enter dominates all children, Exit is deferred exactly once on the visitor returned by Enter, and a nil visitor skips exactly the subtree. This is the property for the tree types as defined; it holds for every tree, not for sampled programs.",
		"Walkability is defined by go/types method sets (a field is a child iff its type is an INode interface, or a (slice of) struct/pointer whose pointer type implements INode); Var.Link is tabled as a scope-table link; ClassElement/ClassElementName are tabled as documented unions.",
		"exhaustiveness + per-arm coverage rules on the type-checked AST; dominator rules on SSA", "DESIGN.md 4/C18",
		"Decided: R-WALK (arms, field coverage, in-tree addressing, typed-nil guards), R-WALKORDER (Enter/Exit protocol). Not decided: nothing of the stated property for trees built from the declared node types; that js.Parse only builds such trees is by Go's type system.")
	claim("C19", "other",
		"Static rules over binary.go/binary_unix.go: Seek's target per whence has the io.Seeker affine form and its guards entail 0<=target<=Len; in-memory Bytes() produce io.EOF only under guards implying fewer than n bytes remain and return a capped full slice; fixed-width reads compose bytes in exactly the big-/little-endian layout with matching width guards and mirror the writer; Bitmap end/growth tests bound the byte actually accessed; Read/ReadBytes advance pos by len(data), ReadAt does not, first error wins. Dynamic behaviour of io.Reader/Seeker/ReaderAt/file back ends is not decided.",
		"Integer conversions are treated as exact (no overflow modelling); encoding/binary's AppendUintN is trusted.",
		"affine normalisation of SSA index/compare expressions + dominator-derived path facts (entailment by linear combination); byte-layout extraction from OR-trees", "DESIGN.md 4/C19",
		"Decided: R-SEEK, R-EOFSTRICT, R-BITIDX, R-LAYOUT, R-READPOS as described. Not decided: behaviour of the io.Reader/io.ReadSeeker/io.ReaderAt/file/mmap back ends beyond the in-memory Bytes() implementations (mmap's Bytes() is covered on unix builds); value round trip of arbitrary write/read sequences.")
	claim("C12", "other",
		"Static check that the bodies of parse.Input and buffer.Lexer implement exactly the documented start/pos arithmetic (affine normal forms of every store, index, slice bound and EOF comparison), that every escaping slice is capped (buf[a:b:b]), that PeekRune/MoveRune look-ahead reads and reported lengths are covered by guards that account for the position argument (arithmetically or by the sentinel argument), and that the constructors write the caller's array only at index len(b) under cap(b)>len(b) with Restore putting the byte back. History-level behaviour and UTF-8 decoding values are not decided.",
		"Integer arithmetic treated as exact.", "affine normalisation of SSA expressions + dominator path facts; AST pattern rule for the borrow/restore idiom", "DESIGN.md 4/C12",
		"Decided: R-INPUT, R-PEEKRUNE, R-BORROW. Not decided: behaviour over operation histories, decoded rune values, readers failing mid-stream (value/history-level).")
	claim("C13", "other",
		"Static necessary conditions of three clauses: (ShiftLen) whenever StreamLexer installs a different backing array every field living in the buffer's coordinate system is re-based by the same offset; (Err timing) Err() hides io.EOF exactly while pos < len(buf) and never hides another error; (unfreed tokens intact) bufferPool reuses the current buffer only when tail==0, pos>=len(oldBuf), size<=cap, reuses a pooled block only when inactive, and deactivates a block only once pos passed its length. Chunking independence, the memory bound and token lifetime as such are schedule/history-valued and not decided.",
		"Coordinate fields are inferred (used as index/bound of z.buf or assigned from such).", "field-coordinate inference + affine offset comparison on SSA; dominator path facts", "DESIGN.md 4/C13",
		"Decided: R-REBASE, R-STREAMERR, R-POOLREUSE (structural necessary conditions). Not decided: equivalence with a cursor over the whole input for all chunkings, memory bound, token lifetime vs Free (history/schedule-valued).")
	claim("C20", "other",
		"Static non-interference argument over every function of every non-test package: no package-level variable, and no memory reachable by one load from a reference-typed package-level variable (followed through phis, slicing, element/field addressing and module callees that write through a parameter), is written outside package initialisation; no goroutine is started; no unsafe/cgo/atomic; sync only as the audited mutex of binaryReaderSeeker; constructors store no reference to package-level memory into new instances except the audited terminator buffers. With no shared mutable state, instances on disjoint data cannot race under any interleaving and results cannot depend on earlier calls.",
		"Assumes the Go memory model for disjoint data, race-free standard library callees, and callers not mutating exported variables or shared constant slices handed to them. Aliases that travel through struct fields (e.g. css.Parser.data = endBytes) are followed only one load deep; the append onto such a field is covered by the audited-site note in DESIGN.md.",
		"who-may-write analysis over SSA (global-rooted address/alias tracking, write-through-parameter summaries)", "DESIGN.md 4/C20",
		"Decided: R-GLOBALS (one obligation per package-level variable), R-NOSHARE. Not decided: aliasing of package-level byte slices that flows through struct fields across calls (field-sensitive points-to), dynamic race detection.")
	engNote := "Engine assumptions: the Input primitives behave as their bodies say (checked by R-INPUT); one cursor per lexer instance (objects are identified by type); lexer fields are written only through the analysed methods; A-TMPL (template delimiters contain no NUL)."
	claim("C01", "other",
		"Sound abstract interpretation of every Input client (css, html, xml, json, js lexers/parsers, Position, css.IsIdent/IsURLUnquoted, js RegExp and the shebang prefix of js.Parse) over all byte strings: no Peek/Move/MoveRune/Rewind/Lexeme-slice leaves [start, terminator] on any path (R-CURSOR); every loop advances the cursor or is a bounded counter and every non-error token is non-empty (R-PROGRESS); at end of input Next reports the end and keeps reporting it (R-EOF); an error token is never produced silently after consuming input (R-ERRMOVE); an error that is not the end of input consumes input, so continuing after errors terminates (R-ERRSTUCK: eight terminal-error sites of json/xml are recorded known findings). Call-graph rules: every recursion cycle that consumes tokens passes a depth guard, tree-deepening loops carry a counter (R-RECURSE, R-ITERDEEP). The Input primitives themselves are checked by R-INPUT/R-PEEKRUNE.",
		engNote+" Termination of the JS parser's token loops, index expressions on token data inside the parsers (p.data[0], atRuleName[1]), panics inside the standard library and memory exhaustion are not decided; AST-method nil/assert discipline is decided by R-ASSERT where registered.",
		"path-sensitive abstract interpretation over SSA (cursor domain: terminator distance, byte sets per look-ahead position, marks with snapshots; callee summaries; partitioned disjuncts; widening) + VTA call-graph SCC analysis", "DESIGN.md 4/C01",
		"Decided: R-CURSOR, R-PROGRESS, R-EOF, R-ERRMOVE, R-ERRSTUCK, R-RECURSE, R-ITERDEEP, R-INPUT, R-PEEKRUNE. Not decided: JS parser loop termination, data-dependent indexing inside parsers, stdlib panics, memory.")
	claim("C02", "other",
		"For every path of the five Next functions: the returned bytes are the result of the Shift() that is the last cursor operation of the call (the token ends at the reported offset; start only advances), non-error tokens are non-empty, css/js never Skip (tokens tile the input up to the first error), html/xml Skip only after moving over whitespace bytes, Text/AttrVal sub-slices are in range, escaping slices are capped (R-INPUT three-index rule). The re-lex idempotence clause and UTF-8 boundaries are not decided.",
		engNote, "abstract interpretation (cursor engine) + three-index slice rule", "DESIGN.md 4/C02",
		"Decided: R-TILE, R-PROGRESS(non-empty), R-CURSOR (sub-slice bounds), R-INPUT. Not decided: lexing a token's text again yields the same token (value-level); in-place write allow-list (ToLower / tab->space) is recognised by the engine but not separately enumerated.")
	claim("C15", "other",
		"Every *parse.Error is built by NewError from Position(r, offset) (who-may-construct), every lexer passes its own cursor's Bytes()/Offset(), js.Parse reports Offset()-len(current token), css records cursor offsets; Position itself never over-reads, terminates and never splits a multi-byte character (cursor engine on Position/positionContext). Line/column/context arithmetic is not decided.",
		engNote, "who-may-construct and value-origin rules on SSA + cursor engine on parse.Position", "DESIGN.md 4/C15",
		"Decided: R-ERRCTOR, R-CURSOR/R-PROGRESS for Position. Not decided: line/column counting, context elision, caret placement (value-level).")
	claim("C07", "other",
		"css.IsIdent/IsURLUnquoted delegate to the lexer's own scanners on a fresh lexer and compare the end position with len(arg) (agreement by construction); every path of css.Lexer.Next that returns a fixed-spelling token type (: ; , brackets, ~= |= ^= $= *=, ||, <!--, -->) has consumed exactly that spelling. Identifier/number/url grammars and look-ahead decisions are not decided.",
		engNote, "call-shape rule on SSA + cursor engine (byte-exact token text on each return path)", "DESIGN.md 4/C07",
		"Decided: R-REUSE, R-SPELL(css). Not decided: the token grammar beyond fixed spellings (value-level).")
	claim("C10", "other",
		"json.Parser.Next: Start/End units spell exactly { } [ ] on every path (R-SPELL); cursor safety and progress are decided under C01. The container stack keeps its bottom ValueState and is popped only under a container top state (R-STACK); acceptance of all valid documents and byte-exact reconstruction are not decided.",
		engNote, "cursor engine (byte-exact token text on each return path)", "DESIGN.md 4/C10",
		"Decided: R-SPELL(json), R-STACK(json). Not decided: validity/reconstruction (value-level).")
	claim("C11", "other",
		"xml.Lexer.Next: attribute tokens are returned only when the lexer was inside a tag and stays inside; start-tag tokens enter the tag state, closing tokens leave it, content tokens neither (R-TAGSTATE, for every path, by abstract interpretation with the inTag field tracked); closing tokens spell > /> ?> exactly (R-SPELL). Agreement with encoding/xml is not decided.",
		engNote, "cursor engine with abstract heap for the inTag field", "DESIGN.md 4/C11",
		"Decided: R-TAGSTATE(xml), R-SPELL(xml). Not decided: token-per-construct conformance (value-level). Note: an embedded NUL is reported as an error (never a silent end) but is then reported forever: see the C01 known finding.")
	claim("C03", "other",
		"Necessary structural conditions of the grammar claim, each decided for every path of the parser: the operator arms of parseExpressionSuffix/parseExpression implement the ECMAScript precedence table (level, associativity, forbidden mixes: R-PREC, checked against a frozen table and the order of the OpPrec constants); grammar-context flags saved by a construct are restored on every non-error path (R-CTX); nesting counters are balanced (R-LEVEL); every failed Declare becomes a parse error or an audited fallback (R-DECLCHK); js.Parse returns a tree only when no error was recorded and only fail/failMessage write the error (R-ERRTREE); scopes are paired (R-SCOPE). That accepted programs yield THE grammar's tree, ASI, and rejection of bracket mutants are not decided.",
		"R-PREC depends on the shape of the precedence-climbing switch (an arm that cannot be parsed is reported as undecided). Error paths are recognised by calls of fail/failMessage, a false consume(), p.err != nil, p.tt == ErrorToken and the depth guards.",
		"typestate dataflow over SSA paths (sets of small state vectors per block) + AST extraction of the precedence ladder compared with a frozen ECMAScript table", "DESIGN.md 4/C03",
		"Decided: R-PREC, R-CTX, R-LEVEL, R-DECLCHK, R-ERRTREE, R-SCOPE. Not decided: tree shape for all programs, ASI, cover-grammar conversion, bracket-mutation rejection (need a generator with an independent oracle).")
	claim("C04", "other",
		"Necessary structural conditions of scope resolution, for every path: every scope entered during parsing is exited exactly once with its own parent on every non-error path (R-SCOPE); MarkFuncArgs runs exactly once after every parameter list and MarkForStmt exactly once between a loop head and its body (R-MARK); a conflicting redeclaration is never silently accepted (R-DECLCHK). The binding semantics themselves (hoisting, shadowing, Uses counts, Link forwarding) are value-level and not decided.",
		"Error paths as for C03.", "typestate dataflow over SSA paths", "DESIGN.md 4/C04",
		"Decided: R-SCOPE, R-MARK, R-DECLCHK. Not decided: which Var an identifier resolves to, Uses counts, alpha-equivalence.")
	claim("C05", "other",
		"Necessary structural conditions of the printing claim: every []byte field that may contain a line break (comments, string/template/regexp literals, directive prologues, module specifiers) is written by JS() to a writer that cannot be an Indenter, Indenters are built only by NewIndenter which unwraps a nested Indenter (R-INDENT: the 'whatever the indentation level' clause); printing/JSON conversion never dereferences an optional field or a failed type assertion (R-NILFIELD, R-ASSERT). The round trip itself, parenthesisation and token separation are not decided.",
		"Which fields may contain line breaks is a frozen table (DESIGN.md).", "writer-provenance and dominance rules on SSA", "DESIGN.md 4/C05",
		"Decided: R-INDENT, R-NILFIELD, R-ASSERT. Not decided: print/re-parse equality, parentheses, spacing between tokens (value-level).")
	claim("C08", "other",
		"For every path of the CSS parser: the state stack never loses its bottom element (pops only inside pushed state functions or under 1 < len(state); pushed functions are never called directly; at most one pop per path: R-STACK); every push returns the matching Begin unit and every pop of a pushed state returns the matching End unit, error-recovery pops record a parse error (R-BEGINEND); with a block open Next never returns ErrorGrammar without a recorded parse error, i.e. the end of input is never reported before the open blocks are closed (R-EOFNEST, abstract interpretation of Parser.Next for each pushed state with the lexer as a black box); the at-rule name hash agrees with its table (T-HASH). That the units are THE units of the source and the whitespace rules are not decided.",
		"R-EOFNEST models token types as finite sets and the parser's err string by emptiness; the lexer may return any token type.", "typestate rules on SSA + abstract interpretation of the parser state machine with enum-set and stack-depth facts", "DESIGN.md 4/C08",
		"Decided: R-STACK(css), R-BEGINEND, R-EOFNEST, T-HASH(css). Not decided: unit boundaries, Values() contents, whitespace normalisation, custom-property text (value-level).")
}
