package rules

import (
	"fmt"
	"go/constant"
	"go/token"
	"sort"
	"strings"

	"golang.org/x/tools/go/ssa"

	"verif/checker/core"
)

func init() {
	register(&Rule{ID: "R-STACK", Props: []string{"C08", "C10", "C01"}, Doc: "state stacks (css.Parser.state, json.Parser.state, js.Lexer.templateLevels) never lose their bottom element", Run: runStack})
	register(&Rule{ID: "R-BEGINEND", Props: []string{"C08"}, Doc: "css parser: every push returns the matching Begin unit, every pop of a pushed state returns the matching End unit", Run: runBeginEnd})
}

// stack operations on field `field` of the receiver
type stackOp struct {
	in     ssa.Instruction
	kind   string        // "push" / "pop" / "other"
	pushed *ssa.Function // push: the state function appended (css)
	val    ssa.Value     // push: appended element
}

func stackOps(fn *ssa.Function, typ, field string) []stackOp {
	var out []stackOp
	for _, st := range allStores(fn) {
		fa, ok := st.Addr.(*ssa.FieldAddr)
		if !ok {
			continue
		}
		tp, ok := modTypePath(fa.X.Type())
		if !ok || tp != typ || fieldName(fa.X.Type(), fa.Field) != field {
			continue
		}
		op := stackOp{in: st, kind: "other"}
		switch v := st.Val.(type) {
		case *ssa.Call:
			if b, ok := v.Call.Value.(*ssa.Builtin); ok && b.Name() == "append" && len(v.Call.Args) == 2 {
				op.kind = "push"
				// appended slice literal: new [1]T; store elem; slice
				if sl, ok := v.Call.Args[1].(*ssa.Slice); ok {
					if al, ok := sl.X.(*ssa.Alloc); ok {
						for _, ref := range *al.Referrers() {
							if ia, ok := ref.(*ssa.IndexAddr); ok {
								for _, r2 := range *ia.Referrers() {
									if s2, ok := r2.(*ssa.Store); ok {
										op.val = s2.Val
										sv := s2.Val
										if ct, ok := sv.(*ssa.ChangeType); ok {
											sv = ct.X
										}
										if f, ok := sv.(*ssa.Function); ok {
											op.pushed = f
										}
										if mc, ok := sv.(*ssa.MakeClosure); ok {
											op.pushed, _ = mc.Fn.(*ssa.Function)
										}
									}
								}
							}
						}
					}
				}
			}
		case *ssa.Slice:
			// x = x[:len(x)-1]
			if v.Low == nil && v.High != nil {
				h := linOf(v.High)
				if len(h.T) == 1 && h.C == -1 {
					for a, c := range h.T {
						if c == 1 && strings.HasPrefix(a, "len(") && strings.HasSuffix(a, "."+field+")") {
							op.kind = "pop"
						}
					}
				}
			}
		}
		out = append(out, op)
	}
	return out
}

// thunkTarget: `(*Parser).parseX` used as a func value compiles to a thunk; return the method it calls.
func thunkTarget(f *ssa.Function) *ssa.Function {
	if f == nil {
		return nil
	}
	if f.Synthetic == "" {
		return f
	}
	for _, b := range f.Blocks {
		for _, in := range b.Instrs {
			if c, ok := in.(ssa.CallInstruction); ok {
				if t := c.Common().StaticCallee(); t != nil {
					return t
				}
			}
		}
	}
	return f
}

func cssParserFuncs(r *core.Run) []*ssa.Function {
	var out []*ssa.Function
	for _, fn := range allModuleFuncs(r) {
		if core.RelPkg(fnPkg(fn)) == "css" && (recvName(fn) == "Parser" || fn.Name() == "NewParser") {
			out = append(out, fn)
		}
	}
	sort.Slice(out, func(i, j int) bool { return out[i].String() < out[j].String() })
	return out
}

func runStack(r *core.Run) {
	if r.Prop == "C08" || r.Prop == "C01" {
		stackCSS(r)
	}
	if r.Prop == "C10" || r.Prop == "C01" {
		stackJSON(r)
	}
	if r.Prop == "C01" {
		stackJSTemplate(r)
	}
}

func stackCSS(r *core.Run) {
	fns := cssParserFuncs(r)
	if len(fns) == 0 {
		r.BrokenAnchor("css.Parser methods")
		return
	}
	pushedSet := map[*ssa.Function]bool{}
	bottom := map[*ssa.Function]bool{}
	type site struct {
		fn *ssa.Function
		op stackOp
	}
	var pops []site
	npush := 0
	for _, fn := range fns {
		for _, op := range stackOps(fn, "css.Parser", "state") {
			switch op.kind {
			case "push":
				t := thunkTarget(op.pushed)
				if t == nil {
					r.Unknown(fmt.Sprintf("%s pushes a state", fnLabel(fn)), op.in.Pos(), "appended state is not a method expression")
					continue
				}
				if fn.Name() == "NewParser" {
					bottom[t] = true
				} else {
					pushedSet[t] = true
					npush++
				}
			case "pop":
				pops = append(pops, site{fn, op})
			default:
				if fn.Name() != "NewParser" {
					r.Fail(fmt.Sprintf("%s rewrites the state stack", fnLabel(fn)), op.in.Pos(), "css.Parser.state is assigned something that is neither append(state, f) nor state[:len-1]")
				}
			}
		}
	}
	r.Floor("css state pushes", npush, 4)
	for f := range bottom {
		r.Check(!pushedSet[f], "bottom state "+f.Name()+" is never pushed", f.Pos(), "", "a bottom state function is also pushed: its unguarded handling of the end of input would run with a block open")
	}
	// pushed-set functions are only invoked through the stack
	for _, fn := range fns {
		for _, b := range fn.Blocks {
			for _, in := range b.Instrs {
				if c, ok := in.(ssa.CallInstruction); ok {
					if t := c.Common().StaticCallee(); t != nil && pushedSet[t] && fn.Synthetic == "" {
						r.Fail(fmt.Sprintf("%s calls pushed state %s directly", fnLabel(fn), t.Name()), c.Pos(), "a state function that pops itself is called directly: the pop would remove somebody else's state")
					}
				}
			}
		}
	}
	// every pop: in a pushed-set function (its own entry is on the stack above the bottom), or guarded by 1 < len(state)
	for _, p := range pops {
		key := fmt.Sprintf("%s pop", fnLabel(p.fn))
		if pushedSet[p.fn] {
			// at most one pop per path
			twice := false
			pathFlow(p.fn, pstate{}, func(s pstate, in ssa.Instruction) pstate {
				for _, o := range stackOps(p.fn, "css.Parser", "state") {
					if o.in == in && o.kind == "pop" {
						s.v[0] = clamp(s.v[0] + 1)
					}
				}
				return s
			}, func(s pstate, ret *ssa.Return) {
				if s.v[0] > 1 {
					twice = true
				}
			})
			r.Check(!twice, key+" (own state, once per path)", p.op.in.Pos(), "", "a path pops the state stack twice")
			continue
		}
		fs := blockFacts(p.op.in.Block())
		guard := false
		for _, f := range fs {
			if f.NE {
				continue
			}
			// len(state) - 2 >= 0
			if len(f.L.T) == 1 && f.L.C <= -2 {
				for a, c := range f.L.T {
					if c == 1 && strings.HasSuffix(a, ".state)") {
						guard = true
					}
				}
			}
		}
		r.Check(guard, key+" (guarded by 1 < len(state))", p.op.in.Pos(), "", "the state stack is popped outside a pushed state function without the guard 1 < len(p.state): the bottom state can be removed and the next Next() indexes state[-1]")
	}
	r.Floor("css state pops", len(pops), 5)
	// Next indexes state[len-1] only
	if nx := r.Prog.SSAFunc("css", "Parser", "Next"); nx != nil {
		ok := false
		for _, b := range nx.Blocks {
			for _, in := range b.Instrs {
				if ia, isIA := in.(*ssa.IndexAddr); isIA && strings.HasSuffix(canon(ia.X), ".state") {
					l := linOf(ia.Index)
					ok = len(l.T) == 1 && l.C == -1
				}
			}
		}
		r.Check(ok, "css.Parser.Next runs the top state", nx.Pos(), "", "Next does not dispatch on state[len(state)-1]")
	}
}

// ---------------------------------------------------------------- R-BEGINEND

func runBeginEnd(r *core.Run) {
	pk := r.Prog.Pkg("css")
	if pk == nil {
		r.BrokenAnchor("package css")
		return
	}
	gt := map[string]int64{}
	for n, c := range constsOfType(pk, "GrammarType") {
		gt[n], _ = constant.Int64Val(constant.ToInt(c))
	}
	beginOf := map[string]string{"parseAtRuleDeclarationList": "BeginAtRuleGrammar", "parseAtRuleRuleList": "BeginAtRuleGrammar", "parseAtRuleUnknown": "BeginAtRuleGrammar", "parseQualifiedRuleDeclarationList": "BeginRulesetGrammar"}
	endOf := map[string]string{"parseAtRuleDeclarationList": "EndAtRuleGrammar", "parseAtRuleRuleList": "EndAtRuleGrammar", "parseAtRuleUnknown": "EndAtRuleGrammar", "parseQualifiedRuleDeclarationList": "EndRulesetGrammar"}
	n := 0
	for _, fn := range cssParserFuncs(r) {
		ops := stackOps(fn, "css.Parser", "state")
		for _, op := range ops {
			if fn.Name() == "NewParser" {
				continue
			}
			switch op.kind {
			case "push":
				t := thunkTarget(op.pushed)
				if t == nil {
					continue
				}
				n++
				want, known := beginOf[t.Name()]
				key := fmt.Sprintf("%s push %s", fnLabel(fn), t.Name())
				if !known {
					r.Unknown(key, op.in.Pos(), "pushed state function has no known Begin unit")
					continue
				}
				// every path from the push to a return returns the Begin constant without touching the stack again
				good := true
				why := ""
				forwardReturns(op.in, func(ret *ssa.Return) {
					c, isC := ret.Results[0].(*ssa.Const)
					if !isC || c.Int64() != gt[want] {
						good, why = false, fmt.Sprintf("return at %s does not yield %s", r.Prog.Position(ret.Pos()), want)
					}
				})
				r.Check(good, key, op.in.Pos(), "returns "+want, "after pushing "+t.Name()+" "+why+": the consumer's nesting depth and the parser's stack disagree")
			case "pop":
				n++
				key := fmt.Sprintf("%s pop", fnLabel(fn))
				want, isPushed := endOf[fn.Name()]
				if !isPushed {
					// guarded pops outside state functions are error recoveries: they must record an error
					// every path from the pop to a return stores p.err
					errSet := true
					seen := map[*ssa.BasicBlock]bool{}
					var walk func(b *ssa.BasicBlock)
					walk = func(b *ssa.BasicBlock) {
						if seen[b] {
							return
						}
						seen[b] = true
						for _, in := range b.Instrs {
							if st, ok := in.(*ssa.Store); ok && strings.HasSuffix(canon(st.Addr), ".err") {
								return
							}
							if _, ok := in.(*ssa.Return); ok {
								errSet = false
								return
							}
						}
						for _, s := range b.Succs {
							walk(s)
						}
					}
					walk(op.in.Block())
					r.Check(errSet, key+" (error recovery records a parse error)", op.in.Pos(), "", "the stack is popped outside a state function without recording a parse error in the same step")
					continue
				}
				good := true
				why := ""
				forwardReturns(op.in, func(ret *ssa.Return) {
					c, isC := ret.Results[0].(*ssa.Const)
					if !isC || c.Int64() != gt[want] {
						good, why = false, fmt.Sprintf("return at %s does not yield %s", r.Prog.Position(ret.Pos()), want)
					}
				})
				r.Check(good, key+" returns "+want, op.in.Pos(), "", "after popping its own state "+why+": a Begin unit is left without its End unit")
			}
		}
		// a pushed state function returns its End unit only after popping
		if want, ok := endOf[fn.Name()]; ok {
			for _, b := range fn.Blocks {
				ret, isRet := lastInstr(b).(*ssa.Return)
				if !isRet {
					continue
				}
				if c, isC := ret.Results[0].(*ssa.Const); isC && c.Int64() == gt[want] {
					popped := false
					for _, op := range ops {
						if op.kind == "pop" && (op.in.Block() == b || op.in.Block().Dominates(b)) {
							popped = true
						}
					}
					n++
					r.Check(popped, fmt.Sprintf("%s returns %s only after popping", fnLabel(fn), want), ret.Pos(), "", "an End unit is emitted without popping the state: the same block would be closed again")
				}
			}
		}
	}
	r.Floor("push/pop pairing sites", n, 12)
}

// forwardReturns visits every Return reachable from instruction `from`.
func forwardReturns(from ssa.Instruction, visit func(*ssa.Return)) {
	seen := map[*ssa.BasicBlock]bool{}
	var walk func(b *ssa.BasicBlock)
	walk = func(b *ssa.BasicBlock) {
		if seen[b] {
			return
		}
		seen[b] = true
		if ret, ok := lastInstr(b).(*ssa.Return); ok {
			visit(ret)
		}
		for _, s := range b.Succs {
			walk(s)
		}
	}
	walk(from.Block())
}

// ------------------------------------------------------------------- json / js

func stackJSON(r *core.Run) {
	ctor := r.Prog.SSAFunc("json", "", "NewParser")
	pk := r.Prog.Pkg("json")
	if ctor == nil || pk == nil {
		r.BrokenAnchor("json.NewParser")
		return
	}
	field := jsonStackField(pk)
	if field == "" {
		r.BrokenAnchor("json.Parser field of type []State")
		return
	}
	st := map[string]int64{}
	for n, c := range constsOfType(pk, "State") {
		st[n], _ = constant.Int64Val(constant.ToInt(c))
	}
	valueState := st["ValueState"]
	// the top state is known to be a container state
	topIsContainer := func(a condAtom, _ *ssa.Function) bool {
		x, y := a.x, a.y
		if _, isC := x.(*ssa.Const); isC {
			x, y = y, x
		}
		k, ok := y.(*ssa.Const)
		if !ok || !ssaIntConst(k) || a.op != token.EQL || !isTopOfStack(r, x, field, 0) {
			return false
		}
		return k.Int64() == st["ObjectKeyState"] || k.Int64() == st["ArrayState"]
	}
	// pushes never push ValueState; pops only when the top is a container state (in any method of the parser)
	npop, npush := 0, 0
	for _, fn := range allModuleFuncs(r) {
		if core.RelPkg(fnPkg(fn)) != "json" || fn == ctor {
			continue
		}
		for _, op := range stackOps(fn, "json.Parser", field) {
			switch op.kind {
			case "push":
				npush++
				var vals []ssa.Value
				if args, ok := argsOfParam(r, op.val); ok {
					vals = args
				} else {
					vals = []ssa.Value{op.val}
				}
				good := len(vals) > 0
				for _, v := range vals {
					c, isC := v.(*ssa.Const)
					if !isC || !ssaIntConst(c) || c.Int64() == valueState {
						good = false
					}
				}
				r.Check(good, fmt.Sprintf("json push #%d is a container state", npush), op.in.Pos(), "", "a pushed state is not a constant container state (the bottom ValueState must stay unique)")
			case "pop":
				npop++
				okGuard := holdsAt(r, op.in, topIsContainer, 0)
				r.Check(okGuard, fmt.Sprintf("json pop #%d only under a container top state", npop), op.in.Pos(), "", "the stack is popped on a path that has not established that the top state is ObjectKeyState or ArrayState: a closing bracket could pop the bottom state (index out of range on the next call) or close a container of the other kind")
			default:
				r.Fail("json state stack rewritten", op.in.Pos(), "the container stack of json.Parser is assigned something other than append/pop")
			}
		}
	}
	r.Floor("json pops", npop, 1)
	r.Floor("json pushes", npush, 1)
	// constructor installs exactly [ValueState]
	okCtor := false
	for _, b := range ctor.Blocks {
		for _, in := range b.Instrs {
			if s, isS := in.(*ssa.Store); isS {
				if c, isC := s.Val.(*ssa.Const); isC && ssaIntConst(c) && c.Int64() == valueState {
					if _, isIA := s.Addr.(*ssa.IndexAddr); isIA {
						okCtor = true
					}
				}
			}
		}
	}
	r.Check(okCtor, "json.NewParser starts with [ValueState]", ctor.Pos(), "", "constructor does not install the bottom ValueState")
}

func isTopLoad(v ssa.Value) bool {
	u, ok := v.(*ssa.UnOp)
	if !ok || u.Op != token.MUL {
		return false
	}
	ia, ok := u.X.(*ssa.IndexAddr)
	if !ok || !strings.HasSuffix(canon(ia.X), ".state") {
		return false
	}
	l := linOf(ia.Index)
	return len(l.T) == 1 && l.C == -1
}

func stackJSTemplate(r *core.Run) {
	fn := r.Prog.SSAFunc("js", "Lexer", "consumeTemplateToken")
	nx := r.Prog.SSAFunc("js", "Lexer", "Next")
	if fn == nil || nx == nil {
		r.BrokenAnchor("js.Lexer.consumeTemplateToken / Next")
		return
	}
	// each call of consumeTemplateToken is preceded by an append, or dominated by len(templateLevels) != 0
	n := 0
	for _, c := range callsNamed(nx, "consumeTemplateToken") {
		n++
		ok := false
		for _, op := range stackOps(nx, "js.Lexer", "templateLevels") {
			if op.kind == "push" && instrBefore(op.in, c) && op.in.Block() == c.Block() {
				ok = true
			}
		}
		for _, f := range blockFacts(c.Block()) {
			if f.NE && len(f.L.T) == 1 {
				for a := range f.L.T {
					if strings.HasSuffix(a, ".templateLevels)") {
						ok = true
					}
				}
			}
		}
		r.Check(ok, fmt.Sprintf("js template token #%d needs a non-empty templateLevels", n), c.Pos(), "", "consumeTemplateToken pops templateLevels but this call site has neither pushed a level nor tested len(templateLevels) != 0")
	}
	r.Floor("consumeTemplateToken call sites", n, 2)
	// at most one pop per path
	twice := false
	pathFlow(fn, pstate{}, func(s pstate, in ssa.Instruction) pstate {
		for _, o := range stackOps(fn, "js.Lexer", "templateLevels") {
			if o.in == in && o.kind == "pop" {
				s.v[0] = clamp(s.v[0] + 1)
			}
		}
		return s
	}, func(s pstate, ret *ssa.Return) {
		if s.v[0] > 1 {
			twice = true
		}
	})
	r.Check(!twice, "consumeTemplateToken pops at most once", fn.Pos(), "", "a path pops templateLevels twice")
}
