package rules

import (
	"fmt"
	"go/constant"
	"go/token"
	"go/types"
	"sort"
	"strings"

	"golang.org/x/tools/go/ssa"

	"verif/checker/core"
)

func init() {
	register(&Rule{ID: "R-STACK", Props: []string{"C08", "C10", "C01"}, Doc: "state stacks (the css parser's []State, the json parser's []State, the js lexer's []int of template levels) never lose their bottom element", Run: runStack})
	register(&Rule{ID: "R-BEGINEND", Props: []string{"C08"}, Doc: "css parser: every push returns the matching Begin unit, every pop of a pushed state returns the matching End unit", Run: runBeginEnd})
}

// stack operations on field `field` of the receiver
type stackOp struct {
	in     ssa.Instruction
	kind   string        // "push" / "pop" / "other"
	pushed *ssa.Function // push: the state function appended (css)
	val    ssa.Value     // push: appended element
}

// isStackAddr: a is the address of the stack field typ.field — directly, or as the pointer receiver of a method of
// the stack's own type (type stateStack []State; func (s *stateStack) pop()) that every call site applies to that field.
func isStackAddr(r *core.Run, a ssa.Value, typ, field string, depth int) bool {
	if depth > 3 {
		return false
	}
	switch x := a.(type) {
	case *ssa.FieldAddr:
		tp, ok := modTypePath(x.X.Type())
		return ok && tp == typ && fieldName(x.X.Type(), x.Field) == field
	case *ssa.Parameter:
		if r == nil || x.Parent() == nil || x.Parent().Signature.Recv() == nil || x.Parent().Params[0] != x {
			return false
		}
		args, ok := argsOfParam(r, x)
		if !ok {
			return false
		}
		for _, arg := range args {
			if !isStackAddr(r, arg, typ, field, depth+1) {
				return false
			}
		}
		return true
	}
	return false
}

// isStackValue: v is the stack itself: a load of its address, or the value receiver of a method of the stack's type
// that every call site applies to the stack.
func isStackValue(r *core.Run, v ssa.Value, typ, field string, depth int) bool {
	if depth > 3 {
		return false
	}
	switch x := v.(type) {
	case *ssa.UnOp:
		return x.Op == token.MUL && isStackAddr(r, x.X, typ, field, depth)
	case *ssa.Parameter:
		if r == nil || x.Parent() == nil || x.Parent().Signature.Recv() == nil || x.Parent().Params[0] != x {
			return false
		}
		args, ok := argsOfParam(r, x)
		if !ok {
			return false
		}
		for _, arg := range args {
			if !isStackValue(r, arg, typ, field, depth+1) {
				return false
			}
		}
		return true
	}
	return false
}

func stackOps(r *core.Run, fn *ssa.Function, typ, field string) []stackOp {
	var out []stackOp
	for _, st := range allStores(fn) {
		if !isStackAddr(r, st.Addr, typ, field, 0) {
			continue
		}
		op := stackOp{in: st, kind: "other"}
		switch v := st.Val.(type) {
		case *ssa.Call:
			if b, ok := v.Call.Value.(*ssa.Builtin); ok && b.Name() == "append" && len(v.Call.Args) == 2 {
				op.kind = "push"
				// appended slice literal: new [1]T; store elem; slice
				if sl, ok := v.Call.Args[1].(*ssa.Slice); ok {
					if al, ok := sl.X.(*ssa.Alloc); ok {
						for _, ref := range *al.Referrers() {
							if ia, ok := ref.(*ssa.IndexAddr); ok {
								for _, r2 := range *ia.Referrers() {
									if s2, ok := r2.(*ssa.Store); ok {
										op.val = s2.Val
										sv := s2.Val
										if ct, ok := sv.(*ssa.ChangeType); ok {
											sv = ct.X
										}
										if f, ok := sv.(*ssa.Function); ok {
											op.pushed = f
										}
										if mc, ok := sv.(*ssa.MakeClosure); ok {
											op.pushed, _ = mc.Fn.(*ssa.Function)
										}
									}
								}
							}
						}
					}
				}
			}
		case *ssa.Slice:
			// x = x[:len(x)-1]
			if v.Low == nil && v.High != nil {
				h := linOf(v.High)
				if len(h.T) == 1 && h.C == -1 {
					for a, c := range h.T {
						if c == 1 && strings.HasPrefix(a, "len(") && (strings.HasSuffix(a, "."+field+")") || isStackValue(r, v.X, typ, field, 0)) {
							op.kind = "pop"
						}
					}
				}
			}
		}
		out = append(out, op)
	}
	return out
}

// thunkTarget: `(*Parser).parseX` used as a func value compiles to a thunk; return the method it calls.
func thunkTarget(f *ssa.Function) *ssa.Function {
	if f == nil {
		return nil
	}
	if f.Synthetic == "" {
		return f
	}
	for _, b := range f.Blocks {
		for _, in := range b.Instrs {
			if c, ok := in.(ssa.CallInstruction); ok {
				if t := c.Common().StaticCallee(); t != nil {
					return t
				}
			}
		}
	}
	return f
}

// mustPop: every path through g pops the state stack once (directly, or through such a helper).
func (m *cssModel) mustPop(g *ssa.Function, depth int) bool {
	if g == nil || depth > 2 || len(g.Blocks) == 0 {
		return false
	}
	ops, known := m.ops[g]
	if !known {
		return false
	}
	domAllReturns := func(b *ssa.BasicBlock) bool {
		for _, rb := range g.Blocks {
			if _, isRet := lastInstr(rb).(*ssa.Return); isRet && rb != b && !b.Dominates(rb) {
				return false
			}
		}
		return true
	}
	for _, op := range ops {
		if op.kind == "pop" && domAllReturns(op.in.Block()) {
			return true
		}
	}
	for _, b := range g.Blocks {
		if !domAllReturns(b) {
			continue
		}
		for _, in := range b.Instrs {
			if c, isCall := in.(*ssa.Call); isCall && c.Call.StaticCallee() != g && m.mustPop(c.Call.StaticCallee(), depth+1) {
				return true
			}
		}
	}
	return false
}

func cssParserFuncs(r *core.Run) []*ssa.Function {
	var out []*ssa.Function
	for _, fn := range allModuleFuncs(r) {
		if core.RelPkg(fnPkg(fn)) == "css" && (recvName(fn) == "Parser" || fn.Name() == "NewParser") {
			out = append(out, fn)
		}
	}
	sort.Slice(out, func(i, j int) bool { return out[i].String() < out[j].String() })
	return out
}

func runStack(r *core.Run) {
	if r.Prop == "C08" || r.Prop == "C01" {
		stackCSS(r)
	}
	if r.Prop == "C10" || r.Prop == "C01" {
		stackJSON(r)
	}
	if r.Prop == "C01" {
		stackJSTemplate(r)
	}
}

// cssModel: a role-based view of css.Parser, independent of the names of unexported fields and functions.
//
//	stack     the field of type []State (State is the state-function type)
//	errField  the string field that carries the parse error message
//	pushed    the state functions that can be appended to the stack outside the constructor (resolved through
//	          helper results, phis and parameters)
//	bottom    the state functions the constructor installs
//	ctx       for a function that pops: the pushed state functions on whose behalf it runs (itself, or every
//	          state function that calls it directly or through other helpers); empty if it may run for a bottom state
type cssModel struct {
	stack, errField string
	fns             []*ssa.Function
	ctor            *ssa.Function
	ops             map[*ssa.Function][]stackOp
	pushTargets     map[ssa.Instruction][]*ssa.Function
	pushed, bottom  map[*ssa.Function]bool
	events          map[ssa.Instruction][]pushEvent
}

// pushEvent: one way a push happens — the chain of call sites that leads from the function where the pushed state
// is a concrete function value (root) down to the helper that appends it.
type pushEvent struct {
	root    *ssa.Function
	chain   []*ssa.Call // outermost first; empty when the push is written out in root itself
	targets []*ssa.Function
}

// valueThrough: v (a value of the innermost frame of chain) expressed in the outermost frame possible: parameters are
// replaced by the arguments of the call sites, innermost first. Returns the value and the number of frames left.
func valueThrough(v ssa.Value, chain []*ssa.Call) (ssa.Value, int) {
	n := len(chain)
	for n > 0 {
		p, ok := v.(*ssa.Parameter)
		if !ok {
			break
		}
		c := chain[n-1]
		g := c.Call.StaticCallee()
		idx := -1
		for i, q := range g.Params {
			if q == p {
				idx = i
			}
		}
		if idx < 0 || idx >= len(c.Call.Args) {
			break
		}
		v = c.Call.Args[idx]
		n--
	}
	return v, n
}

// chainsTo: the call-site chains (at most 3 frames) through unexported helpers that end in fn, each starting at a
// function that is not itself only a forwarding helper; the empty chain stands for fn itself.
func chainsTo(r *core.Run, fn *ssa.Function, need func(chain []*ssa.Call) bool, depth int) [][]*ssa.Call {
	if !need(nil) || depth >= 3 || fn.Object() != nil && fn.Object().Exported() {
		return [][]*ssa.Call{nil}
	}
	sites := callSitesOf(r, fn)
	if len(sites) == 0 {
		return [][]*ssa.Call{nil}
	}
	var out [][]*ssa.Call
	for _, c := range sites {
		c := c
		for _, up := range chainsTo(r, c.Parent(), func(ch []*ssa.Call) bool { return need(append(append([]*ssa.Call{}, ch...), c)) }, depth+1) {
			out = append(out, append(append([]*ssa.Call{}, up...), c))
		}
	}
	return out
}

func (m *cssModel) pushEvents(r *core.Run, fn *ssa.Function, op stackOp) []pushEvent {
	// extend the chain while the pushed value is still a parameter of the outermost frame
	need := func(chain []*ssa.Call) bool {
		// chain here is innermost-last relative to fn; the value must be looked at in the outermost frame
		v, _ := valueThrough(op.val, chain)
		_, isParam := v.(*ssa.Parameter)
		return isParam
	}
	var out []pushEvent
	for _, ch := range chainsTo(r, fn, need, 0) {
		v, _ := valueThrough(op.val, ch)
		root := fn
		if len(ch) > 0 {
			root = ch[0].Parent()
		}
		out = append(out, pushEvent{root: root, chain: ch, targets: resolveStateFuncs(r, v, 0)})
	}
	return out
}

var cssModels = map[*core.Program]*cssModel{}

func cssModelOf(r *core.Run) *cssModel {
	if m, ok := cssModels[r.Prog]; ok {
		return m
	}
	m := &cssModel{ops: map[*ssa.Function][]stackOp{}, pushTargets: map[ssa.Instruction][]*ssa.Function{}, pushed: map[*ssa.Function]bool{}, bottom: map[*ssa.Function]bool{}, events: map[ssa.Instruction][]pushEvent{}}
	cssModels[r.Prog] = m
	pk := r.Prog.Pkg("css")
	if pk == nil {
		return m
	}
	if tn, ok := pk.Types.Scope().Lookup("Parser").(*types.TypeName); ok {
		if st, ok := tn.Type().Underlying().(*types.Struct); ok {
			var strs []string
			for i := 0; i < st.NumFields(); i++ {
				f := st.Field(i)
				if sl, ok := f.Type().Underlying().(*types.Slice); ok {
					if n, ok := sl.Elem().(*types.Named); ok && n.Obj().Name() == "State" {
						m.stack = f.Name()
					}
				}
				if b, ok := f.Type().Underlying().(*types.Basic); ok && b.Kind() == types.String {
					strs = append(strs, f.Name())
				}
			}
			if len(strs) == 1 {
				m.errField = strs[0]
			}
		}
	}
	m.fns = cssParserFuncs(r)
	for _, fn := range m.fns {
		if fn.Name() == "NewParser" {
			m.ctor = fn
		}
	}
	if m.stack == "" {
		return m
	}
	for _, fn := range m.fns {
		m.ops[fn] = stackOps(r, fn, "css.Parser", m.stack)
		for _, op := range m.ops[fn] {
			if op.kind != "push" {
				continue
			}
			evs := m.pushEvents(r, fn, op)
			var ts []*ssa.Function
			okAll := len(evs) > 0
			for _, ev := range evs {
				if ev.targets == nil {
					okAll = false
				}
				ts = append(ts, ev.targets...)
				for _, t := range ev.targets {
					if ev.root == m.ctor {
						m.bottom[t] = true
					} else {
						m.pushed[t] = true
					}
				}
			}
			if !okAll {
				ts = nil
			}
			m.pushTargets[op.in] = ts
			m.events[op.in] = evs
		}
	}
	return m
}

// resolveStateFuncs: the functions a value of the state-function type can denote; nil if not fully resolved.
func resolveStateFuncs(r *core.Run, v ssa.Value, depth int) []*ssa.Function {
	if v == nil || depth > 4 {
		return nil
	}
	switch x := v.(type) {
	case *ssa.Function:
		return []*ssa.Function{thunkTarget(x)}
	case *ssa.MakeClosure:
		if f, ok := x.Fn.(*ssa.Function); ok {
			return []*ssa.Function{thunkTarget(f)}
		}
	case *ssa.ChangeType:
		return resolveStateFuncs(r, x.X, depth+1)
	case *ssa.Phi:
		var out []*ssa.Function
		for _, e := range x.Edges {
			ts := resolveStateFuncs(r, e, depth+1)
			if ts == nil {
				return nil
			}
			out = append(out, ts...)
		}
		return out
	case *ssa.Call:
		g := x.Call.StaticCallee()
		if g == nil || len(g.Blocks) == 0 || !core.InModule(fnPkg(g)) {
			return nil
		}
		var out []*ssa.Function
		for _, b := range g.Blocks {
			if ret, ok := lastInstr(b).(*ssa.Return); ok && len(ret.Results) == 1 {
				ts := resolveStateFuncs(r, ret.Results[0], depth+1)
				if ts == nil {
					return nil
				}
				out = append(out, ts...)
			}
		}
		return out
	case *ssa.Parameter:
		args, ok := argsOfParam(r, x)
		if !ok {
			return nil
		}
		var out []*ssa.Function
		for _, a := range args {
			ts := resolveStateFuncs(r, a, depth+1)
			if ts == nil {
				return nil
			}
			out = append(out, ts...)
		}
		return out
	}
	return nil
}

// ctxOf: the pushed state functions on whose behalf fn runs; ok=false if it can also run for a bottom state or from outside.
func (m *cssModel) ctxOf(r *core.Run, fn *ssa.Function, depth int) (map[*ssa.Function]bool, bool) {
	if m.pushed[fn] {
		return map[*ssa.Function]bool{fn: true}, !m.bottom[fn]
	}
	if m.bottom[fn] || depth > 3 || fn.Object() != nil && fn.Object().Exported() {
		return nil, false
	}
	sites := callSitesOf(r, fn)
	if len(sites) == 0 {
		return nil, false
	}
	out := map[*ssa.Function]bool{}
	for _, c := range sites {
		cs, ok := m.ctxOf(r, c.Parent(), depth+1)
		if !ok {
			return nil, false
		}
		for f := range cs {
			out[f] = true
		}
	}
	return out, true
}

func stackCSS(r *core.Run) {
	m := cssModelOf(r)
	if len(m.fns) == 0 || m.stack == "" || m.ctor == nil {
		r.BrokenAnchor("css.Parser (methods, constructor, field of type []State)")
		return
	}
	type site struct {
		fn *ssa.Function
		op stackOp
	}
	var pops []site
	npush := 0
	for _, fn := range m.fns {
		for _, op := range m.ops[fn] {
			switch op.kind {
			case "push":
				if m.pushTargets[op.in] == nil {
					r.Unknown(fmt.Sprintf("%s pushes a state", fnLabel(fn)), op.in.Pos(), "the appended state cannot be resolved to state functions (method expressions, possibly chosen by a helper)")
					continue
				}
				if fn != m.ctor {
					npush += len(m.pushTargets[op.in])
				}
			case "pop":
				pops = append(pops, site{fn, op})
			default:
				if fn != m.ctor {
					r.Fail(fmt.Sprintf("%s rewrites the state stack", fnLabel(fn)), op.in.Pos(), "the state stack of css.Parser is assigned something that is neither append(stack, f) nor stack[:len-1]")
				}
			}
		}
	}
	r.Floor("css state pushes", npush, 2)
	for f := range m.bottom {
		r.Check(!m.pushed[f], "bottom state "+f.Name()+" is never pushed", f.Pos(), "", "a bottom state function is also pushed: its unguarded handling of the end of input would run with a block open")
	}
	// pushed-set functions are only invoked through the stack
	for _, fn := range m.fns {
		for _, b := range fn.Blocks {
			for _, in := range b.Instrs {
				if c, ok := in.(ssa.CallInstruction); ok {
					if t := c.Common().StaticCallee(); t != nil && m.pushed[t] && fn.Synthetic == "" {
						r.Fail(fmt.Sprintf("%s calls pushed state %s directly", fnLabel(fn), t.Name()), c.Pos(), "a state function that pops itself is called directly: the pop would remove somebody else's state")
					}
				}
			}
		}
	}
	// every pop, on every call chain that reaches it: on behalf of a pushed state function (its own entry is on the stack
	// above the bottom), or guarded by 1 < len(stack) somewhere on the chain
	for i, p := range pops {
		key := fmt.Sprintf("css pop #%d", i+1)
		chains := m.popChains(r, p.fn)
		allOwn := true
		for ci, ch := range chains {
			root := p.fn
			if len(ch) > 0 {
				root = ch[0].Parent()
			}
			if m.pushed[root] && !m.bottom[root] {
				continue
			}
			allOwn = false
			ck := key
			if len(chains) > 1 {
				ck = fmt.Sprintf("%s via %s", key, fnLabel(root))
			}
			_ = ci
			r.Check(m.guardedAbove(p.op.in, ch), ck+" (guarded by 1 < len(stack))", p.op.in.Pos(), "", fmt.Sprintf("%s pops the state stack (reached from %s) neither on behalf of a pushed state function nor under the guard 1 < len(stack): the bottom state can be removed and the next Next() indexes stack[-1]", fnLabel(p.fn), fnLabel(root)))
		}
		if allOwn || len(chains) > 0 {
			// at most one pop per path of the popping function
			twice := false
			pathFlow(p.fn, pstate{}, func(s pstate, in ssa.Instruction) pstate {
				for _, o := range m.ops[p.fn] {
					if o.in == in && o.kind == "pop" {
						s.v[0] = clamp(s.v[0] + 1)
					}
				}
				return s
			}, func(s pstate, ret *ssa.Return) {
				if s.v[0] > 1 {
					twice = true
				}
			})
			r.Check(!twice, key+" (once per path)", p.op.in.Pos(), "", "a path pops the state stack twice")
		}
	}
	r.Floor("css state pops", len(pops), 1)
	// Next indexes stack[len-1] only
	if nx := r.Prog.SSAFunc("css", "Parser", "Next"); nx != nil {
		ok := false
		topIndexIn := func(f *ssa.Function) bool {
			res := false
			for _, b := range f.Blocks {
				for _, in := range b.Instrs {
					if ia, isIA := in.(*ssa.IndexAddr); isIA && strings.HasSuffix(canon(ia.X), "."+m.stack) {
						l := linOf(ia.Index)
						res = len(l.T) == 1 && l.C == -1
					}
				}
			}
			return res
		}
		ok = topIndexIn(nx)
		if !ok {
			// through an accessor: p.currentState()(p)
			for _, b := range nx.Blocks {
				for _, in := range b.Instrs {
					if c, isC := in.(*ssa.Call); isC {
						if g := c.Call.StaticCallee(); g != nil && len(g.Blocks) == 1 && recvName(g) == "Parser" && topIndexIn(g) {
							ok = true
						}
					}
				}
			}
		}
		r.Check(ok, "css.Parser.Next runs the top state", nx.Pos(), "", "Next does not dispatch on stack[len(stack)-1]")
	}
}

// ---------------------------------------------------------------- R-BEGINEND

// constAfter: the constant first results of every return reachable from `from`, resolving a returned parameter
// through the given call site; ok=false if some return is not a constant.
func constsAfter(from ssa.Instruction, site *ssa.Call) ([]int64, bool) {
	return constsAfterR(nil, from, site, 0)
}

// constsAfterR: as constsAfter; a helper without results (it only pushes) is followed into its callers.
func constsAfterR(r *core.Run, from ssa.Instruction, site *ssa.Call, depth int) ([]int64, bool) {
	var out []int64
	ok := true
	forwardReturns(from, func(ret *ssa.Return) {
		if len(ret.Results) == 0 {
			if r == nil || depth > 2 {
				ok = false
				return
			}
			sites := callSitesOf(r, ret.Parent())
			if len(sites) == 0 {
				ok = false
			}
			for _, c := range sites {
				ks, k := constsAfterR(r, c, nil, depth+1)
				if !k {
					ok = false
				}
				out = append(out, ks...)
			}
			return
		}
		v := ret.Results[0]
		if p, isP := v.(*ssa.Parameter); isP && site != nil {
			for i, q := range p.Parent().Params {
				if q == p && i < len(site.Call.Args) {
					v = site.Call.Args[i]
				}
			}
		}
		c, isC := v.(*ssa.Const)
		if !isC || !ssaIntConst(c) {
			ok = false
			return
		}
		out = append(out, c.Int64())
	})
	return out, ok
}

// unitsAfterChain: the constant first results of the returns reachable from `from`, where a returned parameter is
// resolved through the call sites of chain (innermost last) and a helper without results is continued after its call site.
func unitsAfterChain(from ssa.Instruction, chain []*ssa.Call) ([]int64, bool) {
	var out []int64
	ok := true
	forwardReturns(from, func(ret *ssa.Return) {
		if len(ret.Results) == 0 {
			if len(chain) == 0 {
				ok = false
				return
			}
			ks, k := unitsAfterChain(chain[len(chain)-1], chain[:len(chain)-1])
			if !k {
				ok = false
			}
			out = append(out, ks...)
			return
		}
		v, _ := valueThrough(ret.Results[0], chain)
		if c, isCall := v.(*ssa.Call); isCall {
			// return p.endBlock(End): the callee's own returns
			_ = c
		}
		c, isC := v.(*ssa.Const)
		if !isC || !ssaIntConst(c) {
			ok = false
			return
		}
		out = append(out, c.Int64())
	})
	return out, ok
}

// popChains: the call-site chains leading to a pop, extended upwards until the outermost function is a state
// function (pushed or bottom) or has no module callers.
func (m *cssModel) popChains(r *core.Run, fn *ssa.Function) [][]*ssa.Call {
	need := func(chain []*ssa.Call) bool {
		root := fn
		if len(chain) > 0 {
			root = chain[0].Parent()
		}
		return !m.pushed[root] && !m.bottom[root]
	}
	return chainsTo(r, fn, need, 0)
}

// guardedAbove: `1 < len(stack)` holds at the instruction or at one of the call sites of the chain.
func (m *cssModel) guardedAbove(at ssa.Instruction, chain []*ssa.Call) bool {
	check := func(b *ssa.BasicBlock) bool {
		for _, f := range blockFacts(b) {
			if f.NE {
				continue
			}
			if len(f.L.T) == 1 && f.L.C <= -2 {
				for a, c := range f.L.T {
					if c == 1 && strings.HasSuffix(a, "."+m.stack+")") {
						return true
					}
				}
			}
		}
		return false
	}
	if check(at.Block()) {
		return true
	}
	for _, c := range chain {
		if check(c.Block()) {
			return true
		}
	}
	return false
}

func runBeginEnd(r *core.Run) {
	pk := r.Prog.Pkg("css")
	m := cssModelOf(r)
	if pk == nil || m.stack == "" {
		r.BrokenAnchor("package css / state stack")
		return
	}
	gtName := map[int64]string{}
	for n, c := range constsOfType(pk, "GrammarType") {
		v, _ := constant.Int64Val(constant.ToInt(c))
		gtName[v] = n
	}
	begin := map[*ssa.Function]string{} // pushed state function -> the Begin unit returned when it is pushed
	n := 0
	// pushes: on every call chain, every path from the push to a return yields one Begin unit
	np0 := 0
	for _, fn := range m.fns {
		if fn == m.ctor {
			continue
		}
		for _, op := range m.ops[fn] {
			if op.kind != "push" || m.pushTargets[op.in] == nil {
				continue
			}
			np0++
			for ei, ev := range m.events[op.in] {
				if ev.root == m.ctor {
					continue
				}
				n++
				key := fmt.Sprintf("css push #%d returns a Begin unit", np0)
				if len(m.events[op.in]) > 1 {
					key = fmt.Sprintf("css push #%d (%d) returns a Begin unit", np0, ei+1)
				}
				ks, ok := unitsAfterChain(op.in, ev.chain)
				unit := ""
				for _, k := range ks {
					nm := gtName[k]
					if !strings.HasPrefix(nm, "Begin") || unit != "" && unit != nm {
						ok = false
					}
					unit = nm
				}
				at := op.in.Pos()
				if len(ev.chain) > 0 {
					at = ev.chain[0].Pos()
				}
				r.Check(ok && unit != "", key, at, "returns "+unit, fmt.Sprintf("after pushing a state (in %s, reached from %s) some return does not yield one Begin… unit: the consumer's nesting depth and the parser's stack disagree", fnLabel(fn), fnLabel(ev.root)))
				if ok {
					for _, t := range ev.targets {
						if prev, has := begin[t]; has && prev != unit {
							r.Fail("Begin unit of "+t.Name(), at, fmt.Sprintf("%s is pushed with %s here and with %s elsewhere", t.Name(), unit, prev))
						}
						begin[t] = unit
					}
				}
			}
		}
	}
	// pops
	np := 0
	for _, fn := range m.fns {
		for _, op := range m.ops[fn] {
			if op.kind != "pop" {
				continue
			}
			np++
			key := fmt.Sprintf("css pop #%d", np)
			chains := m.popChains(r, fn)
			for ci, ch := range chains {
				root := fn
				if len(ch) > 0 {
					root = ch[0].Parent()
				}
				n++
				ck := key
				if len(chains) > 1 {
					ck = fmt.Sprintf("%s (%d)", key, ci+1)
				}
				at := op.in.Pos()
				if len(ch) > 0 {
					at = ch[0].Pos()
				}
				if !(m.pushed[root] && !m.bottom[root]) || m.guardedAbove(op.in, ch) {
					// guarded pops (and pops outside state functions) are error recoveries: every path from the pop to a return records an error
					errSet := true
					var walkFrom func(from ssa.Instruction, chain []*ssa.Call)
					walkFrom = func(from ssa.Instruction, chain []*ssa.Call) {
						seen := map[*ssa.BasicBlock]bool{}
						var walk func(b *ssa.BasicBlock, start int)
						walk = func(b *ssa.BasicBlock, start int) {
							if start == 0 {
								if seen[b] {
									return
								}
								seen[b] = true
							}
							for _, in := range b.Instrs[start:] {
								if st, ok := in.(*ssa.Store); ok && m.errField != "" && strings.HasSuffix(canon(st.Addr), "."+m.errField) {
									return
								}
								if c, ok := in.(*ssa.Call); ok && m.errField != "" && recordsError(c.Call.StaticCallee(), m.errField, 0) {
									return
								}
								if _, ok := in.(*ssa.Return); ok {
									if len(chain) > 0 {
										c := chain[len(chain)-1]
										walkFromCall(c, chain[:len(chain)-1], &errSet, m, walkFrom)
									} else {
										errSet = false
									}
									return
								}
							}
							for _, s := range b.Succs {
								walk(s, 0)
							}
						}
						walk(from.Block(), instrIndex(from)+1)
					}
					walkFrom(op.in, ch)
					r.Check(errSet, ck+" (error recovery records a parse error)", at, "", "the stack is popped outside a state function without recording a parse error in the same step")
					continue
				}
				want := "End" + strings.TrimPrefix(begin[root], "Begin")
				ks, ok := unitsAfterChain(op.in, ch)
				why := ""
				if !ok {
					why = "a return after the pop does not yield a constant unit"
				}
				for _, k := range ks {
					if gtName[k] != want {
						ok, why = false, fmt.Sprintf("on behalf of %s (pushed with %s) a return after the pop yields %s, not %s", root.Name(), begin[root], gtName[k], want)
					}
				}
				r.Check(ok, ck+" returns the matching End unit", at, "", "after popping a block's state "+why+": a Begin unit is left without its End unit")
			}
		}
	}
	// a pushed state function returns an End unit only after popping (directly or in the helper it returns from)
	for t := range m.pushed {
		for _, b := range t.Blocks {
			ret, isRet := lastInstr(b).(*ssa.Return)
			if !isRet {
				continue
			}
			c, isC := ret.Results[0].(*ssa.Const)
			if !isC || !ssaIntConst(c) || !strings.HasPrefix(gtName[c.Int64()], "End") {
				continue
			}
			popped := false
			for _, op := range m.ops[t] {
				if op.kind == "pop" && (op.in.Block() == b || op.in.Block().Dominates(b)) {
					popped = true
				}
			}
			// ... or through a helper that pops on every path (p.popState())
			for _, tb := range t.Blocks {
				if tb != b && !tb.Dominates(b) {
					continue
				}
				for _, in := range tb.Instrs {
					if c, isCall := in.(*ssa.Call); isCall && m.mustPop(c.Call.StaticCallee(), 0) {
						popped = true
					}
				}
			}
			n++
			r.Check(popped, fmt.Sprintf("%s returns %s only after popping", fnLabel(t), gtName[c.Int64()]), ret.Pos(), "", "an End unit is emitted without popping the state: the same block would be closed again")
		}
	}
	r.Floor("push/pop pairing sites", n, 8)
}

// walkFromCall continues the error-recording walk after a call site in the caller.
func walkFromCall(c *ssa.Call, chain []*ssa.Call, errSet *bool, m *cssModel, walkFrom func(ssa.Instruction, []*ssa.Call)) {
	walkFrom(c, chain)
}

// forwardReturns visits every Return reachable from instruction `from`.
func forwardReturns(from ssa.Instruction, visit func(*ssa.Return)) {
	seen := map[*ssa.BasicBlock]bool{}
	var walk func(b *ssa.BasicBlock)
	walk = func(b *ssa.BasicBlock) {
		if seen[b] {
			return
		}
		seen[b] = true
		if ret, ok := lastInstr(b).(*ssa.Return); ok {
			visit(ret)
		}
		for _, s := range b.Succs {
			walk(s)
		}
	}
	walk(from.Block())
}

// ------------------------------------------------------------------- json / js

func stackJSON(r *core.Run) {
	ctor := r.Prog.SSAFunc("json", "", "NewParser")
	pk := r.Prog.Pkg("json")
	if ctor == nil || pk == nil {
		r.BrokenAnchor("json.NewParser")
		return
	}
	field := jsonStackField(pk)
	if field == "" {
		r.BrokenAnchor("json.Parser field of type []State")
		return
	}
	st := map[string]int64{}
	for n, c := range constsOfType(pk, "State") {
		st[n], _ = constant.Int64Val(constant.ToInt(c))
	}
	valueState := st["ValueState"]
	// the top state is known to be a container state
	topIsContainer := func(a condAtom, _ *ssa.Function) bool {
		x, y := a.x, a.y
		if _, isC := x.(*ssa.Const); isC {
			x, y = y, x
		}
		k, ok := y.(*ssa.Const)
		if !ok || !ssaIntConst(k) || a.op != token.EQL || !isTopOfStack(r, x, field, 0) {
			return false
		}
		return k.Int64() == st["ObjectKeyState"] || k.Int64() == st["ArrayState"]
	}
	// pushes never push ValueState; pops only when the top is a container state (in any method of the parser)
	npop, npush := 0, 0
	for _, fn := range allModuleFuncs(r) {
		if core.RelPkg(fnPkg(fn)) != "json" || fn == ctor {
			continue
		}
		for _, op := range stackOps(r, fn, "json.Parser", field) {
			switch op.kind {
			case "push":
				npush++
				vals, okL := leafValues(r, op.val, 0)
				if !okL {
					vals = []ssa.Value{op.val}
				}
				good := len(vals) > 0
				for _, v := range vals {
					c, isC := v.(*ssa.Const)
					if !isC || !ssaIntConst(c) || c.Int64() == valueState {
						good = false
					}
				}
				if !good && len(vals) == 1 {
					// the pushed state is a field of a row of a constant per-byte table (start := containerStart[c]; start.ok
					// && …; push(start.state)): the values of that field over the rows the guards at the push allow
					if ks, okT := tableFieldValues(r, vals[0], op.in); okT && len(ks) > 0 {
						good = true
						for _, k := range ks {
							if k == valueState {
								good = false
							}
						}
					}
				}
				r.Check(good, fmt.Sprintf("json push #%d is a container state", npush), op.in.Pos(), "", "a pushed state is not a constant container state (the bottom ValueState must stay unique)")
			case "pop":
				npop++
				okGuard := holdsAt(r, op.in, topIsContainer, 0)
				r.Check(okGuard, fmt.Sprintf("json pop #%d only under a container top state", npop), op.in.Pos(), "", "the stack is popped on a path that has not established that the top state is ObjectKeyState or ArrayState: a closing bracket could pop the bottom state (index out of range on the next call) or close a container of the other kind")
			default:
				r.Fail("json state stack rewritten", op.in.Pos(), "the container stack of json.Parser is assigned something other than append/pop")
			}
		}
	}
	r.Floor("json pops", npop, 1)
	r.Floor("json pushes", npush, 1)
	// constructor installs exactly [ValueState]
	okCtor := false
	for _, b := range ctor.Blocks {
		for _, in := range b.Instrs {
			if s, isS := in.(*ssa.Store); isS {
				if c, isC := s.Val.(*ssa.Const); isC && ssaIntConst(c) && c.Int64() == valueState {
					if _, isIA := s.Addr.(*ssa.IndexAddr); isIA {
						okCtor = true
					}
				}
			}
		}
	}
	r.Check(okCtor, "json.NewParser starts with [ValueState]", ctor.Pos(), "", "constructor does not install the bottom ValueState")
}

// tableFieldValues: v is row.f for `row := table[i]` with table a package-level array/slice literal of struct rows
// (read-only, consteval.go): the integer values of field f over the rows that satisfy every guard at `at` that
// compares another field of the same row with a constant (row.ok, row.kind == K). Unlisted rows are zero rows.
func tableFieldValues(r *core.Run, v ssa.Value, at ssa.Instruction) ([]int64, bool) {
	// rowField: v is row.f — a Field of the loaded row, or a load of &local.f where the local holds the row
	// (its only store is `local = table[i]`)
	rowField := func(v ssa.Value) (*ssa.UnOp, int, bool) {
		switch x := v.(type) {
		case *ssa.Field:
			if rw, ok := x.X.(*ssa.UnOp); ok && rw.Op == token.MUL {
				return rw, x.Field, true
			}
		case *ssa.UnOp:
			if x.Op != token.MUL {
				return nil, 0, false
			}
			fa, ok := x.X.(*ssa.FieldAddr)
			if !ok {
				return nil, 0, false
			}
			al, ok := fa.X.(*ssa.Alloc)
			if !ok || al.Referrers() == nil {
				return nil, 0, false
			}
			var rw *ssa.UnOp
			for _, ref := range *al.Referrers() {
				switch y := ref.(type) {
				case *ssa.Store:
					if y.Addr != ssa.Value(al) || rw != nil {
						return nil, 0, false
					}
					rw, _ = y.Val.(*ssa.UnOp)
					if rw == nil || rw.Op != token.MUL {
						return nil, 0, false
					}
				case *ssa.FieldAddr:
					if y.Referrers() != nil {
						for _, r2 := range *y.Referrers() {
							if ld, isLd := r2.(*ssa.UnOp); !isLd || ld.Op != token.MUL {
								if _, isDbg := r2.(*ssa.DebugRef); !isDbg {
									return nil, 0, false // a field of the copy is assigned
								}
							}
						}
					}
				case *ssa.DebugRef, *ssa.UnOp:
				default:
					return nil, 0, false
				}
			}
			if rw != nil {
				return rw, fa.Field, true
			}
		}
		return nil, 0, false
	}
	row, fldIdx, ok := rowField(v)
	if !ok {
		return nil, false
	}
	ia, ok := row.X.(*ssa.IndexAddr)
	if !ok {
		return nil, false
	}
	g, ok := ia.X.(*ssa.Global)
	if !ok || g.Pkg == nil || !core.InModule(g.Pkg.Pkg) {
		return nil, false
	}
	arr, ok := derefType(g.Type()).Underlying().(*types.Array)
	if !ok {
		return nil, false
	}
	rowT, ok := arr.Elem().Underlying().(*types.Struct)
	if !ok {
		return nil, false
	}
	pk := r.Prog.ByPath[g.Pkg.Pkg.Path()]
	if pk == nil {
		return nil, false
	}
	l, err := evalGlobal(pk, g.Name())
	if err != nil || l == nil || l.Elems == nil {
		return nil, false
	}
	cell := func(rw *Lit, f int) (int64, bool) { // integer / boolean value of field f of a row (nil row or cell: zero)
		if rw == nil || f >= len(rw.Elems) || rw.Elems[f] == nil {
			return 0, true
		}
		c := rw.Elems[f].Const
		if c == nil {
			return 0, false
		}
		switch c.Kind() {
		case constant.Bool:
			if constant.BoolVal(c) {
				return 1, true
			}
			return 0, true
		case constant.Int:
			return constant.Int64Val(c)
		}
		return 0, false
	}
	// guards on sibling fields of the same row value
	type want struct {
		f  int
		op token.Token
		k  int64
	}
	var wants []want
	for _, a := range guardsAt(at.Block()) {
		if a.call != nil || a.x == nil || a.y == nil {
			continue
		}
		for _, pr := range [][2]ssa.Value{{a.x, a.y}, {a.y, a.x}} {
			srow, sfield, isF := rowField(pr[0])
			k, isK := pr[1].(*ssa.Const)
			if !isF || !isK || srow != row || k.Value == nil {
				continue
			}
			var kv int64
			switch k.Value.Kind() {
			case constant.Bool:
				if constant.BoolVal(k.Value) {
					kv = 1
				}
			case constant.Int:
				kv = k.Int64()
			default:
				continue
			}
			if a.op == token.EQL || a.op == token.NEQ {
				wants = append(wants, want{sfield, a.op, kv})
			}
		}
	}
	rows := append([]*Lit{}, l.Elems...)
	if int64(len(rows)) < arr.Len() || len(rows) == 0 {
		rows = append(rows, nil) // the rows the literal does not list
	}
	_ = rowT
	seen := map[int64]bool{}
	var out []int64
	for _, rw := range rows {
		okRow := true
		for _, w := range wants {
			cv, known := cell(rw, w.f)
			if !known {
				return nil, false
			}
			if (cv == w.k) != (w.op == token.EQL) {
				okRow = false
			}
		}
		if !okRow {
			continue
		}
		cv, known := cell(rw, fldIdx)
		if !known {
			return nil, false
		}
		if !seen[cv] {
			seen[cv] = true
			out = append(out, cv)
		}
	}
	return out, true
}

func isTopLoad(v ssa.Value) bool {
	u, ok := v.(*ssa.UnOp)
	if !ok || u.Op != token.MUL {
		return false
	}
	ia, ok := u.X.(*ssa.IndexAddr)
	if !ok || !strings.HasSuffix(canon(ia.X), ".state") {
		return false
	}
	l := linOf(ia.Index)
	return len(l.T) == 1 && l.C == -1
}

// stackJSTemplate: the js lexer keeps the brace levels of open template literals in its []int field. A pop must
// only happen where the stack is known to be non-empty: under a test of its length, after a push on the same
// path, or — lifted to every call site of the popping function — under the same conditions there.
func stackJSTemplate(r *core.Run) {
	pk := r.Prog.Pkg("js")
	if pk == nil {
		r.BrokenAnchor("js package")
		return
	}
	field := ""
	if tn, _ := pk.Types.Scope().Lookup("Lexer").(*types.TypeName); tn != nil {
		if st, _ := tn.Type().Underlying().(*types.Struct); st != nil {
			for i := 0; i < st.NumFields(); i++ {
				if sl, ok := st.Field(i).Type().Underlying().(*types.Slice); ok {
					if b, isB := sl.Elem().Underlying().(*types.Basic); isB && b.Kind() == types.Int {
						if field != "" {
							field = "?"
						} else {
							field = st.Field(i).Name()
						}
					}
				}
			}
		}
	}
	if field == "" || field == "?" {
		r.BrokenAnchor("js.Lexer field of type []int (template brace levels)")
		return
	}
	r.Note("R-STACK(js): template brace levels are kept in js.Lexer.%s", field)
	type fnOps struct {
		fn  *ssa.Function
		ops []stackOp
	}
	var all []fnOps
	opsOf := map[*ssa.Function][]stackOp{}
	for _, fn := range allModuleFuncs(r) {
		if core.RelPkg(fnPkg(fn)) != "js" {
			continue
		}
		if ops := stackOps(r, fn, "js.Lexer", field); len(ops) > 0 {
			all = append(all, fnOps{fn, ops})
			opsOf[fn] = ops
		}
	}
	nonEmptyAtom := func(a condAtom, _ *ssa.Function) bool {
		for _, f := range factsOfAtom(a) {
			if len(f.L.T) != 1 {
				continue
			}
			for atom, c := range f.L.T {
				if !strings.HasSuffix(atom, "."+field+")") || !strings.HasPrefix(atom, "len(") {
					continue
				}
				if f.NE && f.L.C == 0 { // len != 0
					return true
				}
				if !f.NE && c == 1 && f.L.C <= -1 { // len - k >= 0, k >= 1
					return true
				}
			}
		}
		return false
	}
	var nonEmptyAt func(at ssa.Instruction, depth int) bool
	nonEmptyAt = func(at ssa.Instruction, depth int) bool {
		if depth > 3 {
			return false
		}
		fn := at.Parent()
		for _, a := range guardsAt(at.Block()) {
			if nonEmptyAtom(a, fn) {
				return true
			}
		}
		for _, op := range opsOf[fn] {
			if op.kind == "push" && instrBefore(op.in, at) {
				return true
			}
		}
		if fn.Object() != nil && fn.Object().Exported() {
			return false
		}
		sites := callSitesOf(r, fn)
		if len(sites) == 0 {
			return false
		}
		for _, c := range sites {
			if !nonEmptyAt(c, depth+1) {
				return false
			}
		}
		return true
	}
	npop := 0
	for _, fo := range all {
		pops := 0
		for _, op := range fo.ops {
			switch op.kind {
			case "pop":
				npop++
				pops++
				r.Check(nonEmptyAt(op.in, 0), fmt.Sprintf("js template level pop #%d needs a non-empty stack", npop), op.in.Pos(), "", "the template level stack is popped where it is not known to be non-empty (no length test, no push on the path, and not so at every call site of this function): a `}` or the end of a template outside any template literal would slice below zero")
			case "push":
			default:
				if st, ok := op.in.(*ssa.Store); ok {
					if fa, isFA := st.Addr.(*ssa.FieldAddr); isFA {
						if _, fresh := fa.X.(*ssa.Alloc); fresh {
							continue // initialisation of a new lexer
						}
					}
				}
				r.Fail("js template level stack rewritten", op.in.Pos(), "the template level stack is assigned something other than append/pop")
			}
		}
		if pops == 0 {
			continue
		}
		// at most one pop per path
		twice := false
		fn := fo.fn
		pathFlow(fn, pstate{}, func(s pstate, in ssa.Instruction) pstate {
			for _, o := range fo.ops {
				if o.in == in && o.kind == "pop" {
					s.v[0] = clamp(s.v[0] + 1)
				}
			}
			return s
		}, func(s pstate, ret *ssa.Return) {
			if s.v[0] > 1 {
				twice = true
			}
		})
		r.Check(!twice, fnLabel(fn)+" pops the template level stack at most once", fn.Pos(), "", "a path pops the template level stack twice")
	}
	r.Floor("js template level pops", npop, 1)
}

// recordsError: every path through fn stores the parser's error field (directly or through another such helper).
func recordsError(fn *ssa.Function, errField string, depth int) bool {
	if fn == nil || len(fn.Blocks) == 0 || depth > 2 || fnPkg(fn) == nil || !core.InModule(fnPkg(fn)) {
		return false
	}
	// the store (or recording call) must be in a block that dominates every return
	var marks []*ssa.BasicBlock
	for _, b := range fn.Blocks {
		for _, in := range b.Instrs {
			if st, ok := in.(*ssa.Store); ok && strings.HasSuffix(canon(st.Addr), "."+errField) {
				marks = append(marks, b)
			}
			if c, ok := in.(*ssa.Call); ok && recordsError(c.Call.StaticCallee(), errField, depth+1) {
				marks = append(marks, b)
			}
		}
	}
	if len(marks) == 0 {
		return false
	}
	for _, b := range fn.Blocks {
		if _, ok := lastInstr(b).(*ssa.Return); !ok {
			continue
		}
		dom := false
		for _, m := range marks {
			if m == b || m.Dominates(b) {
				dom = true
			}
		}
		if !dom {
			return false
		}
	}
	return true
}
