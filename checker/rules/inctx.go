package rules

import (
	"fmt"
	"go/token"
	"go/types"

	"golang.org/x/tools/go/ssa"

	"verif/checker/core"
)

// R-INCTX — ECMAScript gives every expression nested inside brackets, parentheses, braces or a
// template substitution the grammar parameter [+In]: `for (x = a[b in c];;)` is valid because the
// `in` sits inside an index expression. The parser models [In] by the field Parser.in, which the
// `for` head clears; every construct that opens a bracketed context must therefore set it before
// parsing its inside. The rule enumerates those constructs by what is parsed (argument lists,
// template literals, array/object literals, the inside of IndexExpr, GroupExpr and the middle
// operand of a conditional) and requires Parser.in to be known true at the call, on every path.

func init() {
	register(&Rule{ID: "R-INCTX", Props: []string{"C03"}, Doc: "js parser: everything parsed inside brackets, parentheses, braces or a template is parsed with the [In] flag set", Run: runInCtx})
}

// callees whose whole body parses the inside of a bracketed construct
var bracketParsers = map[string]bool{
	"parseArguments": true, "parseTemplateLiteral": true, "parseArrayLiteral": true, "parseObjectLiteral": true,
}

// node fields that hold an expression nested in brackets
var bracketFields = map[string]bool{"IndexExpr.Y": true, "GroupExpr.X": true}

// boolParserFields: the bool fields of js.Parser (candidates for the [In] flag).
func boolParserFields(r *core.Run) []string {
	pk := r.Prog.Pkg("js")
	if pk == nil {
		return nil
	}
	tn, _ := pk.Types.Scope().Lookup("Parser").(*types.TypeName)
	if tn == nil {
		return nil
	}
	st, _ := tn.Type().Underlying().(*types.Struct)
	var out []string
	for i := 0; st != nil && i < st.NumFields(); i++ {
		if b, ok := st.Field(i).Type().Underlying().(*types.Basic); ok && b.Kind() == types.Bool {
			out = append(out, st.Field(i).Name())
		}
	}
	return out
}

type inSite struct {
	fn   *ssa.Function
	in   ssa.Instruction
	what string
}

// knownTrueAt: the set of target instructions of fn at which Parser.<field> is known true on every non-error path.
func knownTrueAt(fn *ssa.Function, field string, targets map[ssa.Instruction]string) map[ssa.Instruction]bool {
	bad := map[ssa.Instruction]bool{}
	pathFlow(fn, pstate{}, func(s pstate, in ssa.Instruction) pstate {
		if st, ok := in.(*ssa.Store); ok {
			if fa, isFA := st.Addr.(*ssa.FieldAddr); isFA && fieldKeyOf(fa.X.Type(), fa.Field) == "Parser."+field {
				if c, isC := st.Val.(*ssa.Const); isC && c.Value != nil && c.Value.String() == "true" {
					s.v[0] = 1
				} else {
					s.v[0] = 0
				}
			}
		}
		if _, isT := targets[in]; isT && s.v[0] != 1 && !s.err {
			bad[in] = true
		}
		return s
	}, func(pstate, *ssa.Return) {})
	good := map[ssa.Instruction]bool{}
	for in := range targets {
		if !bad[in] {
			good[in] = true
		}
	}
	return good
}

func runInCtx(r *core.Run) {
	var sites []inSite
	perFn := map[*ssa.Function]map[ssa.Instruction]string{}
	for _, fn := range parserFuncs(r) {
		targets := map[ssa.Instruction]string{}
		for _, b := range fn.Blocks {
			for _, in := range b.Instrs {
				c, ok := in.(*ssa.Call)
				if !ok {
					continue
				}
				f := c.Call.StaticCallee()
				if f == nil {
					continue
				}
				if bracketParsers[f.Name()] && f.Signature.Recv() != nil {
					targets[in] = f.Name()
					continue
				}
				if f.Name() == "parseExpression" {
					for _, ref := range *c.Referrers() {
						st, isSt := ref.(*ssa.Store)
						if !isSt || st.Val != ssa.Value(c) {
							continue
						}
						if fa, isFA := st.Addr.(*ssa.FieldAddr); isFA {
							if fk := fieldKeyOf(fa.X.Type(), fa.Field); bracketFields[fk] {
								targets[in] = "parseExpression -> " + fk
							}
						}
					}
				}
			}
		}
		if len(targets) == 0 {
			continue
		}
		perFn[fn] = targets
		for _, b := range fn.Blocks {
			for _, in := range b.Instrs {
				if what, ok := targets[in]; ok {
					sites = append(sites, inSite{fn, in, what})
				}
			}
		}
	}
	// the [In] flag is the bool field of the parser that is set before (the majority of) these sites
	best, bestN := "", -1
	goodBy := map[string]map[ssa.Instruction]bool{}
	for _, f := range boolParserFields(r) {
		good := map[ssa.Instruction]bool{}
		for fn, targets := range perFn {
			for in := range knownTrueAt(fn, f, targets) {
				good[in] = true
			}
		}
		goodBy[f] = good
		if len(good) > bestN {
			best, bestN = f, len(good)
		}
	}
	if best == "" || 2*bestN <= len(sites) {
		r.Unknown("the parser's [In] flag", token.NoPos, "no bool field of js.Parser is set to true before the majority of the bracketed parse sites: the field that models the grammar parameter [In] cannot be identified")
		return
	}
	r.Note("R-INCTX: the grammar parameter [In] is modelled by the field Parser.%s (set before %d of %d bracketed parse sites)", best, bestN, len(sites))
	count := map[string]int{}
	for _, s := range sites {
		what := s.what
		ok := goodBy[best][s.in]
		if !ok && calleeSetsIn(s.in.(*ssa.Call).Call.StaticCallee(), best) {
			what += " (callee sets [In] itself)"
			ok = true
		}
		k := fmt.Sprintf("%s calls %s", fnLabel(s.fn), what)
		count[k]++
		r.Check(ok, fmt.Sprintf("%s #%d with [In] set", k, count[k]), s.in.Pos(), "",
			"the inside of a bracketed construct is parsed on a path where the parser's [In] flag has not been set to true: inside a `for` head (where [In] is cleared) a valid `in` operator between these brackets, e.g. for(x = a?.[b in c];;), is rejected")
	}
	r.Floor("bracketed parse sites", len(sites), 6)
}

// calleeSetsIn: the callee stores true to the [In] field before its first call of parseExpression.
func calleeSetsIn(f *ssa.Function, field string) bool {
	if f == nil || len(f.Blocks) == 0 {
		return false
	}
	ok := true
	found := false
	pathFlow(f, pstate{}, func(s pstate, in ssa.Instruction) pstate {
		if st, isSt := in.(*ssa.Store); isSt {
			if fa, isFA := st.Addr.(*ssa.FieldAddr); isFA && fieldKeyOf(fa.X.Type(), fa.Field) == "Parser."+field {
				if c, isC := st.Val.(*ssa.Const); isC && c.Value != nil && c.Value.String() == "true" {
					s.v[0] = 1
				} else {
					s.v[0] = 0
				}
			}
		}
		if c, isCall := in.(*ssa.Call); isCall {
			if g := c.Call.StaticCallee(); g != nil && g.Name() == "parseExpression" {
				found = true
				if s.v[0] != 1 {
					ok = false
				}
			}
		}
		return s
	}, func(pstate, *ssa.Return) {})
	return ok && found
}

var _ = token.NoPos
