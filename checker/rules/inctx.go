package rules

import (
	"fmt"
	"go/token"

	"golang.org/x/tools/go/ssa"

	"verif/checker/core"
)

// R-INCTX — ECMAScript gives every expression nested inside brackets, parentheses, braces or a
// template substitution the grammar parameter [+In]: `for (x = a[b in c];;)` is valid because the
// `in` sits inside an index expression. The parser models [In] by the field Parser.in, which the
// `for` head clears; every construct that opens a bracketed context must therefore set it before
// parsing its inside. The rule enumerates those constructs by what is parsed (argument lists,
// template literals, array/object literals, the inside of IndexExpr, GroupExpr and the middle
// operand of a conditional) and requires Parser.in to be known true at the call, on every path.

func init() {
	register(&Rule{ID: "R-INCTX", Props: []string{"C03"}, Doc: "js parser: everything parsed inside brackets, parentheses, braces or a template is parsed with the [In] flag set", Run: runInCtx})
}

// callees whose whole body parses the inside of a bracketed construct
var bracketParsers = map[string]bool{
	"parseArguments": true, "parseTemplateLiteral": true, "parseArrayLiteral": true, "parseObjectLiteral": true,
}

// node fields that hold an expression nested in brackets
var bracketFields = map[string]bool{"IndexExpr.Y": true, "GroupExpr.X": true}

func runInCtx(r *core.Run) {
	sites := 0
	for _, fn := range parserFuncs(r) {
		// does the function contain a target at all?
		targets := map[ssa.Instruction]string{}
		for _, b := range fn.Blocks {
			for _, in := range b.Instrs {
				c, ok := in.(*ssa.Call)
				if !ok {
					continue
				}
				f := c.Call.StaticCallee()
				if f == nil {
					continue
				}
				if bracketParsers[f.Name()] && f.Signature.Recv() != nil {
					targets[in] = f.Name()
					continue
				}
				if f.Name() == "parseExpression" {
					for _, ref := range *c.Referrers() {
						st, isSt := ref.(*ssa.Store)
						if !isSt || st.Val != ssa.Value(c) {
							continue
						}
						if fa, isFA := st.Addr.(*ssa.FieldAddr); isFA {
							if fk := fieldKeyOf(fa.X.Type(), fa.Field); bracketFields[fk] {
								targets[in] = "parseExpression -> " + fk
							}
						}
					}
				}
			}
		}
		if len(targets) == 0 {
			continue
		}
		// a callee that sets p.in itself before parsing anything is fine whatever the caller does
		bad := map[ssa.Instruction]bool{}
		count := map[string]int{}
		pathFlow(fn, pstate{}, func(s pstate, in ssa.Instruction) pstate {
			if st, ok := in.(*ssa.Store); ok {
				if fa, isFA := st.Addr.(*ssa.FieldAddr); isFA && fieldKeyOf(fa.X.Type(), fa.Field) == "Parser.in" {
					if c, isC := st.Val.(*ssa.Const); isC && c.Value != nil && c.Value.String() == "true" {
						s.v[0] = 1
					} else {
						s.v[0] = 0
					}
				}
			}
			if _, isT := targets[in]; isT && s.v[0] != 1 && !s.err {
				bad[in] = true
			}
			return s
		}, func(pstate, *ssa.Return) {})
		// report per target (ordered)
		for _, b := range fn.Blocks {
			for _, in := range b.Instrs {
				what, ok := targets[in]
				if !ok {
					continue
				}
				if calleeSetsIn(in.(*ssa.Call).Call.StaticCallee()) {
					what += " (callee sets [In] itself)"
					bad[in] = false
				}
				sites++
				k := fmt.Sprintf("%s calls %s", fnLabel(fn), what)
				count[k]++
				r.Check(!bad[in], fmt.Sprintf("%s #%d with [In] set", k, count[k]), in.Pos(), "",
					"the inside of a bracketed construct is parsed on a path where Parser.in has not been set to true: inside a `for` head (where [In] is cleared) a valid `in` operator between these brackets, e.g. for(x = a?.[b in c];;), is rejected")
			}
		}
	}
	r.Floor("bracketed parse sites", sites, 10)
}

// calleeSetsIn: the callee stores true to Parser.in before its first call of parseExpression.
func calleeSetsIn(f *ssa.Function) bool {
	if f == nil || len(f.Blocks) == 0 {
		return false
	}
	ok := true
	found := false
	pathFlow(f, pstate{}, func(s pstate, in ssa.Instruction) pstate {
		if st, isSt := in.(*ssa.Store); isSt {
			if fa, isFA := st.Addr.(*ssa.FieldAddr); isFA && fieldKeyOf(fa.X.Type(), fa.Field) == "Parser.in" {
				if c, isC := st.Val.(*ssa.Const); isC && c.Value != nil && c.Value.String() == "true" {
					s.v[0] = 1
				} else {
					s.v[0] = 0
				}
			}
		}
		if c, isCall := in.(*ssa.Call); isCall {
			if g := c.Call.StaticCallee(); g != nil && g.Name() == "parseExpression" {
				found = true
				if s.v[0] != 1 {
					ok = false
				}
			}
		}
		return s
	}, func(pstate, *ssa.Return) {})
	return ok && found
}

var _ = token.NoPos
