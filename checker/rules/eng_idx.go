package rules

// Look-ahead indices. Scanners written as

//	n := 0
//	for c := z.Peek(n); isSpace(c); c = z.Peek(n) { n++ }
//	z.Move(n)

// use an integer variable as the argument of Peek/Move. The engine tracks such a value as vIdx: an interval for
// the value itself plus three facts that tie it to the cursor: `safe` (value + safe <= distance to the terminator,
// established by a non-zero byte read at the index), `cover` (a set containing every byte in front of the index,
// for the "only whitespace is skipped" rules), and `back` (value >= -selection length, for backward look-behind
// bounded by -Pos()). The three facts describe the current position; any cursor movement drops them.

import (
	"fmt"
	"go/constant"
	"go/token"
	"go/types"
	"os"
	"sort"

	"golang.org/x/tools/go/ssa"

	"verif/checker/core"
)

// idxOfInts turns a small set of integer constants into a look-ahead index, using what state s knows.
func (s *State) idxOfInts(v AbsVal) AbsVal { return s.idxOfIntsAt(v, s.E, s.Lmin) }

func (s *State) idxOfIntsAt(v AbsVal, e, lmin int) AbsVal {
	if v.k != vInt || len(v.ints) == 0 {
		return top
	}
	lo, hi := int(v.ints[0]), int(v.ints[len(v.ints)-1])
	out := AbsVal{k: vIdx, ilo: lo, ihi: hi, safe: e - hi}
	if lo >= -lmin || lo >= 0 {
		out.back = true
	}
	if hi <= 16 {
		out.coverOK = true
		for k := 0; k < hi; k++ {
			out.cover = out.cover.or(s.byteAt(k))
		}
		if out.cover.isTop() {
			out.coverOK = false
		}
	}
	return out
}

func joinIdx(a, b AbsVal, widen bool) AbsVal {
	out := AbsVal{k: vIdx, ilo: min(a.ilo, b.ilo), ihi: max(a.ihi, b.ihi), safe: min(a.safe, b.safe), back: a.back && b.back}
	if a.coverOK && b.coverOK {
		out.coverOK, out.cover = true, a.cover.or(b.cover)
	}
	out.dec = a.dec
	if b.dec > out.dec {
		out.dec = b.dec
	}
	if out.ilo < a.ilo || out.safe < a.safe {
		if out.dec < 255 {
			out.dec++
		}
		if out.dec > 6 {
			if out.ilo < a.ilo {
				out.ilo = lowerThreshold(out.ilo)
			}
			if out.safe < a.safe {
				out.safe = lowerThreshold(out.safe)
			}
		}
	}
	if widen && out.ihi > a.ihi {
		out.ihi = inf
	}
	return out
}

// shiftIdx: the index plus a constant k; byteAt is the set of the byte read at the index itself (for k == 1).
func shiftIdx(v AbsVal, k int, at ByteSet, atKnown bool) AbsVal {
	out := v
	out.dec = 0
	out.ilo += k
	if out.ihi < inf {
		out.ihi += k
	}
	if out.safe > -inf {
		out.safe -= k
	}
	switch {
	case k == 1 && atKnown && v.coverOK:
		out.cover = v.cover.or(at)
	case k <= 0:
		// a prefix of what was covered
	default:
		out.coverOK = false
	}
	if k < 0 {
		out.back = false
	}
	return out
}

// byteReadAt: the set of the byte most recently read at index value idx (a Peek(idx) result still alive).
func (s *State) byteReadAt(idx ssa.Value) (ByteSet, bool) {
	var set ByteSet
	found := false
	for _, avP := range s.vals {
		if avP.k == vByte && avP.idx == idx {
			if !found {
				set, found = avP.set, true
			} else {
				set = set.and(avP.set)
			}
		}
	}
	return set, found
}

// moveIdx: Move(n) for a look-ahead index n.
func (s *State) moveIdx(v AbsVal) {
	lo, hi := v.ilo, v.ihi
	safe := v.safe
	cover, coverOK := v.cover, v.coverOK
	lexKnown := s.lexKnown
	lex := s.lex
	if lo == hi {
		s.moveBy(lo)
		if safe > s.E {
			s.E = safe
		}
		return
	}
	if lo < 0 {
		// backward or mixed movement of unknown size: keep only what moveFuzzy keeps for a non-negative move
		s.moveFuzzy(0, max(hi, 0))
		s.P, s.Lmin, s.dispLo = max(s.P+lo, 0), s.Lmin+lo, s.dispLo+lo
		for h := range s.loopDisp {
			s.loopDisp[h] += lo
		}
		s.lexKnown = false
		return
	}
	s.moveFuzzy(lo, hi)
	if safe > -inf && safe > s.E {
		s.E = safe
	}
	if lexKnown && coverOK {
		s.lex, s.lexKnown = lex.or(cover), true
	}
}

func idxWhy(fwd, bwd bool) string {
	switch {
	case !fwd:
		return "the bytes in front of the index were not all established to be input (no non-zero byte was read at n-1 on this path): the look-ahead can pass the NUL terminator (index out of range)"
	case !bwd:
		return "the index may reach behind the start of the buffer"
	}
	return ""
}

// idxLoop: the loop is governed by a look-ahead index that strictly increases on every cycle and is, on this
// back edge, still in front of the terminator: it is bounded by the length of the input.
func idxLoop(st *State, hdr *ssa.BasicBlock) bool {
	for _, in := range hdr.Instrs {
		phi, ok := in.(*ssa.Phi)
		if !ok {
			break
		}
		if !isIntType(phi.Type()) {
			continue
		}
		okStride := true
		n := 0
		for i, ed := range phi.Edges {
			if !hdr.Dominates(hdr.Preds[i]) {
				continue
			}
			n++
			d := linOf(ed).add(linAtom("%"+phi.Name()), -1)
			if !d.isConst() || d.C <= 0 {
				okStride = false
			}
		}
		if !okStride || n == 0 {
			continue
		}
		if av, ok := st.getv(phi); ok {
			if av.k == vIdx && av.safe >= 0 {
				return true
			}
			if c, isC := av.constInt(); isC && c >= 0 && int(c) <= st.E {
				return true
			}
		}
	}
	return false
}

// ---------------------------------------------------------------------------
// constant string tables: `for _, lit := range literals { ... z.Peek(n) == lit[n] ... }`

func strSetVal(ss []string) AbsVal {
	sort.Strings(ss)
	out := ss[:0]
	for i, s := range ss {
		if i == 0 || s != ss[i-1] {
			out = append(out, s)
		}
	}
	if len(out) == 0 || len(out) > 64 {
		return top
	}
	return AbsVal{k: vStrSet, strs: out}
}

// globalStrings: the constant strings held by a package-level string / []string / [N]string variable of the module.
func (e *Engine) globalStrings(g *ssa.Global) ([]string, bool) {
	if g.Pkg == nil || !core.InModule(g.Pkg.Pkg) {
		return nil, false
	}
	pk := e.prog.ByPath[g.Pkg.Pkg.Path()]
	if pk == nil {
		return nil, false
	}
	l, err := evalGlobal(pk, g.Name())
	if err != nil || l == nil {
		return nil, false
	}
	str := func(x *Lit) (string, bool) {
		if x == nil {
			return "", true // zero value
		}
		if x.Const != nil && x.Const.Kind() == constant.String && !x.IsBytes {
			return constant.StringVal(x.Const), true
		}
		return "", false
	}
	if s, ok := str(l); ok && l.Const != nil {
		return []string{s}, true
	}
	if l.Elems == nil {
		return nil, false
	}
	var out []string
	for _, el := range l.Elems {
		s, ok := str(el)
		if !ok {
			return nil, false
		}
		out = append(out, s)
	}
	return out, len(out) > 0
}

// stringsOfValue: v is a string read from a constant table (t = *table; t[i]  /  *(&table[i])  /  *table for a string).
func (e *Engine) stringsOfValue(st *State, v ssa.Value) AbsVal {
	global := func(x ssa.Value) *ssa.Global {
		switch y := x.(type) {
		case *ssa.Global:
			return y
		case *ssa.UnOp:
			if g, ok := y.X.(*ssa.Global); ok && y.Op == token.MUL {
				return g
			}
		}
		return nil
	}
	pick := func(g *ssa.Global, idx ssa.Value) AbsVal {
		ss, ok := e.globalStrings(g)
		if os.Getenv("PCHECK_STRDEBUG") != "" {
			fmt.Fprintf(os.Stderr, "STR %s -> %v %v\n", g.Name(), ss, ok)
		}
		if !ok {
			return top
		}
		if idx != nil {
			if c, isC := e.eval(st, idx).constInt(); isC && c >= 0 && int(c) < len(ss) {
				return strSetVal([]string{ss[c]})
			}
		}
		return strSetVal(append([]string{}, ss...))
	}
	switch x := v.(type) {
	case *ssa.Index:
		if g := global(x.X); g != nil {
			return pick(g, x.Index)
		}
	case *ssa.UnOp:
		if x.Op != token.MUL {
			return top
		}
		if g, ok := x.X.(*ssa.Global); ok {
			if b, isB := x.Type().Underlying().(*types.Basic); isB && b.Kind() == types.String {
				return pick(g, nil)
			}
		}
		if ia, ok := x.X.(*ssa.IndexAddr); ok {
			if g := global(ia.X); g != nil {
				return pick(g, ia.Index)
			}
		}
	}
	return top
}

// strSetByte: the byte s[i] of a string that is one of a constant set.
func strSetByte(sv AbsVal, idx AbsVal) AbsVal {
	var bs ByteSet
	c, isC := idx.constInt()
	for _, s := range sv.strs {
		if isC {
			if c >= 0 && int(c) < len(s) {
				bs = bs.or(bsOf(s[c]))
			}
			continue
		}
		for i := 0; i < len(s); i++ {
			bs = bs.or(bsOf(s[i]))
		}
	}
	if bs.empty() {
		return top
	}
	return AbsVal{k: vByte, set: bs}
}

// pureHelper: a small module function of the analysed package that neither stores nor calls anything but len/cap
// and other pure helpers, takes no byte parameter alone (those are byte predicates, evaluated exactly) and
// returns a bool or small integer: its body is analysed with the caller's abstract values.
func (e *Engine) pureHelper(fn *ssa.Function) bool {
	if v, ok := e.pure[fn]; ok {
		return v
	}
	if e.pure == nil {
		e.pure = map[*ssa.Function]bool{}
	}
	e.pure[fn] = false // recursion guard
	ok := func() bool {
		if fn == nil || len(fn.Blocks) == 0 || len(fn.Blocks) > 12 || fnPkg(fn) == nil || !core.InModule(fnPkg(fn)) || core.RelPkg(fnPkg(fn)) != e.cfg.Rel {
			return false
		}
		if e.bytePredicate(fn).table != nil {
			return false
		}
		res := fn.Signature.Results()
		if res.Len() != 1 {
			return false
		}
		if b, isB := res.At(0).Type().Underlying().(*types.Basic); !isB || b.Info()&(types.IsBoolean|types.IsInteger) == 0 {
			return false
		}
		uses := false
		for _, b := range fn.Blocks {
			for _, in := range b.Instrs {
				switch x := in.(type) {
				case *ssa.Store:
					if _, spill := x.Addr.(*ssa.Alloc); !spill {
						return false
					}
				case *ssa.MapUpdate, *ssa.Send, *ssa.Go, *ssa.Defer, *ssa.Panic:
					return false
				case *ssa.Field, *ssa.FieldAddr:
					uses = true
				case *ssa.Call:
					if bi, isB := x.Call.Value.(*ssa.Builtin); isB && (bi.Name() == "len" || bi.Name() == "cap") {
						continue
					}
					g := x.Call.StaticCallee()
					if g == nil || !(e.pureHelper(g) || e.bytePredicate(g).table != nil) {
						return false
					}
				}
			}
		}
		return uses // only helpers that look at lexer state need the abstract heap; others stay opaque as before
	}()
	e.pure[fn] = ok
	return ok
}

// runeLenIdx: the length reported by PeekRune(0) as a look-ahead index: 1..4 bytes, all of them input while the
// value is fresh (no movement since) and a byte was proven at the position (R-PEEKRUNE: the reported length never
// exceeds what remains).
func runeLenIdx(v AbsVal) AbsVal {
	out := AbsVal{k: vIdx, ilo: 1, ihi: 4, safe: -inf, back: true}
	if v.fresh && v.runeOK {
		out.safe = 0
	}
	return out
}

// failurePropagated: the failure of the scanner is dealt with by every caller: on the failure edge of each call
// the caller either returns its own failure value straight away (`if !l.consumeX() { return false }`: the
// displacement is then part of the caller's failing exit, judged there), or — in a scanner — every return it can
// still reach yields a proper token (`consumeRemnantsBadURL(); return BadURLToken`), or — at the top level (Next,
// RegExp) — every return it can still reach is the error token (`l.err = ...; return ErrorToken, nil`).
func (e *Engine) failurePropagated(fn *ssa.Function) bool {
	sites := callSitesOf(e.r, fn)
	if len(sites) == 0 {
		return false
	}
	for _, c := range sites {
		g := c.Parent()
		topLevel := !isFailureResult(g) // Next, RegExp: must turn the failure into the error token
		if refs := c.Referrers(); refs == nil || len(*refs) == 0 {
			continue // the result is discarded: the caller does not rely on "nothing was consumed" (IsIdent compares the end position)
		}
		var fail *ssa.BasicBlock
		for _, ref := range *c.Referrers() {
			if iff, ok := ref.(*ssa.If); ok {
				fail = iff.Block().Succs[1]
			}
			if u, ok := ref.(*ssa.UnOp); ok && u.Op == token.NOT {
				for _, r2 := range *u.Referrers() {
					if iff, ok := r2.(*ssa.If); ok {
						fail = iff.Block().Succs[0]
					}
				}
			}
			if bo, ok := ref.(*ssa.BinOp); ok && (bo.Op == token.EQL || bo.Op == token.NEQ) {
				// tt := l.consumeX(); tt != ErrorToken / tt == ErrorToken
				other := bo.Y
				if other == ssa.Value(c) {
					other = bo.X
				}
				if k, isK := other.(*ssa.Const); isK && (k.Value == nil || k.Value.String() == "0" || k.Value.String() == "false") {
					for _, r2 := range *bo.Referrers() {
						if iff, ok := r2.(*ssa.If); ok {
							if bo.Op == token.EQL {
								fail = iff.Block().Succs[0]
							} else {
								fail = iff.Block().Succs[1]
							}
						}
					}
				}
			}
		}
		if fail == nil {
			return false
		}
		// every return reachable from the failure edge
		seen := map[*ssa.BasicBlock]bool{}
		ok := true
		var walk func(b *ssa.BasicBlock, first bool)
		walk = func(b *ssa.BasicBlock, first bool) {
			_ = first
			if seen[b] || !ok {
				return
			}
			seen[b] = true
			if ret, isRet := lastInstr(b).(*ssa.Return); isRet {
				if len(ret.Results) == 0 {
					ok = false
					return
				}
				k, isK := ret.Results[0].(*ssa.Const)
				isFail := isK && (k.Value == nil || k.Value.String() == "false" || k.Value.String() == "0")
				if topLevel {
					if !isFail {
						ok = false // the top level goes on lexing after a failed scan that moved the cursor
					}
					return
				}
				if len(ret.Results) != 1 {
					ok = false
					return
				}
				_, tokenTyped := ret.Results[0].Type().(*types.Named)
				switch {
				case isFail:
					// propagated (at once or after trying something else): part of the caller's own failing exit
				case isK && tokenTyped:
					// a proper token that covers the bytes of the failed scan (BadURLToken)
				case !isK:
					// the caller's result is computed: its failing outcome is judged at its own exit
				default:
					ok = false // `return true` after a failed scan that moved the cursor: lexing goes on from the wrong place
				}
				return
			}
			for _, s := range b.Succs {
				walk(s, false)
			}
		}
		walk(fail, true)
		if !ok {
			return false
		}
	}
	return true
}

// enumTableSplit: x = table[c] where table is a package-level [256]<named integer type> literal (or such a field of a
// struct table) and c can be one of at most 12 bytes: one successor state per byte with c and x both known.
func (e *Engine) enumTableSplit(st *State, x *ssa.UnOp) []*State {
	if _, named := x.Type().(*types.Named); !named {
		return nil
	}
	var ia *ssa.IndexAddr
	field := -1
	switch a := x.X.(type) {
	case *ssa.IndexAddr:
		ia = a
	case *ssa.FieldAddr:
		if i2, ok := a.X.(*ssa.IndexAddr); ok {
			ia, field = i2, a.Field
		}
	}
	if ia == nil {
		return nil
	}
	g, ok := ia.X.(*ssa.Global)
	if !ok {
		return nil
	}
	t := e.intTableField(g, field)
	if t == nil {
		return nil
	}
	set := e.eval(st, ia.Index).byteSet()
	if n := set.count(); n < 2 || n > 12 {
		return nil
	}
	var outs []*State
	ms := set.members()
	for i, b := range ms {
		s := st
		if i < len(ms)-1 {
			s = st.clone()
		}
		e.refineByteVal(s, ia.Index, bsOf(b))
		if s.dead {
			continue
		}
		s.setv(x, intVal(t[b]))
		outs = append(outs, s)
	}
	return outs
}

// zeroLit: the literal form of the zero value of t (integers, booleans, strings and structs of them).
func zeroLit(t types.Type) *Lit {
	switch u := t.Underlying().(type) {
	case *types.Basic:
		switch {
		case u.Info()&types.IsBoolean != 0:
			return &Lit{Const: constant.MakeBool(false), Type: t}
		case u.Info()&types.IsInteger != 0:
			return &Lit{Const: constant.MakeInt64(0), Type: t}
		case u.Info()&types.IsString != 0:
			return &Lit{Const: constant.MakeString(""), Type: t}
		}
	case *types.Struct:
		out := &Lit{Type: t, Elems: make([]*Lit, u.NumFields())}
		for i := range out.Elems {
			out.Elems[i] = zeroLit(u.Field(i).Type())
		}
		return out
	}
	return nil
}

// rowTableSplit: `row := table[c]` for a package-level [256]struct literal: one state per distinct row among the
// bytes still possible (the unlisted bytes share the zero row), with the byte narrowed to the bytes of that row, so
// that row.ok, row.tt, row.state stay correlated with the byte.
func (e *Engine) rowTableSplit(st *State, x *ssa.UnOp) []*State {
	ia, ok := x.X.(*ssa.IndexAddr)
	if !ok {
		return nil
	}
	g, ok := ia.X.(*ssa.Global)
	if !ok || g.Pkg == nil || !core.InModule(g.Pkg.Pkg) {
		return nil
	}
	arr, ok := derefType(g.Type()).Underlying().(*types.Array)
	if !ok || arr.Len() != 256 {
		return nil
	}
	rowT, ok := arr.Elem().Underlying().(*types.Struct)
	if !ok || rowT.NumFields() > 8 {
		return nil
	}
	e.itabMu.Lock()
	if e.rows256 == nil {
		e.rows256 = map[*ssa.Global][]*Lit{}
	}
	rows, cached := e.rows256[g]
	if !cached {
		if pk := e.prog.ByPath[g.Pkg.Pkg.Path()]; pk != nil {
			if l, err := evalGlobal(pk, g.Name()); err == nil && l != nil && len(l.Elems) <= 256 && l.Elems != nil {
				zero := zeroLit(arr.Elem())
				rows = make([]*Lit, 256)
				good := zero != nil
				for i := range rows {
					rows[i] = zero
					if i < len(l.Elems) && l.Elems[i] != nil {
						r := &Lit{Type: arr.Elem(), Pos: l.Elems[i].Pos, Elems: make([]*Lit, rowT.NumFields())}
						for f := range r.Elems {
							if f < len(l.Elems[i].Elems) && l.Elems[i].Elems[f] != nil {
								r.Elems[f] = l.Elems[i].Elems[f]
							} else {
								r.Elems[f] = zeroLit(rowT.Field(f).Type())
							}
						}
						rows[i] = r
					}
				}
				if !good {
					rows = nil
				}
			}
		}
		e.rows256[g] = rows
	}
	e.itabMu.Unlock()
	if rows == nil {
		return nil
	}
	set := e.eval(st, ia.Index).byteSet()
	groups := map[*Lit]ByteSet{}
	var order []*Lit
	for _, b := range set.members() {
		r := rows[b]
		if _, seen := groups[r]; !seen {
			order = append(order, r)
		}
		groups[r] = groups[r].or(bsOf(b))
	}
	if len(order) == 0 || len(order) > 12 {
		return nil
	}
	var outs []*State
	for i, r := range order {
		s := st
		if i < len(order)-1 {
			s = st.clone()
		}
		e.refineByteVal(s, ia.Index, groups[r])
		if s.dead {
			continue
		}
		s.setv(x, AbsVal{k: vLit, lit: r, field: -1})
		outs = append(outs, s)
	}
	return outs
}

// splitEnumTables: after a branch narrowed the byte that indexes a per-byte table of an enumerated type
// (`if t := punctuation[c]; t != ErrorToken`) to a few candidates, one state per candidate keeps the table value
// correlated with the byte (as enumTableSplit does when the candidates are few at the load already).
func (e *Engine) splitEnumTables(st *State) []*State {
	var pick ssa.Value
	var pv AbsVal
	for v, avP := range st.vals {
		if avP.k != vTabInt || avP.mask != -1 || avP.tabX == nil {
			continue
		}
		if _, named := v.Type().(*types.Named); !named {
			continue
		}
		if n := e.eval(st, avP.tabX).byteSet().count(); n < 2 || n > 12 {
			continue
		}
		if pick == nil || v.Pos() < pick.Pos() {
			pick, pv = v, *avP
		}
	}
	if pick == nil {
		return []*State{st}
	}
	ms := e.eval(st, pv.tabX).byteSet().members()
	var outs []*State
	for i, b := range ms {
		s := st
		if i < len(ms)-1 {
			s = st.clone()
		}
		e.refineByteVal(s, pv.tabX, bsOf(b))
		if s.dead {
			continue
		}
		s.setv(pick, intVal(pv.itable[b]))
		outs = append(outs, s)
	}
	return outs
}

// writesFields: fn (or a module function it calls) stores into a field of a module struct.
func (e *Engine) writesFields(fn *ssa.Function) bool {
	if v, ok := e.writes[fn]; ok {
		return v
	}
	if e.writes == nil {
		e.writes = map[*ssa.Function]bool{}
	}
	e.writes[fn] = false
	res := false
	for _, b := range fn.Blocks {
		for _, in := range b.Instrs {
			switch x := in.(type) {
			case *ssa.Store:
				if _, ok := heapPath(x.Addr); ok {
					res = true
				}
			case *ssa.Call:
				if g := x.Call.StaticCallee(); g != nil && len(g.Blocks) > 0 && fnPkg(g) != nil && core.InModule(fnPkg(g)) && e.owner(g) && e.writesFields(g) {
					res = true
				}
			}
		}
	}
	e.writes[fn] = res
	return res
}

// R-RESTORE. A scanner that, on some failing path, moves the cursor and then puts it back (Rewind(mark), Move(-k))
// shows that its failure means "nothing consumed". It is then held to that on every failing path: a failing return
// with a net displacement makes the caller retry from the wrong place. Functions that never restore (scan-until
// helpers that report whether they found their terminator; scanners whose failure the caller turns into an error
// at the failure point) carry no such obligation. No names and no exception table are involved.
type failExit struct {
	st     *State
	pos    token.Pos
	lo, hi int
	moved  bool
}

func (e *Engine) finishRestore() {
	var fns []*ssa.Function
	for f := range e.failExits {
		fns = append(fns, f)
	}
	sort.Slice(fns, func(i, j int) bool { return fnLabel(fns[i]) < fnLabel(fns[j]) })
	for _, f := range fns {
		exits := e.failExits[f]
		restores := false
		for _, x := range exits {
			if x.moved && x.lo == 0 && x.hi == 0 {
				restores = true
			}
		}
		if !restores || e.failurePropagated(f) {
			continue
		}
		key := fnLabel(f) + " failure restores the position"
		for _, x := range exits {
			e.check(x.st, "R-RESTORE", key, x.pos, x.lo == 0 && x.hi == 0,
				fmt.Sprintf("the scanner puts the cursor back on some failing paths but returns its failure value after a net displacement in [%s,%s] here: the bytes moved over end up in the next token (or are rescanned) although the caller was told nothing was consumed", infs(x.lo), infs(x.hi)))
		}
	}
}

// constBytes: a package-level `var delim = []byte("-->")` that nothing in the module writes or lets escape
// (roglobal.go, strict): its bytes are as constant as a literal argument list.
func (e *Engine) constBytes(g *ssa.Global) ([]byte, bool) {
	e.itabMu.Lock()
	defer e.itabMu.Unlock()
	if e.cbytes == nil {
		e.cbytes = map[*ssa.Global][]byte{}
	}
	if b, ok := e.cbytes[g]; ok {
		return b, b != nil
	}
	var out []byte
	func() {
		if g.Pkg == nil || !core.InModule(g.Pkg.Pkg) {
			return
		}
		sl, ok := derefType(g.Type()).Underlying().(*types.Slice)
		if !ok || !isByteType(sl.Elem()) {
			return
		}
		pk := e.prog.ByPath[g.Pkg.Pkg.Path()]
		if pk == nil {
			return
		}
		l, err := evalGlobal(pk, g.Name())
		if err != nil || l == nil {
			return
		}
		var bs []byte
		switch {
		case l.Const != nil && l.Const.Kind() == constant.String && l.IsBytes:
			bs = []byte(constant.StringVal(l.Const))
		case l.Elems != nil:
			for _, el := range l.Elems {
				if el == nil {
					bs = append(bs, 0)
					continue
				}
				if el.Const == nil || el.Const.Kind() != constant.Int {
					return
				}
				c, _ := constant.Int64Val(el.Const)
				bs = append(bs, byte(c))
			}
		default:
			return
		}
		if len(bs) == 0 || len(bs) > 16 {
			return
		}
		if globalWritten(e.prog, g, true) != "" {
			return
		}
		out = bs
	}()
	e.cbytes[g] = out
	return out, out != nil
}

// rowTable: a package-level slice/array literal whose elements are struct literals (rows of constants and functions).
func (e *Engine) rowTable(g *ssa.Global) *Lit {
	e.itabMu.Lock()
	defer e.itabMu.Unlock()
	if e.rowTabs == nil {
		e.rowTabs = map[*ssa.Global]*Lit{}
	}
	if l, ok := e.rowTabs[g]; ok {
		return l
	}
	var out *Lit
	if g.Pkg != nil && core.InModule(g.Pkg.Pkg) {
		var elem types.Type
		switch u := derefType(g.Type()).Underlying().(type) {
		case *types.Slice:
			elem = u.Elem()
		case *types.Array:
			elem = u.Elem()
		}
		if elem != nil {
			_, isStruct := elem.Underlying().(*types.Struct)
			if b, isB := elem.Underlying().(*types.Basic); isB && b.Info()&types.IsString != 0 {
				isStruct = true // a list of constant strings (var literals = []string{"true", "false", "null"}): rows of one cell
			}
			if isStruct {
				if pk := e.prog.ByPath[g.Pkg.Pkg.Path()]; pk != nil {
					if l, err := evalGlobal(pk, g.Name()); err == nil && l != nil && len(l.Elems) > 0 && len(l.Elems) <= 64 {
						out = l
					}
				}
			}
		}
	}
	e.rowTabs[g] = out
	return out
}

// litValue: the abstract value of a constant cell of a table row.
func (e *Engine) litValue(l *Lit, t types.Type) AbsVal {
	if l == nil {
		return top
	}
	if l.Obj != nil {
		if f, ok := l.Obj.(*types.Func); ok {
			if fn := e.prog.SSA.FuncValue(f); fn != nil {
				return AbsVal{k: vFunc, fn: fn}
			}
		}
	}
	if l.Const != nil && !l.IsBytes {
		switch l.Const.Kind() {
		case constant.String:
			return AbsVal{k: vStrSet, strs: []string{constant.StringVal(l.Const)}}
		case constant.Int:
			if v, ok := constant.Int64Val(l.Const); ok {
				return intVal(v)
			}
		case constant.Bool:
			return boolVal(constant.BoolVal(l.Const))
		}
	}
	return top
}

// structKeyLookup: table[K{c, form}] for a package-level map literal whose keys are struct literals of constants
// (map[opKey]TokenType{{'=', opAssign}: EqEqToken, ...}) and a key built in place from constants and at most one
// byte value: one successor state per candidate byte, with the entry (or its absence) known.
func (e *Engine) structKeyLookup(st *State, in *ssa.Lookup, g *ssa.Global, set func(*State, AbsVal, AbsVal)) []*State {
	mt, ok := derefType(g.Type()).Underlying().(*types.Map)
	if !ok {
		return nil
	}
	kst, ok := mt.Key().Underlying().(*types.Struct)
	if !ok || g.Pkg == nil || !core.InModule(g.Pkg.Pkg) {
		return nil
	}
	pk := e.prog.ByPath[g.Pkg.Pkg.Path()]
	if pk == nil {
		return nil
	}
	e.itabMu.Lock()
	if e.mapLits == nil {
		e.mapLits = map[*ssa.Global]*Lit{}
	}
	l, cached := e.mapLits[g]
	if !cached {
		if ll, err := evalGlobal(pk, g.Name()); err == nil {
			l = ll
		}
		e.mapLits[g] = l
	}
	e.itabMu.Unlock()
	if l == nil || len(l.Keys) == 0 || len(l.Keys) != len(l.Vals) {
		return nil
	}
	// the key value: a load of a local composite literal whose fields are stored once each
	ld, ok := in.Index.(*ssa.UnOp)
	if !ok || ld.Op != token.MUL {
		return nil
	}
	al, ok := ld.X.(*ssa.Alloc)
	if !ok || al.Referrers() == nil {
		return nil
	}
	nf := kst.NumFields()
	fieldVals := make([]ssa.Value, nf)
	for _, ref := range *al.Referrers() {
		fa, isFA := ref.(*ssa.FieldAddr)
		if !isFA || fa.Referrers() == nil {
			continue
		}
		for _, r2 := range *fa.Referrers() {
			if s, isS := r2.(*ssa.Store); isS && s.Addr == ssa.Value(fa) {
				if fieldVals[fa.Field] != nil {
					return nil // assigned more than once
				}
				fieldVals[fa.Field] = s.Val
			}
		}
	}
	consts := make([]int64, nf)
	varField := -1
	var varSet ByteSet
	for i := 0; i < nf; i++ {
		if fieldVals[i] == nil {
			consts[i] = 0 // zero value
			continue
		}
		av := e.eval(st, fieldVals[i])
		if c, isC := av.constInt(); isC {
			consts[i] = c
			continue
		}
		bs := av.byteSet()
		if varField >= 0 || bs.isTop() && av.k != vByte || bs.count() > 40 {
			return nil
		}
		varField, varSet = i, bs
	}
	find := func(key []int64) (int64, bool) {
		for ki, kl := range l.Keys {
			if kl == nil || len(kl.Elems) != nf {
				continue
			}
			match := true
			for i := 0; i < nf; i++ {
				var kv int64
				if kl.Elems[i] != nil {
					v, okV := kl.Elems[i].Int()
					if !okV {
						match = false
						break
					}
					kv = v
				}
				if kv != key[i] {
					match = false
					break
				}
			}
			if match {
				if v, okV := l.Vals[ki].Int(); okV {
					return v, true
				}
			}
		}
		return 0, false
	}
	if varField < 0 {
		if v, has := find(consts); has {
			set(st, intVal(v), boolVal(true))
		} else {
			set(st, intVal(0), boolVal(false))
		}
		return []*State{st}
	}
	var outs []*State
	ms := varSet.members()
	for i, b := range ms {
		s := st
		if i < len(ms)-1 {
			s = st.clone()
		}
		e.refineByteVal(s, fieldVals[varField], bsOf(b))
		if s.dead {
			continue
		}
		key := append([]int64{}, consts...)
		key[varField] = int64(b)
		if v, has := find(key); has {
			set(s, intVal(v), boolVal(true))
		} else {
			set(s, intVal(0), boolVal(false))
		}
		outs = append(outs, s)
	}
	return outs
}
