package rules

// A constant evaluator for package-level tables whose initialiser is not a literal but a pure nullary closure
//
//	var charClasses = func() (t [256]uint8) { for c := '0'; c <= '9'; c++ { t[c] |= digit }; ...; return }()
//
// Such a table is as constant as a literal: nothing at run time feeds it. The evaluator folds the closure's SSA —
// integer/boolean/string constants, local arrays and slices of them, closures defined inside it — with a step
// budget; anything else (calls out of the package other than len/cap/copy, loads of other globals that are not
// themselves foldable, maps, channels, interfaces, floating point) makes the table opaque again. It is constant
// folding of an initialiser, the same thing a compiler may do; no function of /repo is executed on any input.

import (
	"fmt"
	"go/constant"
	"go/token"
	"go/types"
	"os"

	"sync"

	"golang.org/x/tools/go/packages"
	"golang.org/x/tools/go/ssa"

	"verif/checker/core"
)

type (
	sCell struct {
		v  interface{}
		ro bool // another package-level variable: may be read, not written
	}
	sArr struct{ elems []interface{} } // an array value (copied on load / store)
	sPtr struct {                      // pointer to a cell or to an element of an array held in a cell
		cell *sCell
		elem int // -1: the cell itself
	}
	sSlice struct {
		cell   *sCell // holds *sArr
		lo, hi int
	}
	sClos struct {
		fn   *ssa.Function
		bind []interface{}
	}
	sEval struct {
		prog  *core.Program
		steps int
		why   string
		glob  map[*ssa.Global]interface{}
		depth int
	}
)

func (a *sArr) clone() *sArr {
	out := &sArr{elems: make([]interface{}, len(a.elems))}
	for i, e := range a.elems {
		if sub, ok := e.(*sArr); ok {
			out.elems[i] = sub.clone()
		} else {
			out.elems[i] = e
		}
	}
	return out
}

func zeroOf(t types.Type) interface{} {
	switch u := t.Underlying().(type) {
	case *types.Basic:
		switch {
		case u.Info()&types.IsBoolean != 0:
			return constant.MakeBool(false)
		case u.Info()&types.IsString != 0:
			return constant.MakeString("")
		case u.Info()&types.IsInteger != 0:
			return constant.MakeInt64(0)
		}
	case *types.Array:
		if u.Len() > 1<<16 {
			return nil
		}
		a := &sArr{elems: make([]interface{}, u.Len())}
		for i := range a.elems {
			a.elems[i] = zeroOf(u.Elem())
			if a.elems[i] == nil {
				return nil
			}
		}
		return a
	}
	return nil
}

// wrapInt truncates an integer constant to the width of its type.
func wrapInt(v constant.Value, t types.Type) constant.Value {
	b, ok := t.Underlying().(*types.Basic)
	if !ok || b.Info()&types.IsInteger == 0 || v.Kind() != constant.Int {
		return v
	}
	bits := map[types.BasicKind]uint{types.Int8: 8, types.Uint8: 8, types.Int16: 16, types.Uint16: 16, types.Int32: 32, types.Uint32: 32, types.Int64: 64, types.Uint64: 64, types.Int: 64, types.Uint: 64, types.Uintptr: 64}[b.Kind()]
	if bits == 0 {
		return v
	}
	mod := constant.Shift(constant.MakeInt64(1), token.SHL, bits)
	m := constant.BinaryOp(v, token.REM, mod)
	if constant.Sign(m) < 0 {
		m = constant.BinaryOp(m, token.ADD, mod)
	}
	if b.Info()&types.IsUnsigned == 0 {
		half := constant.Shift(constant.MakeInt64(1), token.SHL, bits-1)
		if constant.Compare(m, token.GEQ, half) {
			m = constant.BinaryOp(m, token.SUB, mod)
		}
	}
	return m
}

func (e *sEval) fail(format string, a ...interface{}) {
	if e.why == "" {
		e.why = fmt.Sprintf(format, a...)
	}
}

func (e *sEval) call(fn *ssa.Function, args, bind []interface{}, depth int) []interface{} {
	if depth > 8 || fn == nil || len(fn.Blocks) == 0 {
		e.fail("call depth / no body")
		return nil
	}
	env := map[ssa.Value]interface{}{}
	for i, p := range fn.Params {
		if i < len(args) {
			env[p] = args[i]
		}
	}
	for i, fv := range fn.FreeVars {
		if i < len(bind) {
			env[fv] = bind[i]
		}
	}
	get := func(v ssa.Value) interface{} {
		switch x := v.(type) {
		case *ssa.Const:
			if x.Value == nil {
				return zeroOf(x.Type())
			}
			if x.Value.Kind() == constant.Float || x.Value.Kind() == constant.Complex {
				e.fail("floating-point constant")
				return nil
			}
			return x.Value
		case *ssa.Function:
			return &sClos{fn: x}
		case *ssa.Global:
			if g, ok := e.glob[x]; ok {
				if g == nil {
					e.fail("reads package-level variable %s (not foldable)", x.Name())
				}
				return g
			}
			e.glob[x] = nil // cycle guard
			if v := e.globalValue(x); v != nil {
				p := &sPtr{cell: &sCell{v: v, ro: true}, elem: -1}
				e.glob[x] = p
				return p
			}
			e.fail("reads package-level variable %s (not foldable)", x.Name())
			return nil
		}
		r, ok := env[v]
		if !ok {
			e.fail("value %s not available", v.Name())
		}
		return r
	}
	asInt := func(v interface{}) (int, bool) {
		c, ok := v.(constant.Value)
		if !ok || c == nil || c.Kind() != constant.Int {
			return 0, false
		}
		i, exact := constant.Int64Val(c)
		return int(i), exact
	}
	load := func(p *sPtr) interface{} {
		if p == nil || p.cell == nil {
			return nil
		}
		if p.elem < 0 {
			if a, ok := p.cell.v.(*sArr); ok {
				return a.clone()
			}
			return p.cell.v
		}
		a, ok := p.cell.v.(*sArr)
		if !ok || p.elem >= len(a.elems) {
			e.fail("element load out of range")
			return nil
		}
		if sub, isArr := a.elems[p.elem].(*sArr); isArr {
			return sub.clone()
		}
		return a.elems[p.elem]
	}
	blk := fn.Blocks[0]
	var prev *ssa.BasicBlock
	for e.why == "" {
		for _, in := range blk.Instrs {
			ph, ok := in.(*ssa.Phi)
			if !ok {
				break
			}
			idx := -1
			for i, p := range blk.Preds {
				if p == prev {
					idx = i
				}
			}
			if idx < 0 {
				e.fail("phi without predecessor")
				return nil
			}
			env[ph] = get(ph.Edges[idx]) // (parallel assignment is approximated; initialiser loops have independent phis)
		}
		var next *ssa.BasicBlock
		for _, in := range blk.Instrs {
			e.steps++
			if e.steps > 2_000_000 {
				e.fail("step budget exhausted")
				return nil
			}
			if e.why != "" {
				return nil
			}
			switch x := in.(type) {
			case *ssa.Phi, *ssa.DebugRef:
			case *ssa.Alloc:
				z := zeroOf(derefType(x.Type()))
				if z == nil {
					if _, isSl := derefType(x.Type()).Underlying().(*types.Slice); isSl {
						z = (*sSlice)(nil)
					} else if _, isSig := derefType(x.Type()).Underlying().(*types.Signature); isSig {
						z = (*sClos)(nil)
					} else {
						e.fail("local of unsupported type %s", derefType(x.Type()))
						return nil
					}
				}
				env[x] = &sPtr{cell: &sCell{v: z}, elem: -1}
			case *ssa.Store:
				p, ok := get(x.Addr).(*sPtr)
				v := get(x.Val)
				if !ok || p == nil || e.why != "" {
					e.fail("store through an unsupported address")
					return nil
				}
				if a, isArr := v.(*sArr); isArr {
					v = a.clone()
				}
				if p.cell.ro {
					e.fail("writes another package-level variable")
					return nil
				}
				if p.elem < 0 {
					p.cell.v = v
				} else if a, isArr := p.cell.v.(*sArr); isArr && p.elem < len(a.elems) {
					a.elems[p.elem] = v
				} else {
					e.fail("element store out of range")
					return nil
				}
			case *ssa.UnOp:
				v := get(x.X)
				switch x.Op {
				case token.MUL:
					p, ok := v.(*sPtr)
					if !ok {
						e.fail("load through an unsupported address")
						return nil
					}
					env[x] = load(p)
				default:
					c, ok := v.(constant.Value)
					if !ok || c == nil {
						e.fail("unary operation on a non-constant")
						return nil
					}
					env[x] = wrapInt(constant.UnaryOp(x.Op, c, 0), x.Type())
				}
			case *ssa.BinOp:
				a, ok1 := get(x.X).(constant.Value)
				b, ok2 := get(x.Y).(constant.Value)
				if !ok1 || !ok2 || a == nil || b == nil {
					e.fail("binary operation on a non-constant")
					return nil
				}
				switch {
				case isCmp(x.Op):
					env[x] = constant.MakeBool(constant.Compare(a, x.Op, b))
				case x.Op == token.SHL || x.Op == token.SHR:
					s, _ := constant.Uint64Val(constant.ToInt(b))
					if s > 64 {
						s = 64
					}
					env[x] = wrapInt(constant.Shift(a, x.Op, uint(s)), x.Type())
				case x.Op == token.AND_NOT:
					nb := constant.UnaryOp(token.XOR, b, 0)
					env[x] = wrapInt(constant.BinaryOp(a, token.AND, nb), x.Type())
				default:
					op := x.Op
					if op == token.QUO {
						if constant.Sign(b) == 0 {
							e.fail("division by zero")
							return nil
						}
						if a.Kind() == constant.Int {
							op = token.QUO_ASSIGN
						}
					}
					if op == token.REM && constant.Sign(b) == 0 {
						e.fail("division by zero")
						return nil
					}
					env[x] = wrapInt(constant.BinaryOp(a, op, b), x.Type())
				}
			case *ssa.Convert:
				v := get(x.X)
				if c, ok := v.(constant.Value); ok && c != nil {
					// string -> []byte
					if sl, isSl := x.Type().Underlying().(*types.Slice); isSl && c.Kind() == constant.String {
						if eb, isB := sl.Elem().Underlying().(*types.Basic); isB && eb.Kind() == types.Uint8 {
							s := constant.StringVal(c)
							arr := &sArr{elems: make([]interface{}, len(s))}
							for i := 0; i < len(s); i++ {
								arr.elems[i] = constant.MakeInt64(int64(s[i]))
							}
							env[x] = &sSlice{cell: &sCell{v: arr}, lo: 0, hi: len(s)}
							continue
						}
					}
					if isIntType(x.Type()) && c.Kind() == constant.Int {
						env[x] = wrapInt(c, x.Type())
						continue
					}
				}
				e.fail("unsupported conversion to %s", x.Type())
				return nil
			case *ssa.ChangeType:
				env[x] = get(x.X)
			case *ssa.IndexAddr:
				i, okI := asInt(get(x.Index))
				if !okI {
					e.fail("non-constant index")
					return nil
				}
				switch b := get(x.X).(type) {
				case *sPtr:
					if b == nil || b.elem >= 0 {
						e.fail("nested element address")
						return nil
					}
					a, isArr := b.cell.v.(*sArr)
					if !isArr || i < 0 || i >= len(a.elems) {
						e.fail("index out of range while folding")
						return nil
					}
					if sub, isSub := a.elems[i].(*sArr); isSub {
						// address of a row of a two-dimensional array: a cell aliasing the row
						env[x] = &sPtr{cell: &sCell{v: sub, ro: b.cell.ro}, elem: -1}
					} else {
						env[x] = &sPtr{cell: b.cell, elem: i}
					}
				case *sSlice:
					if b == nil || i < 0 || b.lo+i >= b.hi {
						e.fail("index out of range while folding")
						return nil
					}
					env[x] = &sPtr{cell: b.cell, elem: b.lo + i}
				default:
					e.fail("index into an unsupported value")
					return nil
				}
			case *ssa.Index:
				i, okI := asInt(get(x.Index))
				switch b := get(x.X).(type) {
				case *sArr:
					if !okI || i < 0 || i >= len(b.elems) {
						e.fail("index out of range while folding")
						return nil
					}
					env[x] = b.elems[i]
				case constant.Value:
					if b != nil && b.Kind() == constant.String && okI && i >= 0 && i < len(constant.StringVal(b)) {
						env[x] = constant.MakeInt64(int64(constant.StringVal(b)[i]))
					} else {
						e.fail("string index out of range while folding")
						return nil
					}
				default:
					e.fail("index into an unsupported value")
					return nil
				}
			case *ssa.Slice:
				lo, hi := 0, -1
				if x.Low != nil {
					lo, _ = asInt(get(x.Low))
				}
				if x.High != nil {
					hi, _ = asInt(get(x.High))
				}
				switch b := get(x.X).(type) {
				case *sPtr:
					a, isArr := b.cell.v.(*sArr)
					if b.elem >= 0 || !isArr {
						e.fail("slice of an unsupported value")
						return nil
					}
					if hi < 0 {
						hi = len(a.elems)
					}
					env[x] = &sSlice{cell: b.cell, lo: lo, hi: hi}
				case *sSlice:
					if b == nil {
						e.fail("slice of nil")
						return nil
					}
					if hi < 0 {
						hi = b.hi - b.lo
					}
					env[x] = &sSlice{cell: b.cell, lo: b.lo + lo, hi: b.lo + hi}
				default:
					e.fail("slice of an unsupported value")
					return nil
				}
			case *ssa.MakeClosure:
				c := &sClos{}
				c.fn, _ = x.Fn.(*ssa.Function)
				for _, bv := range x.Bindings {
					c.bind = append(c.bind, get(bv))
				}
				env[x] = c
			case *ssa.Call:
				var args []interface{}
				for _, a := range x.Call.Args {
					args = append(args, get(a))
				}
				if e.why != "" {
					return nil
				}
				if bi, ok := x.Call.Value.(*ssa.Builtin); ok {
					switch bi.Name() {
					case "len", "cap":
						switch b := args[0].(type) {
						case *sSlice:
							n := 0
							if b != nil {
								n = b.hi - b.lo
							}
							env[x] = constant.MakeInt64(int64(n))
						case *sArr:
							env[x] = constant.MakeInt64(int64(len(b.elems)))
						case constant.Value:
							if b != nil && b.Kind() == constant.String {
								env[x] = constant.MakeInt64(int64(len(constant.StringVal(b))))
							} else {
								e.fail("len of a non-string constant")
								return nil
							}
						default:
							e.fail("len of an unsupported value")
							return nil
						}
					default:
						e.fail("builtin %s", bi.Name())
						return nil
					}
					continue
				}
				if x.Call.IsInvoke() {
					e.fail("interface method call")
					return nil
				}
				var callee *ssa.Function
				var bind []interface{}
				if f := x.Call.StaticCallee(); f != nil {
					callee = f
					if mc, isMC := x.Call.Value.(*ssa.MakeClosure); isMC {
						if c, okC := get(mc).(*sClos); okC {
							bind = c.bind
						}
					}
				} else if c, okC := get(x.Call.Value).(*sClos); okC && c != nil {
					callee, bind = c.fn, c.bind
				}
				if callee == nil || fnPkg(callee) == nil || !core.InModule(fnPkg(callee)) {
					e.fail("call outside the module (%s)", x.Call.Value.Name())
					return nil
				}
				res := e.call(callee, args, bind, depth+1)
				if e.why != "" {
					return nil
				}
				switch len(res) {
				case 0:
				case 1:
					env[x] = res[0]
				default:
					e.fail("multi-value call")
					return nil
				}
			case *ssa.If:
				c, ok := get(x.Cond).(constant.Value)
				if !ok || c == nil || c.Kind() != constant.Bool {
					e.fail("branch on a non-constant")
					return nil
				}
				if constant.BoolVal(c) {
					next = blk.Succs[0]
				} else {
					next = blk.Succs[1]
				}
			case *ssa.Jump:
				next = blk.Succs[0]
			case *ssa.Return:
				var out []interface{}
				for _, r := range x.Results {
					out = append(out, get(r))
				}
				return out
			default:
				e.fail("unsupported instruction %T", in)
				return nil
			}
		}
		if next == nil {
			e.fail("block without successor")
			return nil
		}
		prev, blk = blk, next
	}
	return nil
}

// globalValue: the (folded or literal) initial value of another package-level variable read by an initialiser.
// Go initialises a variable after the variables its initialiser refers to, so that value is the one read.
func (e *sEval) globalValue(g *ssa.Global) interface{} {
	if g.Pkg == nil || !core.InModule(g.Pkg.Pkg) || e.depth > 4 {
		return nil
	}
	pk := e.prog.ByPath[g.Pkg.Pkg.Path()]
	if pk == nil {
		return nil
	}
	if init, _ := globalInit(pk, g.Name()); init != nil {
		if l, err := evalExpr(pk, init); err == nil {
			return svalOfLit(l, derefType(g.Type()))
		}
	}
	sub := &sEval{prog: e.prog, glob: map[*ssa.Global]interface{}{}, depth: e.depth + 1}
	v, why := sub.initValue(g)
	e.steps += sub.steps
	if why != "" {
		return nil
	}
	return v
}

// svalOfLit converts an evaluated literal (constants and arrays of them) to the evaluator's representation.
func svalOfLit(l *Lit, t types.Type) interface{} {
	if l == nil {
		return zeroOf(t)
	}
	if l.Const != nil && !l.IsBytes {
		if l.Const.Kind() == constant.Float || l.Const.Kind() == constant.Complex {
			return nil
		}
		return l.Const
	}
	if a, ok := t.Underlying().(*types.Array); ok && l.Elems != nil && a.Len() <= 1<<16 {
		out := &sArr{elems: make([]interface{}, a.Len())}
		for i := range out.elems {
			var el *Lit
			if i < len(l.Elems) {
				el = l.Elems[i]
			}
			if out.elems[i] = svalOfLit(el, a.Elem()); out.elems[i] == nil {
				return nil
			}
		}
		return out
	}
	return nil
}

// initValueOf: the value the package initialiser stores into global g, if it is `g = <pure closure>()`.
func initValueOf(prog *core.Program, g *ssa.Global) (interface{}, string) {
	e := &sEval{prog: prog, glob: map[*ssa.Global]interface{}{}}
	return e.initValue(g)
}

func (e *sEval) initValue(g *ssa.Global) (interface{}, string) {
	if g.Pkg == nil || !core.InModule(g.Pkg.Pkg) {
		return nil, "not a module global"
	}
	initFn := g.Pkg.Func("init")
	if initFn == nil {
		return nil, "no package initialiser"
	}
	var val ssa.Value
	n := 0
	for _, b := range initFn.Blocks {
		for _, in := range b.Instrs {
			if st, ok := in.(*ssa.Store); ok && st.Addr == ssa.Value(g) {
				val = st.Val
				n++
			}
		}
	}
	if n != 1 {
		return nil, "not assigned exactly once in the package initialiser"
	}
	c, ok := val.(*ssa.Call)
	if !ok {
		return nil, "initialiser is not a call"
	}
	callee := c.Call.StaticCallee()
	if callee == nil || len(callee.FreeVars) != 0 || callee.Signature.Results().Len() != 1 || c.Call.IsInvoke() || fnPkg(callee) == nil || !core.InModule(fnPkg(callee)) {
		return nil, "initialiser is not a call of a closure or function of the module"
	}
	var args []interface{}
	for _, a := range c.Call.Args {
		k, isConst := a.(*ssa.Const)
		if !isConst || k.Value == nil || k.Value.Kind() == constant.Float || k.Value.Kind() == constant.Complex {
			return nil, "initialiser call has a non-constant argument"
		}
		args = append(args, k.Value)
	}
	res := e.call(callee, args, nil, 0)
	if e.why != "" || len(res) != 1 {
		return nil, "initialiser cannot be folded: " + e.why
	}
	return res[0], ""
}

// foldedIntTable: a [256]<integer or bool> table computed by its initialiser closure.
func foldedIntTable(prog *core.Program, g *ssa.Global) (*[256]int64, bool) {
	v, why := initValueOf(prog, g)
	if why != "" {
		return nil, false
	}
	a, ok := v.(*sArr)
	if !ok || len(a.elems) != 256 {
		return nil, false
	}
	var t [256]int64
	for i, el := range a.elems {
		c, ok := el.(constant.Value)
		if !ok || c == nil {
			return nil, false
		}
		switch c.Kind() {
		case constant.Bool:
			if constant.BoolVal(c) {
				t[i] = 1
			}
		case constant.Int:
			x, exact := constant.Int64Val(c)
			if !exact {
				return nil, false
			}
			t[i] = x
		default:
			return nil, false
		}
	}
	return &t, true
}

// foldedGlobal: the Lit form of a package-level variable whose initialiser is a foldable nullary closure.
func foldedGlobal(pk *packages.Package, obj *types.Var) *Lit {
	prog := core.ProgramOf(pk.Types)
	if prog == nil {
		return nil
	}
	sp := prog.SSA.Package(pk.Types)
	if sp == nil {
		return nil
	}
	g, _ := sp.Members[obj.Name()].(*ssa.Global)
	if g == nil {
		return nil
	}
	foldMu.Lock()
	defer foldMu.Unlock()
	if l, ok := foldCache[g]; ok {
		return l
	}
	v, why := initValueOf(prog, g)
	var l *Lit
	if why == "" {
		l = litOfSval(v, obj.Type(), obj.Pos())
	} else if os.Getenv("PCHECK_TRACE") != "" {
		fmt.Fprintf(os.Stderr, "fold %s: %s\n", g.Name(), why)
	}
	foldCache[g] = l
	return l
}

var (
	foldMu    sync.Mutex
	foldCache = map[*ssa.Global]*Lit{}
)

func litOfSval(v interface{}, t types.Type, pos token.Pos) *Lit {
	elemT := func() types.Type {
		switch u := t.Underlying().(type) {
		case *types.Array:
			return u.Elem()
		case *types.Slice:
			return u.Elem()
		}
		return nil
	}
	switch x := v.(type) {
	case constant.Value:
		if x == nil {
			return nil
		}
		return &Lit{Const: x, Pos: pos, Type: t}
	case *sArr:
		et := elemT()
		if et == nil {
			return nil
		}
		out := &Lit{Pos: pos, Type: t, Elems: make([]*Lit, len(x.elems))}
		for i, el := range x.elems {
			if out.Elems[i] = litOfSval(el, et, pos); out.Elems[i] == nil {
				return nil
			}
		}
		return out
	case *sSlice:
		et := elemT()
		if et == nil || x == nil {
			return nil
		}
		a, ok := x.cell.v.(*sArr)
		if !ok || x.lo < 0 || x.hi > len(a.elems) {
			return nil
		}
		out := &Lit{Pos: pos, Type: t, Elems: make([]*Lit, x.hi-x.lo)}
		for i := range out.Elems {
			if out.Elems[i] = litOfSval(a.elems[x.lo+i], et, pos); out.Elems[i] == nil {
				return nil
			}
		}
		return out
	}
	return nil
}
