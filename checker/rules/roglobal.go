package rules

// Read-only package-level variables. The table and delimiter readers (evalGlobal and its clients) treat the
// initialiser of a package-level variable as its value for the whole run. That is only right when no function of
// the module writes the variable after initialisation: no store to it or to an element/field address derived from
// it, no map update, and — for slices and maps, which alias their backing store — no use of a loaded value other
// than reading it (len, index load, range, passing it on to a parameter that is itself only read, comparison
// helpers of package bytes). Anything else makes the variable "possibly written" and its readers fall back to
// "opaque", which is the conservative answer.

import (
	"fmt"
	"go/token"
	"go/types"
	"sync"

	"golang.org/x/tools/go/ssa"
	"golang.org/x/tools/go/ssa/ssautil"

	"verif/checker/core"
)

type roKey struct {
	g      *ssa.Global
	strict bool
}

type globalUses struct {
	uses  map[*ssa.Global][]ssa.Instruction
	ro    map[roKey]string // "" = read-only; otherwise why not
	done  map[roKey]bool
	funcs []*ssa.Function
	sites map[*ssa.Function][]*ssa.Call
}

var (
	guMu   sync.Mutex
	guProg = map[*ssa.Program]*globalUses{}
)

func usesOf(prog *core.Program) *globalUses {
	if gu, ok := guProg[prog.SSA]; ok {
		return gu
	}
	gu := &globalUses{uses: map[*ssa.Global][]ssa.Instruction{}, ro: map[roKey]string{}, done: map[roKey]bool{}}
	for fn := range ssautil.AllFunctions(prog.SSA) {
		if fnPkg(fn) == nil || !core.InModule(fnPkg(fn)) {
			continue
		}
		gu.funcs = append(gu.funcs, fn)
		var ops []*ssa.Value
		for _, b := range fn.Blocks {
			for _, in := range b.Instrs {
				ops = in.Operands(ops[:0])
				for _, op := range ops {
					if op == nil || *op == nil {
						continue
					}
					if g, ok := (*op).(*ssa.Global); ok {
						gu.uses[g] = append(gu.uses[g], in)
					}
				}
			}
		}
	}
	guProg[prog.SSA] = gu
	return gu
}

// releaseGlobalUses drops the cache of a scratch program.
func releaseGlobalUses(prog *core.Program) {
	guMu.Lock()
	delete(guProg, prog.SSA)
	guMu.Unlock()
}

// globalWritten: "" when no function of the module changes g (or what it refers to) after initialisation.
// strict: a slice/map read from g that leaves the traced code (returned to a caller outside the module, stored in a
// field, passed to a dynamic or foreign call) also counts — needed where the aliased bytes themselves are relied on;
// otherwise only writes found in the traced code count (the module's exported accessors hand out shared tables,
// clients are trusted not to modify them).
func globalWritten(prog *core.Program, g *ssa.Global, strict bool) string {
	guMu.Lock()
	defer guMu.Unlock()
	gu := usesOf(prog)
	k := roKey{g, strict}
	if gu.done[k] {
		return gu.ro[k]
	}
	why := ""
	var initFn *ssa.Function
	if g.Pkg != nil {
		initFn = g.Pkg.Func("init")
	}
	w := &roWalk{seen: map[ssa.Value]bool{}, strict: strict, gu: gu}
	for _, in := range gu.uses[g] {
		if in.Parent() == initFn {
			// the synthesised package initialiser: the variable's own initialiser, or another variable's initialiser
			// reading it; a store by another variable's initialiser closure would be in that closure, not here
			if st, ok := in.(*ssa.Store); ok && st.Addr != ssa.Value(g) && st.Val == ssa.Value(g) {
				why = "its address is stored by the package initialiser"
			}
			continue
		}
		if r := w.addrInstr(g, in); r != "" {
			why = r
			break
		}
	}
	gu.done[k] = true
	gu.ro[k] = why
	return why
}

type roWalk struct {
	seen   map[ssa.Value]bool
	depth  int
	strict bool
	gu     *globalUses
}

// esc: the value leaves the traced code.
func (w *roWalk) esc(format string, a ...interface{}) string {
	if !w.strict {
		return ""
	}
	return fmt.Sprintf(format, a...)
}

func (w *roWalk) pos(in ssa.Instruction) string {
	if in.Parent() != nil {
		return in.Parent().Prog.Fset.Position(in.Pos()).String()
	}
	return ""
}

// addrInstr: instruction in uses the address a (of the variable or of part of it).
func (w *roWalk) addrInstr(a ssa.Value, in ssa.Instruction) string {
	switch x := in.(type) {
	case *ssa.DebugRef:
		return ""
	case *ssa.UnOp:
		if x.Op == token.MUL && x.X == a {
			return w.valueUses(x)
		}
	case *ssa.IndexAddr:
		if x.X == a {
			return w.addrUses(x)
		}
		return "" // used as an index
	case *ssa.FieldAddr:
		if x.X == a {
			return w.addrUses(x)
		}
	case *ssa.Slice:
		if x.X == a {
			return w.valueUses(x)
		}
		return ""
	case *ssa.Store:
		if x.Addr == a {
			return fmt.Sprintf("assigned at %s", w.pos(in))
		}
		return fmt.Sprintf("its address is stored at %s", w.pos(in))
	}
	return fmt.Sprintf("its address is used at %s", w.pos(in))
}

func (w *roWalk) addrUses(a ssa.Value) string {
	if w.seen[a] {
		return ""
	}
	w.seen[a] = true
	refs := a.Referrers()
	if refs == nil {
		return ""
	}
	for _, in := range *refs {
		if r := w.addrInstr(a, in); r != "" {
			return r
		}
	}
	return ""
}

// valueUses: v was loaded from the variable; values that alias storage (slices, maps, pointers) must only be read.
func (w *roWalk) valueUses(v ssa.Value) string {
	switch t := v.Type().Underlying().(type) {
	case *types.Slice, *types.Map:
	case *types.Pointer:
		return w.esc("a pointer read from it is used at %s", v.Parent().Prog.Fset.Position(v.Pos()))
	case *types.Array, *types.Struct:
		// a copy; but a copy of a struct/array holding slices still aliases them
		if holdsRef(t) {
			return w.aggregateUses(v)
		}
		return ""
	case *types.Interface, *types.Signature, *types.Chan:
		return ""
	default:
		return ""
	}
	if w.seen[v] {
		return ""
	}
	w.seen[v] = true
	refs := v.Referrers()
	if refs == nil {
		return ""
	}
	for _, in := range *refs {
		if r := w.valueInstr(v, in); r != "" {
			return r
		}
	}
	return ""
}

func holdsRef(t types.Type) bool {
	switch u := t.Underlying().(type) {
	case *types.Slice, *types.Map, *types.Pointer:
		return true
	case *types.Array:
		return holdsRef(u.Elem())
	case *types.Struct:
		for i := 0; i < u.NumFields(); i++ {
			if holdsRef(u.Field(i).Type()) {
				return true
			}
		}
	}
	return false
}

// aggregateUses: a struct/array value copied out of the variable: its slice/map parts must only be read.
func (w *roWalk) aggregateUses(v ssa.Value) string {
	if w.seen[v] {
		return ""
	}
	w.seen[v] = true
	refs := v.Referrers()
	if refs == nil {
		return ""
	}
	for _, in := range *refs {
		switch x := in.(type) {
		case *ssa.DebugRef:
		case *ssa.Field:
			if r := w.valueUses(x); r != "" {
				return r
			}
		case *ssa.Index:
			if r := w.valueUses(x); r != "" {
				return r
			}
		case *ssa.Phi:
			if r := w.aggregateUses(x); r != "" {
				return r
			}
		case *ssa.Store:
			// spilled to a local: follow the local's loads
			if al, ok := x.Addr.(*ssa.Alloc); ok && x.Val == v {
				if r := w.addrUsesRO(al); r != "" {
					return r
				}
				continue
			}
			return w.esc("a copy holding its slices is stored at %s", w.pos(in))
		default:
			return w.esc("a copy holding its slices is used at %s", w.pos(in))
		}
	}
	return ""
}

// addrUsesRO: a local holding a copy of (part of) the variable: loads are followed, stores of other values are
// harmless to the variable itself (the local is a copy), but the aliased parts must only be read.
func (w *roWalk) addrUsesRO(a ssa.Value) string {
	if w.seen[a] {
		return ""
	}
	w.seen[a] = true
	refs := a.Referrers()
	if refs == nil {
		return ""
	}
	for _, in := range *refs {
		switch x := in.(type) {
		case *ssa.DebugRef, *ssa.Store:
		case *ssa.UnOp:
			if x.Op == token.MUL {
				if r := w.valueUses(x); r != "" {
					return r
				}
			}
		case *ssa.FieldAddr, *ssa.IndexAddr:
			if r := w.addrUsesRO(x.(ssa.Value)); r != "" {
				return r
			}
		case *ssa.Slice:
			if r := w.valueUses(x); r != "" {
				return r
			}
		default:
			return w.esc("a copy holding its slices is used at %s", w.pos(in))
		}
	}
	return ""
}

var roBytesFuncs = map[string]bool{
	"Equal": true, "EqualFold": true, "HasPrefix": true, "HasSuffix": true, "Index": true, "IndexByte": true,
	"Contains": true, "Compare": true, "LastIndex": true, "IndexAny": true, "Count": true,
}

// valueInstr: instruction in uses the slice/map v.
func (w *roWalk) valueInstr(v ssa.Value, in ssa.Instruction) string {
	switch x := in.(type) {
	case *ssa.DebugRef:
		return ""
	case *ssa.Index:
		return ""
	case *ssa.Lookup:
		if x.X == v {
			// a map lookup yields a copy of the element; an element that is itself a slice/map must be read only
			return w.valueUses(x)
		}
		return ""
	case *ssa.Extract:
		return ""
	case *ssa.IndexAddr:
		if x.X != v {
			return ""
		}
		// element address: loads only
		if w.seen[x] {
			return ""
		}
		w.seen[x] = true
		if refs := x.Referrers(); refs != nil {
			for _, u := range *refs {
				switch y := u.(type) {
				case *ssa.DebugRef:
				case *ssa.UnOp:
					if y.Op != token.MUL {
						return w.esc("an element address is used at %s", w.pos(u))
					}
					if r := w.valueUses(y); r != "" {
						return r
					}
				case *ssa.FieldAddr, *ssa.IndexAddr:
					if r := w.addrUses(y.(ssa.Value)); r != "" {
						return r
					}
				case *ssa.Store:
					if y.Addr == ssa.Value(x) {
						return fmt.Sprintf("an element is assigned at %s", w.pos(u))
					}
					return w.esc("an element address is stored at %s", w.pos(u))
				default:
					return w.esc("an element address is used at %s", w.pos(u))
				}
			}
		}
		return ""
	case *ssa.Slice:
		if x.X == v {
			return w.valueUses(x)
		}
		return ""
	case *ssa.Phi:
		return w.valueUses(x)
	case *ssa.Range:
		return ""
	case *ssa.MapUpdate:
		if x.Map == v {
			return fmt.Sprintf("map updated at %s", w.pos(in))
		}
		return w.esc("stored in a map at %s", w.pos(in))
	case *ssa.Convert:
		if b, ok := x.Type().Underlying().(*types.Basic); ok && b.Info()&types.IsString != 0 {
			return "" // string(v): a copy
		}
	case *ssa.ChangeType:
		return w.valueUses(x)
	case *ssa.BinOp:
		return "" // comparison with nil
	case *ssa.If:
		return ""
	case *ssa.Return:
		return w.returned(x, v)
	case *ssa.Store:
		if x.Val == v {
			// the argument array of a variadic call, or a local: follow the local
			if root := localRoot(x.Addr); root != nil {
				return w.addrUsesRO(root)
			}
		}
		return w.esc("stored at %s", w.pos(in))
	case *ssa.Call:
		return w.callUse(v, &x.Call, in)
	case *ssa.Defer:
		return w.callUse(v, &x.Call, in)
	case *ssa.Go:
		return w.callUse(v, &x.Call, in)
	}
	return w.esc("escapes at %s", w.pos(in))
}

func (w *roWalk) callUse(v ssa.Value, cc *ssa.CallCommon, in ssa.Instruction) string {
	if bi, ok := cc.Value.(*ssa.Builtin); ok {
		switch bi.Name() {
		case "len", "cap":
			return ""
		case "copy":
			if len(cc.Args) == 2 && cc.Args[0] != v {
				return ""
			}
		case "append":
			if len(cc.Args) >= 1 && cc.Args[0] != v {
				return "" // append(dst, v...): read
			}
		}
		if bi.Name() == "copy" || bi.Name() == "append" {
			return fmt.Sprintf("%s into it at %s", bi.Name(), w.pos(in))
		}
		return w.esc("%s on it at %s", bi.Name(), w.pos(in))
	}
	callee := cc.StaticCallee()
	if callee == nil {
		return w.esc("passed to a dynamic call at %s", w.pos(in))
	}
	if fnPkg(callee) != nil && !core.InModule(fnPkg(callee)) {
		if fnPkg(callee).Path() == "bytes" && roBytesFuncs[callee.Name()] {
			return ""
		}
		return w.esc("passed to %s at %s", callee.String(), w.pos(in))
	}
	if len(callee.Blocks) == 0 || w.depth > 6 {
		return w.esc("passed to %s at %s", callee.String(), w.pos(in))
	}
	args := cc.Args
	for i, a := range args {
		if a != v {
			continue
		}
		if i >= len(callee.Params) {
			return w.esc("passed to %s at %s", callee.String(), w.pos(in))
		}
		w.depth++
		r := w.valueUses(callee.Params[i])
		w.depth--
		if r != "" {
			return r
		}
	}
	return ""
}

// localRoot: the local variable an address is part of.
func localRoot(a ssa.Value) *ssa.Alloc {
	for i := 0; i < 8; i++ {
		switch x := a.(type) {
		case *ssa.Alloc:
			return x
		case *ssa.IndexAddr:
			a = x.X
		case *ssa.FieldAddr:
			a = x.X
		default:
			return nil
		}
	}
	return nil
}

// returned: v is returned by a function of the module: its static callers in the module are followed; callers
// outside the module (and dynamic ones) are an escape.
func (w *roWalk) returned(ret *ssa.Return, v ssa.Value) string {
	fn := ret.Parent()
	idx := -1
	for i, r := range ret.Results {
		if r == v {
			idx = i
		}
	}
	if fn == nil || idx < 0 || w.depth > 6 {
		return w.esc("returned at %s", w.pos(ret))
	}
	if w.strict {
		if fn.Object() != nil && fn.Object().Exported() {
			if sig := fn.Signature; sig.Recv() == nil || exportedRecv(sig.Recv().Type()) {
				return w.esc("returned by the exported %s", fn.String())
			}
		}
	}
	for _, site := range w.gu.callers(fn) {
		var res ssa.Value = site
		if len(ret.Results) > 1 {
			res = nil
			if refs := site.Referrers(); refs != nil {
				for _, u := range *refs {
					if ex, ok := u.(*ssa.Extract); ok && ex.Index == idx {
						w.depth++
						r := w.valueUses(ex)
						w.depth--
						if r != "" {
							return r
						}
					}
				}
			}
			continue
		}
		w.depth++
		r := w.valueUses(res)
		w.depth--
		if r != "" {
			return r
		}
	}
	return ""
}

func exportedRecv(t types.Type) bool {
	if p, ok := t.(*types.Pointer); ok {
		t = p.Elem()
	}
	if n, ok := t.(*types.Named); ok {
		return n.Obj().Exported()
	}
	return false
}

// callers: the static call sites of fn in the module.
func (gu *globalUses) callers(fn *ssa.Function) []*ssa.Call {
	if gu.sites == nil {
		gu.sites = map[*ssa.Function][]*ssa.Call{}
		for _, f := range gu.funcs {
			for _, b := range f.Blocks {
				for _, in := range b.Instrs {
					if c, ok := in.(*ssa.Call); ok {
						if callee := c.Call.StaticCallee(); callee != nil {
							gu.sites[callee] = append(gu.sites[callee], c)
						}
					}
				}
			}
		}
	}
	return gu.sites[fn]
}
