package rules

import (
	"fmt"
	"go/token"
	"go/types"
	"sort"
	"strings"

	"golang.org/x/tools/go/callgraph"
	"golang.org/x/tools/go/ssa"

	"verif/checker/core"
)

func init() {
	register(&Rule{ID: "R-RECURSE", Props: []string{"C01"}, Doc: "every recursion cycle that consumes tokens passes a depth guard; other packages have no recursion", Run: runRecurse})
	register(&Rule{ID: "R-ITERDEEP", Props: []string{"C01"}, Doc: "loops that deepen the tree iteratively (x = &Node{x,...}) carry a counter check", Run: runIterDeep})
}

// recurseExceptions: cycles the call graph reports that are not input-driven.
var recurseExceptions = map[string]string{
	"cycle (parse.Indenter).Write": "call-graph artefact of the dynamic call in.Writer.Write: the cycle exists only if an Indenter wraps an Indenter; NewIndenter unwraps nested Indenters (checked by R-INDENT for C05) and in any case the depth equals the number of Indenter values the caller stacked, independent of the parsed input",
}

// fnPkg returns the types.Package a function belongs to (following closures
// and method wrappers to their origin).
func fnPkg(fn *ssa.Function) *types.Package {
	for f := fn; f != nil; f = f.Parent() {
		if f.Pkg != nil {
			return f.Pkg.Pkg
		}
		if o := f.Object(); o != nil && o.Pkg() != nil {
			return o.Pkg()
		}
		if f.Origin() != nil && f.Origin() != f {
			return fnPkg(f.Origin())
		}
	}
	if fn.Signature != nil && fn.Signature.Recv() != nil {
		t := fn.Signature.Recv().Type()
		if p, ok := t.(*types.Pointer); ok {
			t = p.Elem()
		}
		if n, ok := t.(*types.Named); ok {
			return n.Obj().Pkg()
		}
	}
	return nil
}

func fnLabel(fn *ssa.Function) string {
	s := fn.String()
	s = strings.ReplaceAll(s, core.ModPath+"/", "")
	s = strings.ReplaceAll(s, core.ModPath, "parse")
	return s
}

// depthGuards finds, in fn, the blocks that implement a depth guard:
//
//	F = F + 1 (store to a field of the receiver) ; if Limit < F { fail; return }
//
// and returns for each guard the successor on which the depth is within the
// limit together with the canonical field name.
type depthGuard struct {
	field  string
	within *ssa.BasicBlock
	at     token.Pos
}

func depthGuards(fn *ssa.Function) []depthGuard {
	var out []depthGuard
	for _, b := range fn.Blocks {
		iff, ok := lastInstr(b).(*ssa.If)
		if !ok {
			continue
		}
		bo, ok := iff.Cond.(*ssa.BinOp)
		if !ok {
			continue
		}
		// find an incrementing store in this block (or a dominator) to field F
		for _, st := range allStores(fn) {
			if !(st.Block() == b || st.Block().Dominates(b)) {
				continue
			}
			f := canon(st.Addr)
			if !strings.Contains(f, ".") || !isIntType(st.Val.Type()) {
				continue
			}
			d := linOf(st.Val).add(linAtom(f), -1)
			if !(d.isConst() && d.C == 1) {
				continue
			}
			// comparison: Limit < F  (F loaded after the store, or the stored value)
			x, y := linOf(bo.X), linOf(bo.Y)
			var within *ssa.BasicBlock
			hasF := func(l Lin) bool { return l.T[f] == 1 }
			switch {
			case (bo.Op == token.LSS || bo.Op == token.LEQ) && hasF(y) && !hasF(x): // limit < F  -> true = too deep
				within = b.Succs[1]
			case (bo.Op == token.GTR || bo.Op == token.GEQ) && hasF(x) && !hasF(y): // F > limit
				within = b.Succs[1]
			case (bo.Op == token.LSS || bo.Op == token.LEQ) && hasF(x) && !hasF(y): // F < limit -> true = within
				within = b.Succs[0]
			case (bo.Op == token.GTR || bo.Op == token.GEQ) && hasF(y) && !hasF(x):
				within = b.Succs[0]
			}
			if within == nil {
				continue
			}
			// the stored value must be what is compared: no decrement between store and compare
			out = append(out, depthGuard{field: f, within: within, at: iff.Pos()})
		}
	}
	return out
}

// callGuarded reports whether call instruction c in fn is dominated by the
// within-limit edge of a depth guard with no decrement of the same field
// dominating the call after the guard.
func callGuarded(fn *ssa.Function, c ssa.Instruction, guards []depthGuard) bool {
	for _, g := range guards {
		if len(g.within.Preds) != 1 {
			continue
		}
		if !(g.within == c.Block() || g.within.Dominates(c.Block())) {
			continue
		}
		undone := false
		for _, st := range storesToField(fn, g.field) {
			d := linOf(st.Val).add(linAtom(g.field), -1)
			if d.isConst() && d.C == 1 {
				continue
			}
			// any other store (decrement/reset) that lies between guard and call
			if (g.within == st.Block() || g.within.Dominates(st.Block())) &&
				(st.Block().Dominates(c.Block()) && st.Block() != c.Block() || st.Block() == c.Block() && instrIndex(st) < instrIndex(c)) {
				undone = true
			}
		}
		if !undone {
			return true
		}
	}
	return false
}

func runRecurse(r *core.Run) {
	cg := r.Prog.CallGraph()
	// module nodes
	var nodes []*callgraph.Node
	for fn, n := range cg.Nodes {
		if fn == nil {
			continue
		}
		if p := fnPkg(fn); core.InModule(p) && !strings.HasPrefix(p.Path(), core.ModPath+"/tests") {
			nodes = append(nodes, n)
		}
	}
	sort.Slice(nodes, func(i, j int) bool { return nodes[i].Func.String() < nodes[j].Func.String() })
	r.Count("module functions in call graph", len(nodes))
	inMod := map[*callgraph.Node]bool{}
	for _, n := range nodes {
		inMod[n] = true
	}
	guardsOf := map[*ssa.Function][]depthGuard{}
	nGuards := 0
	for _, n := range nodes {
		if len(n.Func.Blocks) > 0 {
			g := depthGuards(n.Func)
			guardsOf[n.Func] = g
			if len(g) > 0 {
				nGuards++
				r.Note("depth guard in %s on %s", fnLabel(n.Func), g[0].field)
			}
		}
	}
	r.Floor("functions with a depth guard", nGuards, 2)
	// Combinators: a function that calls one of its own function-typed parameters (backtrack(consume func(*Lexer) bool))
	// gets, in a context-insensitive graph, an edge to everything ever passed to it, which closes spurious cycles
	// (identToken -> backtrack -> identToken). When every call of the combinator is static and passes a known function,
	// the call of the parameter is attributed to the caller that chose it: caller -> passed function, under the guard
	// of the caller's call site; the combinator's own edges through that parameter are dropped.
	dropped := map[*callgraph.Edge]bool{}
	type extraEdge struct {
		to      *callgraph.Node
		guarded bool
	}
	extra := map[*callgraph.Node][]extraEdge{}
	nRewired := 0
	for _, h := range nodes {
		params := map[*ssa.Parameter]bool{}
		for _, e := range h.Out {
			if e.Site != nil && !e.Site.Common().IsInvoke() {
				if p, ok := e.Site.Common().Value.(*ssa.Parameter); ok && p.Parent() == h.Func {
					params[p] = true
				}
			}
		}
		for p := range params {
			idx := -1
			for i, q := range h.Func.Params {
				if q == p {
					idx = i
				}
			}
			ok := idx >= 0 && len(h.In) > 0
			type add struct {
				from, to *callgraph.Node
				guarded  bool
			}
			var adds []add
			for _, in := range h.In {
				if !ok {
					break
				}
				if in.Site == nil || in.Site.Common().StaticCallee() != h.Func || idx >= len(in.Site.Common().Args) {
					ok = false
					break
				}
				var f *ssa.Function
				switch a := in.Site.Common().Args[idx].(type) {
				case *ssa.Function:
					f = a
				case *ssa.MakeClosure:
					f, _ = a.Fn.(*ssa.Function)
				}
				if f == nil || cg.Nodes[f] == nil {
					ok = false
					break
				}
				adds = append(adds, add{in.Caller, cg.Nodes[f], callGuarded(in.Caller.Func, in.Site, guardsOf[in.Caller.Func])})
			}
			if !ok {
				continue
			}
			for _, e := range h.Out {
				if e.Site != nil && e.Site.Common().Value == ssa.Value(p) {
					dropped[e] = true
				}
			}
			for _, a := range adds {
				extra[a.from] = append(extra[a.from], extraEdge{a.to, a.guarded})
			}
			nRewired++
		}
	}
	r.Count("combinator parameters attributed to their callers", nRewired)
	// adjacency over unguarded edges
	adj := map[*callgraph.Node][]*callgraph.Node{}
	nEdges, nGuardedEdges := 0, 0
	for _, n := range nodes {
		seen := map[*callgraph.Node]bool{}
		for _, x := range extra[n] {
			if inMod[x.to] && !x.guarded && !seen[x.to] {
				seen[x.to] = true
				adj[n] = append(adj[n], x.to)
			}
		}
		for _, e := range n.Out {
			if !inMod[e.Callee] || dropped[e] {
				continue
			}
			nEdges++
			if e.Site != nil && callGuarded(n.Func, e.Site, guardsOf[n.Func]) {
				nGuardedEdges++
				continue
			}
			if !seen[e.Callee] {
				seen[e.Callee] = true
				adj[n] = append(adj[n], e.Callee)
			}
		}
	}
	r.Count("call edges inside the module", nEdges)
	r.Count("call edges under a depth guard", nGuardedEdges)
	// token consumers: reach (*js.Parser).next, a lexer's Next, or any *parse.Input method
	consumes := map[*callgraph.Node]bool{}
	var sinks []*callgraph.Node
	for _, n := range nodes {
		fn := n.Func
		if fn.Signature.Recv() != nil {
			rn := recvName(fn)
			pk := fnPkg(fn)
			if (rn == "Input" && pk.Path() == core.ModPath) || (rn == "Parser" && fn.Name() == "next") || (rn == "Lexer" && fn.Name() == "Next") || rn == "StreamLexer" {
				sinks = append(sinks, n)
			}
		}
	}
	if len(sinks) < 10 {
		r.BrokenAnchor("token-consuming sinks ((*Input).*, (*Parser).next, (*Lexer).Next)")
		return
	}
	// reverse reachability over all module edges (guarded or not)
	rev := map[*callgraph.Node][]*callgraph.Node{}
	for _, n := range nodes {
		for _, e := range n.Out {
			if inMod[e.Callee] {
				rev[e.Callee] = append(rev[e.Callee], n)
			}
		}
	}
	work := append([]*callgraph.Node{}, sinks...)
	for _, s := range sinks {
		consumes[s] = true
	}
	for len(work) > 0 {
		n := work[len(work)-1]
		work = work[:len(work)-1]
		for _, p := range rev[n] {
			if !consumes[p] {
				consumes[p] = true
				work = append(work, p)
			}
		}
	}
	// Tarjan
	index := 0
	idx := map[*callgraph.Node]int{}
	low := map[*callgraph.Node]int{}
	on := map[*callgraph.Node]bool{}
	var stack []*callgraph.Node
	var sccs [][]*callgraph.Node
	var strong func(v *callgraph.Node)
	strong = func(v *callgraph.Node) {
		index++
		idx[v], low[v] = index, index
		stack = append(stack, v)
		on[v] = true
		for _, w := range adj[v] {
			if idx[w] == 0 {
				strong(w)
				if low[w] < low[v] {
					low[v] = low[w]
				}
			} else if on[w] && idx[w] < low[v] {
				low[v] = idx[w]
			}
		}
		if low[v] == idx[v] {
			var comp []*callgraph.Node
			for {
				w := stack[len(stack)-1]
				stack = stack[:len(stack)-1]
				on[w] = false
				comp = append(comp, w)
				if w == v {
					break
				}
			}
			sccs = append(sccs, comp)
		}
	}
	for _, n := range nodes {
		if idx[n] == 0 {
			strong(n)
		}
	}
	cyc := 0
	for _, comp := range sccs {
		self := false
		if len(comp) == 1 {
			for _, w := range adj[comp[0]] {
				if w == comp[0] {
					self = true
				}
			}
			if !self {
				continue
			}
		}
		cyc++
		var names []string
		var consumer []string
		for _, n := range comp {
			names = append(names, fnLabel(n.Func))
			if consumes[n] {
				consumer = append(consumer, fnLabel(n.Func))
			}
		}
		sort.Strings(names)
		sort.Strings(consumer)
		key := "cycle " + names[0]
		if len(names) > 1 {
			key += fmt.Sprintf(" (+%d)", len(names)-1)
		}
		pkgs := map[string]bool{}
		for _, n := range comp {
			pkgs[core.RelPkg(fnPkg(n.Func))] = true
		}
		onlyJS := len(pkgs) == 1 && pkgs["js"]
		if why, ok := recurseExceptions[key]; ok {
			r.Except(key, comp[0].Func.Pos(), why)
			continue
		}
		switch {
		case len(consumer) > 0:
			// exhibit one cycle through a consumer
			path := cyclePath(comp, adj)
			r.Fail(key, comp[0].Func.Pos(), fmt.Sprintf("recursion cycle without a depth guard among functions that consume input (%s): nesting depth of the input translates into unbounded Go stack depth (fatal stack overflow)", strings.Join(consumer, ", ")), path...)
		case !onlyJS:
			r.Fail(key, comp[0].Func.Pos(), fmt.Sprintf("recursion in package(s) %v, which are expected to be recursion-free: %s", keys(pkgs), strings.Join(names, ", ")))
		default:
			r.OK(key, comp[0].Func.Pos(), fmt.Sprintf("tree-walker cycle of %d functions (no member reaches the lexer or Input): depth bounded by tree depth", len(comp)))
		}
	}
	r.Count("recursion cycles (after removing guarded edges)", cyc)
	r.Floor("recursion cycles examined", cyc, 1)
}

func keys(m map[string]bool) []string {
	var out []string
	for k := range m {
		out = append(out, k)
	}
	sort.Strings(out)
	return out
}

// cyclePath finds a short cycle inside the component for the report.
func cyclePath(comp []*callgraph.Node, adj map[*callgraph.Node][]*callgraph.Node) []string {
	in := map[*callgraph.Node]bool{}
	for _, n := range comp {
		in[n] = true
	}
	sort.Slice(comp, func(i, j int) bool { return comp[i].Func.String() < comp[j].Func.String() })
	best := []string(nil)
	for _, start := range comp {
		// BFS back to start
		prev := map[*callgraph.Node]*callgraph.Node{}
		q := []*callgraph.Node{start}
		found := false
		for len(q) > 0 && !found {
			v := q[0]
			q = q[1:]
			for _, w := range adj[v] {
				if !in[w] {
					continue
				}
				if w == start {
					prev[start] = v
					found = true
					break
				}
				if _, seen := prev[w]; !seen {
					prev[w] = v
					q = append(q, w)
				}
			}
		}
		if !found {
			continue
		}
		var path []string
		v := prev[start]
		path = append(path, fnLabel(start.Func))
		for v != start {
			path = append(path, fnLabel(v.Func))
			v = prev[v]
		}
		path = append(path, fnLabel(start.Func))
		// reverse to call order
		for i, j := 0, len(path)-1; i < j; i, j = i+1, j-1 {
			path[i], path[j] = path[j], path[i]
		}
		if best == nil || len(path) < len(best) {
			best = path
		}
	}
	for i := range best {
		if i > 0 {
			best[i] = "-> " + best[i]
		}
	}
	return best
}

// ---------------------------------------------------------------- R-ITERDEEP

func runIterDeep(r *core.Run) {
	sp := r.Prog.SSAPkg("js")
	if sp == nil {
		r.BrokenAnchor("package js")
		return
	}
	var fns []*ssa.Function
	for _, m := range sp.Members {
		if f, ok := m.(*ssa.Function); ok {
			fns = append(fns, f)
		}
	}
	if t, ok := sp.Members["Parser"].(*ssa.Type); ok {
		ms := r.Prog.SSA.MethodSets.MethodSet(types.NewPointer(t.Type()))
		for i := 0; i < ms.Len(); i++ {
			if f := r.Prog.SSA.MethodValue(ms.At(i)); f != nil && len(f.Blocks) > 0 {
				fns = append(fns, f)
			}
		}
	} else {
		r.BrokenAnchor("js.Parser")
		return
	}
	sort.Slice(fns, func(i, j int) bool { return fns[i].String() < fns[j].String() })
	loops := 0
	for _, fn := range fns {
		for _, b := range fn.Blocks {
			for _, in := range b.Instrs {
				phi, ok := in.(*ssa.Phi)
				if !ok {
					break
				}
				if !isNodeLike(phi.Type()) {
					continue
				}
				// a back edge value that (transitively) allocates a node storing phi
				for i, e := range phi.Edges {
					if !b.Dominates(b.Preds[i]) {
						continue // not a back edge
					}
					alloc := wrapsValue(e, phi, 0)
					if alloc == nil {
						continue
					}
					loops++
					key := fmt.Sprintf("%s loop deepening %s", fnLabel(fn), phi.Comment)
					ok := loopCounterGuard(b, alloc.Block(), phi)
					r.Check(ok, key, alloc.Pos(), "counter check dominates the wrapping allocation",
						"this loop wraps the previous value in a new node on every iteration (tree depth grows with the input length) but no loop counter compared against a limit dominates the allocation: printing or walking such a tree recurses once per iteration (stack exhaustion)")
				}
			}
		}
	}
	r.Count("parser functions scanned", len(fns))
	r.Floor("iteratively deepening loops", loops, 1)
}

func isNodeLike(t types.Type) bool {
	switch u := t.Underlying().(type) {
	case *types.Interface:
		return u.NumMethods() > 0
	case *types.Pointer:
		_, ok := u.Elem().Underlying().(*types.Struct)
		return ok
	}
	return false
}

// wrapsValue: does v come from an allocation one of whose fields is stored phi?
func wrapsValue(v ssa.Value, phi *ssa.Phi, depth int) *ssa.Alloc {
	if depth > 6 {
		return nil
	}
	switch x := v.(type) {
	case *ssa.MakeInterface:
		return wrapsValue(x.X, phi, depth+1)
	case *ssa.ChangeInterface:
		return wrapsValue(x.X, phi, depth+1)
	case *ssa.Phi:
		if x == phi {
			return nil
		}
		for _, e := range x.Edges {
			if a := wrapsValue(e, phi, depth+1); a != nil {
				return a
			}
		}
	case *ssa.Alloc:
		if !x.Heap {
			return nil
		}
		for _, ref := range *x.Referrers() {
			fa, ok := ref.(*ssa.FieldAddr)
			if !ok {
				continue
			}
			for _, r2 := range *fa.Referrers() {
				if st, ok := r2.(*ssa.Store); ok && st.Addr == fa && derivesFrom(st.Val, phi, 0) {
					return x
				}
			}
		}
	}
	return nil
}

func derivesFrom(v ssa.Value, phi *ssa.Phi, depth int) bool {
	if v == phi {
		return true
	}
	if depth > 4 {
		return false
	}
	switch x := v.(type) {
	case *ssa.MakeInterface:
		return derivesFrom(x.X, phi, depth+1)
	case *ssa.ChangeInterface:
		return derivesFrom(x.X, phi, depth+1)
	case *ssa.Phi:
		for _, e := range x.Edges {
			if e != x && derivesFrom(e, phi, depth+1) {
				return true
			}
		}
	}
	return false
}

// loopCounterGuard: the loop headed by hdr has an int phi i that grows by at
// least 1 on every back-edge path that wraps the node phi (and never shrinks on
// the other paths), and a block inside the loop ending in `if K < f(i)` (or
// similar) whose continuing successor dominates the block `at`.
func loopCounterGuard(hdr, at *ssa.BasicBlock, node *ssa.Phi) bool {
	var counters []*ssa.Phi
	for _, in := range hdr.Instrs {
		phi, ok := in.(*ssa.Phi)
		if !ok {
			break
		}
		if !isIntType(phi.Type()) {
			continue
		}
		good := false
		for i, e := range phi.Edges {
			if !hdr.Dominates(hdr.Preds[i]) {
				continue
			}
			good = counterGrowsWithWraps(e, phi, node.Edges[i], node)
		}
		if good {
			counters = append(counters, phi)
		}
	}
	if len(counters) == 0 {
		return false
	}
	for _, b := range hdr.Parent().Blocks {
		if !(b == hdr || hdr.Dominates(b)) {
			continue
		}
		iff, ok := lastInstr(b).(*ssa.If)
		if !ok {
			continue
		}
		bo, ok := iff.Cond.(*ssa.BinOp)
		if !ok {
			continue
		}
		x, y := linOf(bo.X), linOf(bo.Y)
		for _, c := range counters {
			a := "%" + c.Name()
			var cont *ssa.BasicBlock
			switch {
			case (bo.Op == token.LSS || bo.Op == token.LEQ) && y.T[a] == 1 && x.T[a] == 0: // K < ..i.. -> true = stop
				cont = b.Succs[1]
			case (bo.Op == token.GTR || bo.Op == token.GEQ) && x.T[a] == 1 && y.T[a] == 0:
				cont = b.Succs[1]
			case (bo.Op == token.LSS || bo.Op == token.LEQ) && x.T[a] == 1 && y.T[a] == 0: // i < K -> true = continue
				cont = b.Succs[0]
			case (bo.Op == token.GTR || bo.Op == token.GEQ) && y.T[a] == 1 && x.T[a] == 0:
				cont = b.Succs[0]
			}
			if cont != nil && len(cont.Preds) == 1 && (cont == at || cont.Dominates(at)) {
				return true
			}
		}
	}
	return false
}

// counterGrowsWithWraps compares, per path into the merge blocks preceding the
// back edge, the change of the counter with whether the node value was wrapped:
// wrapped => counter grew by >= 1; not wrapped => counter did not shrink.
func counterGrowsWithWraps(cnt ssa.Value, cphi *ssa.Phi, nodeVal ssa.Value, nphi *ssa.Phi) bool {
	base := "%" + cphi.Name()
	var check func(cv ssa.Value, k int64, nv ssa.Value, depth int) bool
	check = func(cv ssa.Value, k int64, nv ssa.Value, depth int) bool {
		if depth > 8 {
			return false
		}
		l := linOf(cv)
		d := l.add(linAtom(base), -1)
		if d.isConst() {
			delta := d.C + k
			if np, ok := nv.(*ssa.Phi); ok && np != nphi {
				for _, e := range np.Edges {
					if !check(cv, k, e, depth+1) {
						return false
					}
				}
				return true
			}
			wraps := wrapsValue(nv, nphi, 0) != nil
			return !(wraps && delta < 1 || !wraps && delta < 0)
		}
		if len(l.T) != 1 {
			return false
		}
		var mphi *ssa.Phi
		for a, c := range l.T {
			if c != 1 {
				return false
			}
			mphi = findPhi(cv, a)
		}
		if mphi == nil || mphi == cphi {
			return false
		}
		np, _ := nv.(*ssa.Phi)
		for i, e := range mphi.Edges {
			n2 := nv
			if np != nil && np != nphi && np.Block() == mphi.Block() {
				n2 = np.Edges[i]
			}
			if !check(e, k+l.C, n2, depth+1) {
				return false
			}
		}
		return true
	}
	return check(cnt, 0, nodeVal, 0)
}

// findPhi locates the phi named by atom (e.g. "%t13") among the operands of v.
func findPhi(v ssa.Value, atom string) *ssa.Phi {
	var out *ssa.Phi
	var walk func(x ssa.Value, d int)
	walk = func(x ssa.Value, d int) {
		if d > 6 || out != nil {
			return
		}
		if p, ok := x.(*ssa.Phi); ok && "%"+p.Name() == atom {
			out = p
			return
		}
		if in, ok := x.(ssa.Instruction); ok {
			for _, op := range in.Operands(nil) {
				if *op != nil {
					walk(*op, d+1)
				}
			}
		}
	}
	walk(v, 0)
	return out
}
