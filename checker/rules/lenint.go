package rules

import (
	"fmt"
	"go/constant"
	"go/token"

	"golang.org/x/tools/go/ssa"

	"verif/checker/core"
)

// checkLenInt verifies the SSA shape of strconv.LenInt:
//
//	i < 0 ? (i == MinInt64 ? 20 : 1 + LenUint(uint64(-i))) : LenUint(uint64(i))
func checkLenInt(r *core.Run, fn *ssa.Function) {
	if len(fn.Params) != 1 {
		r.Unknown("LenInt shape", fn.Pos(), "unexpected signature")
		return
	}
	param := fn.Params[0]
	isLenUint := func(v ssa.Value) (ssa.Value, bool) {
		c, ok := v.(*ssa.Call)
		if !ok {
			return nil, false
		}
		callee := c.Call.StaticCallee()
		if callee == nil || callee.Name() != "LenUint" || len(c.Call.Args) != 1 {
			return nil, false
		}
		cv, ok := c.Call.Args[0].(*ssa.Convert)
		if !ok {
			return nil, false
		}
		return cv.X, true
	}
	// find the sign test
	var neg, pos *ssa.BasicBlock
	for _, b := range fn.Blocks {
		if iff, ok := b.Instrs[len(b.Instrs)-1].(*ssa.If); ok {
			if bo, ok := iff.Cond.(*ssa.BinOp); ok {
				// i < 0 / 0 > i: the true edge is the negative side; i >= 0 / 0 <= i: the true edge is the non-negative side
				isZero := func(v ssa.Value) bool {
					c, ok := v.(*ssa.Const)
					return ok && c.Value != nil && c.Value.Kind() == constant.Int && constant.Sign(c.Value) == 0
				}
				switch {
				case bo.Op == token.LSS && bo.X == param && isZero(bo.Y), bo.Op == token.GTR && bo.Y == param && isZero(bo.X):
					neg, pos = b.Succs[0], b.Succs[1]
				case bo.Op == token.GEQ && bo.X == param && isZero(bo.Y), bo.Op == token.LEQ && bo.Y == param && isZero(bo.X):
					pos, neg = b.Succs[0], b.Succs[1]
				}
			}
		}
	}
	if neg == nil {
		r.Unknown("LenInt shape", fn.Pos(), "no sign test of the argument (`i < 0`, `i >= 0`) found")
		return
	}
	okPos, okNeg, okMin := false, false, false
	for _, b := range fn.Blocks {
		ret, ok := b.Instrs[len(b.Instrs)-1].(*ssa.Return)
		if !ok || len(ret.Results) != 1 {
			continue
		}
		res := ret.Results[0]
		key := fmt.Sprintf("LenInt return in block %d", b.Index)
		switch {
		case pos.Dominates(b):
			x, ok := isLenUint(res)
			okPos = ok && x == param
			r.Check(okPos, key, ret.Pos(), "LenUint(uint64(i))", "non-negative branch does not return LenUint(uint64(i))")
		case neg.Dominates(b):
			if c, ok := res.(*ssa.Const); ok {
				v, _ := constant.Int64Val(c.Value)
				okMin = v == 20
				r.Check(okMin, key, ret.Pos(), "MinInt64 -> 20", fmt.Sprintf("constant return %d on the negative branch; len(\"-9223372036854775808\") is 20", v))
				continue
			}
			bo, ok := res.(*ssa.BinOp)
			good := false
			if ok && bo.Op == token.ADD {
				for _, pr := range [][2]ssa.Value{{bo.X, bo.Y}, {bo.Y, bo.X}} {
					if c, ok := pr[0].(*ssa.Const); ok && c.Value != nil {
						if one, _ := constant.Int64Val(c.Value); one == 1 {
							if x, ok := isLenUint(pr[1]); ok {
								if u, ok := x.(*ssa.UnOp); ok && u.Op == token.SUB && u.X == param {
									good = true
								}
							}
						}
					}
				}
			}
			okNeg = good
			r.Check(good, key, ret.Pos(), "1 + LenUint(uint64(-i))", "negative branch does not return 1 + LenUint(uint64(-i)): the minus sign is not counted exactly once")
		default:
			r.Unknown(key, ret.Pos(), "return not dominated by either side of the sign test")
		}
	}
	if !(okPos && okNeg && okMin) {
		r.Check(false, "LenInt has all three returns", fn.Pos(), "", "LenInt lacks one of: LenUint(uint64(i)), 1+LenUint(uint64(-i)), 20 for MinInt64")
	}
}
