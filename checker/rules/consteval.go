package rules

import (
	"fmt"
	"go/ast"
	"go/constant"
	"go/token"
	"go/types"

	"golang.org/x/tools/go/packages"
	"golang.org/x/tools/go/ssa"

	"verif/checker/core"
)

// Lit is the statically evaluated form of a package-level composite literal
// (or constant). Exactly one of the fields is meaningful.
type Lit struct {
	Const   constant.Value // basic constant (incl. []byte("x") as a string constant)
	IsBytes bool           // Const is a string standing for a []byte
	Elems   []*Lit         // array / slice literal, by index (nil = zero value)
	Keys    []*Lit         // map literal keys (parallel to Vals)
	Vals    []*Lit         // map literal values
	Obj     types.Object   // for identifiers naming a constant: the object
	Pos     token.Pos
	Type    types.Type
}

// globalInit returns the initialiser expression of package-level var name.
func globalInit(pk *packages.Package, name string) (ast.Expr, *types.Var) {
	obj, _ := pk.Types.Scope().Lookup(name).(*types.Var)
	if obj == nil {
		return nil, nil
	}
	for _, f := range pk.Syntax {
		for _, d := range f.Decls {
			gd, ok := d.(*ast.GenDecl)
			if !ok || gd.Tok != token.VAR {
				continue
			}
			for _, sp := range gd.Specs {
				vs := sp.(*ast.ValueSpec)
				for i, n := range vs.Names {
					if pk.TypesInfo.Defs[n] == obj && i < len(vs.Values) {
						return vs.Values[i], obj
					}
				}
			}
		}
	}
	return nil, obj
}

// evalGlobal evaluates the literal initialiser of a package-level variable.
func evalGlobal(pk *packages.Package, name string) (*Lit, error) {
	e, obj := globalInit(pk, name)
	if obj == nil {
		return nil, fmt.Errorf("package-level variable %s.%s not found", pk.Name, name)
	}
	if e == nil {
		return nil, fmt.Errorf("%s.%s has no initialiser", pk.Name, name)
	}
	l, err := evalExpr(pk, e)
	if err != nil {
		// an initialiser computed by a pure nullary closure: fold it (ssaeval.go)
		// (or by a function of the module applied to constants)
		if call, ok := ast.Unparen(e).(*ast.CallExpr); ok && !pk.TypesInfo.Types[call.Fun].IsType() {
			if fl := foldedGlobal(pk, obj); fl != nil {
				l, err = fl, nil
			}
		}
	}
	if err == nil {
		// the initialiser is the variable's value only if nothing writes the variable afterwards (roglobal.go)
		if prog := core.ProgramOf(pk.Types); prog != nil {
			if sp := prog.SSA.Package(pk.Types); sp != nil {
				if g, _ := sp.Members[name].(*ssa.Global); g != nil {
					if why := globalWritten(prog, g, false); why != "" {
						return nil, fmt.Errorf("%s.%s is not constant: %s", pk.Name, name, why)
					}
				}
			}
		}
	}
	return l, err
}

func evalExpr(pk *packages.Package, e ast.Expr) (*Lit, error) {
	info := pk.TypesInfo
	e = ast.Unparen(e)
	tv := info.Types[e]
	if tv.Value != nil {
		l := &Lit{Const: tv.Value, Pos: e.Pos(), Type: tv.Type}
		if id, ok := e.(*ast.Ident); ok {
			l.Obj = info.Uses[id]
		}
		if se, ok := e.(*ast.SelectorExpr); ok {
			l.Obj = info.Uses[se.Sel]
		}
		return l, nil
	}
	// a function value: a package-level function or a method expression (*T).m
	switch x := e.(type) {
	case *ast.Ident:
		if f, ok := info.Uses[x].(*types.Func); ok {
			return &Lit{Obj: f, Pos: e.Pos(), Type: tv.Type}, nil
		}
	case *ast.SelectorExpr:
		if sel := info.Selections[x]; sel != nil && sel.Kind() == types.MethodExpr {
			if f, ok := sel.Obj().(*types.Func); ok {
				return &Lit{Obj: f, Pos: e.Pos(), Type: tv.Type}, nil
			}
		}
		if f, ok := info.Uses[x.Sel].(*types.Func); ok {
			return &Lit{Obj: f, Pos: e.Pos(), Type: tv.Type}, nil
		}
	}
	switch x := e.(type) {
	case *ast.CallExpr:
		// conversion []byte("const")
		if len(x.Args) == 1 && info.Types[x.Fun].IsType() {
			if av := info.Types[x.Args[0]]; av.Value != nil && av.Value.Kind() == constant.String {
				if sl, ok := info.Types[x.Fun].Type.Underlying().(*types.Slice); ok {
					if b, ok := sl.Elem().Underlying().(*types.Basic); ok && b.Kind() == types.Uint8 {
						return &Lit{Const: av.Value, IsBytes: true, Pos: e.Pos(), Type: tv.Type}, nil
					}
				}
			}
		}
		return nil, fmt.Errorf("cannot evaluate call at %v", pk.Fset.Position(e.Pos()))
	case *ast.CompositeLit:
		return evalComposite(pk, x, tv.Type)
	case *ast.Ident:
		if x.Name == "true" || x.Name == "false" {
			return &Lit{Const: constant.MakeBool(x.Name == "true"), Pos: e.Pos()}, nil
		}
		if x.Name == "nil" {
			return &Lit{Pos: e.Pos(), Type: tv.Type}, nil
		}
		// reference to another package-level literal
		if v, ok := info.Uses[x].(*types.Var); ok && v.Parent() == pk.Types.Scope() {
			return evalGlobal(pk, v.Name())
		}
	}
	return nil, fmt.Errorf("cannot statically evaluate expression at %v", pk.Fset.Position(e.Pos()))
}

func evalComposite(pk *packages.Package, cl *ast.CompositeLit, t types.Type) (*Lit, error) {
	out := &Lit{Pos: cl.Pos(), Type: t}
	if t == nil {
		return nil, fmt.Errorf("untyped composite literal at %v", pk.Fset.Position(cl.Pos()))
	}
	switch u := t.Underlying().(type) {
	case *types.Map:
		for _, el := range cl.Elts {
			kv, ok := el.(*ast.KeyValueExpr)
			if !ok {
				return nil, fmt.Errorf("map element without key")
			}
			k, err := evalExpr(pk, kv.Key)
			if err != nil {
				return nil, err
			}
			v, err := evalElem(pk, kv.Value, u.Elem())
			if err != nil {
				return nil, err
			}
			out.Keys = append(out.Keys, k)
			out.Vals = append(out.Vals, v)
		}
		return out, nil
	case *types.Array, *types.Slice:
		var elemT types.Type
		n := int64(-1)
		if a, ok := u.(*types.Array); ok {
			elemT = a.Elem()
			n = a.Len()
		} else {
			elemT = u.(*types.Slice).Elem()
		}
		idx := int64(0)
		max := int64(0)
		tmp := map[int64]*Lit{}
		for _, el := range cl.Elts {
			val := el
			if kv, ok := el.(*ast.KeyValueExpr); ok {
				kt := pk.TypesInfo.Types[kv.Key]
				if kt.Value == nil {
					return nil, fmt.Errorf("non-constant index in literal")
				}
				i, _ := constant.Int64Val(constant.ToInt(kt.Value))
				idx = i
				val = kv.Value
			}
			v, err := evalElem(pk, val, elemT)
			if err != nil {
				return nil, err
			}
			tmp[idx] = v
			idx++
			if idx > max {
				max = idx
			}
		}
		if n < 0 {
			n = max
		}
		out.Elems = make([]*Lit, n)
		for i, v := range tmp {
			if i >= 0 && i < n {
				out.Elems[i] = v
			}
		}
		return out, nil
	}
	if st, ok := t.Underlying().(*types.Struct); ok {
		out.Elems = make([]*Lit, st.NumFields())
		for i, el := range cl.Elts {
			idx := i
			val := el
			if kv, isKV := el.(*ast.KeyValueExpr); isKV {
				id, isID := kv.Key.(*ast.Ident)
				if !isID {
					return nil, fmt.Errorf("struct literal key is not a field name")
				}
				idx = -1
				for j := 0; j < st.NumFields(); j++ {
					if st.Field(j).Name() == id.Name {
						idx = j
					}
				}
				val = kv.Value
			}
			if idx < 0 || idx >= st.NumFields() {
				return nil, fmt.Errorf("struct literal field out of range")
			}
			v, err := evalElem(pk, val, st.Field(idx).Type())
			if err != nil {
				return nil, err
			}
			out.Elems[idx] = v
		}
		return out, nil
	}
	return nil, fmt.Errorf("unsupported composite literal type %v", t)
}

func evalElem(pk *packages.Package, e ast.Expr, elemT types.Type) (*Lit, error) {
	if cl, ok := e.(*ast.CompositeLit); ok && cl.Type == nil {
		return evalComposite(pk, cl, elemT)
	}
	return evalExpr(pk, e)
}

// Str returns the string value of a string/bytes literal.
func (l *Lit) Str() (string, bool) {
	if l == nil || l.Const == nil || l.Const.Kind() != constant.String {
		return "", false
	}
	return constant.StringVal(l.Const), true
}

// Int returns the integer value.
func (l *Lit) Int() (int64, bool) {
	if l == nil || l.Const == nil {
		return 0, false
	}
	c := constant.ToInt(l.Const)
	if c.Kind() != constant.Int {
		return 0, false
	}
	return constant.Int64Val(c)
}

// Uint returns the unsigned value.
func (l *Lit) Uint() (uint64, bool) {
	if l == nil || l.Const == nil {
		return 0, false
	}
	c := constant.ToInt(l.Const)
	if c.Kind() != constant.Int {
		return 0, false
	}
	return constant.Uint64Val(c)
}

// Bool returns the boolean value; nil literals are false.
func (l *Lit) Bool() bool {
	if l == nil || l.Const == nil || l.Const.Kind() != constant.Bool {
		return false
	}
	return constant.BoolVal(l.Const)
}

// constBlock lists the constants of named type tn declared in pk, by value.
func constsOfType(pk *packages.Package, typeName string) map[string]constant.Value {
	out := map[string]constant.Value{}
	sc := pk.Types.Scope()
	for _, n := range sc.Names() {
		c, ok := sc.Lookup(n).(*types.Const)
		if !ok {
			continue
		}
		if nt, ok := c.Type().(*types.Named); ok && nt.Obj().Name() == typeName && nt.Obj().Pkg() == pk.Types {
			out[n] = c.Val()
		}
	}
	return out
}

func constInt(pk *packages.Package, name string) (int64, bool) {
	c, ok := pk.Types.Scope().Lookup(name).(*types.Const)
	if !ok {
		return 0, false
	}
	return constant.Int64Val(constant.ToInt(c.Val()))
}

// boolTable evaluates a [256]bool package-level literal into a membership set.
func boolTable(pk *packages.Package, name string) (*[256]bool, error) {
	l, err := evalGlobal(pk, name)
	if err != nil {
		return nil, err
	}
	if len(l.Elems) != 256 {
		return nil, fmt.Errorf("%s has %d elements, want 256", name, len(l.Elems))
	}
	var t [256]bool
	for i, e := range l.Elems {
		t[i] = e.Bool()
	}
	return &t, nil
}
