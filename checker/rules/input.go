package rules

import (
	"fmt"
	"go/ast"
	"go/token"
	"go/types"
	"strings"

	"golang.org/x/tools/go/ssa"

	"verif/checker/core"
)

func init() {
	register(&Rule{ID: "R-INPUT", Props: []string{"C12", "C01", "C02"}, Doc: "parse.Input / buffer.Lexer primitives have exactly the documented start/pos arithmetic (incl. three-index slices)", Run: runInputContract})
	register(&Rule{ID: "R-PEEKRUNE", Props: []string{"C12", "C01"}, Doc: "PeekRune/MoveRune: every look-ahead read and reported length is covered by a guard that accounts for the position argument", Run: runPeekRune})
	register(&Rule{ID: "R-BORROW", Props: []string{"C12"}, Doc: "NewInputBytes/NewLexerBytes write the caller's array only at index len(b) under cap(b)>len(b); Restore puts it back", Run: runBorrow})
}

type cursorType struct{ rel, typ string }

var cursorTypes = []cursorType{{"", "Input"}, {"buffer", "Lexer"}}

func singleReturn(fn *ssa.Function) *ssa.Return {
	var ret *ssa.Return
	for _, b := range fn.Blocks {
		if r, ok := lastInstr(b).(*ssa.Return); ok {
			if ret != nil {
				return nil
			}
			ret = r
		}
	}
	return ret
}

func allStores(fn *ssa.Function) []*ssa.Store {
	var out []*ssa.Store
	for _, b := range fn.Blocks {
		for _, in := range b.Instrs {
			if st, ok := in.(*ssa.Store); ok {
				out = append(out, st)
			}
		}
	}
	return out
}

func runInputContract(r *core.Run) {
	for _, ct := range cursorTypes {
		name := ct.typ
		if ct.rel != "" {
			name = ct.rel + "." + ct.typ
		}
		get := func(m string) *ssa.Function {
			fn := r.Prog.SSAFunc(ct.rel, ct.typ, m)
			if fn == nil {
				r.BrokenAnchor(name + "." + m)
			}
			return fn
		}
		z := "z"
		pos, start, buflen := func() string { return z + ".pos" }, func() string { return z + ".start" }, func() string { return "len(" + z + ".buf)" }
		// storeSet: the function stores exactly the given field := Lin pairs
		storeSet := func(fn *ssa.Function, m string, want map[string]Lin) {
			z = fn.Params[0].Name()
			stores := allStores(fn)
			got := map[string]Lin{}
			for _, st := range stores {
				got[canon(st.Addr)] = linOf(st.Val)
			}
			ok := len(stores) == len(want)
			var desc []string
			for f, l := range got {
				desc = append(desc, f+" = "+l.String())
			}
			for f, w := range want {
				g, has := got[f]
				if !has || !g.equal(w) {
					ok = false
				}
			}
			var wd []string
			for f, w := range want {
				wd = append(wd, f+" = "+w.String())
			}
			r.Check(ok, name+"."+m+" effect", fn.Pos(), strings.Join(desc, "; "), fmt.Sprintf("%s.%s assigns {%s}; the documented cursor arithmetic is {%s}", name, m, strings.Join(desc, "; "), strings.Join(wd, "; ")))
		}
		retLin := func(fn *ssa.Function, m string, want Lin) {
			ret := singleReturn(fn)
			if ret == nil || len(ret.Results) != 1 {
				r.Unknown(name+"."+m+" result", fn.Pos(), "expected a single return of one value")
				return
			}
			g := linOf(ret.Results[0])
			r.Check(g.equal(want), name+"."+m+" result", ret.Pos(), g.String(), fmt.Sprintf("%s.%s returns `%s`; documented: `%s`", name, m, g, want))
		}
		sliceRet := func(fn *ssa.Function, m string, lo, hi Lin) {
			ret := singleReturn(fn)
			var sl *ssa.Slice
			if ret != nil && len(ret.Results) == 1 {
				sl, _ = ret.Results[0].(*ssa.Slice)
			}
			if sl == nil {
				r.Unknown(name+"."+m+" result", fn.Pos(), "expected to return a slice expression of the buffer")
				return
			}
			low := linConst(0)
			if sl.Low != nil {
				low = linOf(sl.Low)
			}
			if sl.High == nil || sl.Max == nil {
				r.Fail(name+"."+m+" three-index slice", sl.Pos(), "the returned slice is not capped (buf[a:b:b]): appending to a token would overwrite the input bytes that follow it")
				return
			}
			h, mx := linOf(sl.High), linOf(sl.Max)
			r.Check(canon(sl.X) == z+".buf" && low.equal(lo) && h.equal(hi), name+"."+m+" result", sl.Pos(), fmt.Sprintf("buf[%s:%s]", low, h), fmt.Sprintf("%s.%s returns buf[%s:%s], documented buf[%s:%s]", name, m, low, h, lo, hi))
			r.Check(mx.equal(h), name+"."+m+" three-index slice", sl.Pos(), "cap == len", fmt.Sprintf("slice capacity bound `%s` differs from its length bound `%s`: appending to the returned bytes can overwrite input", mx, h))
		}

		if fn := get("Move"); fn != nil {
			z = fn.Params[0].Name()
			storeSet(fn, "Move", map[string]Lin{pos(): linAtom(pos()).add(linAtom(fn.Params[1].Name()), 1)})
		}
		if fn := get("Rewind"); fn != nil {
			z = fn.Params[0].Name()
			storeSet(fn, "Rewind", map[string]Lin{pos(): linAtom(start()).add(linAtom(fn.Params[1].Name()), 1)})
		}
		if fn := get("Skip"); fn != nil {
			z = fn.Params[0].Name()
			storeSet(fn, "Skip", map[string]Lin{start(): linAtom(pos())})
		}
		if fn := get("Reset"); fn != nil {
			z = fn.Params[0].Name()
			storeSet(fn, "Reset", map[string]Lin{start(): linConst(0), pos(): linConst(0)})
		}
		if fn := get("Pos"); fn != nil {
			z = fn.Params[0].Name()
			storeSet(fn, "Pos", map[string]Lin{})
			retLin(fn, "Pos", linAtom(pos()).add(linAtom(start()), -1))
		}
		if fn := get("Offset"); fn != nil {
			z = fn.Params[0].Name()
			storeSet(fn, "Offset", map[string]Lin{})
			retLin(fn, "Offset", linAtom(pos()))
		}
		if ct.typ == "Input" {
			if fn := get("Len"); fn != nil {
				z = fn.Params[0].Name()
				retLin(fn, "Len", linAtom(buflen()).add(linConst(1), -1))
			}
		}
		if fn := get("Lexeme"); fn != nil {
			z = fn.Params[0].Name()
			storeSet(fn, "Lexeme", map[string]Lin{})
			sliceRet(fn, "Lexeme", linAtom(start()), linAtom(pos()))
		}
		if fn := get("Shift"); fn != nil {
			z = fn.Params[0].Name()
			storeSet(fn, "Shift", map[string]Lin{start(): linAtom(pos())})
			sliceRet(fn, "Shift", linAtom(start()), linAtom(pos()))
		}
		if fn := get("Bytes"); fn != nil {
			z = fn.Params[0].Name()
			storeSet(fn, "Bytes", map[string]Lin{})
			sliceRet(fn, "Bytes", linConst(0), linAtom(buflen()).add(linConst(1), -1))
		}
		if fn := get("Peek"); fn != nil {
			z = fn.Params[0].Name()
			ret := singleReturn(fn)
			ok := false
			var got string
			if ret != nil && len(ret.Results) == 1 {
				if u, isU := ret.Results[0].(*ssa.UnOp); isU && u.Op == token.MUL {
					if ia, isIA := u.X.(*ssa.IndexAddr); isIA && canon(ia.X) == z+".buf" {
						idx := linOf(ia.Index)
						got = idx.String()
						ok = idx.equal(linAtom(pos()).add(linAtom(fn.Params[1].Name()), 1))
					}
				}
			}
			r.Check(ok && len(storesToField(fn, pos())) == 0, name+".Peek result", fn.Pos(), "buf["+got+"]", fmt.Sprintf("%s.Peek(i) is not buf[pos+i] without side effect (index `%s`)", name, got))
		}
		if fn := get("PeekErr"); fn != nil {
			z = fn.Params[0].Name()
			arg := fn.Params[1].Name()
			// remaining = len-1 - (pos+arg)
			rem := linAtom(buflen()).add(linConst(1), -1).add(linAtom(pos()), -1).add(linAtom(arg), -1)
			nEOF, nNil := 0, 0
			for _, b := range fn.Blocks {
				ret, ok := lastInstr(b).(*ssa.Return)
				if !ok {
					continue
				}
				fs := blockFacts(b)
				switch {
				case isEOFValue(ret.Results[0]):
					nEOF++
					r.Check(entails(fs, rem.scale(-1)), name+".PeekErr io.EOF iff at/after the end", ret.Pos(), "", fmt.Sprintf("io.EOF is returned under %v, which does not imply pos+i >= len(buf)-1", factStrings(fs)))
				case isNilConst(ret.Results[0]):
					nNil++
					r.Check(entails(fs, rem.add(linConst(1), -1)), name+".PeekErr nil iff before the end", ret.Pos(), "", fmt.Sprintf("nil is returned under %v, which does not imply pos+i < len(buf)-1: the sentinel would be reported as data", factStrings(fs)))
				}
			}
			r.Check(nEOF == 1 && nNil == 1, name+".PeekErr returns", fn.Pos(), "", "expected exactly one io.EOF return and one nil return besides the stored error")
		}
		if fn := get("Err"); fn != nil {
			ok := false
			if ret := singleReturn(fn); ret != nil {
				if c, isC := ret.Results[0].(*ssa.Call); isC {
					if f := c.Call.StaticCallee(); f != nil && f.Name() == "PeekErr" {
						if k, isK := c.Call.Args[1].(*ssa.Const); isK && k.Int64() == 0 {
							ok = true
						}
					}
				}
			}
			r.Check(ok, name+".Err is PeekErr(0)", fn.Pos(), "", "Err() no longer equals PeekErr(0)")
		}
	}
}

func isNilConst(v ssa.Value) bool {
	c, ok := v.(*ssa.Const)
	return ok && c.IsNil()
}

// ---------------------------------------------------------------- R-PEEKRUNE

// peekFacts: branch facts of block b including sentinel facts from byte
// comparisons of Peek results: a byte known to be non-zero at offset X means
// pos+X is a data byte:  len(buf)-2 - z.pos - X >= 0.
func peekFacts(b *ssa.BasicBlock, z string) []Fact {
	out := blockFacts(b)
	for p := b.Idom(); p != nil; p = p.Idom() {
		iff, ok := lastInstr(p).(*ssa.If)
		if !ok || p.Succs[0] == p.Succs[1] {
			continue
		}
		for i, s := range p.Succs {
			if len(s.Preds) != 1 || !s.Dominates(b) {
				continue
			}
			truth := i == 0
			bo, ok := iff.Cond.(*ssa.BinOp)
			if !ok {
				continue
			}
			call, ok := stripConv(bo.X).(*ssa.Call)
			if !ok {
				continue
			}
			f := call.Call.StaticCallee()
			if f == nil || f.Name() != "Peek" || len(call.Call.Args) != 2 {
				continue
			}
			k, isK := bo.Y.(*ssa.Const)
			if !isK {
				continue
			}
			kv := k.Int64()
			nonzero := false
			switch bo.Op {
			case token.LSS: // c < K false -> c >= K
				nonzero = !truth && kv >= 1
			case token.EQL:
				nonzero = (!truth && kv == 0) || (truth && kv != 0)
			case token.NEQ:
				nonzero = (truth && kv == 0) || (!truth && kv != 0)
			case token.GEQ:
				nonzero = truth && kv >= 1
			case token.GTR:
				nonzero = truth && kv >= 0
			}
			if nonzero {
				x := linOf(call.Call.Args[1])
				out = append(out, Fact{L: linAtom("len("+z+".buf)").add(linConst(2), -1).add(linAtom(z+".pos"), -1).add(x, -1)})
			}
		}
	}
	return out
}

func runPeekRune(r *core.Run) {
	obs := 0
	for _, ct := range cursorTypes {
		name := ct.typ
		if ct.rel != "" {
			name = ct.rel + "." + ct.typ
		}
		for _, m := range []string{"PeekRune", "MoveRune"} {
			fn := r.Prog.SSAFunc(ct.rel, ct.typ, m)
			if fn == nil {
				if ct.typ == "Lexer" && m == "MoveRune" {
					continue // buffer.Lexer has no MoveRune
				}
				r.BrokenAnchor(name + "." + m)
				continue
			}
			z := fn.Params[0].Name()
			base := linAtom(z + ".pos")
			var argPos Lin = linConst(0)
			if m == "PeekRune" {
				argPos = linAtom(fn.Params[1].Name())
			}
			last := linAtom("len("+z+".buf)").add(linConst(1), -1) // index of the sentinel
			for _, b := range fn.Blocks {
				fs := peekFacts(b, z)
				for _, in := range b.Instrs {
					switch x := in.(type) {
					case *ssa.Call:
						f := x.Call.StaticCallee()
						if f == nil || f.Name() != "Peek" {
							continue
						}
						a := linOf(x.Call.Args[1])
						d := a.add(argPos, -1)
						if !d.isConst() || d.C < 0 {
							r.Unknown(fmt.Sprintf("%s.%s Peek(%s)", name, m, a), x.Pos(), "look-ahead offset is not position+constant")
							continue
						}
						if d.C == 0 {
							continue // the byte at the position itself: caller's contract
						}
						obs++
						goal := last.add(base, -1).add(a, -1) // len-1 - pos - a >= 0
						r.Check(entails(fs, goal), fmt.Sprintf("%s.%s read Peek(%s)", name, m, a), x.Pos(), "",
							fmt.Sprintf("Peek(%s) is read under guards %v, which do not imply z.pos+%s <= len(buf)-1: for some position argument the read indexes past the terminator", a, factStrings(fs), a))
					case *ssa.Return:
						if m != "PeekRune" || len(x.Results) != 2 {
							continue
						}
						n := linOf(x.Results[1])
						if !n.isConst() {
							r.Unknown(name+"."+m+" returned length", x.Pos(), "non-constant length")
							continue
						}
						if n.C <= 1 {
							continue
						}
						obs++
						// bytes pos..pos+n-1 are data: pos + arg + n-1 <= len-2
						goal := last.add(linConst(1), -1).add(base, -1).add(argPos, -1).add(linConst(n.C-1), -1)
						r.Check(entails(fs, goal), fmt.Sprintf("%s.%s returns length %d", name, m, n.C), x.Pos(), "",
							fmt.Sprintf("length %d is reported under guards %v, which do not imply that %d bytes remain at the peeked position (the guard must account for the position argument)", n.C, factStrings(fs), n.C))
					case *ssa.Store:
						if m != "MoveRune" || canon(x.Addr) != z+".pos" {
							continue
						}
						d := linOf(x.Val).add(base, -1)
						if !d.isConst() {
							r.Unknown(name+".MoveRune step", x.Pos(), "non-constant step")
							continue
						}
						if d.C <= 1 {
							continue
						}
						obs++
						goal := last.add(base, -1).add(linConst(d.C), -1)
						r.Check(entails(fs, goal), fmt.Sprintf("%s.MoveRune step %d", name, d.C), x.Pos(), "",
							fmt.Sprintf("pos advances by %d under guards %v, which do not imply pos+%d <= len(buf)-1", d.C, factStrings(fs), d.C))
					}
				}
			}
		}
	}
	r.Floor("rune look-ahead obligations", obs, 20)
}

// ------------------------------------------------------------------ R-BORROW

func runBorrow(r *core.Run) {
	for _, tc := range []struct{ rel, fn string }{{"", "NewInputBytes"}, {"buffer", "NewLexerBytes"}} {
		fd, pk := r.Prog.FuncDecl(tc.rel, "", tc.fn)
		name := tc.fn
		if fd == nil {
			r.BrokenAnchor(name)
			continue
		}
		if len(fd.Type.Params.List) != 1 || len(fd.Type.Params.List[0].Names) != 1 {
			r.Unknown(name+" signature", fd.Pos(), "expected one []byte parameter")
			continue
		}
		bObj := pk.TypesInfo.Defs[fd.Type.Params.List[0].Names[0]]
		// n := len(b)
		var nObj types.Object
		ast.Inspect(fd.Body, func(nd ast.Node) bool {
			as, ok := nd.(*ast.AssignStmt)
			if !ok || as.Tok != token.DEFINE || len(as.Lhs) != 1 || len(as.Rhs) != 1 {
				return true
			}
			if ce, ok := as.Rhs[0].(*ast.CallExpr); ok && len(ce.Args) == 1 {
				if id, ok := ce.Fun.(*ast.Ident); ok && id.Name == "len" {
					if a, ok := ce.Args[0].(*ast.Ident); ok && pk.TypesInfo.Uses[a] == bObj && nObj == nil {
						nObj = pk.TypesInfo.Defs[as.Lhs[0].(*ast.Ident)]
					}
				}
			}
			return true
		})
		if nObj == nil {
			r.Unknown(name+" shape", fd.Pos(), "no `n := len(b)` found")
			continue
		}
		// reassignments of n would invalidate the argument
		nWrites := 0
		ast.Inspect(fd.Body, func(nd ast.Node) bool {
			switch s := nd.(type) {
			case *ast.AssignStmt:
				for _, l := range s.Lhs {
					if id, ok := l.(*ast.Ident); ok && pk.TypesInfo.Uses[id] == nObj {
						nWrites++
					}
				}
			case *ast.IncDecStmt:
				if id, ok := s.X.(*ast.Ident); ok && pk.TypesInfo.Uses[id] == nObj {
					nWrites++
				}
			}
			return true
		})
		r.Check(nWrites == 0, name+" n is len(b) throughout", fd.Pos(), "", "n is reassigned after `n := len(b)`")
		// every element write through b is b[n] = ..., inside the `cap(b) > n` branch
		var guardIf *ast.IfStmt
		ast.Inspect(fd.Body, func(nd ast.Node) bool {
			ifs, ok := nd.(*ast.IfStmt)
			if !ok {
				return true
			}
			if be, ok := ast.Unparen(ifs.Cond).(*ast.BinaryExpr); ok {
				l, r2 := types.ExprString(be.X), types.ExprString(be.Y)
				bn, nn := bObj.Name(), nObj.Name()
				if (be.Op == token.GTR && l == "cap("+bn+")" && r2 == nn) || (be.Op == token.LSS && l == nn && r2 == "cap("+bn+")") {
					guardIf = ifs
				}
			}
			return true
		})
		if guardIf == nil {
			r.Fail(name+" capacity guard", fd.Pos(), "no `cap(b) > n` test: the terminator write may land outside the caller's capacity or force a hidden copy")
			continue
		}
		writes, badWrites := 0, 0
		var restoreLit *ast.FuncLit
		ast.Inspect(fd.Body, func(nd ast.Node) bool {
			switch s := nd.(type) {
			case *ast.AssignStmt:
				for i, l := range s.Lhs {
					ix, ok := l.(*ast.IndexExpr)
					if !ok {
						if se, ok := l.(*ast.SelectorExpr); ok && se.Sel.Name == "restore" && i < len(s.Rhs) {
							restoreLit, _ = s.Rhs[i].(*ast.FuncLit)
						}
						continue
					}
					id, ok := ix.X.(*ast.Ident)
					if !ok || pk.TypesInfo.Uses[id] != bObj {
						continue
					}
					writes++
					idx, isID := ix.Index.(*ast.Ident)
					inGuard := s.Pos() >= guardIf.Body.Pos() && s.End() <= guardIf.Body.End()
					if !isID || pk.TypesInfo.Uses[idx] != nObj || !inGuard {
						badWrites++
					}
				}
			case *ast.CallExpr:
				if id, ok := s.Fun.(*ast.Ident); ok && id.Name == "copy" && len(s.Args) == 2 {
					if a, ok := s.Args[0].(*ast.Ident); ok && pk.TypesInfo.Uses[a] == bObj {
						writes++
						badWrites++
					}
				}
				if id, ok := s.Fun.(*ast.Ident); ok && id.Name == "append" && len(s.Args) >= 1 {
					if a, ok := s.Args[0].(*ast.Ident); ok && pk.TypesInfo.Uses[a] == bObj {
						// append(b, 0) is only safe where cap(b) == len(b): the else branch of the guard
						inElse := guardIf.Else != nil && s.Pos() >= guardIf.Else.Pos() && s.End() <= guardIf.Else.End()
						r.Check(inElse, name+" append only without spare capacity", s.Pos(), "", "append(b, 0) outside the `cap(b) <= n` branch writes into the caller's spare capacity without a restore")
					}
				}
			}
			return true
		})
		r.Check(writes == 2 && badWrites == 0, name+" writes only b[len(b)]", fd.Pos(), fmt.Sprintf("%d writes", writes),
			fmt.Sprintf("%d element writes through the caller's slice, %d of them not `b[n] = …` under `cap(b) > n` (expected: the terminator store and the restore closure's store)", writes, badWrites))
		// restore closure: b[n] = c where c := b[n] was read before the overwrite
		okRestore := false
		if restoreLit != nil && len(restoreLit.Body.List) == 1 {
			if as, ok := restoreLit.Body.List[0].(*ast.AssignStmt); ok && len(as.Lhs) == 1 && len(as.Rhs) == 1 {
				if cid, ok := as.Rhs[0].(*ast.Ident); ok {
					cObj := pk.TypesInfo.Uses[cid]
					// find `c := b[n]` preceding `b[n] = 0`
					var defPos, zeroPos token.Pos
					for _, st := range guardIf.Body.List {
						if a2, ok := st.(*ast.AssignStmt); ok && len(a2.Lhs) == 1 {
							if id, ok := a2.Lhs[0].(*ast.Ident); ok && pk.TypesInfo.Defs[id] == cObj {
								if types.ExprString(a2.Rhs[0]) == bObj.Name()+"["+nObj.Name()+"]" {
									defPos = a2.Pos()
								}
							}
							if _, ok := a2.Lhs[0].(*ast.IndexExpr); ok && a2.Tok == token.ASSIGN {
								zeroPos = a2.Pos()
							}
						}
					}
					okRestore = defPos.IsValid() && zeroPos.IsValid() && defPos < zeroPos
				}
			}
		}
		r.Check(okRestore, name+" restore puts the saved byte back", fd.Pos(), "", "the restore closure is not `b[n] = c` with `c := b[n]` saved before the terminator overwrite")
		// Restore() clears the closure after calling it
		typ := map[string]string{"NewInputBytes": "Input", "NewLexerBytes": "Lexer"}[tc.fn]
		if rf := r.Prog.SSAFunc(tc.rel, typ, "Restore"); rf != nil {
			cleared := false
			for _, st := range allStores(rf) {
				if strings.HasSuffix(canon(st.Addr), ".restore") && isNilConst(st.Val) {
					cleared = true
				}
			}
			r.Check(cleared, typ+".Restore clears the closure", rf.Pos(), "", "Restore does not reset z.restore: a second Restore would rewrite the caller's byte")
		} else {
			r.BrokenAnchor(typ + ".Restore")
		}
	}
}
