package rules

import (
	"fmt"
	"go/constant"
	"go/token"
	"go/types"
	"strings"

	"golang.org/x/tools/go/ssa"

	"verif/checker/core"
)

func init() {
	register(&Rule{ID: "R-INPUT", Props: []string{"C12", "C01", "C02"}, Doc: "parse.Input / buffer.Lexer primitives have exactly the documented start/pos arithmetic (incl. three-index slices)", Run: runInputContract})
	register(&Rule{ID: "R-PEEKRUNE", Props: []string{"C12", "C01"}, Doc: "PeekRune/MoveRune: every look-ahead read and reported length is covered by a guard that accounts for the position argument", Run: runPeekRune})
	register(&Rule{ID: "R-BORROW", Props: []string{"C12"}, Doc: "NewInputBytes/NewLexerBytes write the caller's array only at index len(b) under cap(b)>len(b); Restore puts it back", Run: runBorrow})
}

type cursorType struct{ rel, typ string }

var cursorTypes = []cursorType{{"", "Input"}, {"buffer", "Lexer"}}

func singleReturn(fn *ssa.Function) *ssa.Return {
	var ret *ssa.Return
	for _, b := range fn.Blocks {
		if r, ok := lastInstr(b).(*ssa.Return); ok {
			if ret != nil {
				return nil
			}
			ret = r
		}
	}
	return ret
}

func allStores(fn *ssa.Function) []*ssa.Store {
	var out []*ssa.Store
	for _, b := range fn.Blocks {
		for _, in := range b.Instrs {
			if st, ok := in.(*ssa.Store); ok {
				out = append(out, st)
			}
		}
	}
	return out
}

func runInputContract(r *core.Run) {
	affineInlineExported = true
	defer func() { affineInlineExported = false }()
	for _, ct := range cursorTypes {
		name := ct.typ
		if ct.rel != "" {
			name = ct.rel + "." + ct.typ
		}
		cr, why := discoverCursorRoles(r, ct)
		if cr == nil {
			r.Unknown(name+" field roles", token.NoPos, "cannot identify the buffer / position / selection-start fields of "+name+": "+why)
			continue
		}
		get := func(m string) *ssa.Function {
			fn := r.Prog.SSAFunc(ct.rel, ct.typ, m)
			if fn == nil {
				r.BrokenAnchor(name + "." + m)
			}
			return fn
		}
		pos, start, buflen := linAtom("z.pos"), linAtom("z.start"), linAtom("len(z.buf)")
		sum := func(fn *ssa.Function, m string) *methSummary {
			s := cr.summarise(r, fn, 0)
			if !s.ok {
				r.Unknown(name+"."+m+" summary", fn.Pos(), "cannot summarise the method symbolically: "+s.why)
				return nil
			}
			return s
		}
		param := func(fn *ssa.Function, i int) Lin { return linAtom(fn.Params[i].Name()) }
		effect := func(fn *ssa.Function, m string, s *methSummary, want map[string]Lin) {
			ok := len(s.other) == 0
			for role, l := range s.fields {
				w, has := want[role]
				if !has {
					w = linAtom("z." + role) // unchanged
				}
				if !l.equal(w) {
					ok = false
				}
			}
			for role, w := range want {
				if l, has := s.fields[role]; !has && !w.equal(linAtom("z."+role)) {
					ok = false
					_ = l
				}
			}
			var wd []string
			for role, w := range want {
				wd = append(wd, "z."+role+" = "+w.String())
			}
			r.Check(ok, name+"."+m+" effect", fn.Pos(), s.effectString(), fmt.Sprintf("%s.%s assigns {%s}; the documented cursor arithmetic is {%s}", name, m, s.effectString(), strings.Join(wd, "; ")))
		}
		retLin := func(fn *ssa.Function, m string, s *methSummary, want Lin) {
			if s.retLin == nil {
				r.Unknown(name+"."+m+" result", fn.Pos(), "expected a single integer result")
				return
			}
			r.Check(s.retLin.equal(want), name+"."+m+" result", fn.Pos(), s.retLin.String(), fmt.Sprintf("%s.%s returns `%s`; documented: `%s`", name, m, *s.retLin, want))
		}
		sliceRet := func(fn *ssa.Function, m string, s *methSummary, lo, hi Lin) {
			if s.retSlice == nil {
				r.Unknown(name+"."+m+" result", fn.Pos(), "expected to return a slice expression of the buffer")
				return
			}
			sd := s.retSlice
			if sd.max == nil {
				r.Fail(name+"."+m+" three-index slice", fn.Pos(), "the returned slice is not capped (buf[a:b:b]): appending to a token would overwrite the input bytes that follow it")
				return
			}
			r.Check(sd.lo.equal(lo) && sd.hi.equal(hi), name+"."+m+" result", fn.Pos(), fmt.Sprintf("buf[%s:%s]", sd.lo, sd.hi), fmt.Sprintf("%s.%s returns buf[%s:%s], documented buf[%s:%s]", name, m, sd.lo, sd.hi, lo, hi))
			r.Check(sd.max.equal(sd.hi), name+"."+m+" three-index slice", fn.Pos(), "cap == len", fmt.Sprintf("slice capacity bound `%s` differs from its length bound `%s`: appending to the returned bytes can overwrite input", *sd.max, sd.hi))
		}
		none := map[string]Lin{}
		if fn := get("Move"); fn != nil {
			if s := sum(fn, "Move"); s != nil {
				effect(fn, "Move", s, map[string]Lin{"pos": pos.add(param(fn, 1), 1)})
			}
		}
		if fn := get("Rewind"); fn != nil {
			if s := sum(fn, "Rewind"); s != nil {
				effect(fn, "Rewind", s, map[string]Lin{"pos": start.add(param(fn, 1), 1)})
			}
		}
		if fn := get("Skip"); fn != nil {
			if s := sum(fn, "Skip"); s != nil {
				effect(fn, "Skip", s, map[string]Lin{"start": pos})
			}
		}
		if fn := get("Reset"); fn != nil {
			if s := sum(fn, "Reset"); s != nil {
				effect(fn, "Reset", s, map[string]Lin{"start": linConst(0), "pos": linConst(0)})
			}
		}
		if fn := get("Pos"); fn != nil {
			if s := sum(fn, "Pos"); s != nil {
				effect(fn, "Pos", s, none)
				retLin(fn, "Pos", s, pos.add(start, -1))
			}
		}
		if fn := get("Offset"); fn != nil {
			if s := sum(fn, "Offset"); s != nil {
				effect(fn, "Offset", s, none)
				retLin(fn, "Offset", s, pos)
			}
		}
		if ct.typ == "Input" {
			if fn := get("Len"); fn != nil {
				if s := sum(fn, "Len"); s != nil {
					retLin(fn, "Len", s, buflen.add(linConst(1), -1))
				}
			}
		}
		if fn := get("Lexeme"); fn != nil {
			if s := sum(fn, "Lexeme"); s != nil {
				effect(fn, "Lexeme", s, none)
				sliceRet(fn, "Lexeme", s, start, pos)
			}
		}
		if fn := get("Shift"); fn != nil {
			if s := sum(fn, "Shift"); s != nil {
				effect(fn, "Shift", s, map[string]Lin{"start": pos})
				sliceRet(fn, "Shift", s, start, pos)
			}
		}
		if fn := get("Bytes"); fn != nil {
			if s := sum(fn, "Bytes"); s != nil {
				effect(fn, "Bytes", s, none)
				sliceRet(fn, "Bytes", s, linConst(0), buflen.add(linConst(1), -1))
			}
		}
		if fn := get("Peek"); fn != nil {
			if s := sum(fn, "Peek"); s != nil {
				got := "?"
				ok := false
				if s.retIndex != nil {
					got = s.retIndex.String()
					ok = s.retIndex.equal(pos.add(param(fn, 1), 1))
				}
				noEffect := len(s.other) == 0
				for role, l := range s.fields {
					if !l.equal(linAtom("z." + role)) {
						noEffect = false
					}
				}
				r.Check(ok && noEffect, name+".Peek result", fn.Pos(), "buf["+got+"]", fmt.Sprintf("%s.Peek(i) is not buf[pos+i] without side effect (index `%s`)", name, got))
			}
		}
		// PeekErr(i) and Err(): io.EOF exactly from the terminator on, nil before it
		eofContract := func(fn *ssa.Function, m string, arg Lin) {
			recv := fn.Params[0].Name()
			rem := buflen.add(linConst(1), -1).add(pos, -1).add(arg, -1) // len-1 - (pos+arg)
			nEOF, nNil := 0, 0
			for _, b := range fn.Blocks {
				ret, ok := lastInstr(b).(*ssa.Return)
				if !ok {
					continue
				}
				fs := cr.normFacts(blockFacts(b), recv)
				switch {
				case isEOFValue(ret.Results[0]):
					nEOF++
					r.Check(entails(fs, rem.scale(-1)), name+"."+m+" io.EOF iff at/after the end", ret.Pos(), "", fmt.Sprintf("io.EOF is returned under %v, which does not imply pos+i >= len(buf)-1", factStrings(fs)))
				case isNilConst(ret.Results[0]):
					nNil++
					r.Check(entails(fs, rem.add(linConst(1), -1)), name+"."+m+" nil iff before the end", ret.Pos(), "", fmt.Sprintf("nil is returned under %v, which does not imply pos+i < len(buf)-1: the sentinel would be reported as data", factStrings(fs)))
				}
			}
			r.Check(nEOF == 1 && nNil == 1, name+"."+m+" returns", fn.Pos(), "", "expected exactly one io.EOF return and one nil return besides the stored error")
		}
		if fn := get("PeekErr"); fn != nil {
			eofContract(fn, "PeekErr", param(fn, 1))
		}
		if fn := get("Err"); fn != nil {
			viaPeekErr := false
			if ret := singleReturn(fn); ret != nil {
				if c, isC := ret.Results[0].(*ssa.Call); isC {
					if f := c.Call.StaticCallee(); f != nil && f.Name() == "PeekErr" && len(c.Call.Args) == 2 && c.Call.Args[0] == ssa.Value(fn.Params[0]) {
						if k, isK := c.Call.Args[1].(*ssa.Const); isK && ssaIntConst(k) && k.Int64() == 0 {
							viaPeekErr = true
						}
					}
				}
			}
			if viaPeekErr {
				r.OK(name+".Err is PeekErr(0)", fn.Pos(), "delegates to PeekErr(0)")
			} else {
				// spelled out: the same contract with i = 0
				eofContract(fn, "Err", linConst(0))
			}
		}
	}
}

func isNilConst(v ssa.Value) bool {
	c, ok := v.(*ssa.Const)
	return ok && c.IsNil()
}

// ---------------------------------------------------------------- R-PEEKRUNE

// peekFacts: branch facts of block b including sentinel facts from byte
// comparisons of Peek results: a byte known to be non-zero at offset X means
// pos+X is a data byte:  len(buf)-2 - z.pos - X >= 0.
func peekFacts(b *ssa.BasicBlock, cr *cursorRoles, recv string) []Fact {
	out := cr.normFacts(blockFacts(b), recv)
	atoms := guardsAt(b)
	out = append(out, sentinelFacts(atoms, cr, recv, nil, nil)...)
	// the result of a helper of the cursor compared with a constant (switch z.runeLen(c, pos) { case 2: ... }): what the
	// helper established on its way to returning that constant, look-ahead bytes included
	for _, at := range atoms {
		if at.op != token.EQL || at.call != nil {
			continue
		}
		for _, pr := range [][2]ssa.Value{{at.x, at.y}, {at.y, at.x}} {
			c, ri, ok := callOfValue(pr[0])
			k, isK := pr[1].(*ssa.Const)
			if !ok || !isK || !ssaIntConst(k) {
				continue
			}
			out = append(out, helperResultSentinels(c, ri, k.Int64(), cr, recv)...)
		}
	}
	// ... or left as the only constant the helper can still have returned (the default arm)
	type key struct {
		c  *ssa.Call
		ri int
	}
	excl := map[key]map[int64]bool{}
	var order []key
	for _, at := range atoms {
		if at.op != token.NEQ || at.call != nil {
			continue
		}
		for _, pr := range [][2]ssa.Value{{at.x, at.y}, {at.y, at.x}} {
			c, ri, ok := callOfValue(pr[0])
			k, isK := pr[1].(*ssa.Const)
			if ok && isK && ssaIntConst(k) {
				kk := key{c, ri}
				if excl[kk] == nil {
					excl[kk] = map[int64]bool{}
					order = append(order, kk)
				}
				excl[kk][k.Int64()] = true
			}
		}
	}
	for _, kk := range order {
		ks, ok := constResultsAt(kk.c, kk.ri)
		if !ok {
			continue
		}
		var left []int64
		for _, k := range ks {
			if !excl[kk][k] {
				left = append(left, k)
			}
		}
		if len(left) == 1 {
			out = append(out, helperResultSentinels(kk.c, kk.ri, left[0], cr, recv)...)
		}
	}
	return out
}

// sentinelFacts: a byte known to be non-zero at offset X means pos+X is a data byte. With f/args given, the atoms
// are those of helper f called with args: a parameter compared stands for the argument (c := z.Peek(pos); z.runeLen(c, pos)),
// and the helper's own look-ahead offsets are expressed in the caller's terms.
func sentinelFacts(atoms []condAtom, cr *cursorRoles, recv string, f *ssa.Function, args []ssa.Value) []Fact {
	var out []Fact
	for _, at := range atoms {
		for _, pr := range [][2]ssa.Value{{at.x, at.y}, {at.y, at.x}} {
			if pr[0] == nil || pr[1] == nil {
				continue
			}
			v := stripConv(pr[0])
			inCaller := f == nil
			if p, isP := v.(*ssa.Parameter); isP && f != nil {
				for i, q := range f.Params {
					if q == p && i < len(args) {
						v = stripConv(args[i])
						inCaller = true
					}
				}
			}
			call, ok := v.(*ssa.Call)
			if !ok {
				continue
			}
			g := call.Call.StaticCallee()
			if g == nil || g.Name() != "Peek" || len(call.Call.Args) != 2 {
				continue
			}
			k, isK := pr[1].(*ssa.Const)
			if !isK || !ssaIntConst(k) {
				continue
			}
			kv := k.Int64()
			op := at.op
			if pr[0] == at.y { // constant on the left: mirror
				op = map[token.Token]token.Token{token.LSS: token.GTR, token.LEQ: token.GEQ, token.GTR: token.LSS, token.GEQ: token.LEQ, token.EQL: token.EQL, token.NEQ: token.NEQ}[op]
			}
			nonzero := false
			switch op {
			case token.EQL:
				nonzero = kv != 0
			case token.NEQ:
				nonzero = kv == 0
			case token.GEQ:
				nonzero = kv >= 1
			case token.GTR:
				nonzero = kv >= 0
			}
			if !nonzero {
				continue
			}
			off := linOf(call.Call.Args[1])
			if !inCaller {
				var okS bool
				if off, okS = substParams(off, f, args); !okS {
					continue
				}
			}
			x := cr.normLin(off, recv)
			out = append(out, Fact{L: linAtom("len(z.buf)").add(linConst(2), -1).add(linAtom("z.pos"), -1).add(x, -1)})
		}
	}
	return out
}

// helperFactsAt: the facts that hold in block hb of helper f called as c, in the caller's terms.
func helperFactsAt(hb *ssa.BasicBlock, c *ssa.Call, cr *cursorRoles, recv string) []Fact {
	f := c.Call.StaticCallee()
	var out []Fact
	for _, ft := range blockFacts(hb) {
		if ft.NE {
			continue
		}
		if l, ok := substParams(ft.L, f, c.Call.Args); ok {
			out = append(out, cr.normFacts([]Fact{{L: l}}, recv)...)
		}
	}
	return append(out, sentinelFacts(guardsAt(hb), cr, recv, f, c.Call.Args)...)
}

// helperResultSentinels: the facts common to every return of constant k (result ri) of the helper called as c.
func helperResultSentinels(c *ssa.Call, ri int, k int64, cr *cursorRoles, recv string) []Fact {
	f := c.Call.StaticCallee()
	if f == nil || c.Call.IsInvoke() || len(f.Blocks) == 0 || fnPkg(f) == nil || !core.InModule(fnPkg(f)) || f.Signature.Recv() == nil {
		return nil
	}
	var sets [][]Fact
	for _, b := range f.Blocks {
		ret, ok := lastInstr(b).(*ssa.Return)
		if !ok || ri >= len(ret.Results) {
			continue
		}
		kc, isC := ret.Results[ri].(*ssa.Const)
		if !isC || !ssaIntConst(kc) {
			return nil
		}
		if kc.Int64() != k {
			continue
		}
		sets = append(sets, helperFactsAt(b, c, cr, recv))
	}
	if len(sets) == 0 {
		return nil
	}
	var out []Fact
	for _, ft := range sets[0] {
		common := !ft.NE
		for _, other := range sets[1:] {
			if !entails(other, ft.L) {
				common = false
			}
		}
		if common {
			out = append(out, ft)
		}
	}
	return out
}

func runPeekRune(r *core.Run) {
	affineInlineExported = true
	defer func() { affineInlineExported = false }()
	obs := 0
	for _, ct := range cursorTypes {
		name := ct.typ
		if ct.rel != "" {
			name = ct.rel + "." + ct.typ
		}
		cr, why := discoverCursorRoles(r, ct)
		if cr == nil {
			r.Unknown(name+" field roles", token.NoPos, "cannot identify the buffer / position fields of "+name+": "+why)
			continue
		}
		for _, m := range []string{"PeekRune", "MoveRune"} {
			fn := r.Prog.SSAFunc(ct.rel, ct.typ, m)
			if fn == nil {
				if ct.typ == "Lexer" && m == "MoveRune" {
					continue // buffer.Lexer has no MoveRune
				}
				r.BrokenAnchor(name + "." + m)
				continue
			}
			z := fn.Params[0].Name()
			base := linAtom("z.pos")
			var argPos Lin = linConst(0)
			if m == "PeekRune" {
				argPos = linAtom(fn.Params[1].Name())
			}
			last := linAtom("len(z.buf)").add(linConst(1), -1) // index of the sentinel
			for _, b := range fn.Blocks {
				fs := peekFacts(b, cr, z)
				for _, in := range b.Instrs {
					switch x := in.(type) {
					case *ssa.Call:
						f := x.Call.StaticCallee()
						if f == nil || recvName(f) != ct.typ {
							continue
						}
						var offs []Lin
						if f.Name() == "Peek" {
							offs = append(offs, cr.normLin(linOf(x.Call.Args[1]), z))
						} else if f.Object() != nil && !f.Object().Exported() && len(f.Blocks) > 0 {
							// an unexported helper of the cursor that peeks at an offset computed from its parameters (cont(i))
							for _, hb := range f.Blocks {
								for _, hin := range hb.Instrs {
									hc, isC := hin.(*ssa.Call)
									if !isC {
										continue
									}
									if hf := hc.Call.StaticCallee(); hf == nil || hf.Name() != "Peek" || recvName(hf) != ct.typ {
										continue
									}
									if l, okS := substParams(linOf(hc.Call.Args[1]), f, x.Call.Args); okS {
										// judged under the caller's guards at the call plus the helper's own on the way to the read
										hfs := append(append([]Fact{}, fs...), helperFactsAt(hb, x, cr, z)...)
										peekObligation(r, name, m, hc.Pos(), hfs, cr.normLin(l, z), argPos, base, last, &obs)
									} else {
										r.Unknown(fmt.Sprintf("%s.%s look-ahead in helper %s", name, m, f.Name()), hc.Pos(), "look-ahead offset inside the helper is not expressible at the call site")
									}
								}
							}
						}
						for _, a := range offs {
							peekObligation(r, name, m, x.Pos(), fs, a, argPos, base, last, &obs)
						}
						continue
					case *ssa.Return:
						if m != "PeekRune" || len(x.Results) != 2 {
							continue
						}
						n := linOf(x.Results[1])
						if !n.isConst() {
							r.Unknown(name+"."+m+" returned length", x.Pos(), "non-constant length")
							continue
						}
						if n.C <= 1 {
							continue
						}
						obs++
						// bytes pos..pos+n-1 are data: pos + arg + n-1 <= len-2
						goal := last.add(linConst(1), -1).add(base, -1).add(argPos, -1).add(linConst(n.C-1), -1)
						r.Check(entails(fs, goal), fmt.Sprintf("%s.%s returns length %d", name, m, n.C), x.Pos(), "",
							fmt.Sprintf("length %d is reported under guards %v, which do not imply that %d bytes remain at the peeked position (the guard must account for the position argument)", n.C, factStrings(fs), n.C))
					case *ssa.Store:
						if m != "MoveRune" || cr.normAtom(canon(x.Addr), z) != "z.pos" {
							continue
						}
						d := cr.normLin(linOf(x.Val), z).add(base, -1)
						var amount ssa.Value
						var steps *ssa.Phi
						if bo, ok := x.Val.(*ssa.BinOp); ok && bo.Op == token.ADD {
							for _, o := range []ssa.Value{bo.X, bo.Y} {
								if _, _, isC := callOfValue(o); isC {
									amount = o
								}
								if ph, isPhi := o.(*ssa.Phi); isPhi {
									steps = ph
								}
							}
						}
						if steps != nil && !d.isConst() && phiStepsMoveRune(r, cr, name, z, x.Pos(), steps, base, last, &obs) {
							continue
						}
						moveRuneStep(r, cr, name, z, x.Pos(), fs, d, amount, base, last, &obs)
					}
					// MoveRune written as z.Move(n): a call of a method that adds its argument to the position
					if c, ok := in.(*ssa.Call); ok && m == "MoveRune" {
						g := c.Call.StaticCallee()
						if g == nil || g.Signature.Recv() == nil || recvName(g) != ct.typ || g.Name() == "Peek" || len(c.Call.Args) != 2 || len(g.Params) != 2 {
							continue
						}
						sm := cr.summarise(r, g, 0)
						if sm == nil || !sm.ok {
							continue
						}
						pl, has := sm.fields["pos"]
						if !has {
							continue
						}
						dd := pl.add(linAtom("z.pos"), -1)
						if len(dd.T) != 1 || dd.T[g.Params[1].Name()] != 1 || dd.C != 0 {
							continue
						}
						d := cr.normLin(linOf(c.Call.Args[1]), z)
						moveRuneStep(r, cr, name, z, c.Pos(), fs, d, c.Call.Args[1], base, last, &obs)
					}
				}
			}
		}
	}
	r.Floor("rune look-ahead obligations", obs, 12)
}

// phiStepsMoveRune: the step is a variable assigned a constant on each path (n := 4; switch { case ...: n = 1 ... };
// z.pos += n): each constant is judged under the guards of the path that assigns it.
func phiStepsMoveRune(r *core.Run, cr *cursorRoles, name, z string, pos token.Pos, ph *ssa.Phi, base, last Lin, obs *int) bool {
	for _, e := range ph.Edges {
		if k, ok := e.(*ssa.Const); !ok || !ssaIntConst(k) {
			return false
		}
	}
	for i, e := range ph.Edges {
		k := e.(*ssa.Const).Int64()
		if k <= 1 {
			continue
		}
		pred := ph.Block().Preds[i]
		atoms := append(append([]condAtom{}, guardsAt(pred)...), edgeAtoms(pred, ph.Block(), 0)...)
		var fs []Fact
		for _, a := range atoms {
			fs = append(fs, factsOfAtom(a)...)
		}
		fs = cr.normFacts(fs, z)
		fs = append(fs, sentinelFacts(atoms, cr, z, nil, nil)...)
		*obs++
		goal := last.add(base, -1).add(linConst(k), -1)
		r.Check(entails(fs, goal), fmt.Sprintf("%s.MoveRune step %d", name, k), pos, "",
			fmt.Sprintf("pos advances by %d under guards %v, which do not imply pos+%d <= len(buf)-1", k, factStrings(fs), k))
	}
	return true
}

// peekObligation: a look-ahead read at offset a (relative to the position) inside PeekRune/MoveRune.
func peekObligation(r *core.Run, name, m string, pos token.Pos, fs []Fact, a, argPos, base, last Lin, obs *int) {
	d := a.add(argPos, -1)
	if !d.isConst() || d.C < 0 {
		r.Unknown(fmt.Sprintf("%s.%s Peek(%s)", name, m, a), pos, "look-ahead offset is not position+constant")
		return
	}
	if d.C == 0 {
		return // the byte at the position itself: caller's contract
	}
	*obs++
	goal := last.add(base, -1).add(a, -1) // len-1 - pos - a >= 0
	r.Check(entails(fs, goal), fmt.Sprintf("%s.%s read Peek(position+%d)", name, m, d.C), pos, "",
		fmt.Sprintf("Peek(%s) is read under guards %v, which do not imply z.pos+%s <= len(buf)-1: for some position argument the read indexes past the terminator", a, factStrings(fs), a))
}

// moveRuneStep: the position advances by d (a constant, or the result `amount` of a helper that returns only
// constants); every step k > 1 must be covered by guards implying that k bytes remain.
func moveRuneStep(r *core.Run, cr *cursorRoles, name, z string, pos token.Pos, fs []Fact, d Lin, amount ssa.Value, base, last Lin, obs *int) {
	if d.isConst() {
		if d.C <= 1 {
			return
		}
		*obs++
		goal := last.add(base, -1).add(linConst(d.C), -1)
		r.Check(entails(fs, goal), fmt.Sprintf("%s.MoveRune step %d", name, d.C), pos, "",
			fmt.Sprintf("pos advances by %d under guards %v, which do not imply pos+%d <= len(buf)-1", d.C, factStrings(fs), d.C))
		return
	}
	var call *ssa.Call
	ri := 0
	if amount != nil {
		if c, i, isC := callOfValue(amount); isC {
			call, ri = c, i
		}
	}
	ks, okK := constResultsAt(call, ri)
	if call == nil || !okK {
		r.Unknown(name+".MoveRune step", pos, "the step is neither a constant nor the result of a helper that returns constants")
		return
	}
	for _, k := range ks {
		if k <= 1 {
			continue
		}
		*obs++
		fk := append(append([]Fact{}, fs...), cr.normFacts(callResultFactsAt(call, ri, k), z)...)
		goal := last.add(base, -1).add(linConst(k), -1)
		r.Check(entails(fk, goal), fmt.Sprintf("%s.MoveRune step %d", name, k), pos, "",
			fmt.Sprintf("pos advances by %d (result of %s) under guards %v, which do not imply pos+%d <= len(buf)-1", k, fnLabel(call.Call.StaticCallee()), factStrings(fk), k))
	}
}

// constResults: the distinct constants a module function can return (single integer result), if it returns only constants.
func constResults(c *ssa.Call) ([]int64, bool) { return constResultsAt(c, 0) }

func constResultsAt(c *ssa.Call, ri int) ([]int64, bool) {
	if c == nil {
		return nil, false
	}
	f := c.Call.StaticCallee()
	if f == nil || len(f.Blocks) == 0 || !core.InModule(fnPkg(f)) {
		return nil, false
	}
	seen := map[int64]bool{}
	var out []int64
	for _, b := range f.Blocks {
		ret, ok := lastInstr(b).(*ssa.Return)
		if !ok {
			continue
		}
		if ri >= len(ret.Results) {
			return nil, false
		}
		k, isK := ret.Results[ri].(*ssa.Const)
		if !isK || !ssaIntConst(k) {
			return nil, false
		}
		if !seen[k.Int64()] {
			seen[k.Int64()] = true
			out = append(out, k.Int64())
		}
	}
	return out, len(out) > 0
}

// ------------------------------------------------------------------ R-BORROW

// borrowCtx resolves values across a constructor, the helpers it hands the caller's slice to, and the
// closures it creates (go/ssa keeps captured variables in heap cells; a cell with a single store denotes
// the stored value).
type borrowCtx struct {
	r     *core.Run
	alias map[ssa.Value]bool // values that denote (a re-slice of) the caller's array
	cells map[*ssa.Alloc][]*ssa.Store
	bind  map[ssa.Value]ssa.Value // FreeVar / helper Parameter -> value at the creation / call site
	fns   []*ssa.Function
	site  map[*ssa.Function]ssa.Instruction // helper or closure -> the instruction in its parent that creates / calls it
}

func (c *borrowCtx) resolve(v ssa.Value, depth int) ssa.Value {
	for depth < 8 {
		depth++
		switch x := v.(type) {
		case *ssa.ChangeType:
			v = x.X
			continue
		case *ssa.Convert:
			if isIntType(x.Type()) && isIntType(x.X.Type()) {
				v = x.X
				continue
			}
		case *ssa.UnOp:
			if x.Op == token.MUL {
				cell := c.resolve(x.X, depth)
				if al, ok := cell.(*ssa.Alloc); ok {
					if sts := c.cells[al]; len(sts) == 1 {
						v = sts[0].Val
						continue
					}
				}
			}
		case *ssa.FreeVar, *ssa.Parameter:
			if b, ok := c.bind[v]; ok {
				v = b
				continue
			}
		}
		break
	}
	return v
}

// isLenOfCaller: v is len(x) for an alias x taken before the slice variable is re-assigned.
func (c *borrowCtx) isLenOfCaller(v ssa.Value) bool {
	v = c.resolve(v, 0)
	call, ok := v.(*ssa.Call)
	if !ok {
		return false
	}
	b, isB := call.Call.Value.(*ssa.Builtin)
	if !isB || b.Name() != "len" || len(call.Call.Args) != 1 {
		return false
	}
	return c.isOriginal(call.Call.Args[0])
}

// isOriginal: the value is the caller's slice itself (not a re-slice): the parameter, or a load of its cell
// that no later store to the cell can reach.
func (c *borrowCtx) isOriginal(v ssa.Value) bool {
	switch x := v.(type) {
	case *ssa.Parameter:
		if b, ok := c.bind[x]; ok {
			return c.isOriginal(b)
		}
		return c.alias[x]
	case *ssa.UnOp:
		if x.Op != token.MUL {
			return false
		}
		al, ok := c.resolve(x.X, 0).(*ssa.Alloc)
		if !ok {
			return false
		}
		sts := c.cells[al]
		if len(sts) == 0 {
			return false
		}
		if prm, isParam := sts[0].Val.(*ssa.Parameter); !isParam || !c.isOriginal(prm) {
			return false
		}
		for _, st := range sts[1:] {
			if instrReaches(st, x) {
				return false
			}
		}
		return true
	}
	return false
}

// instrReaches: can control flow from instruction a to instruction b (same function)?
func instrReaches(a, b ssa.Instruction) bool {
	if a.Parent() != b.Parent() {
		return true // conservatively
	}
	if a.Block() == b.Block() {
		if instrIndex(a) < instrIndex(b) {
			return true
		}
	}
	seen := map[*ssa.BasicBlock]bool{}
	var walk func(x *ssa.BasicBlock) bool
	walk = func(x *ssa.BasicBlock) bool {
		for _, s := range x.Succs {
			if s == b.Block() {
				return true
			}
			if !seen[s] {
				seen[s] = true
				if walk(s) {
					return true
				}
			}
		}
		return false
	}
	return walk(a.Block())
}

func (c *borrowCtx) isAlias(v ssa.Value, depth int) bool {
	if depth > 8 {
		return false
	}
	if c.alias[v] {
		return true
	}
	switch x := v.(type) {
	case *ssa.Slice:
		return c.isAlias(x.X, depth+1)
	case *ssa.ChangeType:
		return c.isAlias(x.X, depth+1)
	case *ssa.Phi:
		for _, e := range x.Edges {
			if c.isAlias(e, depth+1) {
				return true
			}
		}
	case *ssa.UnOp:
		if x.Op == token.MUL {
			if al, ok := c.resolve(x.X, 0).(*ssa.Alloc); ok {
				for _, st := range c.cells[al] {
					if c.isAlias(st.Val, depth+1) {
						return true
					}
				}
			}
			// z.buf read back inside the constructor (z.buf = b[:n+1]; z.buf[n] = 0): an alias when an alias is
			// stored into that field anywhere in the constructor's code
			if fa, ok := x.X.(*ssa.FieldAddr); ok {
				for _, f := range c.fns {
					for _, st := range allStores(f) {
						if fb, isFA := st.Addr.(*ssa.FieldAddr); isFA && fb.Field == fa.Field && types.Identical(fb.X.Type(), fa.X.Type()) && c.isAlias(st.Val, depth+1) {
							return true
						}
					}
				}
			}
		}
	case *ssa.FreeVar, *ssa.Parameter:
		if b, ok := c.bind[v]; ok {
			return c.isAlias(b, depth+1)
		}
	}
	return false
}

// capGuard: the atom states cap(x) > n (or its negation when neg) for an alias x and n = len(caller's slice).
func (c *borrowCtx) capGuard(a condAtom, neg bool) bool {
	isCap := func(v ssa.Value) bool {
		call, ok := c.resolve(v, 0).(*ssa.Call)
		if !ok {
			return false
		}
		b, isB := call.Call.Value.(*ssa.Builtin)
		return isB && b.Name() == "cap" && len(call.Call.Args) == 1 && c.isAlias(call.Call.Args[0], 0)
	}
	op := a.op
	x, y := a.x, a.y
	if isCap(y) && c.isLenOfCaller(x) { // n OP cap  ->  cap OP' n
		x, y = y, x
		op = map[token.Token]token.Token{token.LSS: token.GTR, token.LEQ: token.GEQ, token.GTR: token.LSS, token.GEQ: token.LEQ, token.EQL: token.EQL, token.NEQ: token.NEQ}[op]
	}
	if !isCap(x) || !c.isLenOfCaller(y) {
		return false
	}
	if neg {
		return op == token.LEQ || op == token.EQL
	}
	return op == token.GTR
}

func (c *borrowCtx) guarded(at ssa.Instruction, neg bool) bool {
	for depth := 0; at != nil && depth < 4; depth++ {
		for _, a := range guardsAt(at.Block()) {
			if c.capGuard(a, neg) {
				return true
			}
		}
		at = c.site[at.Parent()]
	}
	return false
}

// borrowFieldForm: the borrowed byte is saved in a field of the cursor and put back by Restore under a flag:
//
//	ctor:    z.buf = b[:n+1]; z.saved = z.buf[n]; z.has = true; z.buf[n] = 0      (under cap(b) > n)
//	Restore: if z.has { z.buf[len(z.buf)-1] = z.saved; z.has = false }
//
// Decided: the save reads b[len(b)] before the terminator store and goes to a byte field; a bool field is set in the
// same guarded region; Restore's only element store goes to buf[len(buf)-1] with the saved field's value, under the
// flag, and clears the flag; no other function of the package stores into buf's elements or assigns the saved/flag
// fields, and buf itself is assigned only where the cursor is constructed (so len(buf)-1 is still the borrowed index).
// Returns false when the shape is not this one (the closure form's checks then report).
func borrowFieldForm(r *core.Run, c *borrowCtx, rel, typ, name string, ctor *ssa.Function, zeroStore *ssa.Store) bool {
	cr, _ := discoverCursorRoles(r, cursorType{rel, typ})
	rf := r.Prog.SSAFunc(rel, typ, "Restore")
	if cr == nil || rf == nil || cr.role["buf"] == "" {
		return false
	}
	bufF := cr.role["buf"]
	isField := func(addr ssa.Value, want string) bool {
		fa, ok := addr.(*ssa.FieldAddr)
		if !ok {
			return false
		}
		tp, okT := modTypePath(fa.X.Type())
		wantT := typ
		if rel != "" {
			wantT = rel + "." + typ
		} else {
			wantT = "parse." + typ
		}
		return okT && tp == wantT && fieldName(fa.X.Type(), fa.Field) == want
	}
	fieldOf := func(addr ssa.Value) string {
		if fa, ok := addr.(*ssa.FieldAddr); ok {
			if tp, okT := modTypePath(fa.X.Type()); okT && (tp == "parse."+typ || tp == rel+"."+typ) {
				return fieldName(fa.X.Type(), fa.Field)
			}
		}
		return ""
	}
	before := func(a, b ssa.Instruction) bool {
		if a.Parent() != b.Parent() {
			return false
		}
		if a.Block() == b.Block() {
			return instrIndex(a) < instrIndex(b)
		}
		return a.Block().Dominates(b.Block())
	}
	// the save and the flag in the constructor's code
	saved, flag := "", ""
	for _, f := range c.fns {
		for _, st := range allStores(f) {
			fn := fieldOf(st.Addr)
			if fn == "" {
				continue
			}
			if ld, ok := c.resolve(st.Val, 0).(*ssa.UnOp); ok && ld.Op == token.MUL && isByteType(st.Val.Type()) {
				if ia, isIA := ld.X.(*ssa.IndexAddr); isIA && c.isAlias(ia.X, 0) && c.isLenOfCaller(ia.Index) && before(ld, zeroStore) {
					saved = fn
				}
			}
			if k, isK := st.Val.(*ssa.Const); isK && k.Value != nil && k.Value.Kind() == constant.Bool && constant.BoolVal(k.Value) && (st.Block() == zeroStore.Block() || c.guarded(st, false)) {
				flag = fn
			}
		}
	}
	if saved == "" || flag == "" {
		return false
	}
	r.OK(name+" writes only b[len(b)]", ctor.Pos(), "one terminator store; the byte it replaces is saved in field "+saved+" under flag "+flag)
	// Restore: buf[len(buf)-1] = saved under the flag, flag cleared
	z := rf.Params[0].Name()
	var put *ssa.Store
	cleared := false
	nElem := 0
	for _, st := range allStores(rf) {
		if ia, ok := st.Addr.(*ssa.IndexAddr); ok {
			nElem++
			if u, isU := ia.X.(*ssa.UnOp); isU && u.Op == token.MUL && isField(u.X, bufF) {
				idx := cr.normLin(linOf(ia.Index), z)
				if call, _, isCall := callOfValue(ia.Index); isCall {
					// z.end(): a one-expression helper
					if g := call.Call.StaticCallee(); g != nil && len(g.Blocks) == 1 {
						if ret, isRet := lastInstr(g.Blocks[0]).(*ssa.Return); isRet && len(ret.Results) == 1 {
							idx = cr.normLin(linOf(ret.Results[0]), g.Params[0].Name())
						}
					}
				}
				want := linAtom("len(z.buf)").add(linConst(1), -1)
				if ld, isLd := st.Val.(*ssa.UnOp); isLd && ld.Op == token.MUL && isField(ld.X, saved) && idx.equal(want) {
					put = st
				}
			}
		}
		if isField(st.Addr, flag) {
			if k, isK := st.Val.(*ssa.Const); isK && k.Value != nil && k.Value.Kind() == constant.Bool && !constant.BoolVal(k.Value) {
				cleared = true
			}
		}
	}
	underFlag := false
	if put != nil {
		for _, a := range guardsAt(put.Block()) {
			for _, pr := range [][2]ssa.Value{{a.x, a.y}, {a.y, a.x}} {
				ld, isLd := pr[0].(*ssa.UnOp)
				k, isK := pr[1].(*ssa.Const)
				if isLd && isK && ld.Op == token.MUL && isField(ld.X, flag) && k.Value != nil && k.Value.Kind() == constant.Bool {
					if (a.op == token.EQL) == constant.BoolVal(k.Value) {
						underFlag = true
					}
				}
			}
		}
	}
	r.Check(put != nil && nElem == 1 && underFlag, name+" restore puts the saved byte back", rf.Pos(), "", "Restore does not store the saved byte back at buf[len(buf)-1] under the flag that the constructor set (or stores something else into the buffer)")
	r.Check(cleared, typ+".Restore clears the closure", rf.Pos(), "", "Restore does not reset the flag: a second Restore would rewrite the caller's byte")
	// nobody else touches the saved byte, the flag, the buffer's elements, or re-slices the buffer
	inCtorUnit := map[*ssa.Function]bool{}
	for _, f := range c.fns {
		inCtorUnit[f] = true
	}
	bad := ""
	for _, f := range allModuleFuncs(r) {
		if fnPkg(f) == nil || fnPkg(f) != fnPkg(ctor) || f == rf || inCtorUnit[f] {
			continue
		}
		constructs := false
		for _, b := range f.Blocks {
			for _, in := range b.Instrs {
				if al, isAl := in.(*ssa.Alloc); isAl {
					if tp, okT := modTypePath(al.Type()); okT && (tp == "parse."+typ || tp == rel+"."+typ) {
						constructs = true
					}
				}
			}
		}
		for _, st := range allStores(f) {
			switch fn := fieldOf(st.Addr); {
			case fn == saved || fn == flag:
				bad = fmt.Sprintf("%s assigns %s", fnLabel(f), fn)
			case fn == bufF && !constructs:
				bad = fmt.Sprintf("%s assigns the buffer", fnLabel(f))
			}
			if ia, ok := st.Addr.(*ssa.IndexAddr); ok {
				if u, isU := ia.X.(*ssa.UnOp); isU && u.Op == token.MUL && isField(u.X, bufF) {
					bad = fmt.Sprintf("%s stores into the buffer", fnLabel(f))
				}
			}
		}
	}
	r.Check(bad == "", name+" saved byte, flag and buffer are written only by the constructor and Restore", ctor.Pos(), "", bad+": the byte Restore puts back (or the index it puts it at) may no longer be the borrowed one")
	return true
}

func runBorrow(r *core.Run) {
	for _, tc := range []struct{ rel, fn, typ string }{{"", "NewInputBytes", "Input"}, {"buffer", "NewLexerBytes", "Lexer"}} {
		ctor := r.Prog.SSAFunc(tc.rel, "", tc.fn)
		name := tc.fn
		if ctor == nil || len(ctor.Params) != 1 {
			r.BrokenAnchor(name)
			continue
		}
		c := &borrowCtx{r: r, alias: map[ssa.Value]bool{ctor.Params[0]: true}, cells: map[*ssa.Alloc][]*ssa.Store{}, bind: map[ssa.Value]ssa.Value{}, site: map[*ssa.Function]ssa.Instruction{}}
		// the functions that can touch the caller's array: the constructor, its closures, helpers that receive the slice
		seen := map[*ssa.Function]bool{}
		var add func(f *ssa.Function, depth int)
		add = func(f *ssa.Function, depth int) {
			if f == nil || seen[f] || len(f.Blocks) == 0 || depth > 3 {
				return
			}
			seen[f] = true
			c.fns = append(c.fns, f)
			for _, b := range f.Blocks {
				for _, in := range b.Instrs {
					if st, ok := in.(*ssa.Store); ok {
						if al, isAl := st.Addr.(*ssa.Alloc); isAl {
							c.cells[al] = append(c.cells[al], st)
						}
					}
				}
			}
			for _, b := range f.Blocks {
				for _, in := range b.Instrs {
					switch x := in.(type) {
					case *ssa.MakeClosure:
						g, _ := x.Fn.(*ssa.Function)
						if g == nil {
							continue
						}
						for i, fv := range g.FreeVars {
							if i < len(x.Bindings) {
								c.bind[fv] = x.Bindings[i]
							}
						}
						c.site[g] = x
						add(g, depth+1)
					case *ssa.Call:
						g := x.Call.StaticCallee()
						if g == nil || !core.InModule(fnPkg(g)) || len(g.Blocks) == 0 || x.Call.IsInvoke() {
							continue
						}
						passes := false
						for _, a := range x.Call.Args {
							if c.isAlias(a, 0) {
								passes = true
							}
						}
						if !passes {
							continue
						}
						if len(callSitesOf(r, g)) != 1 {
							// a helper shared by several constructors (newInput(b, err)): analysed on its own with the parameter
							// that receives the caller's slice — whole, not re-sliced — standing for that slice
							whole := true
							for i, a := range x.Call.Args {
								if c.isAlias(a, 0) && i < len(g.Params) {
									if !c.isOriginal(a) {
										whole = false
									}
								}
							}
							if !whole {
								continue
							}
							for i, a := range x.Call.Args {
								if c.isAlias(a, 0) && i < len(g.Params) {
									c.alias[g.Params[i]] = true
								}
							}
							add(g, depth+1)
							continue
						}
						for i, p := range g.Params {
							if i < len(x.Call.Args) {
								c.bind[p] = x.Call.Args[i]
							}
						}
						c.site[g] = x
						add(g, depth+1)
					}
				}
			}
		}
		add(ctor, 0)
		writes, bad := 0, 0
		var zeroStore, restoreStore *ssa.Store
		var why []string
		for _, f := range c.fns {
			for _, b := range f.Blocks {
				for _, in := range b.Instrs {
					switch x := in.(type) {
					case *ssa.Store:
						ia, ok := x.Addr.(*ssa.IndexAddr)
						if !ok || !c.isAlias(ia.X, 0) {
							continue
						}
						writes++
						okIdx := c.isLenOfCaller(ia.Index)
						okGuard := c.guarded(x, false)
						if !okIdx || !okGuard {
							bad++
							why = append(why, fmt.Sprintf("%s (index is len(b): %v, under cap(b) > len(b): %v)", r.Prog.Position(x.Pos()), okIdx, okGuard))
						}
						if k, isK := x.Val.(*ssa.Const); isK && ssaIntConst(k) && k.Int64() == 0 {
							zeroStore = x
						} else {
							restoreStore = x
						}
					case *ssa.Call:
						if bi, ok := x.Call.Value.(*ssa.Builtin); ok {
							switch bi.Name() {
							case "copy":
								if c.isAlias(x.Call.Args[0], 0) {
									writes++
									bad++
									why = append(why, fmt.Sprintf("%s copy into the caller's slice", r.Prog.Position(x.Pos())))
								}
							case "append":
								if c.isAlias(x.Call.Args[0], 0) {
									r.Check(c.guarded(x, true), name+" append only without spare capacity", x.Pos(), "", "append(b, 0) outside the `cap(b) <= len(b)` branch writes into the caller's spare capacity without a restore")
								}
							}
						}
					}
				}
			}
		}
		if restoreStore == nil && zeroStore != nil && writes == 1 && bad == 0 {
			// no restore store in the constructor's code: the saved byte may live in a field (saved byte + flag)
			if borrowFieldForm(r, c, tc.rel, tc.typ, name, ctor, zeroStore) {
				continue
			}
		}
		r.Check(writes == 2 && bad == 0, name+" writes only b[len(b)]", ctor.Pos(), fmt.Sprintf("%d writes", writes),
			fmt.Sprintf("%d element writes through the caller's slice, %d of them not `b[len(b)] = …` under `cap(b) > len(b)` (expected: the terminator store and the restore closure's store): %s", writes, bad, strings.Join(why, "; ")))
		// restore closure: b[n] = c where c was read from b[n] before the overwrite
		okRestore := false
		if zeroStore != nil && restoreStore != nil && restoreStore.Parent() != ctor {
			if ld, ok := c.resolve(restoreStore.Val, 0).(*ssa.UnOp); ok && ld.Op == token.MUL {
				if ia, ok := ld.X.(*ssa.IndexAddr); ok && c.isAlias(ia.X, 0) && c.isLenOfCaller(ia.Index) {
					// the save executes before the overwrite
					if ld.Parent() == zeroStore.Parent() && (ld.Block() == zeroStore.Block() && instrIndex(ld) < instrIndex(zeroStore) || ld.Block() != zeroStore.Block() && ld.Block().Dominates(zeroStore.Block())) {
						okRestore = true
					}
				}
			}
		}
		r.Check(okRestore, name+" restore puts the saved byte back", ctor.Pos(), "", "the restore closure does not store back at index len(b) the byte that was read from there before the terminator overwrite")
		// Restore() clears the closure after calling it
		cr, _ := discoverCursorRoles(r, cursorType{tc.rel, tc.typ})
		if rf := r.Prog.SSAFunc(tc.rel, tc.typ, "Restore"); rf != nil && cr != nil && cr.role["restore"] != "" {
			cleared := false
			for _, st := range allStores(rf) {
				if strings.HasSuffix(canon(st.Addr), "."+cr.role["restore"]) && isNilConst(st.Val) {
					cleared = true
				}
			}
			r.Check(cleared, tc.typ+".Restore clears the closure", rf.Pos(), "", "Restore does not reset the restore closure: a second Restore would rewrite the caller's byte")
		} else {
			r.BrokenAnchor(tc.typ + ".Restore")
		}
	}
}
