package rules

// Role-based model of js.Parser, so that the path rules do not depend on the names of unexported
// fields and methods:
//   errField   the field of type error;
//   ttField    the field of type TokenType that the token-advancing method stores from the lexer;
//   recorders  the methods that assign a non-nil error to errField (fail, failMessage, …);
//   levels     the int fields that some method increments by one and compares with a constant limit;
//   failFalse  per method and result index: a bool result that is false only on error paths (consume, and
//              helpers extracted from a larger function that return `(node, ok)`).

import (
	"go/constant"
	"go/token"
	"go/types"
	"sync"

	"golang.org/x/tools/go/ssa"

	"verif/checker/core"
)

type jsModel struct {
	errField, ttField string
	recorders         map[*ssa.Function]bool
	levels            map[string]bool
	failFalse         map[*ssa.Function]map[int]bool
	ready             bool
}

var jsModels sync.Map // *ssa.Program -> *jsModel

func jsModelOf(fn *ssa.Function) *jsModel {
	if fn == nil || fn.Prog == nil {
		return &jsModel{}
	}
	if m, ok := jsModels.Load(fn.Prog); ok {
		return m.(*jsModel)
	}
	m := &jsModel{recorders: map[*ssa.Function]bool{}, levels: map[string]bool{}, failFalse: map[*ssa.Function]map[int]bool{}}
	jsModels.Store(fn.Prog, m)
	var parser *types.Named
	var methods []*ssa.Function
	for _, pk := range fn.Prog.AllPackages() {
		if pk.Pkg.Path() != core.ModPath+"/js" {
			continue
		}
		if tn, ok := pk.Pkg.Scope().Lookup("Parser").(*types.TypeName); ok {
			parser, _ = tn.Type().(*types.Named)
		}
		for _, mem := range pk.Members {
			if f, ok := mem.(*ssa.Function); ok && f.Name() == "Parse" {
				methods = append(methods, f)
			}
		}
		if parser != nil {
			ms := fn.Prog.MethodSets.MethodSet(types.NewPointer(parser))
			for i := 0; i < ms.Len(); i++ {
				if f := fn.Prog.MethodValue(ms.At(i)); f != nil && len(f.Blocks) > 0 {
					methods = append(methods, f)
				}
			}
		}
	}
	if parser == nil {
		return m
	}
	st, _ := parser.Underlying().(*types.Struct)
	var tts []string
	for i := 0; st != nil && i < st.NumFields(); i++ {
		f := st.Field(i)
		if types.Identical(f.Type(), types.Universe.Lookup("error").Type()) {
			m.errField = f.Name()
		}
		if n, ok := f.Type().(*types.Named); ok && n.Obj().Name() == "TokenType" {
			tts = append(tts, f.Name())
		}
	}
	if len(tts) == 1 {
		m.ttField = tts[0]
	}
	for _, f := range methods {
		for _, st := range allStores(f) {
			if isParserField(st.Addr, m.errField) && !isNilConst(st.Val) {
				m.recorders[f] = true
			}
			if isParserField(st.Addr, "") {
				if b, ok := st.Val.Type().Underlying().(*types.Basic); ok && b.Kind() == types.Int {
					d := linOf(st.Val).add(linAtom(canon(st.Addr)), -1)
					if d.isConst() && d.C == 1 {
						m.levels[parserFieldName(st.Addr)] = true
					}
				}
			}
		}
	}
	// a level field must also be compared with a constant somewhere (the depth guard)
	for name := range m.levels {
		guarded := false
		for _, f := range methods {
			for _, b := range f.Blocks {
				if iff, ok := lastInstr(b).(*ssa.If); ok {
					if bo, ok := iff.Cond.(*ssa.BinOp); ok {
						for _, pr := range [][2]ssa.Value{{bo.X, bo.Y}, {bo.Y, bo.X}} {
							l := linOf(pr[0])
							_, isK := pr[1].(*ssa.Const)
							for a := range l.T {
								if isK && hasFieldSuffix(a, name) {
									guarded = true
								}
							}
						}
					}
				}
			}
		}
		if !guarded {
			delete(m.levels, name)
		}
	}
	m.ready = true
	// bool results that are false only on error paths: fixpoint (the recognition of error paths uses the map)
	for round := 0; round < 4; round++ {
		changed := false
		for _, f := range methods {
			res := f.Signature.Results()
			for k := 0; k < res.Len(); k++ {
				if b, ok := res.At(k).Type().Underlying().(*types.Basic); !ok || b.Kind() != types.Bool {
					continue
				}
				if m.failFalse[f][k] {
					continue
				}
				sawFalse, ok := false, true
				pathFlow(f, pstate{}, func(s pstate, in ssa.Instruction) pstate { return s }, func(s pstate, ret *ssa.Return) {
					if k >= len(ret.Results) {
						ok = false
						return
					}
					c, isC := ret.Results[k].(*ssa.Const)
					if !isC || c.Value == nil || c.Value.Kind() != constant.Bool {
						// a computed result: acceptable only on error paths
						if !s.err {
							ok = false
						}
						return
					}
					if !constant.BoolVal(c.Value) {
						sawFalse = true
						if !s.err {
							ok = false
						}
					}
				})
				if ok && sawFalse {
					if m.failFalse[f] == nil {
						m.failFalse[f] = map[int]bool{}
					}
					m.failFalse[f][k] = true
					changed = true
				}
			}
		}
		if !changed {
			break
		}
	}
	return m
}

func hasFieldSuffix(atom, field string) bool {
	n := len(atom) - len(field)
	return n > 0 && atom[n:] == field && atom[n-1] == '.'
}

// boolFailure: cond is a bool produced by a parser method whose false value means "an error was recorded".
func (m *jsModel) boolFailure(cond ssa.Value) bool {
	switch x := cond.(type) {
	case *ssa.Call:
		if f := x.Call.StaticCallee(); f != nil {
			return m.failFalse[f][0]
		}
	case *ssa.Extract:
		if c, ok := x.Tuple.(*ssa.Call); ok {
			if f := c.Call.StaticCallee(); f != nil {
				return m.failFalse[f][x.Index]
			}
		}
	}
	return false
}

var _ = token.NoPos
