package rules

import "verif/checker/core"

// SelfTest (thorough tier) re-analyses overlay mutants; filled in later.
func SelfTest(r *core.Run, cfg core.LoadConfig) {}
