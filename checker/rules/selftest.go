package rules

import (
	"fmt"
	"go/token"
	"os"
	"path/filepath"
	"sort"
	"strings"
	"sync"

	"verif/checker/core"
)

// A selfMutant is a single textual edit of one repository file that keeps the
// program compiling and must make the named rule report a violation. Mutants
// are applied through packages.Config.Overlay: nothing on disk is touched.
type selfMutant struct {
	Rule  string
	File  string // path relative to the repository
	Old   string
	New   string
	Only  string   // engine package filter (speeds up engine rules)
	Props []string // when set: the properties whose view contains the mutated package
	Why   string
	// Silent: the variant preserves behaviour (an idiom a maintainer might switch to); the rule must NOT report it.
	// A rule that does is too narrow: the check is broken in the other direction (false alarm in waiting).
	Silent bool
}

var selfMutants = []selfMutant{
	// tables
	{Rule: "T-KEYWORDS", File: "js/table.go", Old: `"yield":      YieldToken,`, New: `"yield":      VarToken,`, Why: "keyword mapped to the wrong type"},
	{Rule: "T-OPERATORS", File: "js/lex.go", Old: "'^': BitXorEqToken,", New: "'^': BitOrEqToken,", Why: "operator table entry swapped"},
	{Rule: "T-IDTABLES", File: "js/lex.go", Old: "	false, false, false, false, true, false, false, false, // $\n	false, false, false, false, false, false, false, false,\n	false, false, false, false, false, false, false, false,\n	false, false, false, false, false, false, false, false,\n\n	false, true, true, true, true, true, true, true, // A, B, C, D, E, F, G\n	true, true, true, true, true, true, true, true, // H, I, J, K, L, M, N, O\n	true, true, true, true, true, true, true, true, // P, Q, R, S, T, U, V, W\n	true, true, true, false, false, false, false, true, // X, Y, Z, _\n\n	false, true, true, true, true, true, true, true, // a, b, c, d, e, f, g\n	true, true, true, true, true, true, true, true, // h, i, j, k, l, m, n, o\n	true, true, true, true, true, true, true, true, // p, q, r, s, t, u, v, w\n	true, true, true, false, false, false, false, false, // x, y, z\n\n	// non-ASCII\n	false, false, false, false, false, false, false, false,\n	false, false, false, false, false, false, false, false,\n	false, false, false, false, false, false, false, false,\n	false, false, false, false, false, false, false, false,\n\n	false, false, false, false, false, false, false, false,\n	false, false, false, false, false, false, false, false,\n	false, false, false, false, false, false, false, false,\n	false, false, false, false, false, false, false, false,\n\n	false, false, false, false, false, false, false, false,\n	false, false, false, false, false, false, false, false,\n	false, false, false, false, false, false, false, false,\n	false, false, false, false, false, false, false, false,\n\n	false, false, false, false, false, false, false, false,\n	false, false, false, false, false, false, false, false,\n	false, false, false, false, false, false, false, false,\n	false, false, false, false, false, false, false, false,\n}\n\nvar identifierTable", New: "	false, false, false, false, true, false, false, false, // $\n	false, false, false, false, false, false, false, false,\n	false, false, false, false, false, false, false, false,\n	false, false, false, false, false, false, false, false,\n\n	false, true, true, true, true, true, true, true, // A, B, C, D, E, F, G\n	true, true, true, true, true, true, true, true, // H, I, J, K, L, M, N, O\n	true, true, true, true, true, true, true, true, // P, Q, R, S, T, U, V, W\n	true, true, true, false, false, false, false, false, // X, Y, Z, _\n\n	false, true, true, true, true, true, true, true, // a, b, c, d, e, f, g\n	true, true, true, true, true, true, true, true, // h, i, j, k, l, m, n, o\n	true, true, true, true, true, true, true, true, // p, q, r, s, t, u, v, w\n	true, true, true, false, false, false, false, false, // x, y, z\n\n	// non-ASCII\n	false, false, false, false, false, false, false, false,\n	false, false, false, false, false, false, false, false,\n	false, false, false, false, false, false, false, false,\n	false, false, false, false, false, false, false, false,\n\n	false, false, false, false, false, false, false, false,\n	false, false, false, false, false, false, false, false,\n	false, false, false, false, false, false, false, false,\n	false, false, false, false, false, false, false, false,\n\n	false, false, false, false, false, false, false, false,\n	false, false, false, false, false, false, false, false,\n	false, false, false, false, false, false, false, false,\n	false, false, false, false, false, false, false, false,\n\n	false, false, false, false, false, false, false, false,\n	false, false, false, false, false, false, false, false,\n	false, false, false, false, false, false, false, false,\n	false, false, false, false, false, false, false, false,\n}\n\nvar identifierTable", Why: "'_' dropped from identifierStartTable"},
	{Rule: "T-LENUINT", File: "strconv/int.go", Old: "	case i < 10000000:\n		return 7", New: "	case i < 10000000:\n		return 8", Why: "digit-count rung off by one"},
	{Rule: "T-POW10", File: "strconv/float.go", Old: "1e10, 1e11, 1e12,", New: "1e10, 1e11, 1e13,", Why: "power-of-ten table entry wrong"},
	{Rule: "T-HASH", File: "html/hash.go", Old: "Script    Hash = 0xa06  // script", New: "Script    Hash = 0xa05  // script", Why: "hash constant length corrupted", Props: []string{"C16", "C09"}},
	{Rule: "T-HASH", File: "css/hash.go", Old: "	0x2: 0x2605, // media", New: "	0x2: 0x2606, // media", Why: "hash table slot corrupted", Props: []string{"C16", "C08"}},
	{Rule: "T-TABLES", File: "util.go", Old: "	false, true, true, false, true, true, false, false, // tab, new line, form feed, carriage return\n	false, false, false, false, false, false, false, false,\n	false, false, false, false, false, false, false, false,\n\n	true, false,", New: "	false, true, true, true, true, true, false, false, // tab, new line, form feed, carriage return\n	false, false, false, false, false, false, false, false,\n	false, false, false, false, false, false, false, false,\n\n	true, false,", Why: "vertical tab added to whitespaceTable"},
	// structural
	{Rule: "R-WALK", File: "js/walk.go", Old: "		Walk(v, n.Body)\n		Walk(v, n.Else)\n		Walk(v, n.Cond)", New: "		Walk(v, n.Body)\n		Walk(v, n.Cond)", Why: "IfStmt.Else no longer walked"},
	{Rule: "R-WALK", File: "js/walk.go", Old: "	case *GroupExpr:\n		Walk(v, n.X)\n", New: "", Why: "arm for *GroupExpr removed"},
	{Rule: "R-WALKORDER", File: "js/walk.go", Old: "	defer v.Exit(n)\n", New: "	v.Exit(n)\n", Why: "Exit no longer deferred"},
	{Rule: "R-SEEK", File: "binary.go", Old: "if r.pos+off < 0 || r.f.Len() < r.pos+off {", New: "if r.pos+off < 0 {", Why: "upper bound of SeekCurrent dropped"},
	{Rule: "R-EOFSTRICT", File: "binary.go", Old: "} else if int64(len(r.data))-off < n {", New: "} else if int64(len(r.data))-off <= n {", Why: "exact-fit read reports EOF"},
	{Rule: "R-BITIDX", File: "binary.go", Old: "uint32(len(r.buf)) <= r.pos/8", New: "uint32(len(r.buf)) <= (r.pos+1)/8", Why: "last bit unreachable"},
	{Rule: "R-LAYOUT", File: "binary.go", Old: "return uint16(data[1])<<8 | uint16(data[0])", New: "return uint16(data[0])<<8 | uint16(data[1])", Why: "little-endian read uses big-endian layout"},
	{Rule: "R-READPOS", File: "binary.go", Old: "	data, err := r.f.Bytes(b, int64(len(b)), off)\n	return len(data), err", New: "	data, err := r.f.Bytes(b, int64(len(b)), off)\n	r.pos = off + int64(len(data))\n	return len(data), err", Why: "ReadAt moves the position"},
	{Rule: "R-SEEKREAD", File: "binary.go", Old: "	if _, err := r.r.Seek(off, 0); err != nil {\n		r.mu.Unlock()\n		return nil, err\n	}\n", New: "", Why: "read without seeking"},
	{Rule: "R-INPUT", File: "input.go", Old: "return z.buf[z.start:z.pos:z.pos]\n}", New: "return z.buf[z.start:z.pos]\n}", Why: "Lexeme no longer capped"},
	{Rule: "R-PEEKRUNE", File: "input.go", Old: "} else if c < 0xE0 || len(z.buf)-1-z.pos-pos < 3 {", New: "} else if c < 0xE0 || len(z.buf)-1-z.pos < 3 {", Why: "guard ignores the position argument"},
	{Rule: "R-BORROW", File: "input.go", Old: "		if cap(b) > n {", New: "		if cap(b) >= n {", Why: "terminator written without spare capacity check"},
	{Rule: "R-CTORERR", File: "input.go", Old: "				return &Input{\n					buf: nullBuffer,\n					err: err,\n				}", New: "				z := NewInputBytes(b)\n				z.err = err\n				return z", Why: "partial data kept on reader failure"},
	{Rule: "R-REBASE", File: "buffer/streamlexer.go", Old: "	z.prevStart -= z.start\n", New: "", Why: "prevStart not re-based"},
	{Rule: "R-STREAMERR", File: "buffer/streamlexer.go", Old: "if z.err == io.EOF && z.pos < len(z.buf) {", New: "if z.err == io.EOF && z.pos <= len(z.buf) {", Why: "EOF hidden at the end"},
	{Rule: "R-STREAMBUF", File: "buffer/streamlexer.go", Old: "buf := z.pool.swap(z.buf[:z.start], c)", New: "buf := z.pool.swap(z.buf, c)", Why: "whole buffer retired"},
	// call graph / globals / errors
	{Rule: "R-RECURSE", File: "js/parse.go", Old: "	// binding patterns nest recursively, count them as nested expressions\n	p.exprLevel++\n	if NestedExprLimit < p.exprLevel {\n		p.failMessage(\"too many nested expressions\")\n		return nil\n	}\n	binding = p.parseBindingPattern(decl)\n	p.exprLevel--\n	return binding", New: "	binding = p.parseBindingPattern(decl)\n	return binding", Why: "depth guard of binding patterns removed"},
	{Rule: "R-ITERDEEP", File: "js/parse.go", Old: "		if 1000 < p.exprLevel+i {\n			p.failMessage(\"too many nested expressions\")\n			return nil\n		}\n", New: "", Why: "iteration counter check removed"},
	{Rule: "R-GLOBALS", File: "html/util.go", Old: "	if n > cap(*buf) {\n		*buf = make([]byte, 0, n) // maximum size, not actual size\n	}\n	t := (*buf)[:n] // maximum size, not actual size\n	t[0] = quote", New: "	if n > cap(doubleQuoteEntityBytes) {\n		doubleQuoteEntityBytes = make([]byte, 0, n)\n	}\n	t := doubleQuoteEntityBytes[:n]\n	t[0] = quote", Why: "package-level slice used as scratch buffer"},
	{Rule: "R-NOSHARE", File: "css/parse.go", Old: "		state: make([]State, 0, 4),", New: "		state: sharedStates[:0],", Why: "constructor captures package-level memory (variable added below)"},
	{Rule: "R-ERRCTOR", File: "error.go", Old: "	offset := l.Offset()\n", New: "	offset := l.Offset() - l.Pos()\n", Why: "lexer errors report the token start instead of the cursor"},
	{Rule: "R-REUSE", File: "css/util.go", Old: "	l.consumeIdentToken()\n", New: "	l.consumeIdentlike()\n", Why: "IsIdent uses another scanner"},
	// path rules
	{Rule: "R-LEVEL", File: "js/parse.go", Old: "		left = p.scope.Use(p.data)\n		p.next()\n		suffix := p.parseExpressionSuffix(left, prec, precLeft)\n		p.exprLevel--\n		return suffix", New: "		left = p.scope.Use(p.data)\n		p.next()\n		return p.parseExpressionSuffix(left, prec, precLeft)", Why: "decrement dropped on the identifier fast path"},
	{Rule: "R-SCOPE", File: "js/parse.go", Old: "	parent := p.enterScope(&blockStmt.Scope, false)\n	blockStmt.List = p.parseStmtList(in)\n	p.exitScope(parent)", New: "	parent := p.enterScope(&blockStmt.Scope, false)\n	blockStmt.List = p.parseStmtList(in)\n	if len(blockStmt.List) != 0 {\n		p.exitScope(parent)\n	}", Why: "scope left open for empty blocks"},
	{Rule: "R-CTX", File: "js/parse.go", Old: "		prevIn := p.in\n		p.in = true\n		left = p.parseClassExpr()\n		p.in = prevIn", New: "		prevIn := p.in\n		p.in = true\n		left = p.parseClassExpr()\n		if left != nil {\n			p.in = prevIn\n		}", Why: "in flag restored only on one branch"},
	{Rule: "R-DECLCHK", File: "js/parse.go", Old: "			funcDecl.Name, ok = p.scope.Declare(FunctionDecl, p.data)\n			if !ok {", New: "			funcDecl.Name, ok = p.scope.Declare(FunctionDecl, p.data)\n			if !ok && false {", Why: "redeclaration error suppressed"},
	{Rule: "R-ERRTREE", File: "js/parse.go", Old: "	if p.err != nil {\n		offset := p.l.r.Offset() - len(p.data)", New: "	if p.err != nil && len(ast.List) == 0 {\n		offset := p.l.r.Offset() - len(p.data)", Why: "partial tree returned despite an error"},
	{Rule: "R-MARK", File: "js/parse.go", Old: "			if p.consume(in, CloseParenToken) {\n				p.scope.MarkFuncArgs()\n			}\n			return", New: "			p.consume(in, CloseParenToken)\n			return", Why: "MarkFuncArgs skipped after a rest parameter"},
	{Rule: "R-PREC", File: "js/parse.go", Old: "			left = &BinaryExpr{tt, left, p.parseExpression(OpMul)}\n			precLeft = OpAdd", New: "			left = &BinaryExpr{tt, left, p.parseExpression(OpAdd)}\n			precLeft = OpAdd", Why: "a-b-c groups to the right"},
	{Rule: "R-ASSERT", File: "js/ast.go", Old: "} else if ok && n.Op == NotToken && lit.TokenType == IntegerToken", New: "} else if n.Op == NotToken && lit.TokenType == IntegerToken", Why: "ok no longer checked"},
	{Rule: "R-NILFIELD", File: "js/ast.go", Old: "	if n.Cond != nil {\n		n.Cond.JS(w)\n	}\n	w.Write([]byte(\"; \"))", New: "	n.Cond.JS(w)\n	w.Write([]byte(\"; \"))", Why: "optional ForStmt.Cond used without nil test"},
	{Rule: "R-INDENT", File: "js/ast.go", Old: "func (n LiteralExpr) JS(w io.Writer) {\n	if wi, ok := w.(parse.Indenter); ok {\n		w = wi.Writer\n	}\n	w.Write(n.Data)", New: "func (n LiteralExpr) JS(w io.Writer) {\n	w.Write(n.Data)", Why: "literal written through the Indenter"},
	{Rule: "R-STACK", File: "css/parse.go", Old: "				if 1 < len(p.state) {\n					p.state = p.state[:len(p.state)-1]\n				}\n				p.err, p.errPos = \"unexpected ending in at rule\", p.l.r.Offset()", New: "				p.state = p.state[:len(p.state)-1]\n				p.err, p.errPos = \"unexpected ending in at rule\", p.l.r.Offset()", Why: "unguarded pop outside a state function", Props: []string{"C08", "C01"}},
	{Rule: "R-STACK", File: "json/parse.go", Old: "		if state != ObjectKeyState {\n			p.err = parse.NewErrorLexer(p.r, \"unexpected right brace character\")\n			return ErrorGrammar, nil\n		}\n", New: "", Why: "closing brace pops without checking the container kind", Props: []string{"C10", "C01"}},
	{Rule: "R-JSONKEY", File: "json/parse.go", Old: "	} else if c == '[' && state != ObjectKeyState {", New: "	} else if c == '[' {", Why: "array accepted in object-key position"},
	{Rule: "R-BEGINEND", File: "css/parse.go", Old: "		p.state = p.state[:len(p.state)-1]\n		p.keepWS = false\n		return EndAtRuleGrammar", New: "		p.state = p.state[:len(p.state)-1]\n		p.keepWS = false\n		return EndRulesetGrammar", Why: "wrong End unit after pop"},
	{Rule: "R-EOFNEST", File: "css/parse.go", Only: "cssparser", Silent: true, Old: "	p.tt, p.data = tt, data\n	for {\n		if (tt == SemicolonToken || tt == RightBraceToken) && p.level == 0 || tt == ErrorToken {\n			p.prevEnd = (tt == RightBraceToken)\n			if tt == SemicolonToken {\n				p.pushBuf(tt, data)\n			}\n			return ErrorGrammar\n		} else if tt == LeftParenthesisToken || tt == LeftBraceToken || tt == LeftBracketToken || tt == FunctionToken {\n			p.level++\n		} else if tt == RightParenthesisToken || tt == RightBraceToken || tt == RightBracketToken {\n			p.level--\n		}\n", New: "	p.tt, p.data = tt, data\n	for {\n		switch {\n		case (tt == SemicolonToken || tt == RightBraceToken) && p.level == 0 || tt == ErrorToken:\n			p.prevEnd = (tt == RightBraceToken)\n			if tt == SemicolonToken {\n				p.pushBuf(tt, data)\n			}\n			return ErrorGrammar\n		case tt == LeftParenthesisToken || tt == LeftBraceToken || tt == LeftBracketToken || tt == FunctionToken:\n			p.level++\n		case tt == RightParenthesisToken || tt == RightBraceToken || tt == RightBracketToken:\n			p.level--\n		}\n", Why: "if-chain of parseDeclarationError as a tagless switch (materialised case conditions must not multiply the partitions)"},
	{Rule: "R-EOFNEST", File: "css/parse.go", Only: "cssparser", Old: "		if tt, data := p.popToken(false); tt != ErrorToken {\n			p.tt = tt\n			p.data = append(p.data, data...)\n		}", New: "		tt, data := p.popToken(false)\n		p.tt = tt\n		p.data = append(p.data, data...)", Why: "end of input merged into the '*' hack"},
	{Rule: "R-PREC", File: "js/parse.go", Old: "		left = &UnaryExpr{PreIncrToken, p.parseExpression(OpUnary)}\n		precLeft = OpUpdate", New: "		left = &UnaryExpr{PreIncrToken, p.parseExpression(OpUnary)}\n		precLeft = OpUnary", Why: "prefix ++ treated as a UnaryExpression (++a ** b rejected)"},
	{Rule: "R-INCTX", File: "js/parse.go", Old: "			prevIn := p.in\n			p.in = true\n			left = &IndexExpr{left, p.parseExpression(OpExpr), precLeft, false}", New: "			prevIn := p.in\n			left = &IndexExpr{left, p.parseExpression(OpExpr), precLeft, false}", Why: "index expression parsed without [In]"},
	{Rule: "R-WALK", File: "js/parse.go", Old: "			newExpr := &NewExpr{p.parseExpression(OpNew), nil}", New: "			newExpr := NewExpr{X: p.parseExpression(OpNew)}", Why: "a node value (not a pointer) is stored in the tree"},
	{Rule: "T-HASH", File: "html/hash.go", Old: "	if start+n > uint32(len(_Hash_text)) {", New: "	if start+n >= uint32(len(_Hash_text)) {", Props: []string{"C09", "C16"}, Why: "Hash.Bytes() rejects the entry packed last in the text table"},
	// bounds engine
	{Rule: "R-BOUNDS", File: "common.go", Old: "		if i >= len(b) || b[i] < '0' || b[i] > '9' {", New: "		if i > len(b) || b[i] < '0' || b[i] > '9' {", Props: []string{"C16"}, Why: "Number reads one byte past the exponent sign"},
	{Rule: "R-BOUNDS", File: "common.go", Old: "	if num == 0 || num == len(b) {", New: "	if num == 0 {", Props: []string{"C16"}, Why: "Dimension indexes the byte after a number that spans the argument"},
	{Rule: "R-BOUNDS", File: "common.go", Old: "	for i := 3; i < n; i++ { // mimetype", New: "	for i := 3; i <= n; i++ { // mimetype", Props: []string{"C16"}, Why: "Mediatype scans one byte too far"},
	{Rule: "R-BOUNDS", File: "common.go", Old: "		if b[i] == '%' && i+2 < len(b) {", New: "		if b[i] == '%' && i+1 < len(b) {", Props: []string{"C16"}, Why: "DecodeURL reads the second hex digit past the end"},
	{Rule: "R-BOUNDS", File: "strconv/float.go", Old: "	} else if -22 <= exp && exp < 0 { // int / 10^k\n		return f / float64pow10[-exp], i\n	}\n	if f == 0.0 {", New: "	} else if -23 <= exp && exp < 0 { // int / 10^k\n		return f / float64pow10[-exp], i\n	}\n	if f == 0.0 {", Props: []string{"C14"}, Why: "power-of-ten table indexed at 23"},
	{Rule: "R-EOFKIND", File: "buffer/streamlexer.go", Old: "\tvar n int\n\tfor pos-z.start >= d && z.err == nil {\n\t\tn, z.err = z.r.Read(buf[d:cap(buf)])\n\t\td += n\n\t}\n", New: "\tvar n int\n\tif pos-z.start >= d {\n\t\tn, z.err = io.ReadAtLeast(z.r, buf[d:cap(buf)], pos-z.start-d+1)\n\t\td += n\n\t}\n", Props: []string{"C13"}, Why: "StreamLexer refill through io.ReadAtLeast: a stream that ends inside the requested range leaves io.ErrUnexpectedEOF in Err()"},
	{Rule: "R-EOFKIND", File: "buffer/streamlexer.go", Old: "\tvar n int\n\tfor pos-z.start >= d && z.err == nil {\n\t\tn, z.err = z.r.Read(buf[d:cap(buf)])\n\t\td += n\n\t}\n", New: "\tvar n int\n\tif pos-z.start >= d {\n\t\tn, z.err = io.ReadAtLeast(z.r, buf[d:cap(buf)], pos-z.start-d+1)\n\t\tif z.err == io.ErrUnexpectedEOF {\n\t\t\tz.err = io.EOF\n\t\t}\n\t\td += n\n\t}\n", Props: []string{"C13"}, Silent: true, Why: "refill through io.ReadAtLeast with io.ErrUnexpectedEOF translated to io.EOF"},
	{Rule: "R-EOFKIND", File: "binary.go", Old: "\tfor i := 0; i < int(n); {\n\t\tm, err := r.r.Read(b[i:])\n\t\tr.pos += int64(m)\n\t\ti += m\n\t\tif err != nil {\n\t\t\treturn b[:i], err\n\t\t} else if m == 0 {\n\t\t\treturn b[:i], errors.New(\"reader: could not read all bytes\")\n\t\t}\n\t}\n\treturn b, nil\n}", New: "\tm, err := io.ReadFull(r.r, b[:n])\n\tr.pos += int64(m)\n\treturn b[:m], err\n}", Props: []string{"C19"}, Why: "io.Reader back end filled with io.ReadFull: truncation inside a value reports io.ErrUnexpectedEOF instead of io.EOF"},
	{Rule: "R-EOFKIND", File: "binary.go", Old: "\tfor i := 0; i < int(n); {\n\t\tm, err := r.r.Read(b[i:])\n\t\tr.pos += int64(m)\n\t\ti += m\n\t\tif err != nil {\n\t\t\treturn b[:i], err\n\t\t} else if m == 0 {\n\t\t\treturn b[:i], errors.New(\"reader: could not read all bytes\")\n\t\t}\n\t}\n\treturn b, nil\n}", New: "\tm, err := io.ReadFull(r.r, b[:n])\n\tr.pos += int64(m)\n\tif err == io.ErrUnexpectedEOF {\n\t\terr = io.EOF\n\t}\n\treturn b[:m], err\n}", Props: []string{"C19"}, Silent: true, Why: "io.ReadFull with io.ErrUnexpectedEOF translated to io.EOF"},
	{Rule: "R-OVF", File: "strconv/int.go", Old: "// ParseInt parses a byte-slice and returns the integer it represents.\n// If an invalid character is encountered, it will stop there.\nfunc ParseInt(b []byte) (int64, int) {\n\ti := 0\n\tneg := false\n\tif len(b) > 0 && (b[0] == '+' || b[0] == '-') {\n\t\tneg = b[0] == '-'\n\t\ti++\n\t}\n\tstart := i\n\tn := uint64(0)\n\tfor i < len(b) {\n\t\tc := b[i]\n\t\tif '0' <= c && c <= '9' {\n\t\t\tif uint64(-math.MinInt64)/10 < n || uint64(-math.MinInt64)-uint64(c-'0') < n*10 {\n\t\t\t\treturn 0, 0\n\t\t\t}\n\t\t\tn *= 10\n\t\t\tn += uint64(c - '0')\n\t\t} else {\n\t\t\tbreak\n\t\t}\n\t\ti++\n\t}\n\tif i == start {\n\t\treturn 0, 0\n\t}\n\tif !neg && uint64(math.MaxInt64) < n {\n\t\treturn 0, 0\n\t} else if neg {\n\t\treturn -int64(n), i\n\t}\n\treturn int64(n), i\n}\n\n// ParseUint parses a byte-slice and returns the integer it represents.\n// If an invalid character is encountered, it will stop there.\nfunc ParseUint(b []byte) (uint64, int) {\n\ti := 0\n\tn := uint64(0)\n\tfor i < len(b) {\n\t\tc := b[i]\n\t\tif '0' <= c && c <= '9' {\n\t\t\tif math.MaxUint64/10 < n || math.MaxUint64-uint64(c-'0') < n*10 {\n\t\t\t\treturn 0, 0\n\t\t\t}\n\t\t\tn *= 10\n\t\t\tn += uint64(c - '0')\n\t\t} else {\n\t\t\tbreak\n\t\t}\n\t\ti++\n\t}\n\treturn n, i\n}\n\n", New: "// parseDigits parses the leading decimal digits of b into an unsigned integer\n// that may not exceed limit. It returns (0, 0) when there are no digits or when\n// the value would exceed limit.\nfunc parseDigits(b []byte, limit uint64) (uint64, int) {\n\ti := 0\n\tn := uint64(0)\n\tfor i < len(b) {\n\t\tc := b[i]\n\t\tif c < '0' || '9' < c {\n\t\t\tbreak\n\t\t}\n\t\td := uint64(c - '0')\n\t\tif limit/10 < n || limit-d < n*10 {\n\t\t\treturn 0, 0\n\t\t}\n\t\tn = n*10 + d\n\t\ti++\n\t}\n\treturn n, i\n}\n\n// ParseInt parses a byte-slice and returns the integer it represents.\n// If an invalid character is encountered, it will stop there.\nfunc ParseInt(b []byte) (int64, int) {\n\ti := 0\n\tneg := false\n\tlimit := uint64(math.MaxInt64)\n\tif len(b) > 0 && (b[0] == '+' || b[0] == '-') {\n\t\tneg = b[0] == '-'\n\t\tlimit++ // magnitude of math.MinInt64\n\t\ti++\n\t}\n\tn, k := parseDigits(b[i:], limit)\n\tif k == 0 {\n\t\treturn 0, 0\n\t}\n\tif neg {\n\t\treturn -int64(n), i + k\n\t}\n\treturn int64(n), i + k\n}\n\n// ParseUint parses a byte-slice and returns the integer it represents.\n// If an invalid character is encountered, it will stop there.\nfunc ParseUint(b []byte) (uint64, int) {\n\treturn parseDigits(b, math.MaxUint64)\n}\n\n", Props: []string{"C14"}, Why: "shared digit helper with a limit argument: ParseInt passes 2^63 for an explicit + as well, and converts the result without a range check"},
	{Rule: "R-OVF", File: "strconv/int.go", Old: "// ParseInt parses a byte-slice and returns the integer it represents.\n// If an invalid character is encountered, it will stop there.\nfunc ParseInt(b []byte) (int64, int) {\n\ti := 0\n\tneg := false\n\tif len(b) > 0 && (b[0] == '+' || b[0] == '-') {\n\t\tneg = b[0] == '-'\n\t\ti++\n\t}\n\tstart := i\n\tn := uint64(0)\n\tfor i < len(b) {\n\t\tc := b[i]\n\t\tif '0' <= c && c <= '9' {\n\t\t\tif uint64(-math.MinInt64)/10 < n || uint64(-math.MinInt64)-uint64(c-'0') < n*10 {\n\t\t\t\treturn 0, 0\n\t\t\t}\n\t\t\tn *= 10\n\t\t\tn += uint64(c - '0')\n\t\t} else {\n\t\t\tbreak\n\t\t}\n\t\ti++\n\t}\n\tif i == start {\n\t\treturn 0, 0\n\t}\n\tif !neg && uint64(math.MaxInt64) < n {\n\t\treturn 0, 0\n\t} else if neg {\n\t\treturn -int64(n), i\n\t}\n\treturn int64(n), i\n}\n\n// ParseUint parses a byte-slice and returns the integer it represents.\n// If an invalid character is encountered, it will stop there.\nfunc ParseUint(b []byte) (uint64, int) {\n\ti := 0\n\tn := uint64(0)\n\tfor i < len(b) {\n\t\tc := b[i]\n\t\tif '0' <= c && c <= '9' {\n\t\t\tif math.MaxUint64/10 < n || math.MaxUint64-uint64(c-'0') < n*10 {\n\t\t\t\treturn 0, 0\n\t\t\t}\n\t\t\tn *= 10\n\t\t\tn += uint64(c - '0')\n\t\t} else {\n\t\t\tbreak\n\t\t}\n\t\ti++\n\t}\n\treturn n, i\n}\n\n", New: "// parseDigits parses the leading decimal digits of b into an unsigned integer\n// that may not exceed limit. It returns (0, 0) when there are no digits or when\n// the value would exceed limit.\nfunc parseDigits(b []byte, limit uint64) (uint64, int) {\n\ti := 0\n\tn := uint64(0)\n\tfor i < len(b) {\n\t\tc := b[i]\n\t\tif c < '0' || '9' < c {\n\t\t\tbreak\n\t\t}\n\t\td := uint64(c - '0')\n\t\tif limit/10 < n || limit-d < n*10 {\n\t\t\treturn 0, 0\n\t\t}\n\t\tn = n*10 + d\n\t\ti++\n\t}\n\treturn n, i\n}\n\n// ParseInt parses a byte-slice and returns the integer it represents.\n// If an invalid character is encountered, it will stop there.\nfunc ParseInt(b []byte) (int64, int) {\n\ti := 0\n\tneg := false\n\tlimit := uint64(math.MaxInt64)\n\tif len(b) > 0 && (b[0] == '+' || b[0] == '-') {\n\t\tneg = b[0] == '-'\n\t\tif neg {\n\t\t\tlimit++ // magnitude of math.MinInt64\n\t\t}\n\t\ti++\n\t}\n\tn, k := parseDigits(b[i:], limit)\n\tif k == 0 {\n\t\treturn 0, 0\n\t}\n\tif neg {\n\t\treturn -int64(n), i + k\n\t}\n\treturn int64(n), i + k\n}\n\n// ParseUint parses a byte-slice and returns the integer it represents.\n// If an invalid character is encountered, it will stop there.\nfunc ParseUint(b []byte) (uint64, int) {\n\treturn parseDigits(b, math.MaxUint64)\n}\n\n", Props: []string{"C14"}, Silent: true, Why: "shared digit helper with a per-sign limit chosen by neg (the limit argument is a phi correlated with the sign)"},
	{Rule: "R-OVF", File: "strconv/int.go", Old: "func ParseUint(b []byte) (uint64, int) {\n\ti := 0\n\tn := uint64(0)\n\tfor i < len(b) {\n\t\tc := b[i]\n\t\tif '0' <= c && c <= '9' {\n\t\t\tif math.MaxUint64/10 < n || math.MaxUint64-uint64(c-'0') < n*10 {\n\t\t\t\treturn 0, 0\n\t\t\t}\n\t\t\tn *= 10\n\t\t\tn += uint64(c - '0')\n\t\t} else {\n\t\t\tbreak\n\t\t}\n\t\ti++\n\t}\n\treturn n, i\n}\n", New: "func ParseUint(b []byte) (uint64, int) {\n\tn, i, ok := scanU(b, math.MaxUint64)\n\tif !ok {\n\t\treturn 0, 0\n\t}\n\treturn n, i\n}\n\nfunc scanU(b []byte, max uint64) (uint64, int, bool) {\n\ti := 0\n\tn := uint64(0)\n\tfor ; i < len(b); i++ {\n\t\tc := b[i]\n\t\tif c < '0' || '9' < c {\n\t\t\tbreak\n\t\t}\n\t\td := uint64(c - '0')\n\t\tif max/10 < n || max-d < n*10 {\n\t\t\treturn 0, 0, false\n\t\t}\n\t\tn = n*10 + d\n\t}\n\treturn n, i, true\n}\n", Props: []string{"C14"}, Silent: true, Why: "ParseUint through a scan helper with a limit parameter (limit bounded from the call site)"},
	{Rule: "R-OVF", File: "strconv/int.go", Old: "func ParseUint(b []byte) (uint64, int) {\n\ti := 0\n\tn := uint64(0)\n\tfor i < len(b) {\n\t\tc := b[i]\n\t\tif '0' <= c && c <= '9' {\n\t\t\tif math.MaxUint64/10 < n || math.MaxUint64-uint64(c-'0') < n*10 {\n\t\t\t\treturn 0, 0\n\t\t\t}\n\t\t\tn *= 10\n\t\t\tn += uint64(c - '0')\n\t\t} else {\n\t\t\tbreak\n\t\t}\n\t\ti++\n\t}\n\treturn n, i\n}\n", New: "func ParseUint(b []byte) (uint64, int) {\n\tn, i, ok := scanU(b, math.MaxUint64)\n\tif !ok {\n\t\treturn 0, 0\n\t}\n\treturn n, i\n}\n\nfunc scanU(b []byte, max uint64) (uint64, int, bool) {\n\ti := 0\n\tn := uint64(0)\n\tfor ; i < len(b); i++ {\n\t\tc := b[i]\n\t\tif c < '0' || '9' < c {\n\t\t\tbreak\n\t\t}\n\t\td := uint64(c - '0')\n\t\tif max/10 < n {\n\t\t\treturn 0, 0, false\n\t\t}\n\t\tn = n*10 + d\n\t}\n\treturn n, i, true\n}\n", Props: []string{"C14"}, Why: "scan helper with a limit parameter whose guard lost its second half: the sum wraps"},
	{Rule: "R-OVF", File: "strconv/int.go", Old: "\t\t\tif math.MaxUint64/10 < n || math.MaxUint64-uint64(c-'0') < n*10 {\n\t\t\t\treturn 0, 0\n\t\t\t}\n\t\t\tn *= 10\n\t\t\tn += uint64(c - '0')", New: "\t\t\tif n > math.MaxUint64/10 {\n\t\t\t\treturn 0, 0\n\t\t\t}\n\t\t\tn10 := n * 10\n\t\t\tn1 := n10 + uint64(c-'0')\n\t\t\tif n1 < n10 {\n\t\t\t\treturn 0, 0\n\t\t\t}\n\t\t\tn = n1", Props: []string{"C14"}, Silent: true, Why: "ParseUint: the sum is computed first and discarded when it wrapped (n1 < n10)"},
	{Rule: "R-OVF", File: "strconv/int.go", Old: "\t\t\tif math.MaxUint64/10 < n || math.MaxUint64-uint64(c-'0') < n*10 {\n\t\t\t\treturn 0, 0\n\t\t\t}\n\t\t\tn *= 10\n\t\t\tn += uint64(c - '0')", New: "\t\t\td := uint64(c - '0')\n\t\t\tif (math.MaxUint64-d)/10 < n {\n\t\t\t\treturn 0, 0\n\t\t\t}\n\t\t\tn = n*10 + d", Props: []string{"C14"}, Silent: true, Why: "ParseUint: single-division guard (max-d)/10 < n"},
	{Rule: "R-OVF", File: "strconv/int.go", Old: "\t\t\tif math.MaxUint64/10 < n || math.MaxUint64-uint64(c-'0') < n*10 {\n\t\t\t\treturn 0, 0\n\t\t\t}\n\t\t\tn *= 10\n\t\t\tn += uint64(c - '0')", New: "\t\t\td := uint64(c - '0')\n\t\t\tif (math.MaxUint64-d)/10+1 < n {\n\t\t\t\treturn 0, 0\n\t\t\t}\n\t\t\tn = n*10 + d", Props: []string{"C14"}, Why: "ParseUint: single-division guard off by one, the sum wraps"},
	{Rule: "R-OVF", File: "strconv/int.go", Old: "\tif !neg && uint64(math.MaxInt64) < n {\n\t\treturn 0, 0\n\t} else if neg {\n\t\treturn -int64(n), i\n\t}\n\treturn int64(n), i", New: "\tif neg {\n\t\treturn -int64(n), i\n\t}\n\treturn int64(n), i", Props: []string{"C14"}, Why: "ParseInt: positive range check dropped, 9223372036854775808 comes back as MinInt64"},
	{Rule: "R-OVF", File: "strconv/int.go", Old: "\tif !neg && uint64(math.MaxInt64) < n {\n\t\treturn 0, 0\n\t} else if neg {\n\t\treturn -int64(n), i\n\t}\n\treturn int64(n), i", New: "\tif neg && uint64(math.MaxInt64) < n {\n\t\treturn 0, 0\n\t} else if neg {\n\t\treturn -int64(n), i\n\t}\n\treturn int64(n), i", Props: []string{"C14"}, Why: "ParseInt: MaxInt64 limit attached to the negative sign"},
	{Rule: "R-OVF", File: "strconv/int.go", Old: "\tif !neg && uint64(math.MaxInt64) < n {\n\t\treturn 0, 0\n\t} else if neg {\n\t\treturn -int64(n), i\n\t}\n\treturn int64(n), i", New: "\tif neg {\n\t\tif uint64(-math.MinInt64) < n {\n\t\t\treturn 0, 0\n\t\t}\n\t\treturn -int64(n), i\n\t} else if uint64(math.MaxInt64) < n {\n\t\treturn 0, 0\n\t}\n\treturn int64(n), i", Props: []string{"C14"}, Silent: true, Why: "ParseInt: sign handling after the loop restructured per sign"},
	{Rule: "R-OVF", File: "strconv/int.go", Old: "\t\t\tif math.MaxUint64/10 < n || math.MaxUint64-uint64(c-'0') < n*10 {\n\t\t\t\treturn 0, 0", New: "\t\t\tif math.MaxUint64/10 < n {\n\t\t\t\treturn 0, 0", Props: []string{"C14"}, Why: "ParseUint: second half of the overflow guard dropped, n*10+d wraps for 1844674407370955161x"},
	{Rule: "R-OVF", File: "strconv/int.go", Old: "if uint64(-math.MinInt64)/10 < n || uint64(-math.MinInt64)-uint64(c-'0') < n*10 {", New: "if uint64(-math.MinInt64)/10 <= n || uint64(-math.MinInt64)-uint64(c-'0') < n*10 {", Props: []string{"C14"}, Why: "ParseInt refuses the digit after 922337203685477580 although -9223372036854775808 is representable"},
	{Rule: "R-OVF", File: "strconv/int.go", Old: "if uint64(-math.MinInt64)/10 < n || uint64(-math.MinInt64)-uint64(c-'0') < n*10 {", New: "if i-start == 19 {", Props: []string{"C14"}, Why: "ParseInt: digit-count early-out instead of the value guard (leading zeros are reported as overflow)"},
	{Rule: "R-OVF", File: "strconv/float.go", Old: "\t\t\t\tif math.MaxUint64/10 < n || math.MaxUint64-uint64(c-'0') < n*10 {\n\t\t\t\t\ttrunk = i", New: "\t\t\t\tif math.MaxUint64/9 < n || math.MaxUint64-uint64(c-'0') < n*10 {\n\t\t\t\t\ttrunk = i", Props: []string{"C14"}, Why: "ParseFloat: weakened limit lets the mantissa product wrap"},
	{Rule: "R-OVF", File: "strconv/int.go", Old: "\t\t\tif math.MaxUint64/10 < n || math.MaxUint64-uint64(c-'0') < n*10 {\n\t\t\t\treturn 0, 0\n\t\t\t}\n\t\t\tn *= 10\n\t\t\tn += uint64(c - '0')", New: "\t\t\td := uint64(c - '0')\n\t\t\tif n > math.MaxUint64/10 || n*10 > math.MaxUint64-d {\n\t\t\t\treturn 0, 0\n\t\t\t}\n\t\t\tn = n*10 + d", Props: []string{"C14"}, Silent: true, Why: "ParseUint guard with the digit hoisted, > instead of <, one multiply-add statement"},
	{Rule: "R-OVF", File: "strconv/int.go", Old: "\t\t\tif math.MaxUint64/10 < n || math.MaxUint64-uint64(c-'0') < n*10 {\n\t\t\t\treturn 0, 0", New: "\t\t\tif math.MaxUint64-uint64(c-'0') < n*10 || math.MaxUint64/10 < n {\n\t\t\t\treturn 0, 0", Props: []string{"C14"}, Silent: true, Why: "ParseUint guard with the disjuncts swapped: the guard's own product may wrap, the other disjunct catches exactly that case"},
	{Rule: "R-OVF", File: "strconv/int.go", Old: "if uint64(-math.MinInt64)/10 < n || uint64(-math.MinInt64)-uint64(c-'0') < n*10 {", New: "if n >= uint64(-math.MinInt64)/10+1 || uint64(-math.MinInt64)-uint64(c-'0') < n*10 {", Props: []string{"C14"}, Silent: true, Why: "ParseInt guard written with >= limit+1"},
	{Rule: "R-BOUNDS", File: "strconv/int.go", Old: "	for i < len(b) {\n		c := b[i]\n		if '0' <= c && c <= '9' {\n			if uint64(-math.MinInt64)", New: "	for i <= len(b) {\n		c := b[i]\n		if '0' <= c && c <= '9' {\n			if uint64(-math.MinInt64)", Props: []string{"C14"}, Why: "ParseInt reads past the end"},
	{Rule: "R-BOUNDS", File: "position.go", Old: "		if col <= limit-offset {", New: "		if col < offset {", Props: []string{"C15"}, Why: "context window may start before the line"},
	{Rule: "R-BOUNDS", File: "js/ast.go", Old: "	} else if len(ast.List) == 0 {\n		return nil\n	}\n	exprStmt, ok := ast.List[0].(*ExprStmt)", New: "	}\n	exprStmt, ok := ast.List[0].(*ExprStmt)", Props: []string{"C01"}, Why: "AST.JSON indexes an empty statement list"},
	{Rule: "R-BOUNDS", File: "binary.go", Old: "	data := r.ReadBytes(2)\n	if len(data) < 2 {", New: "	data := r.ReadBytes(2)\n	if len(data) < 1 {", Props: []string{"C19"}, Why: "ReadUint16 indexes the second byte of a short read"},
	{Rule: "R-BOUNDS", File: "js/walk.go", Old: "	case *BlockStmt:\n		if n.List != nil {\n			for i := 0; i < len(n.List); i++ {", New: "	case *BlockStmt:\n		if n.List != nil {\n			for i := 0; i <= len(n.List); i++ {", Props: []string{"C18", "C01"}, Why: "Walk indexes one past the statement list"},
	{Rule: "R-BOUNDS", File: "js/ast.go", Old: "	if 0 < len(n.List) && n.List[len(n.List)-1].Value == nil {\n		w.Write([]byte(\",\"))", New: "	if n.List[len(n.List)-1].Value == nil {\n		w.Write([]byte(\",\"))", Props: []string{"C05", "C01"}, Why: "ArrayExpr.JS indexes the last element of an empty array literal"},
	// engine rules
	{Rule: "R-CURSOR", File: "css/lex.go", Only: "css", Old: "		if c == 0 && l.r.Err() != nil {\n			break\n		} else if c == '\\n' || c == '\\r' || c == '\\f' {", New: "		if c == '\\n' || c == '\\r' || c == '\\f' {", Why: "string scanner no longer stops at the end of input"},
	{Rule: "R-CURSOR", File: "html/lex.go", Only: "html", Old: "			l.text = l.r.Lexeme()[2:]\n			l.r.Move(1)\n			return l.r.Shift()", New: "			l.text = l.r.Lexeme()[3:]\n			l.r.Move(1)\n			return l.r.Shift()", Why: "comment text sliced beyond a 2-byte token"},
	{Rule: "R-PROGRESS", File: "xml/lex.go", Only: "xml", Old: "		} else if c == 0 {\n			return l.r.Shift()\n		}\n		l.r.Move(1)\n	}\n}\n\nfunc (l *Lexer) shiftStartTag", New: "		} else if c == 0 {\n			return l.r.Shift()\n		} else if c == '-' {\n			continue\n		}\n		l.r.Move(1)\n	}\n}\n\nfunc (l *Lexer) shiftStartTag", Why: "comment scanner loops without moving"},
	{Rule: "R-EOF", File: "json/parse.go", Only: "json", Old: "		} else if c == 0 { // EOF\n			return ErrorGrammar, nil", New: "		} else if c == 0 { // EOF\n			return WhitespaceGrammar, nil", Why: "end of input not reported"},
	{Rule: "R-ERRMOVE", File: "js/lex.go", Only: "js", Old: "			l.err = parse.NewErrorLexer(l.r, \"invalid number\")\n", New: "", Why: "error token after consuming input without recording an error"},
	{Rule: "R-ERRMOVE", File: "css/lex.go", Only: "css", Old: "	case 0:\n		if l.r.Err() != nil {\n			return ErrorToken, nil\n		}\n", New: "	case 0:\n		return ErrorToken, nil\n", Props: []string{"C01"}, Why: "any NUL byte is taken for the end of input"},
	// behaviour-preserving rewrites that must stay silent (regression guards for the precision work of DESIGN.md section 13)
	{Rule: "R-INPUT", File: "input.go", Silent: true, Old: "	if z.err != nil {\n		return z.err\n	} else if len(z.buf)-1 <= z.pos+pos {\n		return io.EOF\n	}\n	return nil\n}", New: "	switch {\n	case z.err != nil:\n		return z.err\n	case z.atEnd(pos):\n		return io.EOF\n	}\n	return nil\n}\n\nfunc (z *Input) atEnd(i int) bool {\n	return len(z.buf)-1 <= z.pos+i\n}", Why: "PeekErr through a predicate helper and a tagless switch (behaviour-preserving)"},
	{Rule: "R-WALK", File: "js/walk.go", Silent: true, Old: "		for i := 0; i < len(n.List); i++ {\n			item := &n.List[i]\n			if item.StaticBlock != nil {\n				Walk(v, item.StaticBlock)\n			} else if item.Method != nil {\n				Walk(v, item.Method)\n			} else {\n				Walk(v, &item.Field)\n			}\n		}\n", New: "		for i := range n.List {\n			switch item := &n.List[i]; {\n			case item.StaticBlock != nil:\n				Walk(v, item.StaticBlock)\n			case item.Method != nil:\n				Walk(v, item.Method)\n			default:\n				Walk(v, &item.Field)\n			}\n		}\n", Why: "class elements walked in a range loop with a tagless switch that has an init statement"},
	{Rule: "R-WALK", File: "js/walk.go", Old: "		for i := 0; i < len(n.List); i++ {\n			item := &n.List[i]\n			if item.StaticBlock != nil {\n				Walk(v, item.StaticBlock)\n			} else if item.Method != nil {\n				Walk(v, item.Method)\n			} else {\n				Walk(v, &item.Field)\n			}\n		}\n", New: "		for i := range n.List {\n			switch item := &n.List[i]; {\n			case item.StaticBlock != nil:\n				Walk(v, item.StaticBlock)\n			default:\n				Walk(v, &item.Field)\n			}\n		}\n", Why: "the same switch form without the arm for methods"},
	{Rule: "R-WALK", File: "js/walk.go", Silent: true, Old: "	case *FuncDecl:\n		Walk(v, &n.Body)\n		Walk(v, &n.Params)\n", New: "	case *FuncDecl:\n		walkFuncParts(v, &n.Body, &n.Params)\n", Why: "function parts walked by a helper that receives their addresses (behaviour-preserving)"},
	{Rule: "R-JSONKEY", File: "json/parse.go", Silent: true, Old: "func (p *Parser) State() State {\n	return p.state[len(p.state)-1]\n}", New: "func (p *Parser) State() State {\n	return p.top()\n}\n\nfunc (p *Parser) top() State {\n	return p.state[len(p.state)-1]\n}", Why: "State() through an accessor of the top of the stack (behaviour-preserving)"},
	// operator levels as data (peval.go): the arm reads its levels from a look-up
	{Rule: "R-PREC", File: "js/parse.go", Silent: true, Old: "		case BitOrToken:\n			if OpBitOr < prec {\n				return left\n			} else if precLeft < OpBitOr {\n				p.fail(\"expression\")\n				return nil\n			}\n			p.next()\n			left = &BinaryExpr{tt, left, p.parseExpression(OpBitXor)}\n			precLeft = OpBitOr\n", New: "		case BitOrToken:\n			lv := levelsOfOp(tt)\n			if lv.prec < prec {\n				return left\n			} else if precLeft < lv.left {\n				p.fail(\"expression\")\n				return nil\n			}\n			p.next()\n			left = &BinaryExpr{tt, left, p.parseExpression(lv.right)}\n			precLeft = lv.prec\n", Why: "the | arm reads its levels from a look-up function (behaviour-preserving)"},
	{Rule: "R-PREC", File: "js/parse.go", Old: "		case BitOrToken:\n			if OpBitOr < prec {\n				return left\n			} else if precLeft < OpBitOr {\n				p.fail(\"expression\")\n				return nil\n			}\n			p.next()\n			left = &BinaryExpr{tt, left, p.parseExpression(OpBitXor)}\n			precLeft = OpBitOr\n", New: "		case BitOrToken:\n			lv := levelsOfOp(tt)\n			if lv.prec < prec {\n				return left\n			} else if precLeft < lv.left {\n				p.fail(\"expression\")\n				return nil\n			}\n			p.next()\n			left = &BinaryExpr{tt, left, p.parseExpression(lv.right)}\n			precLeft = lv.prec\n", Why: "the | arm reads its levels from a look-up function whose right-operand level is wrong"},
	// byte composition written as a loop over the width in a shared helper (peval.go with loops)
	{Rule: "R-LAYOUT", File: "binary.go", Silent: true, Old: "	data := r.ReadBytes(2)\n	if len(data) < 2 {\n		return 0\n	} else if r.ByteOrder == binary.LittleEndian {\n		return uint16(data[1])<<8 | uint16(data[0])\n	}\n	return uint16(data[0])<<8 | uint16(data[1])\n}", New: "	return uint16(r.readUintN(2))\n}", Why: "ReadUint16 through a loop over the width (behaviour-preserving)"},
	{Rule: "R-LAYOUT", File: "binary.go", Old: "	data := r.ReadBytes(2)\n	if len(data) < 2 {\n		return 0\n	} else if r.ByteOrder == binary.LittleEndian {\n		return uint16(data[1])<<8 | uint16(data[0])\n	}\n	return uint16(data[0])<<8 | uint16(data[1])\n}", New: "	return uint16(r.readUintN(2))\n}", Why: "ReadUint16 through a loop over the width with the byte orders exchanged"},
	// callback form of the traversal (walkEquivalents / cbParam): the visitor reaches the helper inside a closure
	{Rule: "R-WALK", File: "js/walk.go", Silent: true, Old: "	case *AST:\n		Walk(v, &n.BlockStmt)\n", New: "	case *AST:\n		eachASTChild(n, func(c INode) {\n			Walk(v, c)\n		})\n", Why: "children handed to a callback that walks them (behaviour-preserving)"},
	{Rule: "R-WALKORDER", File: "js/walk.go", Silent: true, Old: "	case *AST:\n		Walk(v, &n.BlockStmt)\n", New: "	case *AST:\n		eachASTChild(n, func(c INode) {\n			Walk(v, c)\n		})\n", Why: "children handed to a callback that walks them (behaviour-preserving) "},
	{Rule: "R-WALKORDER", File: "js/walk.go", Old: "	if v = v.Enter(n); v == nil {\n		return\n	}\n\n	defer v.Exit(n)\n\n	switch n := n.(type) {\n	case *AST:\n		Walk(v, &n.BlockStmt)\n", New: "	w := v.Enter(n)\n	if w == nil {\n		return\n	}\n	v, w = w, v\n\n	defer v.Exit(n)\n\n	switch n := n.(type) {\n	case *AST:\n		eachASTChild(n, func(c INode) {\n			Walk(w, c)\n		})\n", Why: "callback walks the children with the visitor Walk was called with, not the one Enter returned"},
	// tables computed by an initialiser closure (ssaeval.go) and tables written after initialisation (roglobal.go)
	{Rule: "R-CURSOR", File: "js/lex.go", Only: "js", Silent: true, Old: "var identifierTable = [256]bool{\n", New: "var identifierTable = func() (t [256]bool) {\n	t = identifierStartTable\n	for c := byte('0'); c <= '9'; c++ {\n		t[c] = true\n	}\n	return\n}()\n\nvar identifierTableLit = [256]bool{\n", Why: "identifier table computed by its initialiser from the start table (behaviour-preserving)"},
	{Rule: "R-CURSOR", File: "js/lex.go", Only: "js", Old: "var identifierTable = [256]bool{\n", New: "var identifierTable = func() (t [256]bool) {\n	t = identifierStartTable\n	for c := byte(0); c <= '9'; c++ {\n		t[c] = true\n	}\n	return\n}()\n\nvar identifierTableLit = [256]bool{\n", Why: "computed identifier table that includes the NUL byte"},
	{Rule: "R-CURSOR", File: "js/lex.go", Only: "js", Old: "var identifierTable = [256]bool{\n", New: "func init() {\n	identifierTable[0] = true\n}\n\nvar identifierTable = [256]bool{\n", Why: "identifier table changed by an init function after its literal"},
	// look-ahead index idiom (eng_idx.go): scan with Peek(n), move once — correct form must pass, the form that does not stop at NUL must not
	{Rule: "R-CURSOR", File: "json/parse.go", Only: "json", Silent: true, Old: "	for {\n		if c := p.r.Peek(0); c != ' ' && c != '\\n' && c != '\\r' && c != '\\t' {\n			break\n		}\n		p.r.Move(1)\n	}\n}", New: "	n := 0\n	for c := p.r.Peek(n); c == ' ' || c == '\\n' || c == '\\r' || c == '\\t'; c = p.r.Peek(n) {\n		n++\n	}\n	p.r.Move(n)\n}", Why: "whitespace skipped with a look-ahead index and one Move (behaviour-preserving)"},
	{Rule: "R-PROGRESS", File: "json/parse.go", Only: "json", Silent: true, Old: "	for {\n		if c := p.r.Peek(0); c != ' ' && c != '\\n' && c != '\\r' && c != '\\t' {\n			break\n		}\n		p.r.Move(1)\n	}\n}", New: "	n := 0\n	for c := p.r.Peek(n); c == ' ' || c == '\\n' || c == '\\r' || c == '\\t'; c = p.r.Peek(n) {\n		n++\n	}\n	p.r.Move(n)\n}", Why: "whitespace skipped with a look-ahead index and one Move (behaviour-preserving) "},
	{Rule: "R-CURSOR", File: "json/parse.go", Only: "json", Old: "	for {\n		if c := p.r.Peek(0); c != ' ' && c != '\\n' && c != '\\r' && c != '\\t' {\n			break\n		}\n		p.r.Move(1)\n	}\n}", New: "	n := 0\n	for c := p.r.Peek(n); c != '\"'; c = p.r.Peek(n) {\n		n++\n	}\n	p.r.Move(n)\n}", Why: "look-ahead index loop that does not stop at the terminator"},
	{Rule: "R-CURSOR", File: "json/parse.go", Only: "json", Old: "	for {\n		if c := p.r.Peek(0); c != ' ' && c != '\\n' && c != '\\r' && c != '\\t' {\n			break\n		}\n		p.r.Move(1)\n	}\n}", New: "	n := 0\n	for {\n		c := p.r.Peek(n)\n		n++\n		if c != ' ' && c != '\\n' && c != '\\r' && c != '\\t' {\n			break\n		}\n	}\n	p.r.Move(n)\n}", Why: "look-ahead index incremented past the byte that stopped the scan (moves over the terminator)"},
	{Rule: "R-SCOPEORDER", File: "js/parse.go", Old: "		init := p.parseExpression(OpExpr)\n		if !p.consume(\"switch statement\", CloseParenToken) {\n			return\n		}\n\n		// case block\n		if !p.consume(\"switch statement\", OpenBraceToken) {\n			return\n		}\n\n		switchStmt := &SwitchStmt{Init: init}\n		parent := p.enterScope(&switchStmt.Scope, false)\n", New: "		switchStmt := &SwitchStmt{}\n		parent := p.enterScope(&switchStmt.Scope, false)\n		switchStmt.Init = p.parseExpression(OpExpr)\n		if !p.consume(\"switch statement\", CloseParenToken) {\n			return\n		}\n\n		// case block\n		if !p.consume(\"switch statement\", OpenBraceToken) {\n			return\n		}\n", Why: "switch discriminant parsed inside the switch scope"},
	{Rule: "R-ERRSTUCK", File: "js/lex.go", Only: "js", Old: "	l.r.MoveRune() // allow to continue after error\n", New: "", Why: "error path no longer consumes the offending rune"},
	{Rule: "R-TILE", File: "css/lex.go", Only: "css", Old: "	case ':':\n		l.r.Move(1)", New: "	case ':':\n		l.r.Skip()\n		l.r.Move(1)", Why: "css lexer skips bytes"},
	{Rule: "R-SPELL", File: "css/lex.go", Only: "css", Old: "		case '^':\n			l.r.Move(2)\n			return PrefixMatchToken", New: "		case '^':\n			l.r.Move(2)\n			return SuffixMatchToken", Why: "'^=' returned as SuffixMatch"},
	{Rule: "R-TAGSTATE", File: "xml/lex.go", Only: "xml", Old: "		l.r.Skip()\n		l.inTag = false\n", New: "		l.r.Skip()\n", Why: "closing token leaves inTag set"},
	{Rule: "R-INPLACE", File: "html/lex.go", Only: "html", Old: "if h := ToHash(parse.ToLower(parse.Copy(l.r.Lexeme()[mark:]))); h == Script {", New: "if h := ToHash(parse.ToLower(l.r.Lexeme()[mark:])); h == Script {", Why: "input lower-cased in place"},
	{Rule: "R-RESTORE", File: "js/lex.go", Only: "js", Old: "	} else if !l.consumeHexDigit() || !l.consumeHexDigit() || !l.consumeHexDigit() || !l.consumeHexDigit() {\n		l.r.Rewind(mark)\n		return false", New: "	} else if !l.consumeHexDigit() || !l.consumeHexDigit() || !l.consumeHexDigit() || !l.consumeHexDigit() {\n		return false", Why: "failed escape scan not rewound"},
}

// extra declarations some mutants need (appended to the mutated file)
var selfMutantAppend = map[string]string{
	"function parts walked by a helper that receives their addresses (behaviour-preserving)":        "\nfunc walkFuncParts(v IVisitor, body *BlockStmt, params *Params) {\n	Walk(v, body)\n	Walk(v, params)\n}\n",
	"constructor captures package-level memory (variable added below)":                              "\nvar sharedStates = make([]State, 0, 4)\n",
	"the | arm reads its levels from a look-up function (behaviour-preserving)":                     "\ntype opLevels struct{ prec, left, right OpPrec }\n\nfunc levelsOfOp(tt TokenType) opLevels {\n	switch tt {\n	case BitOrToken:\n		return opLevels{OpBitOr, OpBitOr, OpBitXor}\n	}\n	return opLevels{}\n}\n",
	"the | arm reads its levels from a look-up function whose right-operand level is wrong":         "\ntype opLevels struct{ prec, left, right OpPrec }\n\nfunc levelsOfOp(tt TokenType) opLevels {\n	switch tt {\n	case BitOrToken:\n		return opLevels{OpBitOr, OpBitOr, OpBitOr}\n	}\n	return opLevels{}\n}\n",
	"ReadUint16 through a loop over the width (behaviour-preserving)":                               "\nfunc (r *BinaryReader) readUintN(size int) uint64 {\n	data := r.ReadBytes(int64(size))\n	if len(data) < size {\n		return 0\n	}\n	var v uint64\n	if r.ByteOrder == binary.LittleEndian {\n		for i := size - 1; 0 <= i; i-- {\n			v = v<<8 | uint64(data[i])\n		}\n	} else {\n		for i := 0; i < size; i++ {\n			v = v<<8 | uint64(data[i])\n		}\n	}\n	return v\n}\n",
	"ReadUint16 through a loop over the width with the byte orders exchanged":                       "\nfunc (r *BinaryReader) readUintN(size int) uint64 {\n	data := r.ReadBytes(int64(size))\n	if len(data) < size {\n		return 0\n	}\n	var v uint64\n	if r.ByteOrder != binary.LittleEndian {\n		for i := size - 1; 0 <= i; i-- {\n			v = v<<8 | uint64(data[i])\n		}\n	} else {\n		for i := 0; i < size; i++ {\n			v = v<<8 | uint64(data[i])\n		}\n	}\n	return v\n}\n",
	"children handed to a callback that walks them (behaviour-preserving)":                          "\nfunc eachASTChild(n *AST, visit func(INode)) {\n	visit(&n.BlockStmt)\n}\n",
	"children handed to a callback that walks them (behaviour-preserving) ":                         "\nfunc eachASTChild(n *AST, visit func(INode)) {\n	visit(&n.BlockStmt)\n}\n",
	"callback walks the children with the visitor Walk was called with, not the one Enter returned": "\nfunc eachASTChild(n *AST, visit func(INode)) {\n	visit(&n.BlockStmt)\n}\n",
}

// engineOnly restricts the cursor engine to one package while self-tests run.
var engineOnly = struct {
	sync.Mutex
	byProg map[*core.Program]string
}{byProg: map[*core.Program]string{}}

func engineFilter(p *core.Program) string {
	engineOnly.Lock()
	defer engineOnly.Unlock()
	if s, ok := engineOnly.byProg[p]; ok {
		return s
	}
	return os.Getenv("PCHECK_ONLY")
}

// SelfTest (thorough tier): every rule serving the property must fire on its seeded
// single-edit variants. A variant whose source pattern no longer exists is reported
// as stale (note), a variant that does not fire makes the check broken (exit 2).
func SelfTest(r *core.Run, cfg core.LoadConfig) {
	serving := map[string]bool{}
	for _, rl := range For(r.Prop) {
		serving[rl.ID] = true
	}
	var todo []selfMutant
	visible := map[string][]string{"css": {"C01", "C02", "C07"}, "html": {"C01", "C02", "C09"}, "xml": {"C01", "C02", "C11"}, "json": {"C01", "C10"}, "js": {"C01", "C02", "C06"}, "cssparser": {"C08"}}
	for _, m := range selfMutants {
		if !serving[m.Rule] {
			continue
		}
		if len(m.Props) > 0 {
			ok := false
			for _, p := range m.Props {
				if p == r.Prop {
					ok = true
				}
			}
			if !ok {
				continue
			}
		}
		if m.Only != "" {
			ok := false
			for _, p := range visible[m.Only] {
				if p == r.Prop {
					ok = true
				}
			}
			if !ok {
				continue // the engine obligations of that package are not part of this property's view
			}
		}
		todo = append(todo, m)
	}
	sort.SliceStable(todo, func(i, j int) bool { return (int64(i)*2654435761+r.Seed)%7 < (int64(j)*2654435761+r.Seed)%7 })
	type res struct {
		m     selfMutant
		fired bool
		stale bool
		err   string
		det   string
	}
	results := make([]res, len(todo))
	sem := make(chan struct{}, 4)
	var wg sync.WaitGroup
	for i, m := range todo {
		wg.Add(1)
		sem <- struct{}{}
		go func(i int, m selfMutant) {
			defer wg.Done()
			defer func() { <-sem }()
			defer func() {
				if x := recover(); x != nil {
					results[i] = res{m: m, err: fmt.Sprint("panic: ", x)}
				}
			}()
			path := filepath.Join(cfg.Dir, m.File)
			src, err := os.ReadFile(path)
			if err != nil {
				results[i] = res{m: m, stale: true, err: err.Error()}
				return
			}
			if strings.Count(string(src), m.Old) != 1 {
				results[i] = res{m: m, stale: true, err: "pattern not found exactly once"}
				return
			}
			mut := strings.Replace(string(src), m.Old, m.New, 1) + selfMutantAppend[m.Why]
			c2 := cfg
			c2.Overlay = map[string][]byte{path: []byte(mut)}
			prog, err := core.Load(c2)
			if err != nil {
				results[i] = res{m: m, err: "variant does not load: " + err.Error()}
				return
			}
			if m.Only != "" {
				engineOnly.Lock()
				engineOnly.byProg[prog] = m.Only
				engineOnly.Unlock()
			}
			sub := core.NewRun(r.Prop, r.Tier, r.Seed, prog)
			for _, rl := range For(r.Prop) {
				if rl.ID == m.Rule {
					sub.SetRule(rl.ID)
					rl.Run(sub)
				}
			}
			out := res{m: m}
			for _, o := range sub.Obs {
				if o.Rule == m.Rule && (o.Status == core.Violated || o.Status == core.Undecided) && !strings.HasPrefix(o.Key, "VACUOUS") {
					out.fired = true
					out.det = o.Key
					break
				}
			}
			engineOnly.Lock()
			delete(engineOnly.byProg, prog)
			engineOnly.Unlock()
			engCacheMu.Lock()
			for k := range engCache {
				if k.prog == prog {
					delete(engCache, k)
				}
			}
			engCacheMu.Unlock()
			prog.Release()
			releaseGlobalUses(prog)
			foldMu.Lock()
			for g := range foldCache {
				if g.Pkg != nil && g.Pkg.Prog == prog.SSA {
					delete(foldCache, g)
				}
			}
			foldMu.Unlock()
			results[i] = out
		}(i, m)
	}
	wg.Wait()
	fired, stale := 0, 0
	for _, x := range results {
		switch {
		case x.stale:
			stale++
			r.Note("self-test variant for %s is stale (%s): %s", x.m.Rule, x.m.Why, x.err)
		case x.err != "":
			r.Broken = append(r.Broken, fmt.Sprintf("self-test variant for %s (%s): %s", x.m.Rule, x.m.Why, x.err))
		case x.m.Silent && x.fired:
			r.Broken = append(r.Broken, fmt.Sprintf("rule too narrow: %s reports the behaviour-preserving variant in %s (%s): %s", x.m.Rule, x.m.File, x.m.Why, x.det))
		case x.m.Silent:
			fired++
			r.SetRule(x.m.Rule)
			r.OK(fmt.Sprintf("self-test: %s is silent on behaviour-preserving variant %q", x.m.Rule, x.m.Why), token.NoPos, "")
		case !x.fired:
			r.Broken = append(r.Broken, fmt.Sprintf("rule not armed: %s did not report the seeded variant in %s (%s)", x.m.Rule, x.m.File, x.m.Why))
		default:
			fired++
			r.SetRule(x.m.Rule)
			r.OK(fmt.Sprintf("self-test: %s fires on variant %q", x.m.Rule, x.m.Why), token.NoPos, "reported: "+x.det)
		}
	}
	r.Count("self-test variants run (overlay, nothing written to disk)", len(todo))
	r.Count("self-test variants that behaved as required (fired / stayed silent)", fired)
	r.Count("self-test variants stale", stale)
}
