// Package rules contains the repository-specific static rules.
package rules

import (
	"sort"

	"verif/checker/core"
)

// Rule is one rule template; Run enumerates and decides its obligations.
type Rule struct {
	ID    string
	Props []string // properties the rule serves
	Doc   string
	Run   func(r *core.Run)
}

var registry []*Rule

func register(r *Rule) { registry = append(registry, r) }

// For returns the rules serving prop, sorted by id.
func For(prop string) []*Rule {
	var out []*Rule
	for _, r := range registry {
		for _, p := range r.Props {
			if p == prop {
				out = append(out, r)
			}
		}
	}
	sort.SliceStable(out, func(i, j int) bool { return out[i].ID < out[j].ID })
	return out
}

// All returns all registered rules.
func All() []*Rule { return registry }

// PropMeta describes the claim made for a property.
type PropMeta struct {
	Claimed     bool
	Level       string // MANIFEST level category
	LevelText   string // what assurance the check gives
	LevelNote   string // assumed / trusted base
	Technique   string
	DesignRef   string
	Explanation string // evidence explanation: clauses decided and not decided
	TrustedBase []string
	NAReason    string // when not claimed
}

// Props is filled by props.go.
var Props = map[string]PropMeta{}
