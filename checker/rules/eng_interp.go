package rules

import (
	"fmt"
	"go/constant"
	"go/token"
	"go/types"
	"os"
	"sort"
	"strconv"
	"strings"
	"sync"

	"golang.org/x/tools/go/ssa"

	"verif/checker/core"
)

const disjunctCap = 8

var engTrace = os.Getenv("PCHECK_TRACE")
var engDebug = os.Getenv("PCHECK_DEBUG") != ""
var noLiveKeys = os.Getenv("PCHECK_NOLIVE") != "" // debugging aid: partition by all interesting values, live or not

// Engine is the path-sensitive abstract interpreter for clients of parse.Input.
type Engine struct {
	itabMu    sync.Mutex
	pure      map[*ssa.Function]bool
	rowTabs   map[*ssa.Global]*Lit
	cbytes    map[*ssa.Global][]byte
	rows256   map[*ssa.Global][]*Lit
	mapLits   map[*ssa.Global]*Lit
	failExits map[*ssa.Function][]failExit
	writes    map[*ssa.Function]bool
	itables   map[string]*[256]int64
	derived   map[string]*[256]bool
	r         *core.Run
	prog      *core.Program
	cfg       EngCfg

	obs                map[string]*engOb
	obOrder            []string
	finfo              map[*ssa.Function]*fnInfo
	reach              map[*ssa.Function]bool // functions that (transitively) perform cursor operations
	tables             map[*ssa.Global]*[256]bool
	bmaps              map[*ssa.Global]map[int64]int64
	smaps              map[*ssa.Global][]int64
	atLike             map[*ssa.Function]int // 0 unknown, 1 exact, 2 case-insensitive, -1 not an at-like function
	atOff              map[*ssa.Function]int // at-like functions with an offset parameter: its index in Params
	steps              int
	maxSteps           int
	stackCtx           []string // per frame of stack: the function values the frame was called with
	aborted            string
	stack              []*ssa.Function
	entryFn            *ssa.Function
	onReturn           func(st *State, ret []AbsVal, at *ssa.Return)
	loopsSeen          map[string]bool
	infoBusy           map[*ssa.Function]bool
	summ               map[*ssa.Function]map[string][]summary
	usesLCache         map[*ssa.Function]bool
	rwCache            map[*ssa.Function]*heapSet
	summHits, summMiss int
	assume             []string
	tagEntry           int  // R-TAGSTATE: entry value of inTag (0/1), -1 when not applicable
	opaqueOK           bool // opaque cursor clients are expected (parser level): havoc without an obligation
}

// EngCfg configures one analysis.
type EngCfg struct {
	Rel        string          // package of the entry point (module relative)
	Owners     map[string]bool // "pkg.Type" whose methods are analysed inline
	ErrPath    string          // heap path of the lexer's own error field ("js.Lexer.err")
	SkipWS     ByteSet         // bytes that Skip() may drop (html/xml); empty set = Skip forbidden
	AllowSkip  bool
	NoTile     bool            // entry point that is not a token producer: R-TILE/Skip rules do not apply
	Only       string          // when set, only obligations of this rule are recorded
	DynTargets []*ssa.Function // candidates for dynamic calls through a state stack
	StrPaths   map[string]bool // string-typed heap fields tracked for emptiness (0 = "", 1 = non-empty)
	Tag        string          // label of the configuration (part of no key; for messages)
}

type engOb struct {
	rule, key string
	pos       token.Pos
	evals     int
	fails     int
	undecided int
	detail    string
	path      []string
}

type fnInfo struct {
	relInt      map[ssa.Value]bool // plain-int values that flow into an argument of a cursor operation
	fn          *ssa.Function
	rpo         map[*ssa.BasicBlock]int
	order       []*ssa.BasicBlock
	isHeader    map[*ssa.BasicBlock]bool
	interesting []ssa.Value
	liveKeys    map[*ssa.BasicBlock][]ssa.Value // interesting values live at the entry of a block (partition key)
	labels      map[ssa.Instruction]string
}

func NewEngine(r *core.Run, cfg EngCfg) *Engine {
	e := &Engine{r: r, prog: r.Prog, cfg: cfg, obs: map[string]*engOb{}, finfo: map[*ssa.Function]*fnInfo{},
		tables: map[*ssa.Global]*[256]bool{}, bmaps: map[*ssa.Global]map[int64]int64{}, smaps: map[*ssa.Global][]int64{},
		atLike: map[*ssa.Function]int{}, infoBusy: map[*ssa.Function]bool{}, summ: map[*ssa.Function]map[string][]summary{}, usesLCache: map[*ssa.Function]bool{}, rwCache: map[*ssa.Function]*heapSet{}, maxSteps: envInt("PCHECK_MAXSTEPS", 12_000_000), loopsSeen: map[string]bool{}, failExits: map[*ssa.Function][]failExit{}}
	e.reach = sharedReach(r.Prog)
	return e
}

var (
	reachMu    sync.Mutex
	reachCache = map[*core.Program]map[*ssa.Function]bool{}
)

// sharedReach computes once per program the functions that reach cursor operations.
func sharedReach(p *core.Program) map[*ssa.Function]bool {
	reachMu.Lock()
	defer reachMu.Unlock()
	if m, ok := reachCache[p]; ok {
		// engines add lazily discovered wrappers: give each its own copy
		c := make(map[*ssa.Function]bool, len(m))
		for k, v := range m {
			c[k] = v
		}
		return c
	}
	tmp := &Engine{prog: p}
	tmp.computeReach()
	reachCache[p] = tmp.reach
	c := make(map[*ssa.Function]bool, len(tmp.reach))
	for k, v := range tmp.reach {
		c[k] = v
	}
	return c
}

func isInputRecv(fn *ssa.Function) bool {
	if fn == nil || fn.Signature.Recv() == nil {
		return false
	}
	t := fn.Signature.Recv().Type()
	if p, ok := t.(*types.Pointer); ok {
		t = p.Elem()
	}
	n, ok := t.(*types.Named)
	return ok && n.Obj().Name() == "Input" && n.Obj().Pkg() != nil && n.Obj().Pkg().Path() == core.ModPath
}

func (e *Engine) computeReach() {
	cg := e.prog.CallGraph()
	e.reach = map[*ssa.Function]bool{}
	var work []*ssa.Function
	for fn := range cg.Nodes {
		if isInputRecv(fn) {
			e.reach[fn] = true
			work = append(work, fn)
		}
	}
	for len(work) > 0 {
		f := work[len(work)-1]
		work = work[:len(work)-1]
		n := cg.Nodes[f]
		if n == nil {
			continue
		}
		for _, in := range n.In {
			c := in.Caller.Func
			if c != nil && !e.reach[c] && core.InModule(fnPkg(c)) {
				e.reach[c] = true
				work = append(work, c)
			}
		}
	}
}

// ---------------------------------------------------------------------------
// obligations

func (e *Engine) ob(rule, key string, pos token.Pos) *engOb {
	if e.cfg.Only != "" && rule != e.cfg.Only {
		return &engOb{rule: rule, key: key}
	}
	full := rule + "|" + key
	o := e.obs[full]
	if o == nil {
		o = &engOb{rule: rule, key: key, pos: pos}
		e.obs[full] = o
		e.obOrder = append(e.obOrder, full)
	}
	return o
}

func (e *Engine) check(st *State, rule, key string, pos token.Pos, ok bool, detail string) {
	o := e.ob(rule, key, pos)
	o.evals++
	if ok {
		return
	}
	if st.havoc && e.cfg.Only == "" {
		o.undecided++
		if o.detail == "" {
			o.detail = "cursor state unknown after an opaque call: " + detail
			o.path = e.witness(st)
		}
		return
	}
	o.fails++
	if o.fails == 1 {
		o.detail = detail
		o.path = e.witness(st)
	}
}

func (e *Engine) undecided(st *State, rule, key string, pos token.Pos, detail string) {
	o := e.ob(rule, key, pos)
	o.evals++
	o.undecided++
	if o.undecided == 1 && o.fails == 0 {
		o.detail = detail
		o.path = e.witness(st)
	}
}

func (e *Engine) witness(st *State) []string {
	var out []string
	var stack []string
	for _, f := range e.stack {
		stack = append(stack, fnLabel(f))
	}
	out = append(out, "call stack: "+strings.Join(stack, " > "))
	out = append(out, fmt.Sprintf("state: S>=%d eof=%v P>=%d L=[%d,%s] bytes=%s", st.E, st.atEOF, st.P, st.Lmin, infs(st.Lmax), e.bytesStr(st)))
	out = append(out, st.trace...)
	return out
}

func (e *Engine) bytesStr(st *State) string {
	var ks []int
	for k := range st.bytes {
		ks = append(ks, k)
	}
	sort.Ints(ks)
	var sb strings.Builder
	for _, k := range ks {
		fmt.Fprintf(&sb, "[%d]=%s ", k, st.bytes[k])
	}
	return sb.String()
}

// Flush reports the aggregated obligations into the run.
func (e *Engine) Flush() {
	for _, a := range e.assume {
		e.r.Assumption(a)
	}
	if e.aborted != "" {
		e.r.SetRule("R-CURSOR")
		e.r.Unknown("engine budget "+e.cfg.Tag, token.NoPos, e.aborted)
	}
	for _, k := range e.obOrder {
		o := e.obs[k]
		e.r.SetRule(o.rule)
		switch {
		case o.fails > 0:
			e.r.Fail(o.key, o.pos, o.detail, o.path...)
		case o.undecided > 0:
			e.r.Unknown(o.key, o.pos, o.detail, o.path...)
		default:
			e.r.OK(o.key, o.pos, fmt.Sprintf("%d abstract evaluations", o.evals))
		}
	}
}

// ---------------------------------------------------------------------------
// per-function information

func (e *Engine) info(fn *ssa.Function) *fnInfo {
	if fi, ok := e.finfo[fn]; ok {
		return fi
	}
	fi := &fnInfo{fn: fn, rpo: map[*ssa.BasicBlock]int{}, isHeader: map[*ssa.BasicBlock]bool{}, labels: map[ssa.Instruction]string{}}
	// reverse post order
	seen := map[*ssa.BasicBlock]bool{}
	var post []*ssa.BasicBlock
	var dfs func(b *ssa.BasicBlock)
	dfs = func(b *ssa.BasicBlock) {
		seen[b] = true
		for _, s := range b.Succs {
			if !seen[s] {
				dfs(s)
			}
		}
		post = append(post, b)
	}
	if len(fn.Blocks) > 0 {
		dfs(fn.Blocks[0])
	}
	for i := len(post) - 1; i >= 0; i-- {
		fi.rpo[post[i]] = len(fi.order)
		fi.order = append(fi.order, post[i])
	}
	for _, b := range fi.order {
		for _, p := range b.Preds {
			if b.Dominates(p) {
				fi.isHeader[b] = true
			}
		}
	}
	isEnumLike := func(t types.Type) bool {
		b, ok := t.Underlying().(*types.Basic)
		if !ok {
			return false
		}
		if b.Kind() == types.Bool {
			return true
		}
		_, named := t.(*types.Named)
		return named && b.Info()&types.IsInteger != 0
	}
	for _, p := range fn.Params {
		if isEnumLike(p.Type()) {
			fi.interesting = append(fi.interesting, p)
		}
	}
	// backward slice from the arguments of cursor operations
	fi.relInt = map[ssa.Value]bool{}
	var mark func(v ssa.Value, d int)
	mark = func(v ssa.Value, d int) {
		if v == nil || fi.relInt[v] || d > 12 {
			return
		}
		fi.relInt[v] = true
		switch x := v.(type) {
		case *ssa.Phi:
			for _, ed := range x.Edges {
				mark(ed, d+1)
			}
		case *ssa.BinOp:
			mark(x.X, d+1)
			mark(x.Y, d+1)
		case *ssa.Convert:
			mark(x.X, d+1)
		case *ssa.UnOp:
			mark(x.X, d+1)
		case *ssa.Extract:
			mark(x.Tuple, d+1)
		}
	}
	// small integers returned to a caller (a helper that computes a token length) may feed the caller's cursor operations
	if e.reach[fn] {
		for _, b := range fn.Blocks {
			if ret, ok := lastInstr(b).(*ssa.Return); ok {
				for _, rv := range ret.Results {
					if isIntType(rv.Type()) && isPlainInt(rv.Type()) {
						mark(rv, 0)
					}
				}
			}
		}
	}
	for _, b := range fn.Blocks {
		for _, in := range b.Instrs {
			if c, ok := in.(ssa.CallInstruction); ok {
				if callee := c.Common().StaticCallee(); callee != nil {
					if isInputRecv(callee) {
						for _, a := range c.Common().Args {
							if isIntType(a.Type()) {
								mark(a, 0)
							}
						}
					} else if core.InModule(fnPkg(callee)) && callee != fn && len(callee.Blocks) > 0 && !e.infoBusy[callee] && e.reach[callee] {
						e.infoBusy[fn] = true
						ci := e.info(callee)
						delete(e.infoBusy, fn)
						for i, a := range c.Common().Args {
							if isIntType(a.Type()) && i < len(callee.Params) && ci.relInt[callee.Params[i]] {
								mark(a, 0)
							}
						}
					}
				}
			}
			// indices/bounds applied directly to a lexeme
			isLexeme := func(v ssa.Value) bool {
				c, ok := v.(*ssa.Call)
				return ok && c.Call.StaticCallee() != nil && isInputRecv(c.Call.StaticCallee())
			}
			switch x := in.(type) {
			case *ssa.BinOp:
				// a small counter that decides control flow (`for dashes < 2 && ...`, `if dashes < 2`): its value is
				// correlated with how far the cursor moved, so it is tracked like a look-ahead constant
				if isCmp(x.Op) && e.reach[fn] {
					for _, pr := range [][2]ssa.Value{{x.X, x.Y}, {x.Y, x.X}} {
						ph, isPhi := pr[0].(*ssa.Phi)
						if add, isAdd := pr[0].(*ssa.BinOp); isAdd && add.Op == token.ADD && !isPhi {
							// the range index: t = phi + 1; t < len
							if _, isC := add.Y.(*ssa.Const); isC {
								ph, isPhi = add.X.(*ssa.Phi)
							}
						}
						k, isK := pr[1].(*ssa.Const)
						if isPhi && isK && isPlainInt(ph.Type()) && ssaIntConst(k) && k.Int64() >= 0 && k.Int64() <= 8 && counterPhi(ph) {
							mark(ph, 0)
						}
						// ... or iterates over a list of delimiters handed in by the caller (ends ...[]byte): at the call sites
						// the list is a literal of a few constant byte sequences
						if lc, isCall := pr[1].(*ssa.Call); isCall && isPhi && isPlainInt(ph.Type()) && counterPhi(ph) {
							if bi, isB := lc.Call.Value.(*ssa.Builtin); isB && bi.Name() == "len" && len(lc.Call.Args) == 1 {
								if prm, isP := lc.Call.Args[0].(*ssa.Parameter); isP {
									if sl, isSl := prm.Type().Underlying().(*types.Slice); isSl {
										switch el := sl.Elem().Underlying().(type) {
										case *types.Slice:
											if isByteType(el.Elem()) {
												mark(ph, 0)
											}
										case *types.Basic:
											if el.Info()&types.IsString != 0 {
												mark(ph, 0)
											}
										}
									}
								}
							}
						}
					}
				}
			case *ssa.Slice:
				if isLexeme(x.X) {
					mark(x.Low, 0)
					mark(x.High, 0)
				}
			case *ssa.IndexAddr:
				if isLexeme(x.X) {
					mark(x.Index, 0)
				}
				// the loop counter of `for _, f := range consumers` over a slice of scanner functions
				if isFuncSlice(x.X.Type()) {
					mark(x.Index, 0)
				}
				// ... and of `for _, row := range table` over a package-level table of rows
				if u, isU := x.X.(*ssa.UnOp); isU {
					if g, isG := u.X.(*ssa.Global); isG && e.rowTable(g) != nil {
						mark(x.Index, 0)
					}
				}
			}
		}
	}
	counts := map[string]int{}
	for _, b := range fn.Blocks {
		for _, in := range b.Instrs {
			switch x := in.(type) {
			case *ssa.Phi:
				if isEnumLike(x.Type()) || (isIntType(x.Type()) && fi.relInt[x]) {
					fi.interesting = append(fi.interesting, x)
				}
			case *ssa.Call:
				if isEnumLike(x.Type()) {
					fi.interesting = append(fi.interesting, x)
				}
			case *ssa.Extract:
				if isEnumLike(x.Type()) {
					fi.interesting = append(fi.interesting, x)
				}
			case *ssa.Lookup:
				if isEnumLike(x.Type()) {
					fi.interesting = append(fi.interesting, x)
				}
			}
			if c, ok := in.(ssa.CallInstruction); ok {
				if callee := c.Common().StaticCallee(); callee != nil && isInputRecv(callee) {
					arg := ""
					if len(c.Common().Args) > 1 {
						arg = argString(c.Common().Args[1])
					}
					base := fmt.Sprintf("%s(%s)", callee.Name(), arg)
					counts[base]++
					fi.labels[in] = fmt.Sprintf("%s %s #%d", fnLabel(fn), base, counts[base])
				}
			}
			if sl, ok := in.(*ssa.Slice); ok {
				counts["slice"]++
				fi.labels[in] = fmt.Sprintf("%s slice-expr #%d", fnLabel(fn), counts["slice"])
				_ = sl
			}
			if ia, ok := in.(*ssa.IndexAddr); ok {
				counts["index"]++
				fi.labels[in] = fmt.Sprintf("%s index-expr #%d", fnLabel(fn), counts["index"])
				_ = ia
			}
		}
	}
	fi.liveKeys = liveInteresting(fn, fi.interesting)
	e.finfo[fn] = fi
	return fi
}

// liveInteresting: for every block, the partitioning values that still matter at or after its entry: the value is
// read there, or a value computed from it is (the row `decl := table[i]` after the last use of `i`: the iterations
// must stay apart while the row is in use). A value that is dead in this sense (the materialised condition of a
// `switch { case a || b: }` arm after its branch, a flag after its last test) must not keep otherwise equal states
// apart: n dead booleans are 2^n partitions of every later block.
func liveInteresting(fn *ssa.Function, interesting []ssa.Value) map[*ssa.BasicBlock][]ssa.Value {
	out := map[*ssa.BasicBlock][]ssa.Value{}
	if len(fn.Blocks) == 0 {
		return out
	}
	rangeOf := map[ssa.Value]map[*ssa.BasicBlock]bool{}
	liveRange := func(v ssa.Value) map[*ssa.BasicBlock]bool {
		if lr, ok := rangeOf[v]; ok {
			return lr
		}
		live := map[*ssa.BasicBlock]bool{}
		rangeOf[v] = live
		def := fn.Blocks[0]
		if in, ok := v.(ssa.Instruction); ok {
			def = in.Block()
		}
		refs := v.Referrers()
		if refs == nil {
			return live
		}
		var markIn func(b *ssa.BasicBlock)
		markIn = func(b *ssa.BasicBlock) {
			if live[b] {
				return
			}
			live[b] = true
			if b == def {
				return
			}
			for _, p := range b.Preds {
				markIn(p)
			}
		}
		for _, r := range *refs {
			switch x := r.(type) {
			case *ssa.DebugRef:
			case *ssa.Phi:
				for i, ed := range x.Edges {
					if ed == v && i < len(x.Block().Preds) {
						markIn(x.Block().Preds[i])
					}
				}
			default:
				markIn(r.Block())
			}
		}
		return live
	}
	for _, v := range interesting {
		// the values computed from v
		closure := map[ssa.Value]bool{v: true}
		work := []ssa.Value{v}
		for len(work) > 0 && len(closure) < 400 {
			w := work[len(work)-1]
			work = work[:len(work)-1]
			refs := w.Referrers()
			if refs == nil {
				continue
			}
			for _, r := range *refs {
				if rv, ok := r.(ssa.Value); ok && !closure[rv] {
					closure[rv] = true
					work = append(work, rv)
				}
			}
		}
		live := map[*ssa.BasicBlock]bool{}
		for w := range closure {
			for b := range liveRange(w) {
				live[b] = true
			}
		}
		for _, b := range fn.Blocks {
			if live[b] || len(closure) >= 400 {
				out[b] = append(out[b], v)
			}
		}
	}
	return out
}

func argString(v ssa.Value) string {
	if c, ok := v.(*ssa.Const); ok && c.Value != nil {
		return c.Value.ExactString()
	}
	l := linOf(v)
	s := l.String()
	if strings.Contains(s, "%") {
		return "expr"
	}
	return s
}

// ---------------------------------------------------------------------------
// running a function

type exitState struct {
	st  *State
	ret []AbsVal
	at  *ssa.Return
}

type blockIn struct {
	st     *State
	dirty  bool
	visits int
	b      *ssa.BasicBlock
	rpo    int
}

// Run analyses fn from the given entry state.
func (e *Engine) Run(fn *ssa.Function, entry *State, args []AbsVal) []exitState {
	e.entryFn = fn
	exits := e.run(fn, entry, args)
	if e.onReturn != nil {
		for _, x := range exits {
			e.stack = []*ssa.Function{fn}
			e.onReturn(x.st, x.ret, x.at)
		}
		e.stack = nil
	}
	return exits
}

func (e *Engine) run(fn *ssa.Function, entry *State, args []AbsVal) []exitState {
	if len(fn.Blocks) == 0 {
		return []exitState{{st: entry}}
	}
	// a combinator applied to different scanner functions (backtrack(consumeA) inside consumeB run by backtrack) is not
	// a recursion: the frames are told apart by the function values they were called with
	ctx := ""
	for i := range fn.Params {
		if i < len(args) && args[i].k == vFunc && args[i].fn != nil {
			ctx += "|" + args[i].fn.String()
		}
	}
	for i, f := range e.stack {
		if f == fn && (i >= len(e.stackCtx) || e.stackCtx[i] == ctx) {
			e.undecided(entry, "R-CURSOR", "recursion "+fnLabel(fn), fn.Pos(), "recursive cursor client: the engine analyses acyclic lexer call graphs only")
			entry.havocCursor()
			return []exitState{{st: entry, ret: e.topResults(fn)}}
		}
	}
	if len(e.stack) > 24 {
		e.aborted = "call depth exceeded in " + fnLabel(fn)
		return nil
	}
	for len(e.stackCtx) < len(e.stack) {
		e.stackCtx = append(e.stackCtx, "")
	}
	e.stackCtx = append(e.stackCtx[:len(e.stack)], ctx)
	e.stack = append(e.stack, fn)
	defer func() { e.stack = e.stack[:len(e.stack)-1] }()
	if engDebug {
		fmt.Fprintf(os.Stderr, "%s> %s steps=%d\n", strings.Repeat(" ", len(e.stack)), fnLabel(fn), e.steps)
	}
	fi := e.info(fn)
	st := entry
	for i, p := range fn.Params {
		if i < len(args) && args[i].k != vTop {
			st.setv(p, args[i])
		} else {
			delete(st.vals, p)
		}
	}
	// free variables of bound-method wrappers carry no abstract value (identity is by type)
	in := map[*ssa.BasicBlock]map[string]*blockIn{}
	var dirty []*blockIn
	slots := map[*ssa.BasicBlock]map[string]int{}
	put := func(b *ssa.BasicBlock, key string, s *State, widen bool) {
		m := in[b]
		if m == nil {
			m = map[string]*blockIn{}
			in[b] = m
			slots[b] = map[string]int{}
		}
		unrolled := false
		if fi.isHeader[b] && os.Getenv("PCHECK_NOUNROLL") == "" {
			// a loop that is being unrolled on its small constant counter (range over a constant table): its iterations
			// are separate program points already, and keep the same bounded disjunction as straight-line code
			for _, ins := range b.Instrs {
				phi, ok := ins.(*ssa.Phi)
				if !ok {
					break
				}
				if fi.relInt[phi] && isPlainInt(phi.Type()) && counterPhi(phi) {
					if pv, has := s.getv(phi); has {
						if _, isC := pv.constInt(); isC {
							unrolled = true
						}
					}
				}
			}
		}
		if !fi.isHeader[b] || unrolled {
			// bounded disjunction: states that know different things about the next bytes stay apart
			k2 := fmt.Sprintf("%s|%x|%x", key, s.byteAt(0), s.byteAt(1))
			dcap := disjunctCap
			if e.cfg.Only != "" {
				dcap = 1
			}
			if _, ok := m[k2]; ok || slots[b][key] < dcap {
				if !ok {
					slots[b][key]++
				}
				key = k2
			}
		}
		cur := m[key]
		if cur == nil {
			cur = &blockIn{st: s, dirty: true, b: b, rpo: fi.rpo[b]}
			m[key] = cur
			dirty = append(dirty, cur)
			return
		}
		wl := 0
		if widen || cur.visits > 6 {
			wl = 1
		}
		if cur.visits > 20 {
			wl = 2
		}
		ch := cur.st.joinInto(s, wl)
		if ch && !cur.dirty {
			cur.dirty = true
			dirty = append(dirty, cur)
		}
	}
	put(fn.Blocks[0], "", st, false)
	var exits []exitState
	for {
		// pick the dirty (block,key) with the smallest RPO index
		if len(dirty) == 0 {
			break
		}
		bidx := 0
		for i, d := range dirty {
			if d.rpo < dirty[bidx].rpo {
				bidx = i
			}
		}
		bi := dirty[bidx]
		dirty[bidx] = dirty[len(dirty)-1]
		dirty = dirty[:len(dirty)-1]
		pb := bi.b
		bi.dirty = false
		bi.visits++
		if bi.visits > 60 {
			e.aborted = fmt.Sprintf("no fixpoint in %s block %d", fnLabel(fn), pb.Index)
			break
		}
		cur := bi.st.clone()
		if fi.isHeader[pb] {
			cur.loopDisp[pb] = 0
		}
		e.execBlock(fi, pb, 0, cur, func(s *State, to *ssa.BasicBlock) {
			// edge pb -> to
			ns := s
			// phi assignment (simultaneous)
			var phiVals []AbsVal
			var phis []*ssa.Phi
			idx := -1
			for i, p := range to.Preds {
				if p == pb {
					idx = i
				}
			}
			for _, ins := range to.Instrs {
				phi, ok := ins.(*ssa.Phi)
				if !ok {
					break
				}
				phis = append(phis, phi)
				phiVals = append(phiVals, e.eval(ns, phi.Edges[idx]))
			}
			for i, phi := range phis {
				pv := phiVals[i]
				if pv.k == vInt && isPlainInt(phi.Type()) && !isByteType(phi.Type()) {
					// counters: keep small constants only, and only where they can reach a cursor operation;
					// beyond that a counter that feeds Peek/Move becomes a look-ahead index (eng_idx.go)
					if c, ok := pv.constInt(); !ok || c > 8 || c < -8 || !fi.relInt[phi] {
						if fi.relInt[phi] && len(pv.ints) > 0 {
							pv = ns.idxOfInts(pv)
						} else {
							pv = top
						}
					}
				}
				if pv.k == vByte {
					// a byte read at a look-ahead index that is itself renamed by a phi of this block
					src := pv.idx
					if src == nil && pv.linked {
						for j, q := range phis {
							if c, ok := phiVals[j].constInt(); ok && isPlainInt(q.Type()) && int(c) == pv.coord && fi.relInt[q] {
								pv.idx = q
							}
						}
					} else if src != nil {
						renamed := false
						for _, q := range phis {
							if q.Edges[idx] == src {
								pv.idx = q
								renamed = true
							}
						}
						if sp, isPhi := src.(*ssa.Phi); isPhi && !renamed && sp.Block() == to && sp.Edges[idx] != ssa.Value(sp) {
							pv.idx = nil // read at the old value of an index that is re-assigned on this edge
						}
					}
				}
				if pv.k == vTop {
					delete(ns.vals, phi)
				} else {
					ns.setv(phi, pv)
				}
			}
			// bytes read at the old value of an index phi that changes on this edge no longer describe the byte at the index
			for _, q := range phis {
				if q.Edges[idx] == ssa.Value(q) {
					continue
				}
				for v, avP := range ns.vals {
					if (avP.k == vErrAt || avP.k == vRuneLen) && avP.idx == ssa.Value(q) {
						delete(ns.vals, v)
						continue
					}
					if avP.k == vByte && avP.idx == ssa.Value(q) {
						if _, isPhiOfTo := v.(*ssa.Phi); isPhiOfTo && v.(*ssa.Phi).Block() == to {
							continue // just assigned above with the renamed index
						}
						av := *avP
						av.idx = nil
						ns.vals[v] = &av
					}
				}
			}
			back := to.Dominates(pb)
			if back {
				e.loopCheck(fi, ns, pb, to)
			}
			var key string
			if noLiveKeys {
				key = ns.key(fi.interesting)
			} else {
				key = ns.key(fi.liveKeys[to])
			}
			if fi.isHeader[to] {
				if back {
					key += "|back"
				} else {
					key += "|entry"
				}
			}
			put(to, key, ns, back)
		}, func(s *State, ret []AbsVal, at *ssa.Return) {
			exits = append(exits, exitState{st: s, ret: ret, at: at})
		})
		if e.aborted != "" {
			break
		}
	}
	if engDebug {
		nk, nv := 0, 0
		for _, m := range in {
			for _, bi := range m {
				nk++
				nv += bi.visits
			}
		}
		fmt.Fprintf(os.Stderr, "%s< %s keys=%d visits=%d exits=%d steps=%d\n", strings.Repeat(" ", len(e.stack)), fnLabel(fn), nk, nv, len(exits), e.steps)
	}
	// join exits with identical return instruction and key
	type ek struct {
		at  *ssa.Return
		key string
	}
	merged := map[ek]*exitState{}
	var order []ek
	retSig := func(x *exitState) string {
		var sb strings.Builder
		for _, rv := range x.ret {
			if c, ok := rv.constInt(); ok {
				fmt.Fprintf(&sb, "%d%s,", c, rv.emsg)
			} else if rv.k == vStrSet && len(rv.strs) == 1 {
				fmt.Fprintf(&sb, "%q,", rv.strs[0]) // a message returned next to the token type
			} else {
				sb.WriteString("?,")
			}
		}
		return sb.String()
	}
	coarseOf := func(x *exitState) string { return retSig(x) + "|" + x.st.exitKey() }
	// exits that agree on the results but know different things about the next two bytes stay apart while they are
	// few (a helper that answers "is this a tag close?" returns 0 both for "not / or ?" and for "/ not followed by >")
	fineOf := func(x *exitState) string {
		return fmt.Sprintf("|%x|%x", x.st.byteAt(0), x.st.byteAt(1))
	}
	fineCount := map[string]map[string]bool{}
	for i := range exits {
		c := coarseOf(&exits[i])
		if fineCount[c] == nil {
			fineCount[c] = map[string]bool{}
		}
		fineCount[c][fineOf(&exits[i])] = true
	}
	for i := range exits {
		x := &exits[i]
		ck := coarseOf(x)
		if n := len(fineCount[ck]); n > 1 && n <= 4 && !x.st.coarse {
			ck += fineOf(x)
		}
		k := ek{nil, ck}
		if os.Getenv("PCHECK_EXITDEBUG") != "" && strings.Contains(fn.Name(), os.Getenv("PCHECK_EXITDEBUG")) {
			fmt.Fprintf(os.Stderr, "EXIT %s key=%s ret=%s bytes0=%x\n", fn.Name(), k.key, retString(x.ret), x.st.byteAt(0))
		}
		if fn == e.entryFn && len(e.stack) == 1 {
			k = ek{x.at, retSig(x) + "|" + x.st.key(nil)} // the entry point's returns are judged individually
		}
		if m, ok := merged[k]; ok {
			eM, lM := m.st.E, m.st.Lmin
			m.st.joinInto(x.st, 0)
			for j := range m.ret {
				a, b := m.ret[j], x.ret[j]
				// results that are look-ahead lengths of different kinds (constant, rune length, index)
				isLen := func(v AbsVal) bool { return v.k == vIdx || v.k == vRuneLen }
				if (isLen(a) || isLen(b)) && j < fn.Signature.Results().Len() && isPlainInt(fn.Signature.Results().At(j).Type()) {
					if a.k == vInt {
						a = m.st.idxOfIntsAt(a, eM, lM)
					}
					if b.k == vInt {
						b = x.st.idxOfInts(b)
					}
					if a.k == vRuneLen {
						a = runeLenIdx(a)
					}
					if b.k == vRuneLen {
						b = runeLenIdx(b)
					}
				}
				m.ret[j] = joinAbs(a, b, 0)
			}
		} else {
			merged[k] = x
			order = append(order, k)
		}
	}
	var out []exitState
	for _, k := range order {
		out = append(out, *merged[k])
	}
	return out
}

// counterPhi: an integer phi all of whose operands are small constants or itself plus/minus a constant.
func counterPhi(ph *ssa.Phi) bool {
	for _, ed := range ph.Edges {
		switch x := ed.(type) {
		case *ssa.Const:
			if !ssaIntConst(x) || x.Int64() < -8 || x.Int64() > 8 {
				return false
			}
		case *ssa.BinOp:
			if x.Op != token.ADD && x.Op != token.SUB {
				return false
			}
			if x.X != ssa.Value(ph) {
				return false
			}
			if k, ok := x.Y.(*ssa.Const); !ok || !ssaIntConst(k) {
				return false
			}
		default:
			return false
		}
	}
	return true
}

// isFuncSlice: a slice (or pointer to array) of function values.
func isFuncSlice(t types.Type) bool {
	switch u := t.Underlying().(type) {
	case *types.Slice:
		_, ok := u.Elem().Underlying().(*types.Signature)
		return ok
	case *types.Pointer:
		if a, ok := u.Elem().Underlying().(*types.Array); ok {
			_, ok := a.Elem().Underlying().(*types.Signature)
			return ok
		}
	}
	return false
}

// higherOrder: a plain function that receives scanner functions (firstToken(consumers ...func() TokenType)).
func higherOrder(fn *ssa.Function) bool {
	for _, p := range fn.Params {
		if isFuncSlice(p.Type()) {
			return true
		}
		if _, ok := p.Type().Underlying().(*types.Signature); ok {
			return true
		}
	}
	return false
}

func isPlainInt(t types.Type) bool {
	if _, named := t.(*types.Named); named {
		return false
	}
	b, ok := t.Underlying().(*types.Basic)
	return ok && b.Info()&types.IsInteger != 0
}

// atomBounds: known bounds of a symbolic length (a lexer/parser field that is not reassigned while they are used).
func atomBounds(st *State, atom string) (int, int) {
	lo, hi := 0, inf
	if pz, known := st.heap["pos:"+atom].constInt(); known {
		if pz == 1 {
			lo = 1
		} else {
			hi = 0
		}
	}
	if v, ok := st.heap["lo:"+atom].constInt(); ok && int(v) > lo {
		lo = int(v)
	}
	if v, ok := st.heap["hi:"+atom].constInt(); ok && int(v) < hi {
		hi = int(v)
	}
	return lo, hi
}

func (e *Engine) topResults(fn *ssa.Function) []AbsVal {
	n := fn.Signature.Results().Len()
	return make([]AbsVal, n)
}

// loopCheck: R-PROGRESS(a) at a back edge.
func (e *Engine) loopCheck(fi *fnInfo, st *State, from, hdr *ssa.BasicBlock) {
	if e.opaqueOK {
		return
	}
	key := fmt.Sprintf("%s loop@block%d", fnLabel(fi.fn), loopOrdinal(fi, hdr))
	d, ok := st.loopDisp[hdr]
	pos := hdr.Instrs[0].Pos()
	if !pos.IsValid() {
		for _, in := range hdr.Instrs {
			if in.Pos().IsValid() {
				pos = in.Pos()
				break
			}
		}
	}
	if ok && d >= 1 {
		e.check(st, "R-PROGRESS", key, pos, true, "")
		return
	}
	if counterLoop(hdr) {
		e.check(st, "R-PROGRESS", key+" (counter)", pos, true, "")
		return
	}
	if idxLoop(st, hdr) {
		e.check(st, "R-PROGRESS", key+" (look-ahead index)", pos, true, "")
		return
	}
	if e.headerLeaves(fi, st, hdr) {
		// the loop condition is already false in this state (`for closing < 0 { … closing = 3 … }`): this path goes
		// round the loop once more only to leave it — it is the exit path, not an iteration
		e.check(st, "R-PROGRESS", key, pos, true, "")
		return
	}
	e.check(st, "R-PROGRESS", key, pos, false, fmt.Sprintf("a path around this loop does not advance the cursor (net displacement >= %d) and the loop is not a bounded counter/range loop: on some input the scan does not terminate", d))
}

// headerLeaves: in state st (at the back edge, header phis assigned) the header's own test is decided and its taken
// branch leaves the loop.
func (e *Engine) headerLeaves(fi *fnInfo, st *State, hdr *ssa.BasicBlock) bool {
	iff, ok := lastInstr(hdr).(*ssa.If)
	if !ok {
		return false
	}
	var cv AbsVal
	switch c := iff.Cond.(type) {
	case *ssa.BinOp:
		if c.Block() != hdr {
			return false
		}
		// operands must be available before the header body runs: phis of the header, constants, values from outside
		for _, op := range []ssa.Value{c.X, c.Y} {
			if in, isIn := op.(ssa.Instruction); isIn && in.Block() == hdr {
				if _, isPhi := op.(*ssa.Phi); !isPhi {
					return false
				}
			}
		}
		cv = e.binop(st, c)
	case *ssa.Phi:
		if c.Block() != hdr {
			return false
		}
		cv = e.eval(st, c)
	default:
		return false
	}
	t, known := cv.constInt()
	if !known || cv.k != vInt {
		return false
	}
	next := hdr.Succs[0]
	if t == 0 {
		next = hdr.Succs[1]
	}
	// next is outside the loop iff the header cannot be reached from it again
	seen := map[*ssa.BasicBlock]bool{}
	var reach func(b *ssa.BasicBlock) bool
	reach = func(b *ssa.BasicBlock) bool {
		if b == hdr {
			return true
		}
		if seen[b] {
			return false
		}
		seen[b] = true
		for _, s := range b.Succs {
			if reach(s) {
				return true
			}
		}
		return false
	}
	return !reach(next)
}

func loopOrdinal(fi *fnInfo, hdr *ssa.BasicBlock) int {
	n := 0
	for _, b := range fi.fn.Blocks {
		if fi.isHeader[b] {
			n++
			if b == hdr {
				return n
			}
		}
	}
	return 0
}

// counterLoop recognises loops governed by an integer phi with constant
// stride that is compared against a bound in the header region (range loops
// and `for i := a; i < n; i++` / decreasing `i >= 0`).
func counterLoop(hdr *ssa.BasicBlock) bool {
	for _, in := range hdr.Instrs {
		phi, ok := in.(*ssa.Phi)
		if !ok {
			break
		}
		if !isIntType(phi.Type()) {
			continue
		}
		stride := int64(0)
		okStride := true
		for i, ed := range phi.Edges {
			if !hdr.Dominates(hdr.Preds[i]) {
				continue
			}
			d := linOf(ed).add(linAtom("%"+phi.Name()), -1)
			if !d.isConst() || d.C == 0 {
				okStride = false
				break
			}
			if stride != 0 && (stride > 0) != (d.C > 0) {
				okStride = false
			}
			stride = d.C
		}
		if !okStride || stride == 0 {
			continue
		}
		// a comparison involving the phi (or phi+stride) controls an exit of the loop
		for _, b := range hdr.Parent().Blocks {
			if !(b == hdr || hdr.Dominates(b)) {
				continue
			}
			iff, ok := lastInstr(b).(*ssa.If)
			if !ok {
				continue
			}
			bo, ok := iff.Cond.(*ssa.BinOp)
			if !ok {
				continue
			}
			a := "%" + phi.Name()
			x, y := linOf(bo.X), linOf(bo.Y)
			if x.T[a] == 0 && y.T[a] == 0 {
				continue
			}
			// one successor leaves the loop
			for _, s := range b.Succs {
				if !hdr.Dominates(s) || s == hdr && false {
					return true
				}
				if !reaches(s, hdr, hdr) {
					return true
				}
			}
		}
	}
	return false
}

// reaches: can control flow from a reach target without leaving blocks dominated by hdr?
func reaches(a, target, hdr *ssa.BasicBlock) bool {
	seen := map[*ssa.BasicBlock]bool{}
	var dfs func(b *ssa.BasicBlock) bool
	dfs = func(b *ssa.BasicBlock) bool {
		if b == target {
			return true
		}
		if seen[b] || !hdr.Dominates(b) {
			return false
		}
		seen[b] = true
		for _, s := range b.Succs {
			if dfs(s) {
				return true
			}
		}
		return false
	}
	return dfs(a)
}

// ---------------------------------------------------------------------------
// block execution

func (e *Engine) execBlock(fi *fnInfo, b *ssa.BasicBlock, start int, st *State,
	edge func(s *State, to *ssa.BasicBlock), ret func(s *State, r []AbsVal, at *ssa.Return)) {
	for i := start; i < len(b.Instrs); i++ {
		if st.dead || e.aborted != "" {
			return
		}
		e.steps++
		if engTrace != "" && strings.Contains(fnLabel(fi.fn), engTrace) {
			fmt.Fprintf(os.Stderr, "[%s b%d i%d] %-40s | S>=%d eof=%v L=[%d,%s] disp=[%d,%s] bytes=%s\n", fi.fn.Name(), b.Index, i, fmt.Sprint(b.Instrs[i]), st.E, st.atEOF, st.Lmin, infs(st.Lmax), st.dispLo, infs(st.dispHi), e.bytesStr(st))
		}
		if e.steps > e.maxSteps {
			e.aborted = "step budget exhausted"
			return
		}
		if u, ok := b.Instrs[i].(*ssa.UnOp); ok && u.Op == token.MUL {
			// tokenTable[c] for a per-byte table of an enumerated type with few candidate bytes: one state per
			// byte, so that the token type stays correlated with the byte consumed
			outs := e.enumTableSplit(st, u)
			if outs == nil {
				outs = e.rowTableSplit(st, u)
			}
			if outs != nil {
				for _, o := range outs {
					if !o.dead {
						e.execBlock(fi, b, i+1, o, edge, ret)
					}
				}
				return
			}
		}
		switch in := b.Instrs[i].(type) {
		case *ssa.Phi:
			// assigned on the edge
		case *ssa.If:
			cv := e.eval(st, in.Cond)
			if engTrace != "" && strings.Contains(fnLabel(fi.fn), engTrace) {
				if bo, isBo := in.Cond.(*ssa.BinOp); isBo {
					fmt.Fprintf(os.Stderr, "    cond %s: x=%s y=%s cv=%s\n", condString(in.Cond), e.eval(st, bo.X), e.eval(st, bo.Y), cv)
				}
			}
			if c, ok := cv.constInt(); ok {
				if c != 0 {
					st.note("%s: %s is true", e.prog.Position(in.Pos()), condString(in.Cond))
					edge(st, b.Succs[0])
				} else {
					st.note("%s: %s is false", e.prog.Position(in.Pos()), condString(in.Cond))
					edge(st, b.Succs[1])
				}
				return
			}
			t, f := st.clone(), st
			e.refine(t, cv, in.Cond, true)
			e.refine(f, cv, in.Cond, false)
			if !t.dead {
				t.note("%s: %s is true", e.prog.Position(in.Pos()), condString(in.Cond))
				for _, s := range e.splitEnumTables(t) {
					edge(s, b.Succs[0])
				}
			}
			if !f.dead {
				f.note("%s: %s is false", e.prog.Position(in.Pos()), condString(in.Cond))
				for _, s := range e.splitEnumTables(f) {
					edge(s, b.Succs[1])
				}
			}
			return
		case *ssa.Jump:
			edge(st, b.Succs[0])
			return
		case *ssa.Return:
			var rv []AbsVal
			for _, r := range in.Results {
				v := e.eval(st, r)
				if v.k == vTabInt {
					// a table value leaves the function: the values the table has for the bytes still possible
					v = tableValuesMasked(v.itable, v.mask, e.eval(st, v.tabX).byteSet())
				}
				rv = append(rv, v)
			}
			// A boolean result that is still an undecided comparison / table look-up / error test is decided
			// here, in the callee's state, where the compared value is still known: the caller gets one exit per
			// truth value with the refinement applied (predicate helpers such as isNameEnd(c) stay transparent).
			if len(e.stack) > 1 {
				for i, r := range in.Results {
					if b, ok := r.Type().Underlying().(*types.Basic); !ok || b.Kind() != types.Bool {
						continue
					}
					if _, isParam := rv[i].idx.(*ssa.Parameter); isParam && rv[i].k == vErrAt {
						continue // the end-of-input test at an index parameter: decided in the caller, where the index lives
					}
					switch rv[i].k {
					case vCmp, vTable, vErrAt, kHeapRef:
						t, f := st.clone(), st
						e.refine(t, rv[i], r, true)
						e.refine(f, rv[i], r, false)
						for _, br := range []struct {
							s *State
							v bool
						}{{t, true}, {f, false}} {
							if br.s.dead {
								continue
							}
							rv2 := append([]AbsVal{}, rv...)
							rv2[i] = boolVal(br.v)
							ret(br.s, rv2, in)
						}
						return
					}
				}
			}
			ret(st, rv, in)
			return
		case *ssa.Panic:
			return
		case *ssa.Store:
			e.store(st, in)
		case *ssa.Call:
			outs := e.call(fi, st, in)
			if len(outs) == 1 && outs[0] == st {
				continue
			}
			for _, o := range outs {
				if !o.dead {
					e.execBlock(fi, b, i+1, o, edge, ret)
				}
			}
			return
		case *ssa.Lookup:
			outs := e.lookup(st, in)
			if len(outs) == 1 && outs[0] == st {
				continue
			}
			for _, o := range outs {
				if !o.dead {
					e.execBlock(fi, b, i+1, o, edge, ret)
				}
			}
			return
		case ssa.Value:
			v := e.compute(fi, st, in)
			if engTrace != "" && strings.Contains(fnLabel(fi.fn), engTrace) {
				fmt.Fprintf(os.Stderr, "    %s = %s\n", in.Name(), v)
			}
			if v.k == vTop {
				delete(st.vals, in)
			} else {
				st.setv(in, v)
			}
		default:
			// Defer, Go, RunDefers, MapUpdate, Send, DebugRef: no effect on the abstraction
		}
	}
}

func condString(v ssa.Value) string {
	if bo, ok := v.(*ssa.BinOp); ok {
		return fmt.Sprintf("%s %s %s", shortVal(bo.X), bo.Op, shortVal(bo.Y))
	}
	return shortVal(v)
}

func shortVal(v ssa.Value) string {
	switch x := v.(type) {
	case *ssa.Const:
		if x.Value != nil {
			if x.Value.Kind() == constant.Int {
				if c, ok := constant.Int64Val(x.Value); ok && c >= 0x20 && c < 0x7f {
					return fmt.Sprintf("%q", rune(c))
				}
			}
			return x.Value.ExactString()
		}
		return "nil"
	case *ssa.Call:
		if f := x.Call.StaticCallee(); f != nil {
			var as []string
			for i, a := range x.Call.Args {
				if i == 0 && f.Signature.Recv() != nil {
					continue
				}
				as = append(as, shortVal(a))
			}
			return f.Name() + "(" + strings.Join(as, ",") + ")"
		}
	case *ssa.UnOp:
		if x.Op == token.MUL {
			return canon(x.X)
		}
		return x.Op.String() + shortVal(x.X)
	case *ssa.Convert:
		return shortVal(x.X)
	case *ssa.Phi:
		if x.Comment != "" {
			return x.Comment
		}
	case *ssa.Parameter:
		return x.Name()
	}
	return v.Name()
}

// ---------------------------------------------------------------------------
// evaluation

func (e *Engine) eval(st *State, v ssa.Value) AbsVal {
	switch x := v.(type) {
	case *ssa.Const:
		if x.Value == nil {
			return intVal(0) // nil
		}
		switch x.Value.Kind() {
		case constant.Bool:
			return boolVal(constant.BoolVal(x.Value))
		case constant.Int:
			if c, ok := constant.Int64Val(x.Value); ok {
				return intVal(c)
			}
		case constant.String:
			if s := constant.StringVal(x.Value); len(s) <= 64 {
				if b, ok := x.Type().Underlying().(*types.Basic); ok && b.Info()&types.IsString != 0 {
					return AbsVal{k: vStrSet, strs: []string{s}}
				}
			}
		}
		return top
	case *ssa.Function:
		return AbsVal{k: vFunc, fn: x}
	}
	if av, ok := st.getv(v); ok {
		return av
	}
	return top
}

func modTypePath(t types.Type) (string, bool) {
	if p, ok := t.Underlying().(*types.Pointer); ok {
		t = p.Elem()
	}
	n, ok := t.(*types.Named)
	if !ok || n.Obj().Pkg() == nil || !core.InModule(n.Obj().Pkg()) {
		return "", false
	}
	if _, ok := n.Underlying().(*types.Struct); !ok {
		return "", false
	}
	return core.RelPkg(n.Obj().Pkg()) + "." + n.Obj().Name(), true
}

// heapPath returns the abstract heap location addressed by v, if any.
func heapPath(v ssa.Value) (string, bool) {
	fa, ok := v.(*ssa.FieldAddr)
	if !ok {
		return "", false
	}
	// a row of a package-level table (ops := &opTokens[c]; ops.opEq) is not lexer state
	if ia, isIA := fa.X.(*ssa.IndexAddr); isIA {
		if _, isG := ia.X.(*ssa.Global); isG {
			return "", false
		}
	}
	tp, ok := modTypePath(fa.X.Type())
	if !ok {
		return "", false
	}
	return tp + "." + fieldName(fa.X.Type(), fa.Field), true
}

const (
	kHeapRef vkind = 100 + iota
	kFieldSlice
	kElemAddr
	kOffset
	kLenOf
)

func (e *Engine) compute(fi *fnInfo, st *State, in ssa.Value) AbsVal {
	switch x := in.(type) {
	case *ssa.UnOp:
		switch x.Op {
		case token.NOT:
			v := e.eval(st, x.X)
			if c, ok := v.constInt(); ok {
				return boolVal(c == 0)
			}
			switch v.k {
			case vCmp, vErrAt, vTable, kHeapRef:
				v.neg = !v.neg
				return v
			}
			return top
		case token.SUB:
			v := e.eval(st, x.X)
			if c, ok := v.constInt(); ok {
				return intVal(-c)
			}
			if v.k == vMark && v.fresh && v.dlo == 0 && v.dhi == 0 {
				return AbsVal{k: vNegPos, fresh: true} // -Pos(): minus the current selection length
			}
			return top
		case token.MUL:
			return e.load(st, x)
		}
		return top
	case *ssa.BinOp:
		return e.binop(st, x)
	case *ssa.Convert:
		v := e.eval(st, x.X)
		if isIntType(x.Type()) && (v.k == vInt || v.k == vByte || v.k == vMark || v.k == vAtomLen || v.k == vRuneLen || v.k == vIdx || v.k == vNegPos) {
			return v
		}
		return top
	case *ssa.ChangeType:
		return e.eval(st, x.X)
	case *ssa.Extract:
		t := e.eval(st, x.Tuple)
		if t.k == vTuple && x.Index < len(t.elems) {
			return t.elems[x.Index]
		}
		return top
	case *ssa.MakeClosure:
		av := AbsVal{k: vFunc}
		av.fn, _ = x.Fn.(*ssa.Function)
		return av
	case *ssa.Alloc:
		if p, ok := x.Type().Underlying().(*types.Pointer); ok {
			if a, ok := p.Elem().Underlying().(*types.Array); ok && a.Len() <= 16 {
				return AbsVal{k: vArr, arr: &absArr{elems: make([]AbsVal, a.Len())}, alo: 0, ahi: int(a.Len())}
			}
		}
		return top
	case *ssa.IndexAddr:
		base := e.eval(st, x.X)
		idx := e.eval(st, x.Index)
		if g, isG := x.X.(*ssa.Global); isG && base.k != vLit {
			// a row of a small constant table addressed in place (decl := &declarations[i])
			if l := e.rowTable(g); l != nil {
				base = AbsVal{k: vLit, lit: l, field: -1}
			}
		}
		if base.k == vArr {
			if c, ok := idx.constInt(); ok && int(c) >= 0 && base.alo+int(c) < base.ahi {
				return AbsVal{k: kElemAddr, arr: base.arr, alo: base.alo + int(c)}
			}
			return top
		}
		if base.k == vSlice {
			e.sliceIndex(fi, st, x, base, idx)
		}
		if base.k == vLit && base.field < 0 && base.lit != nil {
			if c, ok := idx.constInt(); ok && c >= 0 && int(c) < len(base.lit.Elems) && base.lit.Elems[c] != nil {
				return AbsVal{k: vLit, lit: base.lit.Elems[c], field: -1}
			}
		}
		return top
	case *ssa.Index:
		if b, ok := x.Type().Underlying().(*types.Basic); ok && b.Kind() == types.String {
			return e.stringsOfValue(st, x)
		}
		if sv := e.eval(st, x.X); sv.k == vStrSet {
			return strSetByte(sv, e.eval(st, x.Index))
		} else if sv.k == vLit && sv.field < 0 && sv.lit != nil {
			// a row of a constant table held by value (for _, row := range table over an array)
			if c, ok := e.eval(st, x.Index).constInt(); ok && c >= 0 && int(c) < len(sv.lit.Elems) && sv.lit.Elems[c] != nil {
				return AbsVal{k: vLit, lit: sv.lit.Elems[c], field: -1}
			}
		}
		return top
	case *ssa.Slice:
		return e.slice(fi, st, x)
	case *ssa.Field:
		if base := e.eval(st, x.X); base.k == vLit && base.field < 0 && base.lit != nil && x.Field < len(base.lit.Elems) {
			return e.litValue(base.lit.Elems[x.Field], x.Type())
		}
		// a field of a by-value copy of a lexer sub-struct (value receivers, `t := l.tmpl`): objects are identified by
		// type, so this is the same abstract location as the field reached through the pointer
		if tp, ok := modTypePath(x.X.Type()); ok {
			path := tp + "." + fieldName(x.X.Type(), x.Field)
			if av, ok := st.heap[path]; ok {
				if av.k == vInt && len(av.ints) > 1 {
					av.atom = path
				}
				return av
			}
			if _, isSlice := x.Type().Underlying().(*types.Slice); isSlice {
				return AbsVal{k: kFieldSlice, atom: path}
			}
			return AbsVal{k: kHeapRef, atom: path}
		}
		return top
	case *ssa.FieldAddr:
		if base := e.eval(st, x.X); base.k == vLit && base.field < 0 && base.lit != nil && x.Field < len(base.lit.Elems) {
			return AbsVal{k: vLit, lit: base.lit, field: x.Field}
		}
		return top
	case *ssa.MakeInterface:
		// an error value built by NewError/NewErrorLexer and handed on as `error` (return ErrorGrammar, nil, parse.NewErrorLexer(…)):
		// still that non-nil value with its message
		if isErrorType(x.Type()) {
			// (a message that is not a constant here — fail(msg) — is resolved where the value is stored)
			if iv := e.eval(st, x.X); iv.emsg != "" && iv.emsg != "?" {
				return iv
			}
		}
		return top
	case *ssa.MakeSlice, *ssa.MakeMap, *ssa.TypeAssert, *ssa.ChangeInterface, *ssa.Range, *ssa.Next, *ssa.SliceToArrayPointer, *ssa.MakeChan, *ssa.Select:
		return top
	}
	return top
}

func (e *Engine) load(st *State, x *ssa.UnOp) AbsVal {
	if path, ok := heapPath(x.X); ok {
		if av, ok := st.heap[path]; ok {
			if av.k == vInt && len(av.ints) > 1 {
				av.atom = path // remember the origin: a branch on the loaded value refines the field too
			}
			return av
		}
		if _, isSlice := x.Type().Underlying().(*types.Slice); isSlice {
			return AbsVal{k: kFieldSlice, atom: path}
		}
		return AbsVal{k: kHeapRef, atom: path}
	}
	a := e.eval(st, x.X)
	if a.k == kElemAddr {
		return a.arr.elems[a.alo]
	}
	if a.k == vLit && a.lit != nil {
		if a.field >= 0 {
			if a.field < len(a.lit.Elems) {
				return e.litValue(a.lit.Elems[a.field], x.Type())
			}
			return top
		}
		if a.lit.Const != nil && !a.lit.IsBytes {
			return e.litValue(a.lit, x.Type()) // an element of a list of constants
		}
		return a // the row (or table) itself, loaded through its address
	}
	// a package-level table of rows: tab := *table
	if g, ok := x.X.(*ssa.Global); ok {
		if bs, ok := e.constBytes(g); ok {
			arr := &absArr{elems: make([]AbsVal, len(bs))}
			for i, b := range bs {
				arr.elems[i] = AbsVal{k: vByte, set: bsOf(b)}
			}
			return AbsVal{k: vArr, arr: arr, alo: 0, ahi: len(bs)}
		}
		if l := e.rowTable(g); l != nil {
			return AbsVal{k: vLit, lit: l, field: -1}
		}
	}
	// table[c] for package-level [256]bool
	if ia, ok := x.X.(*ssa.IndexAddr); ok {
		if g, ok := ia.X.(*ssa.Global); ok {
			if t := e.boolTable(g); t != nil {
				idx := e.eval(st, ia.Index)
				set := idx.byteSet()
				allT, allF := true, true
				for _, b := range set.members() {
					if t[b] {
						allF = false
					} else {
						allT = false
					}
				}
				if allT {
					return boolVal(true)
				}
				if allF {
					return boolVal(false)
				}
				return AbsVal{k: vTable, table: t, tabX: ia.Index}
			}
			if t := e.intTable(g); t != nil {
				// class bits / per-byte classes / per-byte token types: the link to the byte is kept so that a
				// mask test or a comparison with a class constant refines the byte
				set := e.eval(st, ia.Index).byteSet()
				if v := tableValues(t, set); v.k == vInt && len(v.ints) == 1 {
					return v
				}
				return AbsVal{k: vTabInt, itable: t, tabX: ia.Index, mask: -1}
			}
		}
	}
	// table[c].field for a [256]struct literal
	if fa, ok := x.X.(*ssa.FieldAddr); ok {
		if ia, ok := fa.X.(*ssa.IndexAddr); ok {
			if g, ok := ia.X.(*ssa.Global); ok {
				if t := e.intTableField(g, fa.Field); t != nil {
					return tableValues(t, e.eval(st, ia.Index).byteSet())
				}
			}
		}
	}
	if b, ok := x.Type().Underlying().(*types.Basic); ok && b.Kind() == types.String {
		return e.stringsOfValue(st, x)
	}
	return top
}

func (e *Engine) boolTable(g *ssa.Global) *[256]bool {
	if t, ok := e.tables[g]; ok {
		return t
	}
	var out *[256]bool
	if core.InModule(g.Pkg.Pkg) {
		if p, ok := g.Type().Underlying().(*types.Pointer); ok {
			if a, ok := p.Elem().Underlying().(*types.Array); ok && a.Len() == 256 {
				if b, ok := a.Elem().Underlying().(*types.Basic); ok && b.Kind() == types.Bool {
					if pk := e.prog.ByPath[g.Pkg.Pkg.Path()]; pk != nil {
						out, _ = boolTable(pk, g.Name())
					}
				}
			}
		}
	}
	e.tables[g] = out
	return out
}

// intTable: the constant contents of a package-level [256]<integer> literal (character classes, per-byte token types).
func (e *Engine) intTable(g *ssa.Global) *[256]int64 { return e.intTableField(g, -1) }

// intTableField: field >= 0 selects an integer field of a [256]struct{...} literal.
func (e *Engine) intTableField(g *ssa.Global, field int) *[256]int64 {
	e.itabMu.Lock()
	defer e.itabMu.Unlock()
	if e.itables == nil {
		e.itables = map[string]*[256]int64{}
		e.derived = map[string]*[256]bool{}
	}
	key := fmt.Sprintf("%p/%d", g, field)
	if t, ok := e.itables[key]; ok {
		return t
	}
	var out *[256]int64
	if g.Pkg != nil && core.InModule(g.Pkg.Pkg) {
		if p, ok := g.Type().Underlying().(*types.Pointer); ok {
			if a, ok := p.Elem().Underlying().(*types.Array); ok && a.Len() == 256 {
				et := a.Elem()
				if st, isSt := et.Underlying().(*types.Struct); isSt && field >= 0 && field < st.NumFields() {
					et = st.Field(field).Type()
				} else if field >= 0 {
					et = nil
				}
				if et != nil {
					if b, ok := et.Underlying().(*types.Basic); ok && b.Info()&types.IsInteger != 0 {
						if pk := e.prog.ByPath[g.Pkg.Pkg.Path()]; pk != nil {
							if l, err := evalGlobal(pk, g.Name()); err == nil && len(l.Elems) == 256 {
								var t [256]int64
								okAll := true
								for i, el := range l.Elems {
									if el == nil {
										continue
									}
									if field >= 0 {
										if field >= len(el.Elems) {
											okAll = false
											continue
										}
										el = el.Elems[field]
										if el == nil {
											continue
										}
									}
									v, okV := el.Int()
									if !okV {
										okAll = false
									}
									t[i] = v
								}
								if okAll {
									out = &t
								}
							}
						}
					}
				}
			}
		}
	}
	e.itables[key] = out
	return out
}

// tableValues: the values a table can yield for an index in the given byte set (a small set, else unknown).
func tableValues(t *[256]int64, set ByteSet) AbsVal {
	seen := map[int64]bool{}
	var vals []int64
	for _, b := range set.members() {
		if !seen[t[b]] {
			seen[t[b]] = true
			vals = append(vals, t[b])
		}
	}
	if len(vals) == 0 || len(vals) > 16 {
		return top
	}
	return intVal(vals...)
}

func tableValuesMasked(t *[256]int64, mask int64, set ByteSet) AbsVal {
	var m [256]int64
	for i := range t {
		m[i] = t[i] & mask
	}
	return tableValues(&m, set)
}

// eqTable: the [256]bool table "table[c] & mask == k".
func (e *Engine) eqTable(t *[256]int64, mask, k int64) *[256]bool {
	e.itabMu.Lock()
	defer e.itabMu.Unlock()
	if e.derived == nil {
		e.derived = map[string]*[256]bool{}
	}
	key := fmt.Sprintf("%p/%d==%d", t, mask, k)
	if b, ok := e.derived[key]; ok {
		return b
	}
	var b [256]bool
	for i := range t {
		b[i] = t[i]&mask == k
	}
	e.derived[key] = &b
	return &b
}

// cmpTable: the [256]bool table "table[c] & mask  op  k".
func (e *Engine) cmpTable(t *[256]int64, mask int64, op token.Token, k int64) *[256]bool {
	e.itabMu.Lock()
	defer e.itabMu.Unlock()
	if e.derived == nil {
		e.derived = map[string]*[256]bool{}
	}
	if e.itables == nil {
		e.itables = map[string]*[256]int64{}
	}
	key := fmt.Sprintf("%p/%d%s%d", t, mask, op, k)
	if b, ok := e.derived[key]; ok {
		return b
	}
	var b [256]bool
	for i := range t {
		b[i] = cmpInts(t[i]&mask, op, k)
	}
	e.derived[key] = &b
	return &b
}

// classTable: the [256]bool table "table[c] & mask != 0" (one object per (table, mask): tables are compared by identity).
func (e *Engine) classTable(t *[256]int64, mask int64) *[256]bool {
	e.itabMu.Lock()
	defer e.itabMu.Unlock()
	if e.derived == nil {
		e.derived = map[string]*[256]bool{}
	}
	key := fmt.Sprintf("%p/%d", t, mask)
	if b, ok := e.derived[key]; ok {
		return b
	}
	var b [256]bool
	for i := range t {
		b[i] = t[i]&mask != 0
	}
	e.derived[key] = &b
	return &b
}

func (e *Engine) store(st *State, in *ssa.Store) {
	if path, ok := heapPath(in.Addr); ok {
		v := e.eval(st, in.Val)
		if _, isSlice := in.Val.Type().Underlying().(*types.Slice); isSlice {
			a := "len(" + path + ")"
			delete(st.heap, "pos:"+a)
			delete(st.heap, "lo:"+a)
			delete(st.heap, "hi:"+a)
		}
		switch {
		case e.cfg.StrPaths[path]:
			if c, ok := in.Val.(*ssa.Const); ok && c.Value != nil && c.Value.Kind() == constant.String {
				if constant.StringVal(c.Value) == "" {
					st.heap[path] = intVal(0)
				} else {
					st.heap[path] = intVal(1)
				}
			} else {
				st.heap[path] = intVal(1) // formatted messages are non-empty
			}
			// a store that changes the length of a tracked stack invalidates facts about it
		case v.k == vInt || v.k == vSlice:
			st.heap[path] = v
			if path == e.cfg.ErrPath && v.emsg != "" {
				// an error value built elsewhere (returned by a scanner, `p.err = err`) and recorded here
				if c, isC := v.constInt(); isC && c == 1 {
					st.errMsg = v.emsg
				}
			}
		default:
			// error-typed fields: track nil-ness
			if isErrorType(in.Val.Type()) {
				inner := in.Val
				if mi, ok := inner.(*ssa.MakeInterface); ok {
					inner = mi.X
				}
				if c, ok := inner.(*ssa.Call); ok {
					if f := c.Call.StaticCallee(); f != nil && (f.Name() == "NewErrorLexer" || f.Name() == "NewError") {
						st.heap[path] = intVal(1)
						if path == e.cfg.ErrPath {
							st.errMsg = "?"
							for _, a := range c.Call.Args {
								if k, ok := a.(*ssa.Const); ok && k.Value != nil && k.Value.Kind() == constant.String {
									st.errMsg = constant.StringVal(k.Value)
								}
								// the message is a parameter of a recording helper (fail(msg, args...)): resolved at the call site
								if prm, ok := a.(*ssa.Parameter); ok && st.errMsg == "?" {
									if b, isB := prm.Type().Underlying().(*types.Basic); isB && b.Kind() == types.String {
										for i, q := range in.Parent().Params {
											if q == prm {
												st.errMsg = fmt.Sprintf("\x00param:%d", i)
											}
										}
									}
								}
							}
						}
						break
					}
				}
				if mi, ok := in.Val.(*ssa.MakeInterface); ok {
					st.heap[path] = intVal(1)
					if iv := e.eval(st, mi.X); iv.emsg != "" && path == e.cfg.ErrPath {
						st.errMsg = iv.emsg // an error value built elsewhere (returned by a scanner) and recorded here
					}
					break
				}
			}
			delete(st.heap, path)
		}
		if path == e.cfg.ErrPath {
			if c, ok := st.heap[path].constInt(); ok {
				if c == 1 {
					st.errSet = 1
				} else {
					st.errSet = 2
				}
			} else {
				st.errSet = 0
			}
		}
		return
	}
	a := e.eval(st, in.Addr)
	if a.k == kElemAddr {
		a.arr.elems[a.alo] = e.eval(st, in.Val)
		return
	}
	if al, ok := in.Addr.(*ssa.Alloc); ok {
		// row := table[i] copied into a local: the local holds that row until it is assigned again
		if v := e.eval(st, in.Val); v.k == vLit && v.field < 0 {
			st.setv(al, v)
		} else if cur, has := st.getv(al); has && cur.k == vLit {
			delete(st.vals, al)
		}
	}
	// writes into the input buffer through a lexeme slice: byte knowledge about the token becomes stale
	if ia, ok := in.Addr.(*ssa.IndexAddr); ok {
		if b := e.eval(st, ia.X); b.k == vSlice {
			// which byte is overwritten with what? judged where the token is returned (checkReturn)
			kind := wroteOther
			if k, isK := e.eval(st, in.Val).constInt(); isK && k == ' ' {
				if iv := e.eval(st, ia.Index); iv.k == vMark && iv.epoch == st.epoch && iv.dlo == iv.dhi && iv.dlo >= 1 && iv.dlo <= 12 {
					if old := st.byteAt(-iv.dlo); old.subset(bsOf('\t', '\n', '\r')) {
						kind = wroteSpace
					}
				}
			}
			st.wrote |= kind
			e.staleBehind(st)
		}
	}
}

// staleBehind: bytes behind the cursor may have been rewritten (ToLower, tab->space): keep only non-zero-ness.
func (e *Engine) staleBehind(st *State) {
	if st.stale < 3 {
		st.stale++
	}
	for k := range st.bytes {
		if k < 0 {
			delete(st.bytes, k)
		}
	}
	for v, avP := range st.vals {
		av := *avP
		if av.k == vByte && av.linked && av.coord < 0 {
			av.linked = false
			st.setv(v, av)
		}
	}
}

func isErrorType(t types.Type) bool {
	n, ok := t.(*types.Named)
	return ok && n.Obj().Name() == "error" && n.Obj().Pkg() == nil
}

func flipOp(op token.Token) token.Token {
	switch op {
	case token.LSS:
		return token.GTR
	case token.LEQ:
		return token.GEQ
	case token.GTR:
		return token.LSS
	case token.GEQ:
		return token.LEQ
	}
	return op
}

func cmpInts(a int64, op token.Token, b int64) bool {
	switch op {
	case token.EQL:
		return a == b
	case token.NEQ:
		return a != b
	case token.LSS:
		return a < b
	case token.LEQ:
		return a <= b
	case token.GTR:
		return a > b
	case token.GEQ:
		return a >= b
	}
	return false
}

func isCmp(op token.Token) bool {
	switch op {
	case token.EQL, token.NEQ, token.LSS, token.LEQ, token.GTR, token.GEQ:
		return true
	}
	return false
}

func (e *Engine) binop(st *State, x *ssa.BinOp) AbsVal {
	a, b := e.eval(st, x.X), e.eval(st, x.Y)
	if !isCmp(x.Op) {
		ca, oka := a.constInt()
		cb, okb := b.constInt()
		switch x.Op {
		case token.AND:
			if oka && okb {
				return intVal(ca & cb)
			}
			if a.k == vTabInt && okb {
				a.mask &= cb
				return a
			}
			if b.k == vTabInt && oka {
				b.mask &= ca
				return b
			}
			if a.k == vInt && okb && len(a.ints) > 0 && len(a.ints) <= 8 && !isBoolValue(x) {
				var out []int64
				for _, v := range a.ints {
					out = append(out, v&cb)
				}
				return intVal(out...)
			}
		case token.ADD:
			if oka && okb {
				return intVal(ca + cb)
			}
			if a.k == vMark && okb {
				return shiftMark(a, int(cb))
			}
			if b.k == vMark && oka {
				return shiftMark(b, int(ca))
			}
			if a.k == vByte && okb {
				return AbsVal{k: vByte, set: shiftSet(a.set, int(cb))}
			}
			if a.k == vIdx && okb && cb >= -16 && cb <= 16 {
				at, known := st.byteReadAt(x.X)
				return shiftIdx(a, int(cb), at, known)
			}
			if b.k == vIdx && oka && ca >= -16 && ca <= 16 {
				at, known := st.byteReadAt(x.Y)
				return shiftIdx(b, int(ca), at, known)
			}
			// n + k with k the length of the rune at index n (PeekRune(n)): still within the input
			if a.k == vRuneLen && b.k == vIdx {
				a, b = b, a
				x = &ssa.BinOp{X: x.Y, Y: x.X, Op: x.Op}
			}
			if a.k == vIdx && b.k == vRuneLen && b.idx != nil && b.idx == x.X {
				out := AbsVal{k: vIdx, ilo: a.ilo + 1, ihi: a.ihi, safe: -inf, back: a.back && a.ilo >= 0}
				if out.ihi < inf {
					out.ihi += 4
				}
				if b.runeOK {
					out.safe = 0
				}
				return out
			}
		case token.SUB:
			if oka && okb {
				return intVal(ca - cb)
			}
			if a.k == vMark && okb {
				return shiftMark(a, -int(cb))
			}
			if a.k == vIdx && okb && cb >= -16 && cb <= 16 {
				at, known := st.byteReadAt(x.X)
				return shiftIdx(a, -int(cb), at, known)
			}
		}
		return top
	}
	op := x.Op
	// normalise: constant on the right
	if _, ok := a.constInt(); ok {
		if _, okb := b.constInt(); !okb {
			a, b = b, a
			op = flipOp(op)
			x2 := *x
			x2.X, x2.Y = x.Y, x.X
			return e.cmp(st, a, b, op, x.Y, x.X)
		}
	}
	return e.cmp(st, a, b, op, x.X, x.Y)
}

func shiftSet(s ByteSet, k int) ByteSet {
	var out ByteSet
	for _, c := range s.members() {
		out = out.or(bsOf(byte(int(c) + k)))
	}
	return out
}

func shiftMark(m AbsVal, k int) AbsVal {
	m.mlo += k
	if m.mhi < inf {
		m.mhi += k
	}
	m.dlo -= k
	if m.dhi < inf {
		m.dhi -= k
	}
	m.fresh = false
	m.snapOff += k
	return m
}

func opString(op token.Token) string { return op.String() }

func (e *Engine) cmp(st *State, a, b AbsVal, op token.Token, xv, yv ssa.Value) AbsVal {
	// constant strings (an error message handed around: msg != "")
	if a.k == vStrSet && b.k == vStrSet && (op == token.EQL || op == token.NEQ) {
		anyEq, anyNe := false, false
		for _, x := range a.strs {
			for _, y := range b.strs {
				if x == y {
					anyEq = true
				} else {
					anyNe = true
				}
			}
		}
		if anyEq != anyNe {
			return boolVal(anyEq == (op == token.EQL))
		}
		return top
	}
	kb, bConst := b.constInt()
	if ka, ok := a.constInt(); ok && bConst {
		return boolVal(cmpInts(ka, op, kb))
	}
	switch a.k {
	case vByte, vInt:
		if bConst {
			// decide from the set when possible
			anyT, anyF := false, false
			if a.k == vByte {
				for _, c := range a.set.members() {
					if cmpInts(int64(c), op, kb) {
						anyT = true
					} else {
						anyF = true
					}
				}
			} else {
				for _, c := range a.ints {
					if cmpInts(c, op, kb) {
						anyT = true
					} else {
						anyF = true
					}
				}
			}
			if anyT && !anyF {
				return boolVal(true)
			}
			if anyF && !anyT {
				return boolVal(false)
			}
			return AbsVal{k: vCmp, cmpX: xv, cmpOp: opString(op), cmpK: kb}
		}
		if a.k == vByte && (b.k == vByte) && (op == token.EQL || op == token.NEQ) {
			if a.set.and(b.set).empty() {
				return boolVal(op == token.NEQ)
			}
			sa, oka := a.set.single()
			sb, okb := b.set.single()
			if oka && okb && sa == sb {
				return boolVal(op == token.EQL)
			}
			return AbsVal{k: vCmp, cmpX: xv, cmpOp: opString(op), cmpY: yv}
		}
	case vMark:
		if bConst {
			if cmpAll(a.mlo, a.mhi, op, int(kb)) == 1 {
				return boolVal(true)
			}
			if cmpAll(a.mlo, a.mhi, op, int(kb)) == -1 {
				return boolVal(false)
			}
			return AbsVal{k: vCmp, cmpX: xv, cmpOp: opString(op), cmpK: kb}
		}
		if b.k == vMark {
			// l.r.Pos() compared with another mark: undecided, no refinement
			return top
		}
	case vRuneLen:
		if bConst {
			// a rune is 1..4 bytes long
			switch cmpAll(1, 4, op, int(kb)) {
			case 1:
				return boolVal(true)
			case -1:
				return boolVal(false)
			}
		}
	case vTabInt:
		if bConst && (op == token.NEQ || op == token.EQL) {
			tab := e.eqTable(a.itable, a.mask, kb)
			// decided outright when the bytes still possible all agree
			set := e.eval(st, a.tabX).byteSet()
			allT, allF := true, true
			for _, c := range set.members() {
				if tab[c] {
					allF = false
				} else {
					allT = false
				}
			}
			if allT {
				return boolVal(op == token.EQL)
			}
			if allF {
				return boolVal(op == token.NEQ)
			}
			return AbsVal{k: vTable, table: tab, tabX: a.tabX, neg: op == token.NEQ}
		}
		if bConst && kb == 0 && op == token.GTR {
			return AbsVal{k: vTable, table: e.classTable(a.itable, a.mask), tabX: a.tabX}
		}
		if bConst && isCmp(op) {
			// any comparison of the (masked) table value with a constant is a predicate of the byte
			tab := e.cmpTable(a.itable, a.mask, op, kb)
			set := e.eval(st, a.tabX).byteSet()
			allT, allF := true, true
			for _, c := range set.members() {
				if tab[c] {
					allF = false
				} else {
					allT = false
				}
			}
			if allT {
				return boolVal(true)
			}
			if allF {
				return boolVal(false)
			}
			return AbsVal{k: vTable, table: tab, tabX: a.tabX}
		}
	case vIdx:
		if bConst {
			switch cmpAll(a.ilo, a.ihi, op, int(kb)) {
			case 1:
				return boolVal(true)
			case -1:
				return boolVal(false)
			}
			return AbsVal{k: vCmp, cmpX: xv, cmpOp: opString(op), cmpK: kb}
		}
		if b.k == vNegPos || b.k == vInt {
			return AbsVal{k: vCmp, cmpX: xv, cmpOp: opString(op), cmpY: yv}
		}
	case vNegPos:
		if b.k == vIdx {
			return AbsVal{k: vCmp, cmpX: yv, cmpOp: opString(flipOp(op)), cmpY: xv}
		}
	case kOffset, vAtomLen, kHeapRef, kLenOf:
		if bConst {
			if a.k == vAtomLen {
				lo, hi := atomBounds(st, a.atom)
				switch cmpAll(lo, hi, op, int(kb)) {
				case 1:
					return boolVal(true)
				case -1:
					return boolVal(false)
				}
			}
			return AbsVal{k: vCmp, cmpX: xv, cmpOp: opString(op), cmpK: kb}
		}
	case vErrAt:
		if bConst && kb == 0 && (op == token.NEQ || op == token.EQL) {
			a.neg = op == token.EQL
			return a
		}
	}
	// heap-ref compared with a non-constant, or anything else
	return top
}

// cmpAll: 1 if every value in [lo,hi] satisfies (v op k), -1 if none does, 0 otherwise.
func cmpAll(lo, hi int, op token.Token, k int) int {
	t := func(v int) bool { return cmpInts(int64(v), op, int64(k)) }
	switch op {
	case token.EQL:
		if lo == hi && lo == k {
			return 1
		}
		if k < lo || k > hi {
			return -1
		}
		return 0
	case token.NEQ:
		if lo == hi && lo == k {
			return -1
		}
		if k < lo || k > hi {
			return 1
		}
		return 0
	}
	a, b := t(lo), t(hi)
	if hi >= inf {
		b = op == token.GTR || op == token.GEQ
	}
	if a && b {
		return 1
	}
	if !a && !b {
		return -1
	}
	return 0
}

func envInt(name string, def int) int {
	if s := os.Getenv(name); s != "" {
		if n, err := strconv.Atoi(s); err == nil && n > 0 {
			return n
		}
	}
	return def
}
