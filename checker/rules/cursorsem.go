package rules

// Layout-independent view of the cursor types (parse.Input, buffer.Lexer).
//
// Fields are identified by role, not by name: buf is the []byte field, err the error field, restore the
// func() field, pos the int field that Offset() returns and start the other int field. Method bodies are
// summarised by symbolic evaluation over affine forms in the canonical vocabulary {z.pos, z.start,
// len(z.buf), parameter names}; calls to other methods of the same receiver are composed from their
// summaries, so `Shift` written as `b := z.Lexeme(); z.Skip(); return b` has the same summary as the
// hand-inlined version.

import (
	"fmt"
	"go/token"
	"go/types"
	"sort"
	"strings"

	"golang.org/x/tools/go/ssa"

	"verif/checker/core"
)

type cursorRoles struct {
	rel, typ string
	field    map[string]string // field name -> role
	role     map[string]string // role -> field name
}

func discoverCursorRoles(r *core.Run, ct cursorType) (*cursorRoles, string) {
	pk := r.Prog.Pkg(ct.rel)
	if pk == nil {
		return nil, "package not found"
	}
	tn, _ := pk.Types.Scope().Lookup(ct.typ).(*types.TypeName)
	if tn == nil {
		return nil, "type not found"
	}
	st, _ := tn.Type().Underlying().(*types.Struct)
	if st == nil {
		return nil, "not a struct"
	}
	cr := &cursorRoles{rel: ct.rel, typ: ct.typ, field: map[string]string{}, role: map[string]string{}}
	var ints []string
	set := func(role, f string) string {
		if _, dup := cr.role[role]; dup {
			return "two candidate fields for role " + role
		}
		cr.role[role], cr.field[f] = f, role
		return ""
	}
	for i := 0; i < st.NumFields(); i++ {
		f := st.Field(i)
		switch u := f.Type().Underlying().(type) {
		case *types.Slice:
			if b, ok := u.Elem().Underlying().(*types.Basic); ok && b.Kind() == types.Uint8 {
				if e := set("buf", f.Name()); e != "" {
					return nil, e
				}
			}
		case *types.Interface:
			if types.Identical(f.Type(), types.Universe.Lookup("error").Type()) {
				if e := set("err", f.Name()); e != "" {
					return nil, e
				}
			}
		case *types.Signature:
			if u.Params().Len() == 0 && u.Results().Len() == 0 {
				if e := set("restore", f.Name()); e != "" {
					return nil, e
				}
			}
		case *types.Basic:
			if u.Kind() == types.Int {
				ints = append(ints, f.Name())
			}
		}
	}
	if len(ints) != 2 {
		return nil, fmt.Sprintf("expected two int fields (position and selection start), found %v", ints)
	}
	off := r.Prog.SSAFunc(ct.rel, ct.typ, "Offset")
	if off == nil {
		return nil, "no Offset method"
	}
	posField := ""
	if ret := singleReturn(off); ret != nil && len(ret.Results) == 1 {
		if u, ok := ret.Results[0].(*ssa.UnOp); ok && u.Op == token.MUL {
			if fa, ok := u.X.(*ssa.FieldAddr); ok {
				posField = fieldName(fa.X.Type(), fa.Field)
			}
		}
	}
	if posField != ints[0] && posField != ints[1] {
		return nil, "Offset() does not return one of the two int fields"
	}
	set("pos", posField)
	if posField == ints[0] {
		set("start", ints[1])
	} else {
		set("start", ints[0])
	}
	if cr.role["buf"] == "" {
		return nil, "no []byte field"
	}
	return cr, ""
}

// norm rewrites an atom built by canon/linOf for a method with receiver `recv` into the canonical vocabulary.
func (cr *cursorRoles) normAtom(atom, recv string) string {
	for f, role := range cr.field {
		atom = replaceQualified(atom, recv+"."+f, "z."+role)
	}
	return atom
}

func replaceQualified(s, old, new string) string {
	isId := func(c byte) bool {
		return c == '_' || c >= '0' && c <= '9' || c >= 'a' && c <= 'z' || c >= 'A' && c <= 'Z'
	}
	var sb strings.Builder
	for i := 0; i < len(s); {
		if strings.HasPrefix(s[i:], old) && (i == 0 || !isId(s[i-1]) && s[i-1] != '.') && (i+len(old) == len(s) || !isId(s[i+len(old)])) {
			sb.WriteString(new)
			i += len(old)
			continue
		}
		sb.WriteByte(s[i])
		i++
	}
	return sb.String()
}

func (cr *cursorRoles) normLin(l Lin, recv string) Lin {
	out := linConst(l.C)
	for a, c := range l.T {
		out = out.add(linAtom(cr.normAtom(a, recv)), c)
	}
	return out
}

func (cr *cursorRoles) normFacts(fs []Fact, recv string) []Fact {
	var out []Fact
	for _, f := range fs {
		out = append(out, Fact{L: cr.normLin(f.L, recv), NE: f.NE})
	}
	return out
}

type sliceDesc struct {
	lo, hi Lin
	max    *Lin
}

type methSummary struct {
	ok       bool
	why      string
	fields   map[string]Lin // role -> value stored (canonical vocabulary, entry state)
	other    []string       // other stores (buffer elements, unknown addresses)
	retLin   *Lin
	retSlice *sliceDesc
	retIndex *Lin // result is buf[idx]
}

func substLin(l Lin, m map[string]Lin) Lin {
	out := linConst(l.C)
	for a, c := range l.T {
		if r, ok := m[a]; ok {
			out = out.add(r, c)
		} else {
			out = out.add(linAtom(a), c)
		}
	}
	return out
}

// summarise evaluates a straight-line method symbolically.
func (cr *cursorRoles) summarise(r *core.Run, fn *ssa.Function, depth int) *methSummary {
	s := &methSummary{fields: map[string]Lin{}}
	if fn == nil || len(fn.Blocks) == 0 || len(fn.Params) == 0 {
		s.why = "no body"
		return s
	}
	if len(fn.Blocks) != 1 {
		s.why = "the method branches"
		return s
	}
	if depth > 4 {
		s.why = "call depth"
		return s
	}
	recv := fn.Params[0]
	env := map[string]Lin{} // role -> current value
	cur := func(role string) Lin {
		if l, ok := env[role]; ok {
			return l
		}
		return linAtom("z." + role)
	}
	val := map[ssa.Value]Lin{}
	slices := map[ssa.Value]*sliceDesc{}
	isRecvField := func(addr ssa.Value) (string, bool) {
		fa, ok := addr.(*ssa.FieldAddr)
		if !ok || fa.X != ssa.Value(recv) {
			return "", false
		}
		role, ok := cr.field[fieldName(fa.X.Type(), fa.Field)]
		return role, ok
	}
	var eval func(v ssa.Value) Lin
	eval = func(v ssa.Value) Lin {
		if l, ok := val[v]; ok {
			return l
		}
		switch x := v.(type) {
		case *ssa.Const:
			return linOf(x)
		case *ssa.Parameter:
			return linAtom(x.Name())
		}
		return linAtom("%" + v.Name())
	}
	subst := func(callee *ssa.Function, args []ssa.Value) map[string]Lin {
		m := map[string]Lin{"z.pos": cur("pos"), "z.start": cur("start")}
		for i, p := range callee.Params {
			if i > 0 && i < len(args) {
				m[p.Name()] = eval(args[i])
			}
		}
		return m
	}
	for _, in := range fn.Blocks[0].Instrs {
		switch x := in.(type) {
		case *ssa.UnOp:
			if x.Op == token.MUL {
				if role, ok := isRecvField(x.X); ok {
					if role == "pos" || role == "start" {
						val[x] = cur(role)
					}
					continue
				}
				// buf[idx]
				if ia, ok := x.X.(*ssa.IndexAddr); ok {
					if ld, ok := ia.X.(*ssa.UnOp); ok && ld.Op == token.MUL {
						if role, ok := isRecvField(ld.X); ok && role == "buf" {
							idx := eval(ia.Index)
							an := "buf[" + idx.String() + "]"
							bufIndexAtoms[an] = idx
							val[x] = linAtom(an)
							continue
						}
					}
				}
			}
			if x.Op == token.SUB {
				val[x] = eval(x.X).scale(-1)
			}
		case *ssa.BinOp:
			switch x.Op {
			case token.ADD:
				val[x] = eval(x.X).add(eval(x.Y), 1)
			case token.SUB:
				val[x] = eval(x.X).add(eval(x.Y), -1)
			case token.MUL:
				a, b := eval(x.X), eval(x.Y)
				if a.isConst() {
					val[x] = b.scale(a.C)
				} else if b.isConst() {
					val[x] = a.scale(b.C)
				}
			}
		case *ssa.Convert:
			if isIntType(x.Type()) && isIntType(x.X.Type()) {
				val[x] = eval(x.X)
			}
		case *ssa.ChangeType:
			val[x] = eval(x.X)
			if sd, ok := slices[x.X]; ok {
				slices[x] = sd
			}
		case *ssa.Slice:
			if ld, ok := x.X.(*ssa.UnOp); ok && ld.Op == token.MUL {
				if role, ok := isRecvField(ld.X); ok && role == "buf" {
					sd := &sliceDesc{lo: linConst(0), hi: linAtom("len(z.buf)")}
					if x.Low != nil {
						sd.lo = eval(x.Low)
					}
					if x.High != nil {
						sd.hi = eval(x.High)
					}
					if x.Max != nil {
						m := eval(x.Max)
						sd.max = &m
					}
					slices[x] = sd
				}
			}
		case *ssa.Call:
			if b, ok := x.Call.Value.(*ssa.Builtin); ok {
				if (b.Name() == "len" || b.Name() == "cap") && len(x.Call.Args) == 1 {
					if ld, ok := x.Call.Args[0].(*ssa.UnOp); ok && ld.Op == token.MUL {
						if role, ok := isRecvField(ld.X); ok && role == "buf" {
							val[x] = linAtom(b.Name() + "(z.buf)")
							continue
						}
					}
					if sd, ok := slices[x.Call.Args[0]]; ok && b.Name() == "len" {
						val[x] = sd.hi.add(sd.lo, -1)
						continue
					}
				}
				continue
			}
			callee := x.Call.StaticCallee()
			if callee == nil || len(x.Call.Args) == 0 || x.Call.Args[0] != ssa.Value(recv) || callee.Signature.Recv() == nil {
				if callee != nil && len(callee.Blocks) > 0 && core.InModule(fnPkg(callee)) {
					// a free helper: usable if it is an affine function of its arguments
					if l, ok := inlineCallLin(x, 0); ok {
						val[x] = cr.normLin(l, recv.Name())
						continue
					}
				}
				if callee == nil || core.InModule(fnPkg(callee)) {
					s.why = "calls a function that is not a method of the same receiver"
					if callee != nil {
						s.why = "calls " + fnLabel(callee)
					}
					return s
				}
				continue // library call (e.g. io.ReadAll) without effect on the cursor fields
			}
			cs := cr.summarise(r, callee, depth+1)
			if !cs.ok {
				s.why = "calls " + fnLabel(callee) + ": " + cs.why
				return s
			}
			m := subst(callee, x.Call.Args)
			// effects first read the pre-state, then update
			newEnv := map[string]Lin{}
			for role, l := range cs.fields {
				newEnv[role] = substLin(l, m)
			}
			s.other = append(s.other, cs.other...)
			if cs.retLin != nil {
				val[x] = substLin(*cs.retLin, m)
			}
			if cs.retIndex != nil {
				idx := substLin(*cs.retIndex, m)
				an := "buf[" + idx.String() + "]"
				bufIndexAtoms[an] = idx
				val[x] = linAtom(an)
			}
			if cs.retSlice != nil {
				sd := &sliceDesc{lo: substLin(cs.retSlice.lo, m), hi: substLin(cs.retSlice.hi, m)}
				if cs.retSlice.max != nil {
					mm := substLin(*cs.retSlice.max, m)
					sd.max = &mm
				}
				slices[x] = sd
			}
			for role, l := range newEnv {
				env[role] = l
			}
		case *ssa.Store:
			if role, ok := isRecvField(x.Addr); ok {
				if role == "pos" || role == "start" {
					env[role] = eval(x.Val)
				} else {
					s.other = append(s.other, "z."+role)
				}
				continue
			}
			s.other = append(s.other, canon(x.Addr))
		case *ssa.Return:
			if len(x.Results) == 1 {
				rv := x.Results[0]
				if sd, ok := slices[rv]; ok {
					s.retSlice = sd
				} else if isIntType(rv.Type()) || isByteType(rv.Type()) {
					l := eval(rv)
					if len(l.T) == 1 && l.C == 0 {
						for a, c := range l.T {
							if c == 1 && strings.HasPrefix(a, "buf[") {
								idx := val2Lin(a)
								s.retIndex = idx
							}
						}
					}
					if s.retIndex == nil {
						s.retLin = &l
					}
				}
			}
		case *ssa.MapUpdate, *ssa.Send, *ssa.Go, *ssa.Defer:
			s.why = "unsupported instruction"
			return s
		}
	}
	for role, l := range env {
		s.fields[role] = l
	}
	s.ok = true
	return s
}

func isByteType(t types.Type) bool {
	b, ok := t.Underlying().(*types.Basic)
	return ok && b.Kind() == types.Uint8
}

// val2Lin parses back the index of a `buf[<lin>]` atom kept during summarisation (see summarise).
var bufIndexAtoms = map[string]Lin{}

func val2Lin(atom string) *Lin {
	if l, ok := bufIndexAtoms[atom]; ok {
		return &l
	}
	return nil
}

func (s *methSummary) effectString() string {
	var d []string
	for role, l := range s.fields {
		d = append(d, "z."+role+" = "+l.String())
	}
	d = append(d, s.other...)
	sort.Strings(d)
	return strings.Join(d, "; ")
}
