package rules

// A small static evaluator for integer functions of one unsigned argument, used by T-LENUINT. The argument is an
// interval [lo, hi]; every other value is a constant. A comparison of the argument with a constant is decided
// only when the whole interval lies on one side; otherwise the evaluation stops undecided. Loops over
// package-level constant tables (for n, p := range uint64pow10) are followed with their concrete index. Nothing of
// the analysed program is executed: the evaluator folds constants over the SSA of the function.

import (
	"fmt"
	"go/constant"
	"go/token"
	"math/big"

	"golang.org/x/tools/go/ssa"

	"verif/checker/core"
)

type ivVal struct {
	isArg  bool           // the argument (possibly converted): lies in [lo, hi] of the evaluation
	c      constant.Value // constant
	table  *Lit           // a package-level array/slice literal
	elemOf *Lit           // address of / value of one element: the element literal
}

func evalUintFunc(r *core.Run, fn *ssa.Function, lo, hi *big.Int) (int64, string) {
	if fn == nil || len(fn.Blocks) == 0 || len(fn.Params) != 1 {
		return 0, "not a one-parameter function with a body"
	}
	pk := r.Prog.ByPath[fn.Pkg.Pkg.Path()]
	env := map[ssa.Value]ivVal{fn.Params[0]: {isArg: true}}
	get := func(v ssa.Value) (ivVal, bool) {
		if k, ok := v.(*ssa.Const); ok {
			if k.Value == nil {
				return ivVal{}, false
			}
			return ivVal{c: k.Value}, true
		}
		if g, ok := v.(*ssa.Global); ok && pk != nil && core.InModule(g.Pkg.Pkg) {
			if l, err := evalGlobal(pk, g.Name()); err == nil && l.Elems != nil {
				return ivVal{table: l}, true
			}
			return ivVal{}, false
		}
		x, ok := env[v]
		return x, ok
	}
	bigOf := func(c constant.Value) *big.Int {
		b, ok := new(big.Int).SetString(constant.ToInt(c).ExactString(), 10)
		if !ok {
			return nil
		}
		return b
	}
	blk := fn.Blocks[0]
	var prev *ssa.BasicBlock
	for steps := 0; steps < 20000; steps++ {
		// phis
		for _, in := range blk.Instrs {
			ph, ok := in.(*ssa.Phi)
			if !ok {
				break
			}
			idx := -1
			for i, p := range blk.Preds {
				if p == prev {
					idx = i
				}
			}
			if idx < 0 {
				return 0, "phi without predecessor"
			}
			v, ok := get(ph.Edges[idx])
			if !ok {
				return 0, "unknown phi operand"
			}
			env[ph] = v
		}
		for _, in := range blk.Instrs {
			switch x := in.(type) {
			case *ssa.Phi, *ssa.DebugRef:
			case *ssa.Convert:
				v, ok := get(x.X)
				if !ok {
					return 0, "unknown conversion operand"
				}
				env[x] = v
			case *ssa.ChangeType:
				v, ok := get(x.X)
				if !ok {
					return 0, "unknown operand"
				}
				env[x] = v
			case *ssa.UnOp:
				v, ok := get(x.X)
				if !ok {
					return 0, "unknown operand of " + x.String()
				}
				switch {
				case x.Op == token.MUL && v.table != nil:
					env[x] = v // load of the table variable
				case x.Op == token.MUL && v.elemOf != nil:
					if v.elemOf.Const == nil {
						return 0, "non-constant table element"
					}
					env[x] = ivVal{c: v.elemOf.Const}
				case v.c != nil && (x.Op == token.SUB || x.Op == token.NOT || x.Op == token.XOR):
					env[x] = ivVal{c: constant.UnaryOp(x.Op, v.c, 0)}
				default:
					return 0, "unsupported unary operation " + x.String()
				}
			case *ssa.IndexAddr, *ssa.Index:
				var base, index ssa.Value
				if ia, ok := x.(*ssa.IndexAddr); ok {
					base, index = ia.X, ia.Index
				} else {
					base, index = x.(*ssa.Index).X, x.(*ssa.Index).Index
				}
				b, ok1 := get(base)
				i, ok2 := get(index)
				if !ok1 || !ok2 || b.table == nil || i.c == nil {
					return 0, "index expression outside constant tables"
				}
				k, _ := constant.Int64Val(constant.ToInt(i.c))
				if k < 0 || int(k) >= len(b.table.Elems) {
					return 0, "table index out of range"
				}
				el := b.table.Elems[k]
				if el == nil {
					el = &Lit{Const: constant.MakeInt64(0)}
				}
				if _, isAddr := x.(*ssa.IndexAddr); isAddr {
					env[x.(ssa.Value)] = ivVal{elemOf: el}
				} else {
					env[x.(ssa.Value)] = ivVal{c: el.Const}
				}
			case *ssa.Call:
				bi, ok := x.Call.Value.(*ssa.Builtin)
				if !ok || bi.Name() != "len" || len(x.Call.Args) != 1 {
					return 0, "call to " + x.Call.Value.Name()
				}
				v, ok := get(x.Call.Args[0])
				if !ok || v.table == nil {
					return 0, "len of a non-constant"
				}
				env[x] = ivVal{c: constant.MakeInt64(int64(len(v.table.Elems)))}
			case *ssa.BinOp:
				a, ok1 := get(x.X)
				b, ok2 := get(x.Y)
				if !ok1 || !ok2 {
					return 0, "unknown operand of " + x.String()
				}
				switch {
				case a.c != nil && b.c != nil:
					if isCmp(x.Op) {
						env[x] = ivVal{c: constant.MakeBool(constant.Compare(a.c, x.Op, b.c))}
					} else if x.Op == token.SHL || x.Op == token.SHR {
						s, _ := constant.Uint64Val(constant.ToInt(b.c))
						env[x] = ivVal{c: constant.Shift(a.c, x.Op, uint(s))}
					} else {
						op := x.Op
						if op == token.QUO && a.c.Kind() == constant.Int {
							op = token.QUO_ASSIGN // integer division
						}
						env[x] = ivVal{c: constant.BinaryOp(a.c, op, b.c)}
					}
				case (a.isArg && b.c != nil || b.isArg && a.c != nil) && isCmp(x.Op):
					op := x.Op
					k := b.c
					if b.isArg {
						k = a.c
						op = flipOp(op)
					}
					kb := bigOf(k)
					if kb == nil {
						return 0, "non-integer bound"
					}
					cmp := func(v *big.Int) bool {
						c := v.Cmp(kb)
						switch op {
						case token.LSS:
							return c < 0
						case token.LEQ:
							return c <= 0
						case token.GTR:
							return c > 0
						case token.GEQ:
							return c >= 0
						case token.EQL:
							return c == 0
						case token.NEQ:
							return c != 0
						}
						return false
					}
					atLo, atHi := cmp(lo), cmp(hi)
					if atLo != atHi || (op == token.EQL || op == token.NEQ) && lo.Cmp(hi) != 0 && kb.Cmp(lo) >= 0 && kb.Cmp(hi) <= 0 {
						return 0, fmt.Sprintf("the comparison %s splits the interval [%s, %s]", x, lo, hi)
					}
					env[x] = ivVal{c: constant.MakeBool(atLo)}
				default:
					return 0, "arithmetic on the argument: " + x.String()
				}
			case *ssa.If:
				c, ok := get(x.Cond)
				if !ok || c.c == nil || c.c.Kind() != constant.Bool {
					return 0, "undecided branch"
				}
				prev = blk
				if constant.BoolVal(c.c) {
					blk = blk.Succs[0]
				} else {
					blk = blk.Succs[1]
				}
			case *ssa.Jump:
				prev = blk
				blk = blk.Succs[0]
			case *ssa.Return:
				if len(x.Results) != 1 {
					return 0, "result count"
				}
				v, ok := get(x.Results[0])
				if !ok || v.c == nil {
					return 0, "non-constant result"
				}
				k, exact := constant.Int64Val(constant.ToInt(v.c))
				if !exact {
					return 0, "result out of range"
				}
				return k, ""
			default:
				return 0, fmt.Sprintf("unsupported instruction %T", in)
			}
			if _, isTerm := in.(*ssa.If); isTerm {
				break
			}
			if _, isTerm := in.(*ssa.Jump); isTerm {
				break
			}
		}
	}
	return 0, "step budget exhausted"
}
