package rules

import (
	"fmt"
	"go/ast"
	"go/token"
	"go/types"
	"sort"
	"strings"

	"golang.org/x/tools/go/packages"
	"golang.org/x/tools/go/ssa"

	"verif/checker/core"
)

func init() {
	register(&Rule{ID: "R-WALK", Props: []string{"C18"}, Doc: "js.Walk: an arm per node type, every child field walked, no copies, typed-nil guards", Run: runWalk})
	register(&Rule{ID: "R-WALKORDER", Props: []string{"C18"}, Doc: "js.Walk: Enter before children, Exit deferred exactly once on the returned visitor", Run: runWalkOrder})
}

// Fields that are walkable by type but are not tree children.
var walkNotChild = map[string]string{
	"Var.Link": "forwarding pointer between scope-table entries, not a child of the identifier (property: nodes only reachable through scope tables are not visited)",
}

// Union carriers: exactly one member is set; documented in js/ast.go.
var walkUnion = map[string]string{
	"ClassElement":     "documented as: either a static block, a field definition, or a class method",
	"ClassElementName": "documented as: either a private method/field or a property name",
}

// Carriers opened in place by the arm of their container instead of being passed to Walk.
var walkInPlace = map[string]string{
	"ClassElement": "never passed to Walk; ClassDecl's arm walks the set member directly",
}

type walkCtx struct {
	r      *core.Run
	pk     *packages.Package
	inode  *types.Interface
	walkFn types.Object
	walkEq map[types.Object]bool // see walkEquivalents
	eqLits map[*ast.FuncLit]bool
}

func (w *walkCtx) isNodePtr(t types.Type) bool { // *S implements INode, S named struct of package js
	p, ok := t.(*types.Pointer)
	if !ok {
		return false
	}
	return w.isNodeStruct(p.Elem())
}

func (w *walkCtx) isNodeStruct(t types.Type) bool {
	n, ok := t.(*types.Named)
	if !ok || n.Obj().Pkg() != w.pk.Types {
		return false
	}
	if _, ok := n.Underlying().(*types.Struct); !ok {
		return false
	}
	return types.Implements(types.NewPointer(n), w.inode)
}

func (w *walkCtx) isNodeIface(t types.Type) bool {
	it, ok := t.Underlying().(*types.Interface)
	if !ok {
		return false
	}
	return types.Implements(t, w.inode) && it.NumMethods() >= w.inode.NumMethods()
}

// walkable reports whether a field of type t can hold child nodes.
func (w *walkCtx) walkable(t types.Type) bool {
	switch u := t.(type) {
	case *types.Slice:
		return w.walkable(u.Elem())
	case *types.Array:
		return w.walkable(u.Elem())
	}
	return w.isNodeIface(t) || w.isNodePtr(t) || w.isNodeStruct(t)
}

func structOf(t types.Type) (*types.Named, *types.Struct) {
	for {
		switch u := t.(type) {
		case *types.Pointer:
			t = u.Elem()
			continue
		case *types.Slice:
			t = u.Elem()
			continue
		case *types.Array:
			t = u.Elem()
			continue
		}
		break
	}
	n, ok := t.(*types.Named)
	if !ok {
		return nil, nil
	}
	s, _ := n.Underlying().(*types.Struct)
	return n, s
}

func (w *walkCtx) walkableFields(n *types.Named, s *types.Struct) []*types.Var {
	var out []*types.Var
	for i := 0; i < s.NumFields(); i++ {
		f := s.Field(i)
		if _, skip := walkNotChild[n.Obj().Name()+"."+f.Name()]; skip {
			continue
		}
		if w.walkable(f.Type()) {
			out = append(out, f)
		}
	}
	return out
}

// wcall is one Walk call inside an arm.
type wcall struct {
	call   *ast.CallExpr
	path   []string // field names from n
	addr   bool     // argument is an address-of expression
	copyOf string   // non-empty: path goes through a by-value copy (description)
	guards []wguard // enclosing conditions, outermost first
	ok     bool
	why    string
	argT   types.Type
}

type wguard struct {
	kind string // "nil" (X != nil, true branch), "loop" (iteration over X), "other"
	path []string
	desc string
}

// resolver maps expressions inside an arm to field paths rooted at the switch variable.
type resolver struct {
	w       *walkCtx
	root    types.Object
	locals  map[types.Object]localDef
	helpers map[types.Object]*ast.FuncDecl // package-level functions of js that (transitively) call Walk
	depth   int
}

// walkEquivalents: function-typed parameters that stand for Walk with the current visitor: every call of the
// function that declares the parameter passes `func(c INode) { Walk(v, c) }` (or hands on such a parameter of its
// own) — the callback form of a traversal (forEachChild(n, func(c INode) { Walk(v, c) })).
func walkEquivalents(pk *packages.Package, walkFn types.Object) (map[types.Object]bool, map[*ast.FuncLit]bool) {
	info := pk.TypesInfo
	type cand struct {
		fn  types.Object
		idx int
		obj types.Object
	}
	var cands []cand
	decls := map[types.Object]*ast.FuncDecl{}
	for _, f := range pk.Syntax {
		for _, d := range f.Decls {
			hd, ok := d.(*ast.FuncDecl)
			if !ok || hd.Recv != nil || hd.Body == nil {
				continue
			}
			decls[info.Defs[hd.Name]] = hd
			pi := 0
			for _, fld := range hd.Type.Params.List {
				for _, nm := range fld.Names {
					if sig, isSig := info.Defs[nm].Type().Underlying().(*types.Signature); isSig && sig.Params().Len() == 1 && sig.Results().Len() == 0 {
						cands = append(cands, cand{fn: info.Defs[hd.Name], idx: pi, obj: info.Defs[nm]})
					}
					pi++
				}
			}
		}
	}
	if len(cands) == 0 {
		return nil, nil
	}
	// call sites per function
	sites := map[types.Object][]*ast.CallExpr{}
	for _, f := range pk.Syntax {
		ast.Inspect(f, func(n ast.Node) bool {
			if ce, ok := n.(*ast.CallExpr); ok {
				if id, ok := ast.Unparen(ce.Fun).(*ast.Ident); ok {
					if o := info.Uses[id]; decls[o] != nil {
						sites[o] = append(sites[o], ce)
					}
				}
			}
			return true
		})
	}
	eq := map[types.Object]bool{}
	isWalkClosure := func(e ast.Expr) bool {
		switch x := ast.Unparen(e).(type) {
		case *ast.Ident:
			return eq[info.Uses[x]]
		case *ast.FuncLit:
			if x.Type.Params == nil || len(x.Type.Params.List) != 1 || len(x.Type.Params.List[0].Names) != 1 || len(x.Body.List) != 1 {
				return false
			}
			param := info.Defs[x.Type.Params.List[0].Names[0]]
			es, ok := x.Body.List[0].(*ast.ExprStmt)
			if !ok {
				return false
			}
			ce, ok := es.X.(*ast.CallExpr)
			if !ok {
				return false
			}
			id, ok := ast.Unparen(ce.Fun).(*ast.Ident)
			if !ok {
				return false
			}
			var arg ast.Expr
			switch o := info.Uses[id]; {
			case o == walkFn && len(ce.Args) == 2:
				arg = ce.Args[1]
			case eq[o] && len(ce.Args) == 1:
				arg = ce.Args[0]
			default:
				return false
			}
			aid, ok := ast.Unparen(arg).(*ast.Ident)
			return ok && info.Uses[aid] == param
		}
		return false
	}
	for changed := true; changed; {
		changed = false
		for _, c := range cands {
			if eq[c.obj] || len(sites[c.fn]) == 0 {
				continue
			}
			all := true
			for _, ce := range sites[c.fn] {
				if c.idx >= len(ce.Args) || ce.Ellipsis.IsValid() || !isWalkClosure(ce.Args[c.idx]) {
					all = false
				}
			}
			if all {
				eq[c.obj] = true
				changed = true
			}
		}
	}
	// the closures bound to such parameters: their inner Walk call is accounted for where the parameter is called
	lits := map[*ast.FuncLit]bool{}
	for _, c := range cands {
		if eq[c.obj] {
			for _, ce := range sites[c.fn] {
				if fl, ok := ast.Unparen(ce.Args[c.idx]).(*ast.FuncLit); ok {
					lits[fl] = true
				}
			}
		}
	}
	return eq, lits
}

type localDef struct {
	path   []string
	copyOf string
	ok     bool
	addr   bool // the local is bound to an address-of expression (&n.Body passed to a helper): never nil
}

func (rs *resolver) resolve(e ast.Expr) (path []string, copyOf string, ok bool) {
	info := rs.w.pk.TypesInfo
	switch x := ast.Unparen(e).(type) {
	case *ast.Ident:
		obj := info.Uses[x]
		if obj == rs.root {
			return nil, "", true
		}
		if d, has := rs.locals[obj]; has && d.ok {
			return d.path, d.copyOf, true
		}
		return nil, "", false
	case *ast.SelectorExpr:
		p, c, ok := rs.resolve(x.X)
		if !ok {
			return nil, "", false
		}
		sel := info.Selections[x]
		if sel == nil || sel.Kind() != types.FieldVal {
			return nil, "", false
		}
		// expand implicit embedded fields
		t := sel.Recv()
		for _, idx := range sel.Index() {
			_, st := structOf(t)
			if st == nil {
				return nil, "", false
			}
			f := st.Field(idx)
			p = append(append([]string{}, p...), f.Name())
			t = f.Type()
		}
		return p, c, true
	case *ast.IndexExpr:
		return rs.resolve(x.X)
	case *ast.UnaryExpr:
		if x.Op == token.AND {
			return rs.resolve(x.X)
		}
	case *ast.StarExpr:
		return rs.resolve(x.X)
	}
	return nil, "", false
}

func isValueStruct(t types.Type) bool {
	if t == nil {
		return false
	}
	_, ok := t.Underlying().(*types.Struct)
	return ok
}

// collect gathers Walk calls of an arm body with their guard context.
func (rs *resolver) collect(stmts []ast.Stmt, guards []wguard, out *[]wcall, bad *[]string) {
	info := rs.w.pk.TypesInfo
	var visitExprCalls func(n ast.Node, g []wguard)
	visitExprCalls = func(n ast.Node, g []wguard) {
		ast.Inspect(n, func(m ast.Node) bool {
			if fl, isLit := m.(*ast.FuncLit); isLit && rs.w.eqLits[fl] {
				return false
			}
			ce, ok := m.(*ast.CallExpr)
			if !ok {
				return true
			}
			var fobj types.Object
			if id, ok := ast.Unparen(ce.Fun).(*ast.Ident); ok {
				fobj = info.Uses[id]
			}
			if hd, isHelper := rs.helpers[fobj]; isHelper && fobj != rs.w.walkFn && rs.depth < 3 && hd.Body != nil {
				// a helper that walks part of the node (walkBlock(v, n.Body), walkList(v, n.List)): its body is read
				// with its parameters bound to the field paths of the arguments
				child := &resolver{w: rs.w, root: rs.root, locals: map[types.Object]localDef{}, helpers: rs.helpers, depth: rs.depth + 1}
				for k, v := range rs.locals {
					child.locals[k] = v
				}
				pi := 0
				for _, fld := range hd.Type.Params.List {
					for _, nm := range fld.Names {
						if pi < len(ce.Args) {
							if pth, c, ok := rs.resolve(ce.Args[pi]); ok {
								d := localDef{path: pth, copyOf: c, ok: true}
								switch a := ast.Unparen(ce.Args[pi]).(type) {
								case *ast.UnaryExpr:
									d.addr = a.Op == token.AND
								case *ast.Ident:
									if ld, has := rs.locals[info.Uses[a]]; has {
										d.addr = ld.addr
									}
								}
								child.locals[info.Defs[nm]] = d
							}
						}
						pi++
					}
				}
				var sub []wcall
				child.collect(hd.Body.List, g, &sub, nil)
				*out = append(*out, sub...)
				return true
			}
			var arg ast.Expr
			switch {
			case fobj == rs.w.walkFn && len(ce.Args) == 2:
				arg = ast.Unparen(ce.Args[1])
			case fobj != nil && rs.w.walkEq[fobj] && len(ce.Args) == 1:
				arg = ast.Unparen(ce.Args[0])
			default:
				return true
			}
			wc := wcall{call: ce, guards: append([]wguard{}, g...)}
			if u, ok := arg.(*ast.UnaryExpr); ok && u.Op == token.AND {
				wc.addr = true
			}
			if id, ok := arg.(*ast.Ident); ok {
				if ld, has := rs.locals[info.Uses[id]]; has && ld.addr {
					wc.addr = true
				}
			}
			wc.argT = info.Types[arg].Type
			wc.path, wc.copyOf, wc.ok = rs.resolve(arg)
			if !wc.ok {
				wc.why = "argument is not rooted at the node being walked"
			}
			*out = append(*out, wc)
			return true
		})
	}
	for _, st := range stmts {
		switch s := st.(type) {
		case *ast.IfStmt:
			if s.Init != nil {
				rs.collect([]ast.Stmt{s.Init}, guards, out, bad)
			}
			g := rs.guardOf(s.Cond)
			rs.collect(s.Body.List, append(append([]wguard{}, guards...), g), out, bad)
			if s.Else != nil {
				ng := wguard{kind: "other", desc: "else of " + g.desc}
				switch e := s.Else.(type) {
				case *ast.BlockStmt:
					rs.collect(e.List, append(append([]wguard{}, guards...), ng), out, bad)
				case *ast.IfStmt:
					rs.collect([]ast.Stmt{e}, append(append([]wguard{}, guards...), ng), out, bad)
				}
			}
		case *ast.ForStmt:
			g := wguard{kind: "other", desc: "for loop"}
			// for i := 0; i < len(X); i++
			if be, ok := s.Cond.(*ast.BinaryExpr); ok && be.Op == token.LSS {
				if ce, ok := be.Y.(*ast.CallExpr); ok && len(ce.Args) == 1 {
					if id, ok := ce.Fun.(*ast.Ident); ok && id.Name == "len" {
						if p, _, ok := rs.resolve(ce.Args[0]); ok {
							g = wguard{kind: "loop", path: p, desc: "for i < len(" + strings.Join(p, ".") + ")"}
						}
					}
				}
			}
			rs.collect(s.Body.List, append(append([]wguard{}, guards...), g), out, bad)
		case *ast.RangeStmt:
			g := wguard{kind: "other", desc: "range loop"}
			if p, c, ok := rs.resolve(s.X); ok {
				g = wguard{kind: "loop", path: p, desc: "range " + strings.Join(p, ".")}
				if id, ok := s.Value.(*ast.Ident); ok && id.Name != "_" {
					obj := info.Defs[id]
					d := localDef{path: p, copyOf: c, ok: true}
					if isValueStruct(obj.Type()) {
						d.copyOf = fmt.Sprintf("range value %q (a copy of each element of %s)", id.Name, strings.Join(p, "."))
					}
					rs.locals[obj] = d
				}
			}
			rs.collect(s.Body.List, append(append([]wguard{}, guards...), g), out, bad)
		case *ast.BlockStmt:
			rs.collect(s.List, guards, out, bad)
		case *ast.AssignStmt:
			if s.Tok == token.DEFINE && len(s.Lhs) == 1 && len(s.Rhs) == 1 {
				if id, ok := s.Lhs[0].(*ast.Ident); ok {
					obj := info.Defs[id]
					p, c, ok := rs.resolve(s.Rhs[0])
					d := localDef{path: p, copyOf: c, ok: ok}
					if ok && obj != nil && isValueStruct(obj.Type()) {
						d.copyOf = fmt.Sprintf("local %q (a by-value copy of %s)", id.Name, strings.Join(p, "."))
					}
					if obj != nil {
						rs.locals[obj] = d
					}
				}
			}
			visitExprCalls(s, guards)
		case *ast.ExprStmt:
			visitExprCalls(s, guards)
		case *ast.SwitchStmt:
			// a tagless switch is an if-chain: each clause runs under its own condition (a clause after others also under
			// their negations, which carry no nil/loop knowledge)
			if s.Tag != nil {
				if bad != nil {
					*bad = append(*bad, fmt.Sprintf("statement kind %T at %s is outside the recognised idioms", st, rs.w.r.Prog.Position(st.Pos())))
				}
				continue
			}
			if s.Init != nil { // switch item := &n.List[i]; { case item.X != nil: … }
				rs.collect([]ast.Stmt{s.Init}, guards, out, bad)
			}
			for _, c := range s.Body.List {
				cc := c.(*ast.CaseClause)
				g := wguard{kind: "other", desc: "switch clause"}
				if len(cc.List) == 1 {
					g = rs.guardOf(cc.List[0])
				}
				rs.collect(cc.Body, append(append([]wguard{}, guards...), g), out, bad)
			}
		case *ast.ReturnStmt, *ast.IncDecStmt, *ast.EmptyStmt:
			visitExprCalls(s, guards)
		default:
			if bad != nil {
				*bad = append(*bad, fmt.Sprintf("statement kind %T at %s is outside the recognised idioms", st, rs.w.r.Prog.Position(st.Pos())))
			}
			visitExprCalls(s, append(append([]wguard{}, guards...), wguard{kind: "other", desc: fmt.Sprintf("%T", st)}))
		}
	}
}

func (rs *resolver) guardOf(cond ast.Expr) wguard {
	if be, ok := ast.Unparen(cond).(*ast.BinaryExpr); ok && be.Op == token.NEQ {
		if id, ok := ast.Unparen(be.Y).(*ast.Ident); ok && id.Name == "nil" {
			if p, _, ok := rs.resolve(be.X); ok {
				return wguard{kind: "nil", path: p, desc: strings.Join(p, ".") + " != nil"}
			}
		}
	}
	return wguard{kind: "other", desc: types.ExprString(cond)}
}

func isPrefix(p, of []string) bool {
	if len(p) > len(of) {
		return false
	}
	for i := range p {
		if p[i] != of[i] {
			return false
		}
	}
	return true
}

func runWalk(r *core.Run) {
	pk := r.Prog.Pkg("js")
	if pk == nil {
		r.BrokenAnchor("package js")
		return
	}
	fd, _ := r.Prog.FuncDecl("js", "", "Walk")
	inodeObj, _ := pk.Types.Scope().Lookup("INode").(*types.TypeName)
	if fd == nil || inodeObj == nil {
		r.BrokenAnchor("js.Walk / js.INode")
		return
	}
	w := &walkCtx{r: r, pk: pk, inode: inodeObj.Type().Underlying().(*types.Interface), walkFn: pk.Types.Scope().Lookup("Walk")}
	w.walkEq, w.eqLits = walkEquivalents(pk, w.walkFn)
	// helpers: package-level functions of js (other than Walk) whose body calls Walk or another helper
	helpers := map[types.Object]*ast.FuncDecl{}
	for changed := true; changed; {
		changed = false
		for _, f := range pk.Syntax {
			for _, d := range f.Decls {
				hd, ok := d.(*ast.FuncDecl)
				if !ok || hd.Recv != nil || hd.Body == nil || hd == fd {
					continue
				}
				obj := pk.TypesInfo.Defs[hd.Name]
				if _, done := helpers[obj]; done {
					continue
				}
				calls := false
				ast.Inspect(hd.Body, func(n ast.Node) bool {
					if ce, ok := n.(*ast.CallExpr); ok {
						if id, ok := ast.Unparen(ce.Fun).(*ast.Ident); ok {
							o := pk.TypesInfo.Uses[id]
							if o == w.walkFn || (o != nil && w.walkEq[o]) {
								calls = true
							} else if _, isH := helpers[o]; isH {
								calls = true
							}
						}
					}
					return true
				})
				if calls {
					helpers[obj] = hd
					changed = true
				}
			}
		}
	}
	// the dispatch: the type switch(es) over the node — in Walk itself, or in helpers that Walk calls with the node
	// (Walk keeps Enter/Exit, walkChildren holds the switch; or a chain of per-family dispatchers, each with its own
	// switch, tried one after the other)
	var switches []*ast.TypeSwitchStmt
	seenFn := map[*ast.FuncDecl]bool{}
	var gather func(f *ast.FuncDecl, nodeParam types.Object, depth int)
	gather = func(f *ast.FuncDecl, nodeParam types.Object, depth int) {
		if f == nil || f.Body == nil || seenFn[f] || depth > 3 {
			return
		}
		seenFn[f] = true
		ast.Inspect(f.Body, func(n ast.Node) bool {
			switch x := n.(type) {
			case *ast.TypeSwitchStmt:
				// switch n := n.(type) / switch n.(type) over the node parameter
				var subj ast.Expr
				switch a := x.Assign.(type) {
				case *ast.AssignStmt:
					if len(a.Rhs) == 1 {
						if ta, ok := a.Rhs[0].(*ast.TypeAssertExpr); ok {
							subj = ta.X
						}
					}
				case *ast.ExprStmt:
					if ta, ok := a.X.(*ast.TypeAssertExpr); ok {
						subj = ta.X
					}
				}
				if id, ok := ast.Unparen(subj).(*ast.Ident); ok && pk.TypesInfo.Uses[id] == nodeParam {
					switches = append(switches, x)
				}
				return false // arms are analysed separately
			case *ast.CallExpr:
				id, ok := ast.Unparen(x.Fun).(*ast.Ident)
				if !ok {
					return true
				}
				hd, isH := helpers[pk.TypesInfo.Uses[id]]
				if !isH || pk.TypesInfo.Uses[id] == w.walkFn {
					return true
				}
				// which parameter receives the node?
				pi := 0
				for _, fld := range hd.Type.Params.List {
					for _, nm := range fld.Names {
						if pi < len(x.Args) {
							if aid, ok := ast.Unparen(x.Args[pi]).(*ast.Ident); ok && pk.TypesInfo.Uses[aid] == nodeParam {
								gather(hd, pk.TypesInfo.Defs[nm], depth+1)
							}
						}
						pi++
					}
				}
			}
			return true
		})
	}
	var nodeParam types.Object
	for _, fld := range fd.Type.Params.List {
		for _, nm := range fld.Names {
			if types.Identical(pk.TypesInfo.Defs[nm].Type().Underlying(), w.inode) || types.Implements(pk.TypesInfo.Defs[nm].Type(), w.inode) {
				nodeParam = pk.TypesInfo.Defs[nm]
			}
		}
	}
	gather(fd, nodeParam, 0)
	if len(switches) == 0 {
		r.Unknown("Walk type switch", fd.Pos(), "neither Walk nor a helper it hands the node to has a type switch over the node")
		return
	}
	arms := map[string]*ast.CaseClause{}
	for _, ts := range switches {
		for _, c := range ts.Body.List {
			cc := c.(*ast.CaseClause)
			if cc.List == nil {
				continue // default
			}
			if len(cc.List) != 1 {
				// multi-type arm: n keeps the interface type; accepted only for childless types
				for _, te := range cc.List {
					if n, _ := structOf(pk.TypesInfo.Types[te].Type); n != nil {
						arms[n.Obj().Name()] = cc
					}
				}
				continue
			}
			t := pk.TypesInfo.Types[cc.List[0]].Type
			if _, ok := t.(*types.Pointer); !ok {
				r.Unknown("arm "+types.ExprString(cc.List[0]), cc.Pos(), "arm type is not a pointer to a node struct")
				continue
			}
			n, _ := structOf(t)
			if n == nil {
				r.Unknown("arm "+types.ExprString(cc.List[0]), cc.Pos(), "arm type is not a pointer to a named struct")
				continue
			}
			if prev, dup := arms[n.Obj().Name()]; dup && prev != cc {
				r.Unknown("arm "+types.ExprString(cc.List[0]), cc.Pos(), "two dispatch switches have an arm for this type: which one runs is not decided")
				continue
			}
			arms[n.Obj().Name()] = cc
		}
	}
	r.Floor("Walk arms", len(arms), 40)

	// R-WALK-CASES
	var nodeTypes []*types.Named
	sc := pk.Types.Scope()
	for _, name := range sc.Names() {
		tn, ok := sc.Lookup(name).(*types.TypeName)
		if !ok || tn.IsAlias() {
			continue
		}
		n, ok := tn.Type().(*types.Named)
		if !ok || !w.isNodeStruct(n) {
			continue
		}
		nodeTypes = append(nodeTypes, n)
	}
	sort.Slice(nodeTypes, func(i, j int) bool { return nodeTypes[i].Obj().Name() < nodeTypes[j].Obj().Name() })
	r.Count("node struct types", len(nodeTypes))
	for _, n := range nodeTypes {
		name := n.Obj().Name()
		st := n.Underlying().(*types.Struct)
		wf := w.walkableFields(n, st)
		if len(wf) == 0 {
			continue // leaf: Enter/Exit through the default arm
		}
		key := "case *" + name
		if _, has := arms[name]; has {
			r.OK(key, arms[name].Pos(), fmt.Sprintf("%d child fields", len(wf)))
			continue
		}
		if why, ok := walkInPlace[name]; ok {
			r.OK(key, n.Obj().Pos(), "opened in place by its container's arm, whose coverage obligations include this type's members: "+why)
			continue
		}
		var fn []string
		for _, f := range wf {
			fn = append(fn, f.Name())
		}
		r.Fail(key, n.Obj().Pos(), fmt.Sprintf("node type *%s has child fields %v but Walk has no `case *%s` arm: such nodes are entered through `default` and their children are never visited", name, fn, name))
	}

	// per-arm field coverage
	fieldObs := 0
	var armNames []string
	for nme := range arms {
		armNames = append(armNames, nme)
	}
	sort.Strings(armNames)
	for _, name := range armNames {
		cc := arms[name]
		tn, _ := sc.Lookup(name).(*types.TypeName)
		n := tn.Type().(*types.Named)
		st := n.Underlying().(*types.Struct)
		root := pk.TypesInfo.Implicits[cc]
		if root == nil {
			if len(w.walkableFields(n, st)) > 0 {
				r.Unknown("arm *"+name, cc.Pos(), "arm lists several types, so the node's fields are not accessible; it has child fields")
			}
			continue
		}
		rs := &resolver{w: w, root: root, locals: map[types.Object]localDef{}, helpers: helpers}
		var calls []wcall
		var bad []string
		rs.collect(cc.Body, nil, &calls, &bad)
		for _, b := range bad {
			r.Unknown("arm *"+name+" idiom", cc.Pos(), b)
		}
		for _, c := range calls {
			ckey := fmt.Sprintf("arm *%s Walk(%s)", name, types.ExprString(c.call.Args[len(c.call.Args)-1]))
			if !c.ok {
				r.Fail(ckey+" rooted", c.call.Pos(), "Walk is called on a value that is not a field path of the node being walked: something outside the tree may be visited ("+c.why+")")
				continue
			}
			// R-WALKCOPY
			if c.copyOf != "" && (c.addr || isValueStruct(c.argT)) {
				r.Fail(ckey+" in-tree", c.call.Pos(), fmt.Sprintf("the visited node is addressed inside %s: the visitor receives a node that is not part of the tree", c.copyOf))
			} else {
				r.OK(ckey+" in-tree", c.call.Pos(), "")
			}
			// R-WALKNIL: concrete pointer passed by value needs a nil test (typed nil defeats `n == nil`)
			if _, isPtr := c.argT.(*types.Pointer); isPtr && !c.addr {
				guarded := false
				for _, g := range c.guards {
					if g.kind == "nil" && len(g.path) == len(c.path) && isPrefix(g.path, c.path) {
						guarded = true
					}
				}
				r.Check(guarded, ckey+" typed-nil guard", c.call.Pos(), "", fmt.Sprintf("%s has concrete pointer type %s; a nil pointer wrapped in INode is not == nil, so Walk would Enter a nil node. It must be tested `!= nil` first", strings.Join(c.path, "."), c.argT))
			}
		}
		// coverage
		var cover func(n *types.Named, st *types.Struct, prefix []string, union bool)
		cover = func(n *types.Named, st *types.Struct, prefix []string, union bool) {
			_, isUnion := walkUnion[n.Obj().Name()]
			union = union || isUnion
			for _, f := range w.walkableFields(n, st) {
				fieldObs++
				p := append(append([]string{}, prefix...), f.Name())
				key := fmt.Sprintf("arm *%s field %s", name, strings.Join(p, "."))
				var hits []wcall
				for _, c := range calls {
					if c.ok && len(c.path) == len(p) && isPrefix(p, c.path) {
						hits = append(hits, c)
					}
				}
				if len(hits) == 0 {
					fn, fs := structOf(f.Type())
					if fn != nil && fs != nil {
						if _, open := walkInPlace[fn.Obj().Name()]; open {
							cover(fn, fs, p, union)
							continue
						}
					}
					r.Fail(key, cc.Pos(), fmt.Sprintf("child field %s.%s (%s) is never passed to Walk in the arm for *%s: that subtree is not visited", n.Obj().Name(), f.Name(), f.Type(), name))
					continue
				}
				// at least one hit must be unconditional modulo nil/loop guards on its own path (or union)
				okHit := false
				why := ""
				for _, c := range hits {
					good := true
					for _, g := range c.guards {
						switch g.kind {
						case "nil", "loop":
							if !isPrefix(g.path, c.path) {
								good = false
								why = "guarded by " + g.desc
							}
						default:
							good = false
							why = "guarded by " + g.desc
						}
					}
					if good || union {
						okHit = true
					}
				}
				r.Check(okHit, key, hits[0].call.Pos(), "", fmt.Sprintf("child field %s.%s is walked only conditionally (%s): on the other paths the subtree is skipped", n.Obj().Name(), f.Name(), why))
			}
		}
		cover(n, st, nil, false)
	}
	r.Floor("(type, field) obligations", fieldObs, 80)

	// Node structs with children are only ever stored in the tree behind a pointer: Walk's arms are
	// `case *T`, a T value boxed into IExpr/IStmt/INode would fall into `default` and hide its children.
	boxed := map[string][]string{}
	for _, fn := range allModuleFuncs(r) {
		for _, b := range fn.Blocks {
			for _, in := range b.Instrs {
				mi, ok := in.(*ssa.MakeInterface)
				if !ok {
					continue
				}
				n, isNamed := mi.X.Type().(*types.Named)
				if !isNamed || !w.isNodeStruct(n) {
					continue
				}
				if it, isI := mi.Type().Underlying().(*types.Interface); !isI || it.NumMethods() == 0 || !types.Implements(n, it) {
					continue
				}
				if mi.Type().Underlying().(*types.Interface).NumMethods() < w.inode.NumMethods() && !types.Identical(mi.Type().Underlying(), w.inode) {
					if !types.Implements(mi.Type(), w.inode) {
						continue // e.g. fmt.Stringer / error: not a tree slot
					}
				}
				// a boxed value that is only looked at (n.JS(), n.String() inside a helper that takes an INode) never
				// becomes part of a tree; one that is stored, returned or handed to Walk can
				if !ifaceEscapes(r, mi, 0) {
					continue
				}
				boxed[n.Obj().Name()] = append(boxed[n.Obj().Name()], "in "+fnLabel(fn))
			}
		}
	}
	nv := 0
	for _, n := range nodeTypes {
		name := n.Obj().Name()
		st := n.Underlying().(*types.Struct)
		if len(w.walkableFields(n, st)) == 0 {
			continue
		}
		nv++
		sites := boxed[name]
		r.Check(len(sites) == 0, "node type "+name+" is boxed only as *"+name, n.Obj().Pos(), "",
			fmt.Sprintf("a %s value (not a pointer) is converted to a node interface (%s): Walk's arm is `case *%s`, so this node is entered through `default` and its children are never visited", name, strings.Join(sites, "; "), name))
	}
	r.Floor("node types with children", nv, 40)
	for k, v := range walkNotChild {
		r.Note("definition: field %s is not a tree child: %s", k, v)
	}
}

// runWalkOrder checks the prologue of Walk on SSA.
func runWalkOrder(r *core.Run) {
	fn := r.Prog.SSAFunc("js", "", "Walk")
	if fn == nil {
		r.BrokenAnchor("js.Walk")
		return
	}
	if len(fn.Params) != 2 {
		r.Unknown("Walk signature", fn.Pos(), "expected Walk(v IVisitor, n INode)")
		return
	}
	vParam, nParam := fn.Params[0], fn.Params[1]
	var jsFuncs []*ssa.Function
	for _, f := range allModuleFuncs(r) {
		if fnPkg(f) != nil && core.RelPkg(fnPkg(f)) == "js" {
			jsFuncs = append(jsFuncs, f)
		}
	}
	// static call sites per function
	sites := map[*ssa.Function][]*ssa.Call{}
	for _, f := range jsFuncs {
		for _, b := range f.Blocks {
			for _, in := range b.Instrs {
				if c, ok := in.(*ssa.Call); ok {
					if g := c.Call.StaticCallee(); g != nil {
						sites[g] = append(sites[g], c)
					}
				}
			}
		}
	}
	// walk helpers: functions of js (other than Walk, closures included) that descend: they call Walk, another helper,
	// or a callback parameter that every caller binds to a helper closure (forEachChild(n, func(c INode) { Walk(v, c) }))
	helpers := map[*ssa.Function]bool{}
	cbParam := map[*ssa.Parameter]bool{}
	isHelperValue := func(v ssa.Value) bool {
		switch x := v.(type) {
		case *ssa.MakeClosure:
			g, _ := x.Fn.(*ssa.Function)
			return g != nil && helpers[g]
		case *ssa.Function:
			return helpers[x]
		case *ssa.Parameter:
			return cbParam[x]
		}
		return false
	}
	for changed := true; changed; {
		changed = false
		for _, f := range jsFuncs {
			if f == fn || f.Signature.Recv() != nil {
				continue
			}
			// callback parameters
			for pi, p := range f.Params {
				if _, isSig := p.Type().Underlying().(*types.Signature); !isSig || cbParam[p] || len(sites[f]) == 0 {
					continue
				}
				all := true
				for _, c := range sites[f] {
					if pi >= len(c.Call.Args) || !isHelperValue(c.Call.Args[pi]) {
						all = false
					}
				}
				if all {
					cbParam[p] = true
					changed = true
				}
			}
			if helpers[f] {
				continue
			}
			for _, b := range f.Blocks {
				for _, in := range b.Instrs {
					if c, ok := in.(*ssa.Call); ok && !helpers[f] {
						g := c.Call.StaticCallee()
						p, _ := c.Call.Value.(*ssa.Parameter)
						if (g != nil && (g == fn || helpers[g])) || (p != nil && cbParam[p]) {
							helpers[f] = true
							changed = true
						}
					}
				}
			}
		}
	}
	// The visitor variable may live in a cell (it is reassigned and captured by a closure): a load of the cell stands
	// for the value of the one store that reaches it.
	resolve := func(x ssa.Value) ssa.Value { return resolveCell(x, 0) }
	var enters, exits []ssa.CallInstruction
	var recs []*ssa.Call // calls in Walk that descend: Walk itself or a walk helper
	total := 0
	for _, b := range fn.Blocks {
		for _, in := range b.Instrs {
			ci, ok := in.(ssa.CallInstruction)
			if !ok {
				continue
			}
			cc := ci.Common()
			if cc.IsInvoke() && cc.Method.Name() == "Enter" {
				enters = append(enters, ci)
			}
			if cc.IsInvoke() && cc.Method.Name() == "Exit" {
				exits = append(exits, ci)
			}
			if c, ok := in.(*ssa.Call); ok && (cc.StaticCallee() == fn || helpers[cc.StaticCallee()]) {
				recs = append(recs, c)
				if cc.StaticCallee() == fn {
					total++
				}
			}
		}
	}
	// closureVisitor: the visitor a helper closure descends with, as a value of the function that creates the closure
	// (the binding of the free variable it reads the visitor from), or nil.
	closureVisitor := func(mc *ssa.MakeClosure, at ssa.Instruction) ssa.Value {
		g, _ := mc.Fn.(*ssa.Function)
		if g == nil {
			return nil
		}
		var out ssa.Value
		for i, fv := range g.FreeVars {
			if i >= len(mc.Bindings) {
				break
			}
			if types.Identical(fv.Type(), vParam.Type()) {
				out = resolve(mc.Bindings[i])
			} else if pt, ok := fv.Type().Underlying().(*types.Pointer); ok && types.Identical(pt.Elem(), vParam.Type()) {
				if cell, isAlloc := mc.Bindings[i].(*ssa.Alloc); isAlloc {
					// the value the cell holds when the closure is handed over (and the closure is used nowhere else)
					if refs := mc.Referrers(); refs != nil && len(*refs) == 1 {
						if st := reachingStore(cell, at); st != nil {
							out = resolve(st.Val)
						}
					}
				}
			}
		}
		return out
	}
	// inside helpers: no Enter/Exit, and every descent passes on the visitor the helper was given
	for h := range helpers {
		var vis ssa.Value
		for _, p := range h.Params {
			if types.Identical(p.Type(), vParam.Type()) {
				vis = p
			}
		}
		isVis := func(a ssa.Value) bool {
			a = resolve(a)
			if vis != nil && a == vis {
				return true
			}
			// a closure reads the visitor from its free variable (by value, or through the captured cell — which the
			// closure itself must not assign)
			switch x := a.(type) {
			case *ssa.FreeVar:
				return types.Identical(x.Type(), vParam.Type())
			case *ssa.UnOp:
				if fv, ok := x.X.(*ssa.FreeVar); ok && x.Op == token.MUL {
					if refs := fv.Referrers(); refs != nil {
						for _, u := range *refs {
							if st, isSt := u.(*ssa.Store); isSt && st.Addr == ssa.Value(fv) {
								return false
							}
						}
					}
					pt, ok := fv.Type().Underlying().(*types.Pointer)
					return ok && types.Identical(pt.Elem(), vParam.Type())
				}
			case *ssa.MakeClosure:
				v := closureVisitor(x, nil)
				return v != nil && vis != nil && v == vis
			}
			return false
		}
		for _, b := range h.Blocks {
			for _, in := range b.Instrs {
				ci, ok := in.(ssa.CallInstruction)
				if !ok {
					continue
				}
				cc := ci.Common()
				if cc.IsInvoke() && (cc.Method.Name() == "Enter" || cc.Method.Name() == "Exit") {
					r.Fail("Enter/Exit only in Walk", in.Pos(), fmt.Sprintf("%s calls %s: Enter and Exit must be issued once per node by Walk itself", fnLabel(h), cc.Method.Name()))
				}
				if p, isP := cc.Value.(*ssa.Parameter); isP && cbParam[p] {
					total++ // a descent through the callback: the visitor is the one bound where the callback was made
				}
				if g := cc.StaticCallee(); g != nil && (g == fn || helpers[g]) {
					if g == fn {
						total++
					}
					passes := false
					for _, a := range cc.Args {
						if isVis(a) {
							passes = true
						}
					}
					r.Check(passes, fmt.Sprintf("%s passes on its visitor", fnLabel(h)), in.Pos(), "", "a walk helper descends with a visitor other than the one it was given (the one Enter returned)")
				}
			}
		}
	}
	r.Count("recursive Walk calls", total)
	r.Floor("recursive Walk calls", total, 40)
	if len(enters) != 1 {
		r.Fail("single Enter", fn.Pos(), fmt.Sprintf("Walk calls Enter %d times; exactly one call per node is required", len(enters)))
		return
	}
	enter := enters[0]
	ev, _ := enter.(ssa.Value)
	ec := enter.Common()
	r.Check(resolve(ec.Value) == ssa.Value(vParam) && len(ec.Args) == 1 && ec.Args[0] == nParam, "Enter(v, n)", enter.Pos(), "", "Enter is not called as v.Enter(n) on Walk's own parameters")
	// nil node test dominates Enter: Enter's block is reached only through the false edge of n == nil
	nilTested := false
	for _, b := range fn.Blocks {
		if iff, ok := b.Instrs[len(b.Instrs)-1].(*ssa.If); ok {
			if bo, ok := iff.Cond.(*ssa.BinOp); ok && bo.Op == token.EQL && bo.X == nParam {
				if c, ok := bo.Y.(*ssa.Const); ok && c.IsNil() && b.Succs[1].Dominates(enter.Block()) && !b.Succs[0].Dominates(enter.Block()) {
					nilTested = true
				}
			}
		}
	}
	r.Check(nilTested, "n == nil returns before Enter", enter.Pos(), "", "Enter can be reached with a nil node")
	// v == nil test on Enter's result: everything else dominated by the non-nil edge
	var nonNil *ssa.BasicBlock
	for _, b := range fn.Blocks {
		if iff, ok := b.Instrs[len(b.Instrs)-1].(*ssa.If); ok {
			if bo, ok := iff.Cond.(*ssa.BinOp); ok && resolve(bo.X) == ev {
				if c, ok := bo.Y.(*ssa.Const); ok && c.IsNil() {
					if bo.Op == token.EQL {
						nonNil = b.Succs[1]
						// the nil edge must return without further calls
						r.Check(blockOnlyReturns(b.Succs[0]), "nil visitor skips the subtree", iff.Pos(), "", "the `Enter returned nil` edge does more than return")
					} else if bo.Op == token.NEQ {
						nonNil = b.Succs[0]
						r.Check(blockOnlyReturns(b.Succs[1]), "nil visitor skips the subtree", iff.Pos(), "", "the `Enter returned nil` edge does more than return")
					}
				}
			}
		}
	}
	if nonNil == nil {
		r.Fail("Enter result tested", enter.Pos(), "the visitor returned by Enter is not compared with nil before use")
		return
	}
	r.OK("Enter result tested", enter.Pos(), "")
	// Exit: exactly one, deferred, on Enter's result, with n, in the non-nil region, before any recursive call
	if len(exits) != 1 {
		r.Fail("single Exit", fn.Pos(), fmt.Sprintf("Walk has %d Exit call sites; exactly one deferred Exit is required", len(exits)))
	} else {
		ex := exits[0]
		_, isDefer := ex.(*ssa.Defer)
		xc := ex.Common()
		r.Check(isDefer, "Exit is deferred", ex.Pos(), "", "Exit is called directly instead of deferred: it would not run after all children on every path")
		r.Check(resolve(xc.Value) == ev && len(xc.Args) == 1 && xc.Args[0] == nParam, "Exit(v', n)", ex.Pos(), "", "Exit is not called on the visitor returned by Enter with the node n")
		r.Check(nonNil.Dominates(ex.Block()), "Exit only after non-nil Enter", ex.Pos(), "", "Exit may be registered although Enter returned nil")
		// deferred once: its block is not in a loop (no path from block back to itself)
		r.Check(!inCycle(ex.Block()), "Exit registered once", ex.Pos(), "", "the defer is inside a loop")
		for _, c := range recs {
			if !ex.Block().Dominates(c.Block()) || (ex.Block() == c.Block() && instrIndex(ex) > instrIndex(c)) {
				r.Fail("Exit registered before children", c.Pos(), "a recursive Walk call is not dominated by the deferred Exit registration")
			}
		}
	}
	bad := 0
	for _, c := range recs {
		if !nonNil.Dominates(c.Block()) {
			r.Fail("child after Enter", c.Pos(), "a recursive Walk call is not dominated by a non-nil Enter result: a child may be visited before/without its parent")
			bad++
		}
		usesEv := false
		for _, a := range c.Call.Args {
			if resolve(a) == ev {
				usesEv = true
			}
			if mc, ok := a.(*ssa.MakeClosure); ok && isHelperValue(mc) && closureVisitor(mc, c) == ev {
				usesEv = true
			}
		}
		if !usesEv {
			r.Fail("child uses returned visitor", c.Pos(), "a recursive Walk call does not pass the visitor returned by Enter")
			bad++
		}
	}
	if bad == 0 {
		r.OK("children after Enter with returned visitor", fn.Pos(), fmt.Sprintf("%d recursive calls", len(recs)))
	}
}

// resolveCell: a load of a local cell stands for the value of the one store that reaches the load.
func resolveCell(x ssa.Value, depth int) ssa.Value {
	if depth > 4 {
		return x
	}
	if u, ok := x.(*ssa.UnOp); ok && u.Op == token.MUL {
		if cell, isAlloc := u.X.(*ssa.Alloc); isAlloc {
			if st := reachingStore(cell, u); st != nil {
				return resolveCell(st.Val, depth+1)
			}
		}
	}
	return x
}

// reachingStore: the store to the local cell whose value instruction `at` sees on every path: the latest store
// that dominates `at`, provided no other store can reach `at` without passing it. The cell must only be loaded,
// stored to and captured by closures that do not assign it.
func reachingStore(cell *ssa.Alloc, at ssa.Instruction) *ssa.Store {
	if at == nil || cell.Referrers() == nil {
		return nil
	}
	var stores []*ssa.Store
	for _, u := range *cell.Referrers() {
		switch x := u.(type) {
		case *ssa.Store:
			if x.Addr != ssa.Value(cell) {
				return nil // the address itself is stored
			}
			stores = append(stores, x)
		case *ssa.UnOp, *ssa.DebugRef:
		case *ssa.MakeClosure:
			g, _ := x.Fn.(*ssa.Function)
			if g == nil {
				return nil
			}
			for i, b := range x.Bindings {
				if b == ssa.Value(cell) && i < len(g.FreeVars) {
					if refs := g.FreeVars[i].Referrers(); refs != nil {
						for _, fu := range *refs {
							if ld, isLoad := fu.(*ssa.UnOp); !isLoad || ld.Op != token.MUL {
								return nil // the closure assigns the cell or hands it on
							}
						}
					}
				}
			}
		default:
			return nil
		}
	}
	before := func(a, b ssa.Instruction) bool { // a strictly dominates-or-precedes b
		if a.Block() == b.Block() {
			return instrIndex(a) < instrIndex(b)
		}
		return a.Block().Dominates(b.Block())
	}
	var best *ssa.Store
	for _, s := range stores {
		if before(s, at) && (best == nil || before(best, s)) {
			best = s
		}
	}
	if best == nil {
		return nil
	}
	// no other store may reach `at` after best
	for _, s := range stores {
		if s == best || before(s, best) {
			continue
		}
		if s.Block() == at.Block() && instrIndex(s) > instrIndex(at) && !inCycle(at.Block()) {
			continue
		}
		if blockReaches(s.Block(), at.Block()) {
			return nil
		}
	}
	return best
}

func blockReaches(from, to *ssa.BasicBlock) bool {
	seen := map[*ssa.BasicBlock]bool{}
	var dfs func(b *ssa.BasicBlock) bool
	dfs = func(b *ssa.BasicBlock) bool {
		for _, s := range b.Succs {
			if s == to {
				return true
			}
			if !seen[s] {
				seen[s] = true
				if dfs(s) {
					return true
				}
			}
		}
		return false
	}
	return from == to || dfs(from)
}

func blockOnlyReturns(b *ssa.BasicBlock) bool {
	for _, in := range b.Instrs {
		switch in.(type) {
		case *ssa.Return, *ssa.RunDefers, *ssa.Jump:
		default:
			return false
		}
	}
	if j, ok := b.Instrs[len(b.Instrs)-1].(*ssa.Jump); ok {
		_ = j
		return blockOnlyReturns(b.Succs[0])
	}
	return true
}

func inCycle(b *ssa.BasicBlock) bool {
	seen := map[*ssa.BasicBlock]bool{}
	var dfs func(x *ssa.BasicBlock) bool
	dfs = func(x *ssa.BasicBlock) bool {
		for _, s := range x.Succs {
			if s == b {
				return true
			}
			if !seen[s] {
				seen[s] = true
				if dfs(s) {
					return true
				}
			}
		}
		return false
	}
	return dfs(b)
}

func instrIndex(in ssa.Instruction) int {
	for i, x := range in.Block().Instrs {
		if x == in {
			return i
		}
	}
	return -1
}

// ifaceEscapes: can the interface value v end up in a tree or in Walk? It does not if every use is a method call
// on it, a nil comparison, or an argument position of a module function whose parameter does not escape either.
func ifaceEscapes(r *core.Run, v ssa.Value, depth int) bool {
	if depth > 3 {
		return true
	}
	refs := v.Referrers()
	if refs == nil {
		return true
	}
	for _, ref := range *refs {
		switch x := ref.(type) {
		case *ssa.DebugRef:
		case *ssa.BinOp:
			// comparison with nil / another interface
		case *ssa.ChangeInterface:
			if ifaceEscapes(r, x, depth+1) {
				return true
			}
		case *ssa.TypeAssert:
			// the asserted value is a copy of the struct or a pointer that already existed
		case *ssa.Phi:
			if ifaceEscapes(r, x, depth+1) {
				return true
			}
		case ssa.CallInstruction:
			cc := x.Common()
			if cc.IsInvoke() && cc.Value == v {
				onlyRecv := true
				for _, a := range cc.Args {
					if a == v {
						onlyRecv = false
					}
				}
				if onlyRecv {
					continue // a method call on the value
				}
				return true
			}
			g := cc.StaticCallee()
			if g == nil || fnPkg(g) == nil || !core.InModule(fnPkg(g)) || len(g.Blocks) == 0 {
				return true
			}
			if g.Name() == "Walk" && g.Signature.Recv() == nil {
				return true
			}
			for i, a := range cc.Args {
				if a == v {
					if i >= len(g.Params) || ifaceEscapes(r, g.Params[i], depth+1) {
						return true
					}
				}
			}
		default:
			return true // stored, returned, put in a slice, converted to any, ...
		}
	}
	return false
}
