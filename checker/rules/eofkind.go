package rules

// R-EOFKIND — the end of the data is reported as io.EOF on every back end (C19: "Err() is io.EOF").
//
// io.ReadFull and io.ReadAtLeast report data that end inside the requested range as io.ErrUnexpectedEOF. A back end that
// hands their error on unchanged makes BinaryReader.Err() differ between back ends for data truncated inside a value.
// Rule: in the root package, the error result of such a call does not leave the function (return, store, argument)
// unless the function also refers to io.ErrUnexpectedEOF (it then translates or tests it; whether it does so correctly
// is not decided here). The expected number of such calls on the pinned tree is zero; a self-test variant keeps the rule
// from passing vacuously.

import (
	"fmt"

	"golang.org/x/tools/go/ssa"

	"verif/checker/core"
)

func init() {
	register(&Rule{ID: "R-EOFKIND", Props: []string{"C19", "C12", "C13"}, Doc: "the error of io.ReadFull/io.ReadAtLeast (io.ErrUnexpectedEOF on short data) never leaves a function of the root package (C19, C12) or of package buffer (C12, C13) untranslated", Run: runEOFKind})
}

func runEOFKind(r *core.Run) {
	calls, funcs := 0, 0
	scope := map[string]bool{"parse": true}
	floor := 100
	switch r.Prop {
	case "C12":
		scope["buffer"] = true
	case "C13":
		scope = map[string]bool{"buffer": true}
		floor = 30
	}
	for _, fn := range allModuleFuncs(r) {
		if !scope[core.RelPkg(fnPkg(fn))] || len(fn.Blocks) == 0 {
			continue
		}
		funcs++
		mentions := false
		var errs []ssa.Value
		var sites []*ssa.Call
		for _, b := range fn.Blocks {
			for _, in := range b.Instrs {
				var rands [16]*ssa.Value
				for _, op := range in.Operands(rands[:0]) {
					if g, ok := (*op).(*ssa.Global); ok && g.Pkg != nil && g.Pkg.Pkg.Path() == "io" && g.Name() == "ErrUnexpectedEOF" {
						mentions = true
					}
				}
				c, ok := in.(*ssa.Call)
				if !ok {
					continue
				}
				callee := c.Call.StaticCallee()
				if callee == nil || callee.Pkg == nil || callee.Pkg.Pkg.Path() != "io" || (callee.Name() != "ReadFull" && callee.Name() != "ReadAtLeast") {
					continue
				}
				calls++
				sites = append(sites, c)
				if refs := c.Referrers(); refs != nil {
					for _, u := range *refs {
						if e, ok := u.(*ssa.Extract); ok && e.Index == 1 {
							errs = append(errs, e)
						}
					}
				}
			}
		}
		for i, c := range sites {
			key := fmt.Sprintf("%s: error of %s #%d", fn.RelString(fn.Pkg.Pkg), c.Call.StaticCallee().Name(), i+1)
			if mentions {
				r.OK(key, c.Pos(), "the function refers to io.ErrUnexpectedEOF (translation/test present; its correctness is not decided)")
				continue
			}
			esc := ""
			seen := map[ssa.Value]bool{}
			var walk func(v ssa.Value)
			walk = func(v ssa.Value) {
				if seen[v] || esc != "" {
					return
				}
				seen[v] = true
				refs := v.Referrers()
				if refs == nil {
					return
				}
				for _, u := range *refs {
					switch x := u.(type) {
					case *ssa.Return:
						esc = "returned"
					case *ssa.Store:
						if x.Val == v {
							esc = "stored"
						}
					case *ssa.Call:
						// handing the error to a function of this module lets it leave (setErr helpers); a library
						// call (errors.Is, fmt) only inspects it
						if f := x.Call.StaticCallee(); f == nil || (f.Pkg != nil && core.InModule(f.Pkg.Pkg)) {
							esc = "passed to " + x.Call.String()
						}
					case *ssa.Phi:
						walk(x)
					case *ssa.ChangeInterface:
						walk(x)
					case *ssa.MakeInterface:
						walk(x)
					}
				}
			}
			for _, e := range errs {
				walk(e)
			}
			if esc != "" {
				r.Fail(key, c.Pos(), fmt.Sprintf("the error result is %s unchanged: data that end inside the requested range yield io.ErrUnexpectedEOF, where BinaryReader's contract (and every other back end) reports io.EOF", esc))
			} else {
				r.OK(key, c.Pos(), "the error result does not leave the function")
			}
		}
	}
	if calls == 0 {
		r.OK("no call of io.ReadFull / io.ReadAtLeast in scope", 0, fmt.Sprintf("%d functions scanned (callees resolved statically)", funcs))
	}
	r.Count("functions scanned for io.ReadFull/io.ReadAtLeast", funcs)
	r.Count("io.ReadFull/io.ReadAtLeast calls", calls)
	r.Floor("functions in scope", funcs, floor)
}
