package rules

import (
	"fmt"
	"go/ast"
	"go/constant"
	"go/token"
	"go/types"
	"sort"
	"strings"

	"golang.org/x/tools/go/packages"
	"golang.org/x/tools/go/ssa"

	"verif/checker/core"
)

func init() {
	register(&Rule{ID: "R-PREC", Props: []string{"C03"}, Doc: "the precedence ladder of parseExpressionSuffix/parseExpression is the ECMAScript operator table (levels, associativity, forbidden mixes)", Run: runPrec})
}

// ECMAScript operator table: token -> level (name of the repo's OpPrec constant).
// assoc: "left" (right operand parsed one level higher), "right" (same level).
type precSpec struct {
	level string
	assoc string
	minL  string // minimum precedence required of the left operand ("" = same as level)
	right string // explicit level of the right operand ("" = derived from assoc)
}

var ecmaOps = map[string]precSpec{}

func init() {
	add := func(spec precSpec, toks ...string) {
		for _, t := range toks {
			ecmaOps[t] = spec
		}
	}
	add(precSpec{level: "OpAssign", assoc: "right", minL: "OpLHS"}, "EqToken", "MulEqToken", "DivEqToken", "ModEqToken", "ExpEqToken", "AddEqToken", "SubEqToken", "LtLtEqToken", "GtGtEqToken", "GtGtGtEqToken", "BitAndEqToken", "BitXorEqToken", "BitOrEqToken", "AndEqToken", "OrEqToken", "NullishEqToken")
	add(precSpec{level: "OpCompare", assoc: "left"}, "LtToken", "LtEqToken", "GtToken", "GtEqToken", "InToken", "InstanceofToken")
	add(precSpec{level: "OpEquals", assoc: "left"}, "EqEqToken", "NotEqToken", "EqEqEqToken", "NotEqEqToken")
	// LogicalAND : LogicalAND && BitwiseOR ; LogicalOR : LogicalOR || LogicalAND
	add(precSpec{level: "OpAnd", assoc: "left", right: "OpBitOr"}, "AndToken")
	add(precSpec{level: "OpOr", assoc: "left", right: "OpAnd"}, "OrToken")
	// CoalesceExpression : CoalesceExpressionHead ?? BitwiseOR ; head is a coalesce or a BitwiseOR expression (no mixing with && ||)
	add(precSpec{level: "OpCoalesce", assoc: "left", right: "OpBitOr", minL: "OpBitOr|OpCoalesce"}, "NullishToken")
	// ExponentiationExpression : UpdateExpression ** ExponentiationExpression
	add(precSpec{level: "OpExp", assoc: "right", minL: "OpUpdate"}, "ExpToken")
	add(precSpec{level: "OpMul", assoc: "left"}, "MulToken", "DivToken", "ModToken")
	add(precSpec{level: "OpAdd", assoc: "left"}, "AddToken", "SubToken")
	add(precSpec{level: "OpShift", assoc: "left"}, "LtLtToken", "GtGtToken", "GtGtGtToken")
	add(precSpec{level: "OpBitAnd", assoc: "left"}, "BitAndToken")
	add(precSpec{level: "OpBitXor", assoc: "left"}, "BitXorToken")
	add(precSpec{level: "OpBitOr", assoc: "left"}, "BitOrToken")
	// ConditionalExpression : ShortCircuitExpression ? AssignmentExpression : AssignmentExpression
	add(precSpec{level: "OpAssign", assoc: "right", minL: "OpCoalesce"}, "QuestionToken")
	add(precSpec{level: "OpExpr", assoc: "left", right: "OpAssign", minL: "-"}, "CommaToken")
}

// the ladder itself (lowest to highest), as ECMAScript orders the binary levels
var ecmaLadder = []string{"OpExpr", "OpAssign", "OpCoalesce", "OpOr", "OpAnd", "OpBitOr", "OpBitXor", "OpBitAnd", "OpEquals", "OpCompare", "OpShift", "OpAdd", "OpMul", "OpExp", "OpUnary", "OpUpdate", "OpLHS"}

type armFacts struct {
	ret   []string // X in `OpX < prec` -> return left
	minL  []string // Y in `precLeft < OpY` -> fail
	neqL  []string // Y in `precLeft != OpY`
	right []string // Z in p.parseExpression(OpZ)
	setL  []string // W in precLeft = OpW
	pos   token.Pos
}

func identName(e ast.Expr) string {
	if id, ok := ast.Unparen(e).(*ast.Ident); ok {
		return id.Name
	}
	return ""
}

func collectArm(pk *packages.Package, body []ast.Stmt) armFacts {
	var f armFacts
	for _, st := range body {
		ast.Inspect(st, func(n ast.Node) bool {
			switch x := n.(type) {
			case *ast.BinaryExpr:
				l, r := identName(x.X), identName(x.Y)
				if x.Op == token.LSS && r == "prec" && strings.HasPrefix(l, "Op") {
					f.ret = append(f.ret, l)
				}
				if x.Op == token.LSS && l == "precLeft" && strings.HasPrefix(r, "Op") {
					f.minL = append(f.minL, r)
				}
				if x.Op == token.NEQ && l == "precLeft" && strings.HasPrefix(r, "Op") {
					f.neqL = append(f.neqL, r)
				}
			case *ast.CallExpr:
				if se, ok := x.Fun.(*ast.SelectorExpr); ok && se.Sel.Name == "parseExpression" && len(x.Args) == 1 {
					f.right = append(f.right, identName(x.Args[0]))
				}
			case *ast.AssignStmt:
				if len(x.Lhs) == 1 && identName(x.Lhs[0]) == "precLeft" && len(x.Rhs) == 1 && x.Tok == token.ASSIGN {
					f.setL = append(f.setL, identName(x.Rhs[0]))
				}
			}
			return true
		})
	}
	return f
}

func uniq(s []string) []string {
	m := map[string]bool{}
	var out []string
	for _, x := range s {
		if !m[x] {
			m[x] = true
			out = append(out, x)
		}
	}
	sort.Strings(out)
	return out
}

func runPrec(r *core.Run) {
	pk := r.Prog.Pkg("js")
	if pk == nil {
		r.BrokenAnchor("package js")
		return
	}
	// 1. the repo's OpPrec constants are ordered like the ECMAScript ladder
	vals := map[string]int64{}
	for n, c := range constsOfType(pk, "OpPrec") {
		vals[n], _ = constant.Int64Val(constant.ToInt(c))
	}
	okOrder := true
	for i := 1; i < len(ecmaLadder); i++ {
		a, oka := vals[ecmaLadder[i-1]]
		b, okb := vals[ecmaLadder[i]]
		if !oka || !okb {
			r.BrokenAnchor("OpPrec constant " + ecmaLadder[i])
			return
		}
		if !(a < b) {
			okOrder = false
		}
	}
	r.Check(okOrder, "OpPrec constants are ordered like the ECMAScript precedence ladder", token.NoPos, strings.Join(ecmaLadder, " < "), "the numeric order of the OpPrec constants no longer matches "+strings.Join(ecmaLadder, " < "))
	succ := func(level string) string {
		for i, l := range ecmaLadder {
			if l == level && i+1 < len(ecmaLadder) {
				return ecmaLadder[i+1]
			}
		}
		return ""
	}
	// 2. binary/conditional arms of parseExpressionSuffix
	fd, _ := r.Prog.FuncDecl("js", "Parser", "parseExpressionSuffix")
	if fd == nil {
		r.BrokenAnchor("js.Parser.parseExpressionSuffix")
		return
	}
	var sw *ast.SwitchStmt
	ast.Inspect(fd.Body, func(n ast.Node) bool {
		if s, ok := n.(*ast.SwitchStmt); ok && sw == nil {
			sw = s
		}
		return sw == nil
	})
	if sw == nil {
		r.Unknown("parseExpressionSuffix switch", fd.Pos(), "no token switch found")
		return
	}
	checkArm := func(key, tok0 string, spec precSpec, f armFacts, pos token.Pos) {
		// X
		r.Check(len(uniq(f.ret)) == 1 && f.ret[0] == spec.level, key+" stops below its level", pos, "",
			fmt.Sprintf("the arm returns when %v < prec; for %s it must be exactly %s < prec (otherwise a tighter-binding context swallows this operator or a looser one refuses it)", uniq(f.ret), tok0, spec.level))
		// W
		r.Check(len(uniq(f.setL)) == 1 && f.setL[0] == spec.level, key+" records its level as left precedence", pos, "",
			fmt.Sprintf("precLeft is set to %v after the operator; it must be %s", uniq(f.setL), spec.level))
		// Z
		wantR := spec.right
		if wantR == "" {
			if spec.assoc == "left" {
				wantR = succ(spec.level)
			} else {
				wantR = spec.level
			}
		}
		r.Check(len(uniq(f.right)) == 1 && f.right[0] == wantR, key+" parses its right operand at the right level", pos, "",
			fmt.Sprintf("right operand is parsed with parseExpression(%v); %s-associative %s requires %s (wrong level changes grouping: a-b-c, a**b**c, a<b==c ...)", uniq(f.right), spec.assoc, spec.level, wantR))
		// Y
		switch spec.minL {
		case "-":
		case "":
			r.Check(len(uniq(f.minL)) == 1 && f.minL[0] == spec.level, key+" requires a left operand of its level", pos, "", fmt.Sprintf("left operand must have precedence >= %s, found test against %v", spec.level, uniq(f.minL)))
		default:
			parts := strings.Split(spec.minL, "|")
			ok := len(uniq(f.minL)) == 1 && f.minL[0] == parts[0]
			if len(parts) == 2 {
				ok = ok && len(uniq(f.neqL)) == 1 && f.neqL[0] == parts[1]
			}
			r.Check(ok, key+" restricts its left operand", pos, "", fmt.Sprintf("left operand must satisfy precLeft >= %s (found tests < %v, != %v): forbidden combinations (-a**b, a||b??c, assignment to a binary expression) would be accepted", spec.minL, uniq(f.minL), uniq(f.neqL)))
		}
	}
	covered := map[string]bool{}
	arms := 0
	for _, c := range sw.Body.List {
		cc := c.(*ast.CaseClause)
		var toks []string
		for _, e := range cc.List {
			toks = append(toks, identName(e))
		}
		if len(toks) == 0 {
			continue
		}
		spec, isOp := ecmaOps[toks[0]]
		if !isOp {
			continue
		}
		arms++
		key := "arm " + toks[0]
		// all tokens of the arm belong to the same level
		same := true
		for _, t := range toks {
			covered[t] = true
			s2, ok := ecmaOps[t]
			if !ok || s2 != spec {
				same = false
			}
		}
		r.Check(same, key+" groups operators of one precedence level", cc.Pos(), strings.Join(toks, ","), fmt.Sprintf("tokens %v are handled by one arm but do not share one ECMAScript precedence level/associativity", toks))
		f := collectArm(pk, cc.Body)
		if len(f.ret) == 0 || len(f.right) == 0 || len(f.setL) == 0 {
			// the arm exists but its levels are not spelled out in it (lv := levelsOf(tt); lv.prec < prec …): each of its
			// operators is decided by specialisation, below
			arms--
			for _, t := range toks {
				delete(covered, t)
			}
			continue
		}
		checkArm(key, toks[0], spec, f, cc.Pos())
	}
	// operators without a switch case of their own: the arm may be driven by data (a look-up function or table giving
	// the levels per operator); the same four facts are then read off the function specialised to that operator (peval.go)
	tokVal := map[string]int64{}
	for n, c := range constsOfType(pk, "TokenType") {
		tokVal[n] = mustInt(c.ExactString())
	}
	precName := map[int64]string{}
	for n, v := range vals {
		precName[v] = n
	}
	var uncovered []string
	for t := range ecmaOps {
		if !covered[t] {
			uncovered = append(uncovered, t)
		}
	}
	sort.Strings(uncovered)
	for _, t := range uncovered {
		tv, known := tokVal[t]
		if !known {
			r.BrokenAnchor("js." + t)
			continue
		}
		f, handled, pos := peSuffixFacts(r, tv, precName)
		if !handled {
			r.Fail("operator "+t+" has an arm", sw.Pos(), "binary/assignment operator "+t+" is not handled by parseExpressionSuffix")
			continue
		}
		arms++
		covered[t] = true
		checkArm("arm "+t, t, ecmaOps[t], f, pos)
	}
	r.Floor("operator arms", arms, 10)

	// 3. prefix operators in parseExpression: every UnaryExpr built there reaches the suffix loop with precLeft == OpUnary
	fn := r.Prog.SSAFunc("js", "Parser", "parseExpression")
	if fn == nil {
		r.BrokenAnchor("js.Parser.parseExpression")
		return
	}
	opUnary := vals["OpUnary"]
	tokVals := map[string]int64{}
	for n, c := range constsOfType(pk, "TokenType") {
		tokVals[n] = mustInt(c.ExactString())
	}
	if _, ok := tokVals["PreIncrToken"]; !ok {
		r.BrokenAnchor("js.PreIncrToken")
		return
	}
	checked := 0
	peNeeded := false
	for _, b := range fn.Blocks {
		for _, in := range b.Instrs {
			c, ok := in.(*ssa.Call)
			if !ok {
				continue
			}
			f := c.Call.StaticCallee()
			if f == nil || f.Name() != "parseExpressionSuffix" {
				continue
			}
			left, precLeft := c.Call.Args[1], c.Call.Args[3]
			lp, ok1 := left.(*ssa.Phi)
			pp, ok2 := precLeft.(*ssa.Phi)
			if !ok1 || !ok2 || lp.Block() != pp.Block() {
				continue
			}
			for i, e := range lp.Edges {
				if !isUnaryAlloc(e, 0) {
					continue
				}
				checked++
				k, isC := pp.Edges[i].(*ssa.Const)
				// ECMAScript: `++ UnaryExpression` / `-- UnaryExpression` are UpdateExpressions (they may be the
				// left operand of **); every other prefix operator yields a UnaryExpression (which may not).
				ops := unaryOpsOf(e, 0)
				wantName, want := "OpUnary", opUnary
				allUpdate := len(ops) > 0
				for _, o := range ops {
					if o != tokVals["PreIncrToken"] && o != tokVals["PreDecrToken"] {
						allUpdate = false
					}
				}
				if allUpdate {
					wantName, want = "OpUpdate", vals["OpUpdate"]
				}
				if !isC {
					// the left precedence is computed (op, opPrec := prefixOperator(tt)): decided per prefix operator below
					peNeeded = true
					continue
				}
				good := isC && k.Value != nil && k.Int64() == want
				r.Check(good, fmt.Sprintf("parseExpression prefix operator path #%d enters the suffix loop as %s", checked, wantName), lp.Block().Preds[i].Instrs[0].Pos(), "",
					"a prefix expression reaches parseExpressionSuffix with the wrong left precedence (ECMAScript: ++x and --x are UpdateExpressions, every other prefix operator yields a UnaryExpression): with OpUnary for ++x the valid `++a ** b` is rejected; with anything but OpUnary for the others `-a ** b` or `-2 = x` would be accepted")
			}
		}
	}
	if !peNeeded {
		r.Floor("prefix operator paths", checked, 2)
	}
	// prefix arms: operand parsed at OpUnary, refused when OpUnary/OpUpdate < prec
	pfd, _ := r.Prog.FuncDecl("js", "Parser", "parseExpression")
	var psw *ast.SwitchStmt
	ast.Inspect(pfd.Body, func(n ast.Node) bool {
		if s, ok := n.(*ast.SwitchStmt); ok && psw == nil {
			psw = s
		}
		return psw == nil
	})
	if psw != nil {
		for _, c := range psw.Body.List {
			cc := c.(*ast.CaseClause)
			if len(cc.List) == 0 {
				continue
			}
			t0 := identName(cc.List[0])
			want := ""
			switch t0 {
			case "NotToken", "AddToken", "SubToken":
				want = "OpUnary"
			case "IncrToken", "DecrToken":
				want = "OpUpdate"
			default:
				continue
			}
			f := collectArm(pk, cc.Body)
			if len(f.ret) == 0 || len(f.right) == 0 {
				peNeeded = true // the arm's levels are data (a look-up per operator): decided below
				continue
			}
			r.Check(len(uniq(f.ret)) == 1 && f.ret[0] == want, "prefix arm "+t0+" is refused in tighter contexts", cc.Pos(), "", fmt.Sprintf("found test %v < prec, want %s < prec", uniq(f.ret), want))
			r.Check(len(uniq(f.right)) == 1 && f.right[0] == "OpUnary", "prefix arm "+t0+" parses its operand as a UnaryExpression", cc.Pos(), "", fmt.Sprintf("operand parsed with parseExpression(%v), want OpUnary", uniq(f.right)))
		}
	}
	if peNeeded {
		// parseExpression specialised to each prefix operator (peval.go)
		precName := map[int64]string{}
		for n, v := range vals {
			precName[v] = n
		}
		for _, t := range []string{"NotToken", "BitNotToken", "TypeofToken", "VoidToken", "DeleteToken", "AddToken", "SubToken", "IncrToken", "DecrToken"} {
			tv, known := tokVals[t]
			if !known {
				r.BrokenAnchor("js." + t)
				continue
			}
			want := "OpUnary"
			if t == "IncrToken" || t == "DecrToken" {
				want = "OpUpdate"
			}
			ret, right, enters, pos, ok := pePrefixFacts(r, tv, precName)
			if !ok {
				r.Unknown("prefix arm "+t, fn.Pos(), "parseExpression could not be specialised to this operator")
				continue
			}
			checked++
			r.Check(len(uniq(ret)) == 1 && ret[0] == want, "prefix arm "+t+" is refused in tighter contexts", pos, "", fmt.Sprintf("found test %v < prec, want %s < prec", uniq(ret), want))
			r.Check(len(uniq(right)) == 1 && right[0] == "OpUnary", "prefix arm "+t+" parses its operand as a UnaryExpression", pos, "", fmt.Sprintf("operand parsed with parseExpression(%v), want OpUnary", uniq(right)))
			r.Check(len(uniq(enters)) == 1 && enters[0] == want, "prefix operator "+t+" enters the suffix loop as "+want, pos, "",
				fmt.Sprintf("a prefix expression reaches parseExpressionSuffix with left precedence %v (ECMAScript: ++x and --x are UpdateExpressions, every other prefix operator yields a UnaryExpression)", uniq(enters)))
		}
		r.Floor("prefix operator paths", checked, 2)
	}
}

// pePrefixFacts: for prefix operator tok, the level below which parseExpression refuses it, the level its operand is
// parsed at, and the left precedence with which the suffix loop is entered.
func pePrefixFacts(r *core.Run, tok int64, precName map[int64]string) (ret, right, enters []string, pos token.Pos, ok bool) {
	paths, pe := peArm(r, "parseExpression", tok, map[int]string{1: "prec"})
	if pe == nil || paths == nil {
		return nil, nil, nil, token.NoPos, false
	}
	name := func(k int64) string {
		if n, has := precName[k]; has {
			return n
		}
		return fmt.Sprint(k)
	}
	for _, pt := range paths {
		consumed := false
		var parse, suffix *peEvent
		failed := false
		for i := range pt.events {
			switch pt.events[i].name {
			case "next":
				consumed = true
			case "parseExpression":
				if parse == nil {
					parse = &pt.events[i]
				}
			case "parseExpressionSuffix":
				if suffix == nil {
					suffix = &pt.events[i]
				}
			case "fail", "failMessage":
				failed = true
			}
		}
		switch {
		case consumed && parse != nil:
			ok = true
			pos = parse.pos
			if len(parse.args) == 2 {
				if k, isK := peInt(parse.args[1]); isK {
					right = append(right, name(k))
				} else {
					right = append(right, "?")
				}
			}
			if suffix != nil && len(suffix.args) == 4 {
				if k, isK := peInt(suffix.args[3]); isK {
					enters = append(enters, name(k))
				} else {
					enters = append(enters, "?")
				}
			}
		case !consumed && pt.outcome == "return":
			// refused (here with a parse error: `if opPrec < prec { p.fail(…); return nil }`)
			_ = failed
			for _, c := range pt.conds {
				if c.sym == "prec" && c.op == token.GTR {
					ret = append(ret, name(c.k))
				}
			}
		}
	}
	return
}

// isUnaryAlloc: the value is (an interface holding) a freshly allocated *UnaryExpr.
func isUnaryAlloc(v ssa.Value, depth int) bool {
	if depth > 4 {
		return false
	}
	switch x := v.(type) {
	case *ssa.MakeInterface:
		return isUnaryAlloc(x.X, depth+1)
	case *ssa.Alloc:
		if p, ok := x.Type().(*types.Pointer); ok {
			if n, ok := p.Elem().(*types.Named); ok {
				return n.Obj().Name() == "UnaryExpr"
			}
		}
	case *ssa.Phi:
		for _, e := range x.Edges {
			if isUnaryAlloc(e, depth+1) {
				return true
			}
		}
	}
	return false
}

// unaryOpsOf: the constant operators stored into the Op field of the freshly allocated UnaryExpr(s) behind v.
func unaryOpsOf(v ssa.Value, depth int) []int64 {
	if depth > 4 {
		return nil
	}
	switch x := v.(type) {
	case *ssa.MakeInterface:
		return unaryOpsOf(x.X, depth+1)
	case *ssa.Alloc:
		var out []int64
		for _, ref := range *x.Referrers() {
			fa, ok := ref.(*ssa.FieldAddr)
			if !ok || fieldName(fa.X.Type(), fa.Field) != "Op" {
				continue
			}
			for _, r2 := range *fa.Referrers() {
				if st, isSt := r2.(*ssa.Store); isSt {
					out = append(out, constLeaves(st.Val, 0)...)
				}
			}
		}
		return out
	case *ssa.Phi:
		var out []int64
		for _, e := range x.Edges {
			out = append(out, unaryOpsOf(e, depth+1)...)
		}
		return out
	}
	return nil
}

// constLeaves: the integer constants a value can take through phis (-1 for anything else).
func constLeaves(v ssa.Value, depth int) []int64 {
	switch x := v.(type) {
	case *ssa.Const:
		if ssaIntConst(x) {
			return []int64{x.Int64()}
		}
	case *ssa.Phi:
		if depth < 4 {
			var out []int64
			for _, e := range x.Edges {
				out = append(out, constLeaves(e, depth+1)...)
			}
			return out
		}
	case *ssa.ChangeType:
		return constLeaves(x.X, depth+1)
	}
	return []int64{-1}
}

var _ = core.ModPath

// peSuffixFacts: the facts of the arm that parseExpressionSuffix executes for token tok, from its paths with the
// token fixed and prec / precLeft symbolic. handled: some path consumes the token and parses a right operand.
func peSuffixFacts(r *core.Run, tok int64, precName map[int64]string) (armFacts, bool, token.Pos) {
	var f armFacts
	fn := r.Prog.SSAFunc("js", "Parser", "parseExpressionSuffix")
	if fn == nil || len(fn.Params) != 4 {
		return f, false, token.NoPos
	}
	paths, pe := peArm(r, "parseExpressionSuffix", tok, map[int]string{2: "prec", 3: "precLeft"})
	if pe == nil || paths == nil {
		return f, false, token.NoPos
	}
	name := func(k int64) string {
		if n, ok := precName[k]; ok {
			return n
		}
		return fmt.Sprint(k)
	}
	has := func(pt pePath, names ...string) *peEvent {
		for i := range pt.events {
			for _, n := range names {
				if pt.events[i].name == n {
					return &pt.events[i]
				}
			}
		}
		return nil
	}
	// the phi that carries precLeft around the loop: the one whose value on entry is the parameter
	var leftPhi *ssa.Phi
	for _, b := range fn.Blocks {
		for _, in := range b.Instrs {
			if ph, ok := in.(*ssa.Phi); ok {
				for _, e := range ph.Edges {
					if e == ssa.Value(fn.Params[3]) {
						leftPhi = ph
					}
				}
			}
		}
	}
	handled := false
	pos := fn.Pos()
	for _, pt := range paths {
		consumed := has(pt, "next") != nil
		parse := has(pt, "parseExpression")
		failed := has(pt, "fail", "failMessage") != nil
		switch {
		case consumed && parse != nil:
			handled = true
			pos = parse.pos
			if len(parse.args) == 2 {
				if k, ok := peInt(parse.args[1]); ok {
					f.right = append(f.right, name(k))
				} else {
					f.right = append(f.right, "?")
				}
			}
			if pt.outcome == "backedge" && leftPhi != nil {
				if k, ok := peInt(pt.phis[leftPhi]); ok {
					f.setL = append(f.setL, name(k))
				} else {
					f.setL = append(f.setL, "?")
				}
			}
		case failed && !consumed:
			for _, c := range pt.conds {
				if c.sym == "precLeft" && c.op == token.LSS {
					f.minL = append(f.minL, name(c.k))
				}
				if c.sym == "precLeft" && c.op == token.NEQ {
					f.neqL = append(f.neqL, name(c.k))
				}
			}
		case pt.outcome == "return" && !consumed && !failed:
			for _, c := range pt.conds {
				if c.sym == "prec" && c.op == token.GTR {
					f.ret = append(f.ret, name(c.k))
				}
			}
		}
	}
	f.pos = pos
	return f, handled, pos
}
