package rules

import (
	"fmt"
	"go/constant"
	"go/token"
	"go/types"
	"strings"

	"golang.org/x/tools/go/ssa"

	"verif/checker/core"
)

func init() {
	register(&Rule{ID: "R-ERRCTOR", Props: []string{"C15"}, Doc: "every *parse.Error is built by NewError from Position(r, offset); lexers pass their own cursor offset", Run: runErrCtor})
	register(&Rule{ID: "R-REUSE", Props: []string{"C07"}, Doc: "css.IsIdent/IsURLUnquoted run scanner methods that Lexer.Next reaches and compare the end position with len(arg)", Run: runReuse})
}

func isParseError(t types.Type) bool {
	if p, ok := t.(*types.Pointer); ok {
		t = p.Elem()
	}
	n, ok := t.(*types.Named)
	return ok && n.Obj().Name() == "Error" && n.Obj().Pkg() != nil && n.Obj().Pkg().Path() == core.ModPath
}

func runErrCtor(r *core.Run) {
	newErr := r.Prog.SSAFunc("", "", "NewError")
	newErrLex := r.Prog.SSAFunc("", "", "NewErrorLexer")
	position := r.Prog.SSAFunc("", "", "Position")
	if newErr == nil || newErrLex == nil || position == nil {
		r.BrokenAnchor("parse.NewError / NewErrorLexer / Position")
		return
	}
	// 0. the two constructors may share one builder that works on an Input (newErrorInput(z, offset, …) with the
	// position computed by the core of Position): the same facts, read along that shape
	sharedDone := errCtorShared(r, newErr, newErrLex, position)
	if !sharedDone {
		errCtorClassic(r, newErr, newErrLex, position)
	}
	errCtorSites(r, newErr, newErrLex)
}

// errCtorShared: Position is `return core(NewInput(r), offset)`; exactly one function b builds parse.Error, taking
// Line/Column/Context from core(z, offset) on its own parameters; NewError calls b(NewInput(r), offset, …) and
// NewErrorLexer calls b(NewInputBytes(l.Bytes()), l.Offset(), …). Returns false when the code does not have this shape.
func errCtorShared(r *core.Run, newErr, newErrLex, position *ssa.Function) bool {
	// the core of Position
	var posCore *ssa.Function
	if ret := singleReturn(position); ret != nil && len(position.Blocks) == 1 {
		var call *ssa.Call
		all := true
		for i, rv := range ret.Results {
			ex, ok := rv.(*ssa.Extract)
			if !ok || ex.Index != i {
				all = false
				break
			}
			c, isC := ex.Tuple.(*ssa.Call)
			if !isC || (call != nil && c != call) {
				all = false
				break
			}
			call = c
		}
		if all && call != nil && len(call.Call.Args) == 2 && call.Call.Args[1] == ssa.Value(position.Params[1]) {
			if in, ok := call.Call.Args[0].(*ssa.Call); ok {
				if f := in.Call.StaticCallee(); f != nil && f.Name() == "NewInput" && len(in.Call.Args) == 1 && in.Call.Args[0] == ssa.Value(position.Params[0]) {
					posCore = call.Call.StaticCallee()
				}
			}
		}
	}
	if posCore == nil {
		return false
	}
	// the builders
	var builders []*ssa.Function
	for _, fn := range allModuleFuncs(r) {
		for _, b := range fn.Blocks {
			for _, in := range b.Instrs {
				if al, ok := in.(*ssa.Alloc); ok && isParseError(al.Type()) {
					found := false
					for _, x := range builders {
						if x == fn {
							found = true
						}
					}
					if !found {
						builders = append(builders, fn)
					}
				}
			}
		}
	}
	if len(builders) != 1 || builders[0] == newErr || builders[0].Object() == nil || builders[0].Object().Exported() {
		return false
	}
	b := builders[0]
	for _, fn := range allModuleFuncs(r) {
		if fn == b {
			continue
		}
		for _, st := range allStores(fn) {
			if fa, ok := st.Addr.(*ssa.FieldAddr); ok && isParseError(fa.X.Type()) {
				r.Fail("Error field written in "+fnLabel(fn), st.Pos(), "a field of parse.Error is assigned outside its builder")
			}
		}
	}
	r.OK("parse.Error built only by NewError", b.Pos(), "by the shared builder "+b.Name())
	// the builder: core(z, offset) on its own parameters, results into Line/Column/Context
	var pc *ssa.Call
	for _, blk := range b.Blocks {
		for _, in := range blk.Instrs {
			if c, ok := in.(*ssa.Call); ok && c.Call.StaticCallee() == posCore {
				pc = c
			}
		}
	}
	pi, po := -1, -1
	if pc != nil && len(pc.Call.Args) == 2 {
		for i, q := range b.Params {
			if ssa.Value(q) == pc.Call.Args[0] {
				pi = i
			}
			if ssa.Value(q) == pc.Call.Args[1] {
				po = i
			}
		}
	}
	r.Check(pc != nil && pi >= 0 && po >= 0, "NewError calls Position(r, offset)", b.Pos(), "", "the builder does not compute the position with the core of Position on its own input and offset parameters")
	if pc == nil || pi < 0 || po < 0 {
		return true
	}
	want := map[string]int{"Line": 0, "Column": 1, "Context": 2}
	got := 0
	for _, st := range allStores(b) {
		fa, ok := st.Addr.(*ssa.FieldAddr)
		if !ok || !isParseError(fa.X.Type()) {
			continue
		}
		name := fieldName(fa.X.Type(), fa.Field)
		idx, tracked := want[name]
		if !tracked {
			continue
		}
		ex, ok := st.Val.(*ssa.Extract)
		r.Check(ok && ex.Tuple == pc && ex.Index == idx, "NewError."+name+" from Position", st.Pos(), "", fmt.Sprintf("Error.%s is not result #%d of the position function", name, idx))
		got++
	}
	r.Check(got == 3, "NewError sets Line, Column, Context", b.Pos(), "", fmt.Sprintf("%d of the three position fields are assigned", got))
	// the two constructors
	callOf := func(f *ssa.Function) *ssa.Call {
		var out *ssa.Call
		for _, blk := range f.Blocks {
			for _, in := range blk.Instrs {
				if c, ok := in.(*ssa.Call); ok && c.Call.StaticCallee() == b {
					out = c
				}
			}
		}
		return out
	}
	okNE := false
	if c := callOf(newErr); c != nil && pi < len(c.Call.Args) && po < len(c.Call.Args) {
		if in, ok := c.Call.Args[pi].(*ssa.Call); ok {
			if f := in.Call.StaticCallee(); f != nil && f.Name() == "NewInput" && len(in.Call.Args) == 1 && in.Call.Args[0] == ssa.Value(newErr.Params[0]) {
				okNE = c.Call.Args[po] == ssa.Value(newErr.Params[1])
			}
		}
	}
	r.Check(okNE, "NewError calls Position(r, offset)", newErr.Pos(), "through the shared builder", "NewError does not hand its own reader (as NewInput(r)) and offset to the builder")
	okNL := false
	if c := callOf(newErrLex); c != nil && pi < len(c.Call.Args) && po < len(c.Call.Args) {
		l := newErrLex.Params[0]
		if in, ok := c.Call.Args[pi].(*ssa.Call); ok {
			if f := in.Call.StaticCallee(); f != nil && f.Name() == "NewInputBytes" && len(in.Call.Args) == 1 {
				if bc, isB := in.Call.Args[0].(*ssa.Call); isB {
					if g := bc.Call.StaticCallee(); g != nil && g.Name() == "Bytes" && len(bc.Call.Args) == 1 && bc.Call.Args[0] == ssa.Value(l) {
						okNL = linOf(c.Call.Args[po]).equal(linAtom(l.Name() + ".Offset()"))
					}
				}
			}
		}
	}
	r.Check(okNL, "NewErrorLexer uses the cursor's Bytes() and Offset()", newErrLex.Pos(), "", "NewErrorLexer does not report the cursor's current Offset() over the cursor's own Bytes()")
	return true
}

func errCtorClassic(r *core.Run, newErr, newErrLex, position *ssa.Function) {
	// 1. who may construct / write a parse.Error
	for _, fn := range allModuleFuncs(r) {
		for _, b := range fn.Blocks {
			for _, in := range b.Instrs {
				switch x := in.(type) {
				case *ssa.Alloc:
					if isParseError(x.Type()) && fn != newErr {
						r.Fail("Error constructed in "+fnLabel(fn), x.Pos(), "a parse.Error value is built outside NewError: its Line/Column/Context are not computed by Position")
					}
				case *ssa.Store:
					if fa, ok := x.Addr.(*ssa.FieldAddr); ok && isParseError(fa.X.Type()) && fn != newErr {
						r.Fail("Error field written in "+fnLabel(fn), x.Pos(), "a field of parse.Error is assigned outside NewError")
					}
				}
			}
		}
	}
	r.OK("parse.Error built only by NewError", newErr.Pos(), "")
	// 2. NewError: Line, Column, Context <- Position(r, offset) results #0,#1,#2
	var posCall *ssa.Call
	for _, b := range newErr.Blocks {
		for _, in := range b.Instrs {
			if c, ok := in.(*ssa.Call); ok && c.Call.StaticCallee() == position {
				posCall = c
			}
		}
	}
	if posCall == nil {
		r.Fail("NewError calls Position", newErr.Pos(), "NewError does not call Position")
	} else {
		r.Check(posCall.Call.Args[0] == newErr.Params[0] && posCall.Call.Args[1] == newErr.Params[1], "NewError calls Position(r, offset)", posCall.Pos(), "", "Position is not called with NewError's own reader and offset")
		want := map[string]int{"Line": 0, "Column": 1, "Context": 2}
		got := 0
		for _, st := range allStores(newErr) {
			fa, ok := st.Addr.(*ssa.FieldAddr)
			if !ok || !isParseError(fa.X.Type()) {
				continue
			}
			name := fieldName(fa.X.Type(), fa.Field)
			idx, tracked := want[name]
			if !tracked {
				continue
			}
			ex, ok := st.Val.(*ssa.Extract)
			r.Check(ok && ex.Tuple == posCall && ex.Index == idx, "NewError."+name+" from Position", st.Pos(), "", fmt.Sprintf("Error.%s is not result #%d of Position(r, offset)", name, idx))
			got++
		}
		r.Check(got == 3, "NewError sets Line, Column, Context", newErr.Pos(), "", fmt.Sprintf("%d of the three position fields are assigned", got))
	}
	// 3. NewErrorLexer: NewError(bytes.NewBuffer(l.Bytes()), l.Offset(), ...)
	{
		var c *ssa.Call
		for _, b := range newErrLex.Blocks {
			for _, in := range b.Instrs {
				if x, ok := in.(*ssa.Call); ok && x.Call.StaticCallee() == newErr {
					c = x
				}
			}
		}
		ok := false
		if c != nil {
			off := linOf(c.Call.Args[1])
			l := newErrLex.Params[0].Name()
			ok = off.equal(linAtom(l + ".Offset()"))
			// reader built from l.Bytes()
			src := false
			if mi, isMI := c.Call.Args[0].(*ssa.MakeInterface); isMI {
				if bc, isCall := mi.X.(*ssa.Call); isCall && len(bc.Call.Args) == 1 {
					if inner, isCall := bc.Call.Args[0].(*ssa.Call); isCall {
						if f := inner.Call.StaticCallee(); f != nil && f.Name() == "Bytes" && inner.Call.Args[0] == newErrLex.Params[0] {
							src = true
						}
					}
				}
			}
			ok = ok && src
		}
		r.Check(ok, "NewErrorLexer uses the cursor's Bytes() and Offset()", newErrLex.Pos(), "", "NewErrorLexer does not report the cursor's current Offset() over the cursor's own Bytes()")
	}
}

func errCtorSites(r *core.Run, newErr, newErrLex *ssa.Function) {
	// 4. every call of NewErrorLexer passes the Input of the lexer/parser that reports the error
	sites := 0
	for _, fn := range allModuleFuncs(r) {
		for _, b := range fn.Blocks {
			for _, in := range b.Instrs {
				c, ok := in.(*ssa.Call)
				if !ok {
					continue
				}
				switch c.Call.StaticCallee() {
				case newErrLex:
					sites++
					arg := canon(c.Call.Args[0])
					recv := ""
					if fn.Signature.Recv() != nil {
						recv = fn.Params[0].Name()
					}
					// the receiver's own cursor: a field of the receiver whose type is *parse.Input
					own := false
					if u, isU := c.Call.Args[0].(*ssa.UnOp); isU && u.Op == token.MUL && recv != "" {
						if fa, isFA := u.X.(*ssa.FieldAddr); isFA && fa.X == ssa.Value(fn.Params[0]) {
							if tp, okT := modTypePath(u.Type()); okT && tp == "parse.Input" {
								own = true
							}
						}
					}
					r.Check(own, fmt.Sprintf("%s passes its own cursor", fnLabel(fn)), c.Pos(), arg, fmt.Sprintf("NewErrorLexer is called with %s, not the reporting lexer's own cursor field", arg))
				case newErr:
					if fn == newErrLex {
						continue
					}
					sites++
					off := linOf(c.Call.Args[1])
					key := fmt.Sprintf("%s offset", fnLabel(fn))
					switch fnLabel(fn) {
					case "js.Parse":
						// Offset() - len(p.data): start of the current token
						want := false
						if len(off.T) == 2 && off.C == 0 {
							pos, neg := "", ""
							for a, cf := range off.T {
								if cf == 1 {
									pos = a
								}
								if cf == -1 {
									neg = a
								}
							}
							want = strings.HasSuffix(pos, ".Offset()") && strings.HasPrefix(neg, "len(") && strings.Contains(neg, ".") && strings.HasSuffix(neg, ")")
						}
						r.Check(want, key, c.Pos(), off.String(), fmt.Sprintf("js.Parse reports offset `%s`; expected cursor Offset() minus the length of the current token", off))
					case "(*css.Parser).Err":
						want := len(off.T) == 1 && off.C == 0
						if u, isU := c.Call.Args[1].(*ssa.UnOp); !isU || u.Op != token.MUL {
							want = false
						} else if fa, isFA := u.X.(*ssa.FieldAddr); !isFA || fa.X != ssa.Value(fn.Params[0]) {
							want = false
						}
						r.Check(want, key, c.Pos(), off.String(), "css.Parser.Err does not report the recorded errPos")
					default:
						r.Unknown(key, c.Pos(), "unreviewed caller of parse.NewError (offset `"+off.String()+"`)")
					}
				}
			}
		}
	}
	r.Floor("error construction sites", sites, 10)
	// 5. css errPos is only ever assigned the cursor's Offset() (possibly minus a token length)
	if sp := r.Prog.SSAPkg("css"); sp != nil {
		n := 0
		// the error-position field: the int field of css.Parser that Err() hands to NewError
		posField := ""
		if ef := r.Prog.SSAFunc("css", "Parser", "Err"); ef != nil {
			for _, b := range ef.Blocks {
				for _, in := range b.Instrs {
					if c, ok := in.(*ssa.Call); ok {
						if f := c.Call.StaticCallee(); f != nil && f.Name() == "NewError" && len(c.Call.Args) >= 2 {
							if u, ok := c.Call.Args[1].(*ssa.UnOp); ok && u.Op == token.MUL {
								if fa, ok := u.X.(*ssa.FieldAddr); ok {
									posField = fieldName(fa.X.Type(), fa.Field)
								}
							}
						}
					}
				}
			}
		}
		if posField == "" {
			r.BrokenAnchor("css.Parser.Err passes an error-position field to NewError")
		}
		for _, fn := range allModuleFuncs(r) {
			if fnPkg(fn) != sp.Pkg {
				continue
			}
			for _, st := range allStores(fn) {
				if posField == "" || !strings.HasSuffix(canon(st.Addr), "."+posField) {
					continue
				}
				n++
				l := linOf(st.Val)
				// the cursor's Offset() (possibly minus a token length), directly, through a phi of such values, or
				// through a parameter that receives such a value at every call site
				ok := offsetDerivedR(r, st.Val, 0)
				r.Check(ok, fmt.Sprintf("%s errPos from cursor offset", fnLabel(fn)), st.Pos(), l.String(), "errPos is assigned something other than a cursor Offset()-derived value")
			}
		}
		r.Floor("css errPos assignments", n, 1)
	}
}

func offsetDerivedR(r *core.Run, v ssa.Value, depth int) bool {
	return offsetDerivedV(r, v, depth, map[ssa.Value]bool{})
}

func offsetDerivedV(r *core.Run, v ssa.Value, depth int, onPath map[ssa.Value]bool) bool {
	if depth > 8 {
		return false
	}
	offsetDerivedR := func(r *core.Run, w ssa.Value, d int) bool { return offsetDerivedV(r, w, d, onPath) }
	switch x := v.(type) {
	case *ssa.Phi:
		if onPath[v] {
			return true // a loop-carried value: decided by its other operands
		}
		onPath[v] = true
		defer delete(onPath, v)
		for _, e := range x.Edges {
			if e == v {
				continue
			}
			if c, ok := e.(*ssa.Const); ok && ssaIntConst(c) && c.Int64() == 0 {
				continue
			}
			if !offsetDerivedR(r, e, depth+1) {
				return false
			}
		}
		return true
	case *ssa.Parameter:
		args, ok := argsOfParam(r, x)
		if !ok {
			return false
		}
		n := 0
		for _, a := range args {
			if c, ok := a.(*ssa.Const); ok && ssaIntConst(c) && c.Int64() == 0 {
				continue // "not set yet": replaced by a cursor offset before it is stored (the phi case above)
			}
			n++
			if !offsetDerivedR(r, a, depth+1) {
				return false
			}
		}
		return n > 0
	}
	for a, cf := range linOf(v).T {
		if strings.HasSuffix(a, ".Offset()") && cf == 1 {
			return true
		}
	}
	return false
}

func offsetDerived(v ssa.Value, depth int) bool {
	if depth > 5 {
		return false
	}
	if p, ok := v.(*ssa.Phi); ok {
		for _, e := range p.Edges {
			if e == v {
				continue
			}
			if c, ok := e.(*ssa.Const); ok && c.Int64() == 0 {
				continue
			}
			if !offsetDerived(e, depth+1) {
				return false
			}
		}
		return true
	}
	for a, cf := range linOf(v).T {
		if strings.HasSuffix(a, ".r.Offset()") && cf == 1 {
			return true
		}
	}
	return false
}

// resolveFuncValue: the function a function-typed value denotes (through method-expression thunks and closures).
func resolveFuncValue(v ssa.Value) *ssa.Function {
	var f *ssa.Function
	switch x := v.(type) {
	case *ssa.Function:
		f = x
	case *ssa.MakeClosure:
		f, _ = x.Fn.(*ssa.Function)
	}
	if f == nil {
		return nil
	}
	if f.Synthetic != "" {
		// thunk / bound-method wrapper: forwards to exactly one function
		for _, b := range f.Blocks {
			for _, in := range b.Instrs {
				if c, ok := in.(*ssa.Call); ok {
					if g := c.Call.StaticCallee(); g != nil {
						return g
					}
				}
			}
		}
	}
	return f
}

func runReuse(r *core.Run) {
	// the lexer's own scanners: the methods of css.Lexer that Next can reach
	own := map[*ssa.Function]bool{}
	if nx := r.Prog.SSAFunc("css", "Lexer", "Next"); nx != nil {
		var walk func(f *ssa.Function, d int)
		walk = func(f *ssa.Function, d int) {
			if f == nil || own[f] || d > 8 {
				return
			}
			own[f] = true
			for _, b := range f.Blocks {
				for _, in := range b.Instrs {
					switch x := in.(type) {
					case *ssa.Call:
						if g := x.Call.StaticCallee(); g != nil && core.RelPkg(fnPkg(g)) == "css" {
							walk(g, d+1)
						}
						for _, a := range x.Call.Args {
							if g := resolveFuncValue(a); g != nil && core.RelPkg(fnPkg(g)) == "css" {
								walk(g, d+1)
							}
						}
					case *ssa.MakeClosure:
						if g, ok := x.Fn.(*ssa.Function); ok {
							walk(g, d+1)
						}
					}
				}
			}
		}
		walk(nx, 0)
	} else {
		r.BrokenAnchor("css.Lexer.Next")
		return
	}
	// the identifier scanner(s): the methods whose success is established where a function returns the constant IdentToken
	identScanners := map[*ssa.Function]bool{}
	identTok := int64(-1)
	if pk := r.Prog.Pkg("css"); pk != nil {
		if c, ok := constsOfType(pk, "TokenType")["IdentToken"]; ok {
			identTok, _ = constant.Int64Val(constant.ToInt(c))
		}
	}
	for f := range own {
		for _, b := range f.Blocks {
			ret, ok := lastInstr(b).(*ssa.Return)
			if !ok || len(ret.Results) == 0 {
				continue
			}
			k, isK := ret.Results[0].(*ssa.Const)
			if !isK || !ssaIntConst(k) || k.Int64() != identTok {
				continue
			}
			if _, named := ret.Results[0].Type().(*types.Named); !named {
				continue
			}
			for v, truth := range boolKnown(b, nil) {
				if c, isC := v.(*ssa.Call); isC && truth {
					if g := c.Call.StaticCallee(); g != nil && g.Signature.Recv() != nil && core.RelPkg(fnPkg(g)) == "css" {
						identScanners[g] = true
					}
				}
			}
		}
	}
	isScannerFor := func(fnName string, g *ssa.Function) bool {
		// a method of the lexer, or of a type of the package that wraps the cursor (type scanner struct{ *parse.Input })
		if g == nil || g.Signature.Recv() == nil || core.RelPkg(fnPkg(g)) != "css" || !own[g] || g.Name() == "Next" {
			return false
		}
		if len(identScanners) == 0 {
			return true
		}
		if fnName == "IsIdent" {
			return identScanners[g]
		}
		return !identScanners[g]
	}
	for _, tc := range []struct{ fn, scanner string }{{"IsIdent", "identifier scanner"}, {"IsURLUnquoted", "unquoted-url scanner"}} {
		fn := r.Prog.SSAFunc("css", "", tc.fn)
		if fn == nil {
			r.BrokenAnchor("css." + tc.fn)
			continue
		}
		isScanner := func(g *ssa.Function) bool { return isScannerFor(tc.fn, g) }
		// the body that does the work: fn itself, or a helper that fn merely forwards to with the scanner as a function argument
		body := fn
		argParam := ssa.Value(fn.Params[0]) // the []byte argument as seen in `body`
		var scanParam ssa.Value             // function-typed parameter of `body` bound to the scanner, if any
		if ret := singleReturn(fn); ret != nil && len(ret.Results) == 1 {
			if c, ok := ret.Results[0].(*ssa.Call); ok {
				if h := c.Call.StaticCallee(); h != nil && core.InModule(fnPkg(h)) && len(h.Blocks) > 0 {
					bi, si := -1, -1
					for i, a := range c.Call.Args {
						if a == ssa.Value(fn.Params[0]) {
							bi = i
						}
						if g := resolveFuncValue(a); isScanner(g) {
							si = i
						}
					}
					if bi >= 0 && si >= 0 && bi < len(h.Params) && si < len(h.Params) {
						body, argParam, scanParam = h, h.Params[bi], h.Params[si]
					}
				}
			}
		}
		var newLexer, scan *ssa.Call
		var input *ssa.Call
		for _, b := range body.Blocks {
			for _, in := range b.Instrs {
				c, ok := in.(*ssa.Call)
				if !ok {
					continue
				}
				if scanParam != nil && c.Call.Value == scanParam && !c.Call.IsInvoke() {
					scan = c
					continue
				}
				f := c.Call.StaticCallee()
				if f == nil {
					continue
				}
				switch {
				case f.Name() == "NewLexer" && core.RelPkg(fnPkg(f)) == "css":
					newLexer = c
				case f.Name() == "NewInputBytes":
					input = c
				case scanParam == nil && isScanner(f):
					scan = c
				}
			}
		}
		ok := newLexer != nil && scan != nil && input != nil &&
			input.Call.Args[0] == argParam && newLexer.Call.Args[0] == ssa.Value(input) && len(scan.Call.Args) > 0 && scan.Call.Args[0] == ssa.Value(newLexer)
		if !ok && newLexer == nil && scan != nil && input != nil && input.Call.Args[0] == argParam && len(scan.Call.Args) > 0 {
			// the scanner is a method of a cursor wrapper built in place over the fresh input: scanner{parse.NewInputBytes(arg)}
			ok = wrapsFreshInput(scan.Call.Args[0], input)
		}
		r.Check(ok, "css."+tc.fn+" runs the lexer's own "+tc.scanner+" on a fresh lexer over the argument", fn.Pos(), "", "the helper no longer delegates to one of the scanner methods that Lexer.Next itself uses, on NewLexer(NewInputBytes(arg)): agreement with the lexer is no longer by construction")
		// result: Pos() == len(b)
		ret := singleReturn(body)
		good := false
		if ret != nil {
			if bo, isBo := ret.Results[0].(*ssa.BinOp); isBo && bo.Op == token.EQL {
				x, y := linOf(bo.X), linOf(bo.Y)
				lenb := linAtom("len(" + argParam.Name() + ")")
				isPos := func(l Lin) bool {
					for a, cf := range l.T {
						if strings.HasSuffix(a, ".Pos()") && cf == 1 && len(l.T) == 1 && l.C == 0 {
							return true
						}
					}
					return false
				}
				good = (isPos(x) && y.equal(lenb)) || (isPos(y) && x.equal(lenb))
			}
		}
		r.Check(good, "css."+tc.fn+" is true iff the scan ends at len(arg)", fn.Pos(), "", "result is not `<cursor>.Pos() == len(arg)`")
	}
}

// wrapsFreshInput: recv is a struct value (or pointer to a local struct) one of whose fields was set to `input` and
// that is used for nothing else before the call.
func wrapsFreshInput(recv ssa.Value, input *ssa.Call) bool {
	var al *ssa.Alloc
	switch x := recv.(type) {
	case *ssa.Alloc:
		al = x
	case *ssa.UnOp:
		if x.Op == token.MUL {
			al, _ = x.X.(*ssa.Alloc)
		}
	}
	if al == nil || al.Referrers() == nil {
		return false
	}
	if _, isSt := derefType(al.Type()).Underlying().(*types.Struct); !isSt {
		return false
	}
	holds := false
	for _, ref := range *al.Referrers() {
		if fa, ok := ref.(*ssa.FieldAddr); ok && fa.Referrers() != nil {
			for _, r2 := range *fa.Referrers() {
				if st, isSt := r2.(*ssa.Store); isSt && st.Addr == ssa.Value(fa) && st.Val == ssa.Value(input) {
					holds = true
				}
			}
		}
	}
	return holds
}
