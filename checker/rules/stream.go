package rules

import (
	"fmt"
	"go/token"
	"sort"
	"strings"

	"golang.org/x/tools/go/ssa"

	"verif/checker/core"
)

func init() {
	register(&Rule{ID: "R-REBASE", Props: []string{"C13"}, Doc: "StreamLexer: when the buffer is replaced every buffer-coordinate field is re-based by the same offset", Run: runRebase})
	register(&Rule{ID: "R-STREAMERR", Props: []string{"C13"}, Doc: "StreamLexer.Err hides io.EOF exactly while pos < len(buf)", Run: runStreamErr})
}

func streamMethods(r *core.Run) []*ssa.Function {
	sp := r.Prog.SSAPkg("buffer")
	if sp == nil {
		return nil
	}
	t, ok := sp.Members["StreamLexer"].(*ssa.Type)
	if !ok {
		return nil
	}
	var out []*ssa.Function
	ms := r.Prog.SSA.MethodSets.MethodSet(typesPtr(t.Type()))
	for i := 0; i < ms.Len(); i++ {
		if fn := r.Prog.SSA.MethodValue(ms.At(i)); fn != nil && fn.Synthetic == "" && len(fn.Blocks) > 0 {
			out = append(out, fn)
		}
	}
	sort.Slice(out, func(i, j int) bool { return out[i].Name() < out[j].Name() })
	return out
}

func runRebase(r *core.Run) {
	fns := streamMethods(r)
	if len(fns) == 0 {
		r.BrokenAnchor("buffer.StreamLexer methods")
		return
	}
	// 1. infer the fields living in the coordinate system of the buffer (the []byte field)
	bufField := "buf"
	if sr, _ := discoverStreamRoles(r); sr != nil && sr.buf != "" {
		bufField = sr.buf
	}
	coord := map[string]bool{}
	fieldOf := func(atom, z string) (string, bool) {
		if strings.HasPrefix(atom, z+".") && !strings.Contains(atom[len(z)+1:], ".") && !strings.Contains(atom, "(") {
			return atom[len(z)+1:], true
		}
		return "", false
	}
	for _, fn := range fns {
		z := fn.Params[0].Name()
		addAtoms := func(v ssa.Value) {
			if v == nil {
				return
			}
			for a := range linOf(v).T {
				if f, ok := fieldOf(a, z); ok {
					coord[f] = true
				}
			}
		}
		for _, b := range fn.Blocks {
			for _, in := range b.Instrs {
				switch x := in.(type) {
				case *ssa.Slice:
					if canon(x.X) == z+"."+bufField {
						addAtoms(x.Low)
						addAtoms(x.High)
						addAtoms(x.Max)
					}
				case *ssa.IndexAddr:
					if canon(x.X) == z+"."+bufField {
						addAtoms(x.Index)
					}
				}
			}
		}
	}
	for changed := true; changed; {
		changed = false
		for _, fn := range fns {
			z := fn.Params[0].Name()
			for _, st := range allStores(fn) {
				f, ok := fieldOf(canon(st.Addr), z)
				if !ok || coord[f] || !isIntType(st.Val.Type()) {
					continue
				}
				sum := int64(0)
				for a, c := range linOf(st.Val).T {
					if g, ok := fieldOf(a, z); ok && coord[g] {
						sum += c
					}
				}
				if sum != 0 {
					coord[f] = true
					changed = true
				}
			}
		}
	}
	var cf []string
	for f := range coord {
		cf = append(cf, f)
	}
	sort.Strings(cf)
	r.Note("buffer-coordinate fields of StreamLexer inferred from all methods: %v", cf)
	r.Floor("coordinate fields", len(cf), 3)
	// 2. functions that install a different backing array
	sites := 0
	for _, fn := range fns {
		z := fn.Params[0].Name()
		for _, st := range storesToField(fn, z+"."+bufField) {
			if sl, ok := st.Val.(*ssa.Slice); ok && canon(sl.X) == z+"."+bufField {
				continue // re-slice of the same array keeps the frame
			}
			sites++
			// offset of each coordinate field: old - new
			var ref *Lin
			var refField string
			for _, f := range cf {
				key := fmt.Sprintf("%s re-bases %s", fn.Name(), f)
				ss := storesToField(fn, z+"."+f)
				var delta Lin
				switch len(ss) {
				case 0:
					delta = linConst(0)
				case 1:
					delta = linAtom(z+"."+f).add(linOf(ss[0].Val), -1)
					if !loadsPrecedeStores(fn, ss[0], z, cf) {
						r.Fail(key+" uses old values", ss[0].Pos(), "the new value is computed from a coordinate field that was already overwritten")
						continue
					}
				default:
					r.Unknown(key, fn.Pos(), "field is assigned more than once in the function that replaces the buffer")
					continue
				}
				if ref == nil {
					d := delta
					ref, refField = &d, f
					if len(ss) > 0 {
						r.OK(key, ss[0].Pos(), "offset "+delta.String())
					}
					continue
				}
				if delta.equal(*ref) {
					r.OK(key, st.Pos(), "offset "+delta.String())
				} else {
					pos := st.Pos()
					if len(ss) > 0 {
						pos = ss[0].Pos()
					}
					r.Fail(key, pos, fmt.Sprintf("%s() installs a new buffer and shifts %s by `%s` but %s by `%s`: %s keeps pointing into the old buffer's coordinates (ShiftLen/positions become wrong after a refill)", fn.Name(), refField, ref.String(), f, delta.String(), f))
				}
			}
		}
	}
	r.Floor("buffer replacement sites", sites, 1)
}

// loadsPrecedeStores: every load of a coordinate field feeding st's value is
// executed before any store to that field.
func loadsPrecedeStores(fn *ssa.Function, st *ssa.Store, z string, cf []string) bool {
	ok := true
	var visit func(v ssa.Value, depth int)
	visit = func(v ssa.Value, depth int) {
		if depth > 12 {
			return
		}
		switch x := v.(type) {
		case *ssa.UnOp:
			if x.Op == token.MUL {
				name := canon(x.X)
				for _, f := range cf {
					if name == z+"."+f {
						for _, s2 := range storesToField(fn, name) {
							if s2 == st {
								continue
							}
							if s2.Block() == x.Block() && instrIndex(s2) < instrIndex(x) {
								ok = false
							}
							if s2.Block() != x.Block() && s2.Block().Dominates(x.Block()) {
								ok = false
							}
						}
					}
				}
				return
			}
			visit(x.X, depth+1)
		case *ssa.BinOp:
			visit(x.X, depth+1)
			visit(x.Y, depth+1)
		case *ssa.Convert:
			visit(x.X, depth+1)
		}
	}
	visit(st.Val, 0)
	return ok
}

func runStreamErr(r *core.Run) {
	fn := r.Prog.SSAFunc("buffer", "StreamLexer", "Err")
	sr, why := discoverStreamRoles(r)
	if fn == nil || sr == nil || sr.err == "" {
		r.BrokenAnchor("buffer.StreamLexer.Err / field roles " + why)
		return
	}
	z := fn.Params[0].Name()
	remaining := linAtom("len("+z+"."+sr.buf+")").add(linAtom(z+"."+sr.pos), -1) // len - pos
	isErrLoad := func(v ssa.Value) bool { return canon(v) == z+"."+sr.err }
	// the atoms known at a return: err == io.EOF / err != io.EOF
	eofKnown := func(b *ssa.BasicBlock, pred *ssa.BasicBlock) (isEOF, notEOF bool) {
		atoms := guardsAt(b)
		if pred != nil {
			atoms = append(append([]condAtom{}, guardsAt(pred)...), edgeAtoms(pred, b, 0)...)
		}
		for _, a := range atoms {
			if (isErrLoad(a.x) && isEOFValue(a.y)) || (isErrLoad(a.y) && isEOFValue(a.x)) {
				if a.op == token.EQL {
					isEOF = true
				}
				if a.op == token.NEQ {
					notEOF = true
				}
			}
		}
		return
	}
	nNil, nErr := 0, 0
	for _, b := range fn.Blocks {
		ret, ok := lastInstr(b).(*ssa.Return)
		if !ok {
			continue
		}
		if isNilConst(ret.Results[0]) {
			nNil++
			fs := blockFacts(b)
			isEOF, _ := eofKnown(b, nil)
			r.Check(entails(fs, remaining.add(linConst(1), -1)) && isEOF, "Err nil only while pos < len(buf) at EOF", ret.Pos(), "",
				fmt.Sprintf("nil is returned under %v: it must require both err == io.EOF and pos < len(buf) (otherwise EOF is hidden after the data is exhausted, or a real error is hidden)", factStrings(fs)))
			continue
		}
		if !isErrLoad(ret.Results[0]) {
			r.Unknown("Err result", ret.Pos(), "returns something other than nil or the stored error")
			continue
		}
		nErr++
		for _, p := range b.Preds {
			fs := edgeFacts(p, b)
			_, notEOF := eofKnown(b, p)
			r.Check(notEOF || entails(fs, remaining.scale(-1)), fmt.Sprintf("Err reports the stored error via block %d", p.Index), ret.Pos(), "",
				fmt.Sprintf("the stored error is returned under %v, which implies neither err != io.EOF nor pos >= len(buf): io.EOF would surface while unread bytes remain", factStrings(fs)))
		}
		if len(b.Preds) == 0 {
			r.Fail("Err reports the stored error unconditionally", ret.Pos(), "the stored error is returned without testing for io.EOF with unread bytes")
		}
	}
	r.Check(nNil >= 1 && nErr >= 1, "Err has a hiding and a reporting return", fn.Pos(), "", fmt.Sprintf("Err has %d returns of nil and %d returns of the stored error: it must be able to do both", nNil, nErr))
}

func runPoolReuse(r *core.Run) {
	fn := r.Prog.SSAFunc("buffer", "bufferPool", "swap")
	if fn == nil {
		r.BrokenAnchor("buffer.bufferPool.swap")
		return
	}
	z := fn.Params[0].Name()
	old, size := fn.Params[1], fn.Params[2]
	n := 0
	for _, b := range fn.Blocks {
		ret, ok := lastInstr(b).(*ssa.Return)
		if !ok || len(ret.Results) != 1 {
			continue
		}
		sl, ok := ret.Results[0].(*ssa.Slice)
		if !ok {
			continue
		}
		if sl.X == old {
			n++
			fs := blockFacts(b)
			freed := entails(fs, linAtom(z+".pos").add(linAtom("len("+old.Name()+")"), -1))
			fits := entails(fs, linAtom("cap("+old.Name()+")").add(linAtom(size.Name()), -1))
			_, tailZero := pinned(fs, z+".tail")
			tz, _ := pinned(fs, z+".tail")
			r.Check(freed && fits && tailZero && tz == 0, "swap reuses the current buffer only when fully freed", ret.Pos(), "",
				fmt.Sprintf("the current buffer is handed back for reuse under %v; this needs tail == 0, pos >= len(oldBuf) (every byte of it was freed) and size <= cap(oldBuf), otherwise unfreed tokens are overwritten by the next refill", factStrings(fs)))
		}
	}
	r.Check(n == 1, "swap has one current-buffer reuse return", fn.Pos(), "", fmt.Sprintf("found %d", n))
	// pool reuse: the index chosen for reuse is guarded by !active && size <= cap
	found := false
	for _, b := range fn.Blocks {
		iff, ok := lastInstr(b).(*ssa.If)
		if !ok {
			continue
		}
		// the block testing `size <= cap(pool[i].buf)` must be reached only via !active
		bo, ok := iff.Cond.(*ssa.BinOp)
		if !ok || bo.Op != token.LEQ || bo.X != ssa.Value(size) {
			continue
		}
		if !strings.HasPrefix(linOf(bo.Y).String(), "cap(") {
			continue
		}
		// predecessor: If on `active` field, false edge
		for _, p := range b.Preds {
			if pif, ok := lastInstr(p).(*ssa.If); ok {
				c := pif.Cond
				neg := false
				if u, ok := c.(*ssa.UnOp); ok && u.Op == token.NOT {
					c, neg = u.X, true
				}
				if strings.HasSuffix(canon(c), ".active") {
					if (neg && p.Succs[0] == b) || (!neg && p.Succs[1] == b) {
						found = len(b.Preds) == 1
					}
				}
			}
		}
	}
	r.Check(found, "swap reuses a pooled buffer only when inactive and large enough", fn.Pos(), "", "no `!pool[i].active && size <= cap(pool[i].buf)` guard found before a pooled buffer is chosen")
	// free(): a block is deactivated only after pos passed its length
	ff := r.Prog.SSAFunc("buffer", "bufferPool", "free")
	if ff == nil {
		r.BrokenAnchor("buffer.bufferPool.free")
		return
	}
	fz := ff.Params[0].Name()
	okFree := false
	for _, st := range allStores(ff) {
		if strings.HasSuffix(canon(st.Addr), ".active") {
			fs := blockFacts(st.Block())
			for _, f := range fs {
				if !f.NE && f.L.T[fz+".pos"] == 1 && len(f.L.T) == 2 {
					for a, c := range f.L.T {
						if strings.HasPrefix(a, "len(") && c == -1 && f.L.C == 0 {
							okFree = true
						}
					}
				}
			}
		}
	}
	r.Check(okFree, "free deactivates a block only when pos >= len(block)", ff.Pos(), "", "a pooled block is marked inactive without the guard pos >= len(block.buf): tokens in it could be overwritten before being freed")
}
