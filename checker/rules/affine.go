package rules

import (
	"fmt"
	"go/constant"
	"go/token"
	"go/types"
	"sort"
	"strings"

	"golang.org/x/tools/go/ssa"
)

// Lin is an affine form  C + sum(coeff * atom)  over symbolic atoms. Atoms
// are canonical strings for field loads (`r.pos`), lengths (`len(r.data)`),
// nullary method calls (`r.f.Len()`), parameters and opaque SSA values.
// Integer conversions are treated as identity (no overflow modelling).
type Lin struct {
	C int64
	T map[string]int64
}

func linConst(c int64) Lin { return Lin{C: c, T: map[string]int64{}} }
func linAtom(a string) Lin { return Lin{T: map[string]int64{a: 1}} }

func (a Lin) add(b Lin, sign int64) Lin {
	out := Lin{C: a.C + sign*b.C, T: map[string]int64{}}
	for k, v := range a.T {
		out.T[k] = v
	}
	for k, v := range b.T {
		out.T[k] += sign * v
		if out.T[k] == 0 {
			delete(out.T, k)
		}
	}
	return out
}

func (a Lin) scale(k int64) Lin {
	out := Lin{C: a.C * k, T: map[string]int64{}}
	if k == 0 {
		return out
	}
	for n, v := range a.T {
		out.T[n] = v * k
	}
	return out
}

func (a Lin) isConst() bool { return len(a.T) == 0 }

func (a Lin) equal(b Lin) bool {
	d := a.add(b, -1)
	return d.isConst() && d.C == 0
}

func (a Lin) String() string {
	var ks []string
	for k := range a.T {
		ks = append(ks, k)
	}
	sort.Strings(ks)
	var sb strings.Builder
	for i, k := range ks {
		c := a.T[k]
		switch {
		case c == 1 && i == 0:
			sb.WriteString(k)
		case c == 1:
			sb.WriteString(" + " + k)
		case c == -1:
			sb.WriteString(" - " + k)
		default:
			fmt.Fprintf(&sb, " %+d*%s", c, k)
		}
	}
	if a.C != 0 || len(ks) == 0 {
		fmt.Fprintf(&sb, " %+d", a.C)
	}
	return strings.TrimSpace(sb.String())
}

// canon renders a canonical name for an address-like or object-like value.
func canon(v ssa.Value) string {
	switch x := v.(type) {
	case *ssa.Parameter:
		return x.Name()
	case *ssa.FieldAddr:
		return canon(x.X) + "." + fieldName(x.X.Type(), x.Field)
	case *ssa.Field:
		return canon(x.X) + "." + fieldName(x.X.Type(), x.Field)
	case *ssa.UnOp:
		if x.Op == token.MUL {
			return canon(x.X)
		}
	case *ssa.Global:
		return x.Pkg.Pkg.Name() + "." + x.Name()
	case *ssa.Convert:
		return canon(x.X)
	case *ssa.ChangeType:
		return canon(x.X)
	case *ssa.FreeVar:
		return x.Name()
	case *ssa.Alloc:
		if x.Comment != "" {
			return "&" + x.Comment
		}
	}
	return "%" + v.Name()
}

func fieldName(t types.Type, i int) string {
	if p, ok := t.Underlying().(*types.Pointer); ok {
		t = p.Elem()
	}
	if s, ok := t.Underlying().(*types.Struct); ok && i < s.NumFields() {
		return s.Field(i).Name()
	}
	return fmt.Sprintf("f%d", i)
}

// linOf computes the affine form of an integer SSA value.
func linOf(v ssa.Value) Lin {
	switch x := v.(type) {
	case *ssa.Const:
		if x.Value != nil && x.Value.Kind() == constant.Int {
			if c, ok := constant.Int64Val(x.Value); ok {
				return linConst(c)
			}
		}
	case *ssa.Convert:
		if isIntType(x.X.Type()) && isIntType(x.Type()) {
			return linOf(x.X)
		}
	case *ssa.ChangeType:
		return linOf(x.X)
	case *ssa.BinOp:
		switch x.Op {
		case token.ADD:
			return linOf(x.X).add(linOf(x.Y), 1)
		case token.SUB:
			return linOf(x.X).add(linOf(x.Y), -1)
		case token.MUL:
			a, b := linOf(x.X), linOf(x.Y)
			if a.isConst() {
				return b.scale(a.C)
			}
			if b.isConst() {
				return a.scale(b.C)
			}
		case token.SHL:
			if b := linOf(x.Y); b.isConst() && b.C >= 0 && b.C < 62 {
				return linOf(x.X).scale(1 << uint(b.C))
			}
		}
	case *ssa.UnOp:
		switch x.Op {
		case token.SUB:
			return linOf(x.X).scale(-1)
		case token.MUL: // load
			return linAtom(canon(x.X))
		}
	case *ssa.Parameter:
		return linAtom(x.Name())
	case *ssa.Call:
		if b, ok := x.Call.Value.(*ssa.Builtin); ok && (b.Name() == "len" || b.Name() == "cap") && len(x.Call.Args) == 1 {
			return linAtom(b.Name() + "(" + canon(x.Call.Args[0]) + ")")
		}
		if x.Call.IsInvoke() && len(x.Call.Args) == 0 {
			return linAtom(canon(x.Call.Value) + "." + x.Call.Method.Name() + "()")
		}
		if f := x.Call.StaticCallee(); f != nil && f.Signature.Recv() != nil && len(x.Call.Args) == 1 {
			return linAtom(canon(x.Call.Args[0]) + "." + f.Name() + "()")
		}
	}
	return linAtom("%" + v.Name())
}

func isIntType(t types.Type) bool {
	b, ok := t.Underlying().(*types.Basic)
	return ok && b.Info()&types.IsInteger != 0
}

// Fact is  L >= 0  (or L != 0 when NE).
type Fact struct {
	L  Lin
	NE bool
}

func (f Fact) String() string {
	if f.NE {
		return f.L.String() + " != 0"
	}
	return f.L.String() + " >= 0"
}

// factsOfCond turns a comparison (taken with the given truth) into facts.
func factsOfCond(cond ssa.Value, truth bool) []Fact {
	bo, ok := cond.(*ssa.BinOp)
	if !ok {
		if u, ok := cond.(*ssa.UnOp); ok && u.Op == token.NOT {
			return factsOfCond(u.X, !truth)
		}
		return nil
	}
	if !isIntType(bo.X.Type()) {
		return nil
	}
	a, b := linOf(bo.X), linOf(bo.Y)
	op := bo.Op
	if !truth {
		op = map[token.Token]token.Token{token.LSS: token.GEQ, token.LEQ: token.GTR, token.GTR: token.LEQ, token.GEQ: token.LSS, token.EQL: token.NEQ, token.NEQ: token.EQL}[op]
	}
	switch op {
	case token.LSS: // a < b  ->  b - a - 1 >= 0
		return []Fact{{L: b.add(a, -1).add(linConst(1), -1)}}
	case token.LEQ:
		return []Fact{{L: b.add(a, -1)}}
	case token.GTR:
		return []Fact{{L: a.add(b, -1).add(linConst(1), -1)}}
	case token.GEQ:
		return []Fact{{L: a.add(b, -1)}}
	case token.EQL:
		return []Fact{{L: a.add(b, -1)}, {L: b.add(a, -1)}}
	case token.NEQ:
		return []Fact{{L: a.add(b, -1), NE: true}}
	}
	return nil
}

// blockFacts returns the branch facts that hold on entry to block b: for every
// dominator p of b that ends in an If whose successor s has p as its only
// predecessor and dominates b, the condition with the corresponding truth.
func blockFacts(b *ssa.BasicBlock) []Fact {
	var out []Fact
	for p := b.Idom(); p != nil; p = p.Idom() {
		iff, ok := p.Instrs[len(p.Instrs)-1].(*ssa.If)
		if !ok || p.Succs[0] == p.Succs[1] {
			continue
		}
		for i, s := range p.Succs {
			if len(s.Preds) == 1 && s.Dominates(b) {
				out = append(out, factsOfCond(iff.Cond, i == 0)...)
			}
		}
	}
	return strengthen(out)
}

// edgeFacts are the facts holding when control goes from pred to succ.
func edgeFacts(pred, succ *ssa.BasicBlock) []Fact {
	out := blockFacts(pred)
	if iff, ok := pred.Instrs[len(pred.Instrs)-1].(*ssa.If); ok && pred.Succs[0] != pred.Succs[1] {
		for i, s := range pred.Succs {
			if s == succ {
				out = append(out, factsOfCond(iff.Cond, i == 0)...)
			}
		}
	}
	return strengthen(out)
}

// strengthen adds X-1>=0 when both X>=0 and X!=0 (or -X != 0) are known.
func strengthen(fs []Fact) []Fact {
	out := append([]Fact{}, fs...)
	for _, ne := range fs {
		if !ne.NE {
			continue
		}
		for _, ge := range fs {
			if ge.NE {
				continue
			}
			if ge.L.equal(ne.L) || ge.L.equal(ne.L.scale(-1)) {
				out = append(out, Fact{L: ge.L.add(linConst(1), -1)})
			}
		}
	}
	return out
}

// entails reports whether goal >= 0 follows from the facts by adding at most
// two of them and a non-negative constant.
func entails(fs []Fact, goal Lin) bool {
	if goal.isConst() {
		return goal.C >= 0
	}
	var ge []Lin
	for _, f := range fs {
		if !f.NE {
			ge = append(ge, f.L)
		}
	}
	for _, a := range ge {
		d := goal.add(a, -1)
		if d.isConst() && d.C >= 0 {
			return true
		}
	}
	for i, a := range ge {
		for _, b := range ge[i:] {
			d := goal.add(a, -1).add(b, -1)
			if d.isConst() && d.C >= 0 {
				return true
			}
		}
	}
	return false
}

func factStrings(fs []Fact) []string {
	var out []string
	for _, f := range fs {
		out = append(out, f.String())
	}
	return out
}

// lastInstr returns the terminating instruction of b.
func lastInstr(b *ssa.BasicBlock) ssa.Instruction { return b.Instrs[len(b.Instrs)-1] }

// storesTo lists the stores in fn whose address is field `name` of value recv.
func storesToField(fn *ssa.Function, fieldCanon string) []*ssa.Store {
	var out []*ssa.Store
	for _, b := range fn.Blocks {
		for _, in := range b.Instrs {
			if st, ok := in.(*ssa.Store); ok {
				if canon(st.Addr) == fieldCanon {
					out = append(out, st)
				}
			}
		}
	}
	return out
}

func typesPtr(t types.Type) types.Type { return types.NewPointer(t) }
