package rules

import (
	"fmt"
	"go/constant"
	"go/token"
	"go/types"
	"os"
	"sort"
	"strings"
	"verif/checker/core"

	"golang.org/x/tools/go/ssa"
)

// Lin is an affine form  C + sum(coeff * atom)  over symbolic atoms. Atoms
// are canonical strings for field loads (`r.pos`), lengths (`len(r.data)`),
// nullary method calls (`r.f.Len()`), parameters and opaque SSA values.
// Integer conversions are treated as identity (no overflow modelling).
type Lin struct {
	C int64
	T map[string]int64
}

func linConst(c int64) Lin { return Lin{C: c, T: map[string]int64{}} }
func linAtom(a string) Lin { return Lin{T: map[string]int64{a: 1}} }

func (a Lin) add(b Lin, sign int64) Lin {
	out := Lin{C: a.C + sign*b.C, T: map[string]int64{}}
	for k, v := range a.T {
		out.T[k] = v
	}
	for k, v := range b.T {
		out.T[k] += sign * v
		if out.T[k] == 0 {
			delete(out.T, k)
		}
	}
	return out
}

func (a Lin) scale(k int64) Lin {
	out := Lin{C: a.C * k, T: map[string]int64{}}
	if k == 0 {
		return out
	}
	for n, v := range a.T {
		out.T[n] = v * k
	}
	return out
}

func (a Lin) isConst() bool { return len(a.T) == 0 }

func (a Lin) equal(b Lin) bool {
	d := a.add(b, -1)
	return d.isConst() && d.C == 0
}

func (a Lin) String() string {
	var ks []string
	for k := range a.T {
		ks = append(ks, k)
	}
	sort.Strings(ks)
	var sb strings.Builder
	for i, k := range ks {
		c := a.T[k]
		switch {
		case c == 1 && i == 0:
			sb.WriteString(k)
		case c == 1:
			sb.WriteString(" + " + k)
		case c == -1:
			sb.WriteString(" - " + k)
		default:
			fmt.Fprintf(&sb, " %+d*%s", c, k)
		}
	}
	if a.C != 0 || len(ks) == 0 {
		fmt.Fprintf(&sb, " %+d", a.C)
	}
	return strings.TrimSpace(sb.String())
}

// canon renders a canonical name for an address-like or object-like value.
func canon(v ssa.Value) string {
	switch x := v.(type) {
	case *ssa.Parameter:
		return x.Name()
	case *ssa.FieldAddr:
		return canon(x.X) + "." + fieldName(x.X.Type(), x.Field)
	case *ssa.Field:
		return canon(x.X) + "." + fieldName(x.X.Type(), x.Field)
	case *ssa.UnOp:
		if x.Op == token.MUL {
			return canon(x.X)
		}
	case *ssa.Global:
		return x.Pkg.Pkg.Name() + "." + x.Name()
	case *ssa.Convert:
		return canon(x.X)
	case *ssa.ChangeType:
		return canon(x.X)
	case *ssa.FreeVar:
		return x.Name()
	case *ssa.Alloc:
		if x.Comment != "" {
			return "&" + x.Comment
		}
	}
	return "%" + v.Name()
}

func fieldName(t types.Type, i int) string {
	if p, ok := t.Underlying().(*types.Pointer); ok {
		t = p.Elem()
	}
	if s, ok := t.Underlying().(*types.Struct); ok && i < s.NumFields() {
		return s.Field(i).Name()
	}
	return fmt.Sprintf("f%d", i)
}

// linOf computes the affine form of an integer SSA value.
func linOf(v ssa.Value) Lin {
	switch x := v.(type) {
	case *ssa.Const:
		if x.Value != nil && x.Value.Kind() == constant.Int {
			if c, ok := constant.Int64Val(x.Value); ok {
				return linConst(c)
			}
		}
	case *ssa.Convert:
		if isIntType(x.X.Type()) && isIntType(x.Type()) {
			return linOf(x.X)
		}
	case *ssa.ChangeType:
		return linOf(x.X)
	case *ssa.BinOp:
		switch x.Op {
		case token.ADD:
			return linOf(x.X).add(linOf(x.Y), 1)
		case token.SUB:
			return linOf(x.X).add(linOf(x.Y), -1)
		case token.MUL:
			a, b := linOf(x.X), linOf(x.Y)
			if a.isConst() {
				return b.scale(a.C)
			}
			if b.isConst() {
				return a.scale(b.C)
			}
		case token.SHL:
			if b := linOf(x.Y); b.isConst() && b.C >= 0 && b.C < 62 {
				return linOf(x.X).scale(1 << uint(b.C))
			}
		}
	case *ssa.UnOp:
		switch x.Op {
		case token.SUB:
			return linOf(x.X).scale(-1)
		case token.MUL: // load
			return linAtom(canon(x.X))
		}
	case *ssa.Parameter:
		return linAtom(x.Name())
	case *ssa.Call:
		if b, ok := x.Call.Value.(*ssa.Builtin); ok && (b.Name() == "len" || b.Name() == "cap") && len(x.Call.Args) == 1 {
			return linAtom(b.Name() + "(" + canon(x.Call.Args[0]) + ")")
		}
		if x.Call.IsInvoke() && len(x.Call.Args) == 0 {
			return linAtom(canon(x.Call.Value) + "." + x.Call.Method.Name() + "()")
		}
		if l, ok := inlineCallLin(x, 0); ok {
			return l
		}
		if f := x.Call.StaticCallee(); f != nil && f.Signature.Recv() != nil && len(x.Call.Args) == 1 {
			return linAtom(canon(x.Call.Args[0]) + "." + f.Name() + "()")
		}
	}
	return linAtom("%" + v.Name())
}

var inlineDepth int

// affineInlineExported: also expand exported one-line accessors (set by R-INPUT / R-PEEKRUNE for their own run).
var affineInlineExported bool

// inlineCallLin: the affine form of a call to a small module function whose single result is an affine
// expression of its parameters and of fields reached from them (z.Len(), z.remaining(pos), …), expressed in
// the caller's terms. Functions that store, branch or call anything but len/cap are not inlined.
func inlineCallLin(c *ssa.Call, depth int) (Lin, bool) {
	f := c.Call.StaticCallee()
	if os.Getenv("PCHECK_INLDEBUG") != "" && f != nil {
		fmt.Fprintf(os.Stderr, "INLINE? %s blocks=%d depth=%d\n", f.Name(), len(f.Blocks), inlineDepth)
	}
	if f == nil || c.Call.IsInvoke() || len(f.Blocks) != 1 || fnPkg(f) == nil || !core.InModule(fnPkg(f)) || inlineDepth > 3 {
		return Lin{}, false
	}
	// exported accessors (Offset(), Pos(), Len()) are the stable vocabulary other rules speak in; they are expanded
	// only while the cursor types themselves are being checked
	if f.Object() != nil && f.Object().Exported() && !affineInlineExported {
		return Lin{}, false
	}
	ret, ok := lastInstr(f.Blocks[0]).(*ssa.Return)
	if !ok || len(ret.Results) != 1 || !isIntType(ret.Results[0].Type()) {
		return Lin{}, false
	}
	for _, in := range f.Blocks[0].Instrs {
		switch x := in.(type) {
		case *ssa.Store, *ssa.MapUpdate, *ssa.Send, *ssa.Go, *ssa.Defer:
			return Lin{}, false
		case *ssa.Call:
			if b, isB := x.Call.Value.(*ssa.Builtin); isB && (b.Name() == "len" || b.Name() == "cap") {
				continue
			}
			inlineDepth++
			_, ok := inlineCallLin(x, depth+1)
			inlineDepth--
			if !ok {
				return Lin{}, false
			}
		}
	}
	inlineDepth++
	l := linOf(ret.Results[0])
	inlineDepth--
	out, ok := substParams(l, f, c.Call.Args)
	if os.Getenv("PCHECK_INLDEBUG") != "" {
		fmt.Fprintf(os.Stderr, "INLINED %s: %s -> %s ok=%v\n", f.Name(), l, out, ok)
	}
	return out, ok
}

// substParams rewrites a Lin over the callee's parameter names into the caller's terms.
func substParams(l Lin, f *ssa.Function, args []ssa.Value) (Lin, bool) {
	out := linConst(l.C)
	for atom, cf := range l.T {
		if strings.Contains(atom, "%") {
			return Lin{}, false // refers to a callee-local temporary
		}
		replaced := false
		for i, p := range f.Params {
			if i >= len(args) {
				break
			}
			if atom == p.Name() {
				out = out.add(linOf(args[i]), cf)
				replaced = true
				break
			}
		}
		if replaced {
			continue
		}
		na := atom
		for i, p := range f.Params {
			if i >= len(args) {
				break
			}
			na = replaceWord(na, p.Name(), canon(args[i]))
		}
		if strings.Contains(na, "%") {
			return Lin{}, false
		}
		out = out.add(linAtom(na), cf)
	}
	return out, true
}

// replaceWord replaces whole-identifier occurrences of old in s.
func replaceWord(s, old, new string) string {
	if old == "" || old == new {
		return s
	}
	var sb strings.Builder
	isId := func(c byte) bool {
		return c == '_' || c >= '0' && c <= '9' || c >= 'a' && c <= 'z' || c >= 'A' && c <= 'Z'
	}
	for i := 0; i < len(s); {
		if strings.HasPrefix(s[i:], old) && (i == 0 || !isId(s[i-1]) && s[i-1] != '.') && (i+len(old) == len(s) || !isId(s[i+len(old)])) {
			sb.WriteString(new)
			i += len(old)
			continue
		}
		sb.WriteByte(s[i])
		i++
	}
	return sb.String()
}

// callResultFacts: facts about the arguments of a call that hold whenever the call returned the constant k
// (every return of k in the callee is dominated by them), in the caller's terms.
func callResultFacts(c *ssa.Call, k int64) []Fact { return callResultFactsAt(c, 0, k) }

// callOfValue: v is the (ri-th) result of a call.
func callOfValue(v ssa.Value) (*ssa.Call, int, bool) {
	switch x := stripIntConv(v).(type) {
	case *ssa.Call:
		if x.Call.Signature().Results().Len() == 1 {
			return x, 0, true
		}
	case *ssa.Extract:
		if c, ok := x.Tuple.(*ssa.Call); ok {
			return c, x.Index, true
		}
	}
	return nil, 0, false
}

// callResultFactsAt: the same for result ri of a multi-result function.
func callResultFactsAt(c *ssa.Call, ri int, k int64) []Fact {
	f := c.Call.StaticCallee()
	if f == nil || c.Call.IsInvoke() || len(f.Blocks) == 0 || fnPkg(f) == nil || !core.InModule(fnPkg(f)) || inlineDepth > 2 {
		return nil
	}
	var sets [][]Fact
	for _, b := range f.Blocks {
		ret, ok := lastInstr(b).(*ssa.Return)
		if !ok || ri >= len(ret.Results) {
			continue
		}
		kc, isC := ret.Results[ri].(*ssa.Const)
		if !isC || kc.Value == nil || kc.Value.Kind() != constant.Int {
			return nil // a computed result: nothing can be said per value
		}
		if kc.Int64() != k {
			continue
		}
		inlineDepth++
		sets = append(sets, blockFacts(b))
		inlineDepth--
	}
	if len(sets) == 0 {
		return nil
	}
	var out []Fact
	for _, ft := range sets[0] {
		if ft.NE {
			continue
		}
		common := true
		for _, other := range sets[1:] {
			if !entails(other, ft.L) {
				common = false
			}
		}
		if !common {
			continue
		}
		if l, ok := substParams(ft.L, f, c.Call.Args); ok {
			out = append(out, Fact{L: l})
		}
	}
	return out
}

func stripIntConv(v ssa.Value) ssa.Value {
	for {
		switch x := v.(type) {
		case *ssa.Convert:
			if isIntType(x.X.Type()) && isIntType(x.Type()) {
				v = x.X
				continue
			}
		case *ssa.ChangeType:
			v = x.X
			continue
		}
		return v
	}
}

func isIntType(t types.Type) bool {
	b, ok := t.Underlying().(*types.Basic)
	return ok && b.Info()&types.IsInteger != 0
}

// Fact is  L >= 0  (or L != 0 when NE).
type Fact struct {
	L  Lin
	NE bool
}

func (f Fact) String() string {
	if f.NE {
		return f.L.String() + " != 0"
	}
	return f.L.String() + " >= 0"
}

// factsOfCond turns a comparison (taken with the given truth) into facts.
func factsOfCond(cond ssa.Value, truth bool) []Fact {
	bo, ok := cond.(*ssa.BinOp)
	if !ok {
		if u, ok := cond.(*ssa.UnOp); ok && u.Op == token.NOT {
			return factsOfCond(u.X, !truth)
		}
		return nil
	}
	if !isIntType(bo.X.Type()) {
		return nil
	}
	a, b := linOf(bo.X), linOf(bo.Y)
	op := bo.Op
	if !truth {
		op = map[token.Token]token.Token{token.LSS: token.GEQ, token.LEQ: token.GTR, token.GTR: token.LEQ, token.GEQ: token.LSS, token.EQL: token.NEQ, token.NEQ: token.EQL}[op]
	}
	switch op {
	case token.LSS: // a < b  ->  b - a - 1 >= 0
		return []Fact{{L: b.add(a, -1).add(linConst(1), -1)}}
	case token.LEQ:
		return []Fact{{L: b.add(a, -1)}}
	case token.GTR:
		return []Fact{{L: a.add(b, -1).add(linConst(1), -1)}}
	case token.GEQ:
		return []Fact{{L: a.add(b, -1)}}
	case token.EQL:
		return []Fact{{L: a.add(b, -1)}, {L: b.add(a, -1)}}
	case token.NEQ:
		return []Fact{{L: a.add(b, -1), NE: true}}
	}
	return nil
}

// factsOfAtom turns one atomic comparison that holds into facts (including what a constant result of a
// module function implies about its arguments).
func factsOfAtom(a condAtom) []Fact {
	if a.call != nil {
		return boolCallFacts(a.call, a.truth)
	}
	if a.x == nil || a.y == nil || !isIntType(a.x.Type()) {
		return nil
	}
	x, y := linOf(a.x), linOf(a.y)
	var out []Fact
	switch a.op {
	case token.LSS:
		out = []Fact{{L: y.add(x, -1).add(linConst(1), -1)}}
	case token.LEQ:
		out = []Fact{{L: y.add(x, -1)}}
	case token.GTR:
		out = []Fact{{L: x.add(y, -1).add(linConst(1), -1)}}
	case token.GEQ:
		out = []Fact{{L: x.add(y, -1)}}
	case token.EQL:
		out = []Fact{{L: x.add(y, -1)}, {L: y.add(x, -1)}}
		for _, pr := range [][2]ssa.Value{{a.x, a.y}, {a.y, a.x}} {
			if c, ri, ok := callOfValue(pr[0]); ok {
				if k, isK := pr[1].(*ssa.Const); isK && k.Value != nil && k.Value.Kind() == constant.Int {
					out = append(out, callResultFactsAt(c, ri, k.Int64())...)
				}
			}
		}
	case token.NEQ:
		out = []Fact{{L: x.add(y, -1), NE: true}}
	}
	return out
}

// blockFacts returns the branch facts that hold whenever block b executes (see guardsAt).
func blockFacts(b *ssa.BasicBlock) []Fact {
	var out []Fact
	atoms := guardsAt(b)
	for _, a := range atoms {
		out = append(out, factsOfAtom(a)...)
	}
	out = append(out, excludedResultFacts(atoms)...)
	return strengthen(out)
}

// excludedResultFacts: a call of a helper that returns only constants, compared unequal to all of them but
// one (the default arm of a switch on its result), returned that one.
func excludedResultFacts(atoms []condAtom) []Fact {
	type key struct {
		c  *ssa.Call
		ri int
	}
	excl := map[key]map[int64]bool{}
	for _, a := range atoms {
		if a.op != token.NEQ {
			continue
		}
		for _, pr := range [][2]ssa.Value{{a.x, a.y}, {a.y, a.x}} {
			if pr[0] == nil || pr[1] == nil {
				continue
			}
			c, ri, ok := callOfValue(pr[0])
			k, isK := pr[1].(*ssa.Const)
			if ok && isK && k.Value != nil && k.Value.Kind() == constant.Int {
				kk := key{c, ri}
				if excl[kk] == nil {
					excl[kk] = map[int64]bool{}
				}
				excl[kk][k.Int64()] = true
			}
		}
	}
	var out []Fact
	for kk, ex := range excl {
		ks, ok := constResultsAt(kk.c, kk.ri)
		if !ok {
			continue
		}
		var left []int64
		for _, k := range ks {
			if !ex[k] {
				left = append(left, k)
			}
		}
		if len(left) == 1 {
			out = append(out, callResultFactsAt(kk.c, kk.ri, left[0])...)
		}
	}
	return out
}

// edgeFacts are the facts holding when control goes from pred to succ.
func edgeFacts(pred, succ *ssa.BasicBlock) []Fact {
	out := blockFacts(pred)
	for _, a := range edgeAtoms(pred, succ, 0) {
		out = append(out, factsOfAtom(a)...)
	}
	return strengthen(out)
}

// strengthen adds X-1>=0 when both X>=0 and X!=0 (or -X != 0) are known.
func strengthen(fs []Fact) []Fact {
	out := append([]Fact{}, fs...)
	for _, ne := range fs {
		if !ne.NE {
			continue
		}
		for _, ge := range fs {
			if ge.NE {
				continue
			}
			if ge.L.equal(ne.L) || ge.L.equal(ne.L.scale(-1)) {
				out = append(out, Fact{L: ge.L.add(linConst(1), -1)})
			}
		}
		// a length is never negative: len(x) != 0 is len(x) >= 1
		if ne.L.C == 0 && len(ne.L.T) == 1 {
			for atom, c := range ne.L.T {
				if strings.HasPrefix(atom, "len(") && (c == 1 || c == -1) {
					l := ne.L
					if c == -1 {
						l = l.scale(-1)
					}
					out = append(out, Fact{L: l.add(linConst(1), -1)})
				}
			}
		}
	}
	return out
}

// entails reports whether goal >= 0 follows from the facts by adding at most
// two of them and a non-negative constant.
func entails(fs []Fact, goal Lin) bool {
	if goal.isConst() {
		return goal.C >= 0
	}
	var ge []Lin
	for _, f := range fs {
		if !f.NE {
			ge = append(ge, f.L)
		}
	}
	for _, a := range ge {
		d := goal.add(a, -1)
		if d.isConst() && d.C >= 0 {
			return true
		}
	}
	for i, a := range ge {
		for _, b := range ge[i:] {
			d := goal.add(a, -1).add(b, -1)
			if d.isConst() && d.C >= 0 {
				return true
			}
		}
	}
	return false
}

func factStrings(fs []Fact) []string {
	var out []string
	for _, f := range fs {
		out = append(out, f.String())
	}
	return out
}

// lastInstr returns the terminating instruction of b.
func lastInstr(b *ssa.BasicBlock) ssa.Instruction { return b.Instrs[len(b.Instrs)-1] }

// storesTo lists the stores in fn whose address is field `name` of value recv.
func storesToField(fn *ssa.Function, fieldCanon string) []*ssa.Store {
	var out []*ssa.Store
	for _, b := range fn.Blocks {
		for _, in := range b.Instrs {
			if st, ok := in.(*ssa.Store); ok {
				if canon(st.Addr) == fieldCanon {
					out = append(out, st)
				}
			}
		}
	}
	return out
}

func typesPtr(t types.Type) types.Type { return types.NewPointer(t) }

// boolCallFacts: facts about the arguments of a call to a module predicate (`z.atEnd(i)`, `l.hasRoom(n)`) that hold
// whenever it returned truth: what is common to all its returns that can produce that value, in the caller's terms.
func boolCallFacts(c *ssa.Call, truth bool) []Fact {
	f := c.Call.StaticCallee()
	if f == nil || c.Call.IsInvoke() || len(f.Blocks) == 0 || fnPkg(f) == nil || !core.InModule(fnPkg(f)) || inlineDepth > 2 {
		return nil
	}
	if f.Object() != nil && f.Object().Exported() && !affineInlineExported {
		return nil
	}
	var sets [][]Fact
	for _, b := range f.Blocks {
		ret, ok := lastInstr(b).(*ssa.Return)
		if !ok || len(ret.Results) != 1 {
			continue
		}
		inlineDepth++
		fs := blockFacts(b)
		if kc, isC := ret.Results[0].(*ssa.Const); isC {
			if kc.Value == nil || kc.Value.Kind() != constant.Bool || constant.BoolVal(kc.Value) != truth {
				inlineDepth--
				continue
			}
			fs = strengthen(fs)
		} else {
			for _, a := range condAtoms(ret.Results[0], truth, 0) {
				fs = append(fs, factsOfAtom(a)...)
			}
			fs = strengthen(fs)
		}
		inlineDepth--
		sets = append(sets, fs)
	}
	if len(sets) == 0 {
		return nil
	}
	var out []Fact
	for _, ft := range sets[0] {
		if ft.NE {
			continue
		}
		common := true
		for _, other := range sets[1:] {
			if !entails(other, ft.L) {
				common = false
			}
		}
		if !common {
			continue
		}
		if l, ok := substParams(ft.L, f, c.Call.Args); ok {
			out = append(out, Fact{L: l})
		}
	}
	return out
}
