package rules

// Partial evaluation of a parser function for one token. When the operator arms of parseExpressionSuffix are not
// written as one switch case per precedence level but driven by data — a look-up function returning (prec, left,
// right), a table of rows, a map — the AST reader of R-PREC finds no arm. The question the rule asks is about
// behaviour and can be put to the SSA instead: with the current token fixed to T and the two precedence parameters
// left symbolic, which comparison makes the function return without consuming, which makes it report an error, with
// which argument is the right operand parsed, and which precedence is carried into the next iteration? The answer is
// read off the paths of a small interpreter: constants are folded (also through pure helper functions, struct
// results, rows of package-level tables), a comparison of a symbolic parameter with a constant forks the path and is
// recorded, calls of parser methods are recorded as events. Nothing is run: it is constant propagation with path
// splitting over one function body, bounded by a step and path budget.

import (
	"go/constant"
	"go/token"
	"go/types"

	"golang.org/x/tools/go/ssa"

	"verif/checker/core"
)

type (
	pSym    string
	pUnk    struct{}
	pStruct struct{ f []interface{} }
	pTuple  struct{ e []interface{} }
	pCell   struct{ v interface{} }
	pFAddr  struct {
		c *pCell
		i int
	}
	pTerm struct { // an OR of bytes of one slice, each shifted: index -> shift
		data ssa.Value
		m    map[int64]int64
	}
	pArray struct{ e []interface{} } // a small local array
	pEAddr struct {                  // address of an element of a local array
		c *pCell
		i int
	}
	pShift struct { // sym >> k, truncated to a byte by the conversion that follows
		sym string
		k   int64
	}
	pSlice struct{ v ssa.Value } // a slice whose content is not known (the result of a call): its bytes are terms
	pCmp   struct {              // sym op k (a boolean that is not decided)
		sym string
		op  token.Token
		k   int64
	}
	peEvent struct {
		name string
		args []interface{}
		pos  token.Pos
	}
	peCond struct {
		sym string
		op  token.Token
		k   int64
	}
	pePath struct {
		conds   []peCond
		events  []peEvent
		outcome string // "return", "backedge", "limit", "end"
		ret     []interface{}
		phis    map[*ssa.Phi]interface{}
	}
	peval struct {
		r        *core.Run
		fn       *ssa.Function
		tok      int64
		paths    []pePath
		steps    int
		syms     map[*ssa.Parameter]string
		aborted  bool
		concrete bool // folding a pure helper: every branch must be decided
		loops    bool // follow loop back-edges (the counters are concrete): used to read byte compositions written as loops
		bytes    bool // slices returned by calls are kept as symbolic byte sources
	}
	peState struct {
		env     map[ssa.Value]interface{}
		conds   []peCond
		events  []peEvent
		ttValid bool
	}
)

func (s *peState) fork() *peState {
	c := &peState{env: make(map[ssa.Value]interface{}, len(s.env)), ttValid: s.ttValid}
	// local cells are reached through pointers: the fork gets its own copies
	cells := map[*pCell]*pCell{}
	cp := func(x *pCell) *pCell {
		if n, ok := cells[x]; ok {
			return n
		}
		n := &pCell{v: peCopy(x.v)}
		cells[x] = n
		return n
	}
	for k, v := range s.env {
		switch x := v.(type) {
		case *pCell:
			c.env[k] = cp(x)
		case pFAddr:
			c.env[k] = pFAddr{cp(x.c), x.i}
		case pEAddr:
			c.env[k] = pEAddr{cp(x.c), x.i}
		default:
			c.env[k] = v
		}
	}
	c.conds = append([]peCond{}, s.conds...)
	c.events = append([]peEvent{}, s.events...)
	return c
}

func peZero(t types.Type) interface{} {
	switch u := t.Underlying().(type) {
	case *types.Basic:
		switch {
		case u.Info()&types.IsBoolean != 0:
			return constant.MakeBool(false)
		case u.Info()&types.IsInteger != 0:
			return constant.MakeInt64(0)
		case u.Info()&types.IsString != 0:
			return constant.MakeString("")
		}
	case *types.Struct:
		s := &pStruct{f: make([]interface{}, u.NumFields())}
		for i := range s.f {
			s.f[i] = peZero(u.Field(i).Type())
		}
		return s
	case *types.Array:
		if u.Len() <= 16 {
			a := &pArray{e: make([]interface{}, u.Len())}
			for i := range a.e {
				a.e[i] = peZero(u.Elem())
			}
			return a
		}
	}
	return pUnk{}
}

func peOfLit(l *Lit, t types.Type) interface{} {
	if l == nil {
		return peZero(t)
	}
	if l.Const != nil && !l.IsBytes {
		return l.Const
	}
	if st, ok := t.Underlying().(*types.Struct); ok && l.Elems != nil {
		s := &pStruct{f: make([]interface{}, st.NumFields())}
		for i := range s.f {
			var el *Lit
			if i < len(l.Elems) {
				el = l.Elems[i]
			}
			s.f[i] = peOfLit(el, st.Field(i).Type())
		}
		return s
	}
	return pUnk{}
}

func negCmpOp(op token.Token) token.Token {
	n, _ := negOp(op)
	return n
}

// isTokenField: a load of the parser's current-token field (a field of the receiver of the token type).
func (p *peval) isTokenLoad(u *ssa.UnOp) bool {
	fa, ok := u.X.(*ssa.FieldAddr)
	if !ok || len(p.fn.Params) == 0 || fa.X != ssa.Value(p.fn.Params[0]) {
		return false
	}
	n, ok := u.Type().(*types.Named)
	return ok && n.Obj().Name() == "TokenType"
}

func (p *peval) get(st *peState, v ssa.Value) interface{} {
	switch x := v.(type) {
	case *ssa.Const:
		if x.Value == nil {
			return peZero(x.Type())
		}
		return x.Value
	case *ssa.Parameter:
		if s, ok := p.syms[x]; ok {
			return pSym(s)
		}
	}
	if r, ok := st.env[v]; ok {
		return r
	}
	return pUnk{}
}

func peInt(v interface{}) (int64, bool) {
	c, ok := v.(constant.Value)
	if !ok || c == nil {
		return 0, false
	}
	switch c.Kind() {
	case constant.Int:
		return constant.Int64Val(c)
	case constant.Bool:
		if constant.BoolVal(c) {
			return 1, true
		}
		return 0, true
	}
	return 0, false
}

// callPure: a module function without receiver state, applied to concrete arguments, folded to its result.
func (p *peval) callPure(f *ssa.Function, args []interface{}, depth int) (interface{}, bool) {
	if f == nil || len(f.Blocks) == 0 || depth > 3 || fnPkg(f) == nil || !core.InModule(fnPkg(f)) || len(f.FreeVars) > 0 {
		return nil, false
	}
	for _, a := range args {
		switch a.(type) {
		case constant.Value, *pStruct:
		default:
			return nil, false
		}
	}
	sub := &peval{r: p.r, fn: f, tok: p.tok, syms: map[*ssa.Parameter]string{}}
	st := &peState{env: map[ssa.Value]interface{}{}}
	for i, prm := range f.Params {
		if i < len(args) {
			st.env[prm] = args[i]
		}
	}
	sub.concrete = true
	sub.run(st, f.Blocks[0], nil, 0)
	p.steps += sub.steps
	if sub.aborted || len(sub.paths) != 1 || sub.paths[0].outcome != "return" {
		return nil, false
	}
	ret := sub.paths[0].ret
	if len(ret) == 1 {
		return ret[0], true
	}
	return &pTuple{e: ret}, true
}

func (p *peval) run(st *peState, b, prev *ssa.BasicBlock, depth int) {
	for {
		if p.aborted {
			return
		}
		if len(p.paths) > 300 || depth > 64 {
			p.aborted = true
			return
		}
		// phis
		var phiVals []interface{}
		var phis []*ssa.Phi
		for _, in := range b.Instrs {
			ph, ok := in.(*ssa.Phi)
			if !ok {
				break
			}
			idx := -1
			for i, q := range b.Preds {
				if q == prev {
					idx = i
				}
			}
			if idx < 0 {
				p.aborted = true
				return
			}
			phis = append(phis, ph)
			phiVals = append(phiVals, p.get(st, ph.Edges[idx]))
		}
		for i, ph := range phis {
			st.env[ph] = phiVals[i]
		}
		var next *ssa.BasicBlock
		for _, in := range b.Instrs {
			p.steps++
			if p.steps > 200000 {
				p.aborted = true
				return
			}
			switch x := in.(type) {
			case *ssa.Phi, *ssa.DebugRef:
			case *ssa.If:
				cv := p.get(st, x.Cond)
				if c, ok := cv.(constant.Value); ok && c.Kind() == constant.Bool {
					if constant.BoolVal(c) {
						next = b.Succs[0]
					} else {
						next = b.Succs[1]
					}
					break
				}
				if p.concrete {
					p.aborted = true
					return
				}
				t := st.fork()
				if cm, ok := cv.(pCmp); ok {
					t.conds = append(t.conds, peCond{cm.sym, cm.op, cm.k})
					st.conds = append(st.conds, peCond{cm.sym, negCmpOp(cm.op), cm.k})
				}
				p.edge(t, b, b.Succs[0], depth)
				p.edge(st, b, b.Succs[1], depth)
				return
			case *ssa.Jump:
				next = b.Succs[0]
			case *ssa.Return:
				var rv []interface{}
				for _, r := range x.Results {
					rv = append(rv, p.get(st, r))
				}
				p.paths = append(p.paths, pePath{conds: st.conds, events: st.events, outcome: "return", ret: rv})
				return
			case *ssa.Panic:
				p.paths = append(p.paths, pePath{conds: st.conds, events: st.events, outcome: "end"})
				return
			case *ssa.Store:
				switch a := p.get(st, x.Addr).(type) {
				case *pCell:
					a.v = peCopy(p.get(st, x.Val))
				case pFAddr:
					if s, ok := a.c.v.(*pStruct); ok && a.i < len(s.f) {
						s.f[a.i] = peCopy(p.get(st, x.Val))
					}
				case pEAddr:
					if arr, ok := a.c.v.(*pArray); ok && a.i < len(arr.e) {
						arr.e[a.i] = peCopy(p.get(st, x.Val))
					}
				}
			case ssa.Value:
				st.env[x] = p.eval(st, x)
			default:
				// Defer, Go, Send, MapUpdate, RunDefers: no effect on what is read here
			}
		}
		if next == nil {
			p.paths = append(p.paths, pePath{conds: st.conds, events: st.events, outcome: "end"})
			return
		}
		if next.Dominates(b) && !p.loops {
			// a loop back-edge: the path ends with the values carried into the next iteration
			carried := map[*ssa.Phi]interface{}{}
			for _, in := range next.Instrs {
				ph, ok := in.(*ssa.Phi)
				if !ok {
					break
				}
				for i, q := range next.Preds {
					if q == b {
						carried[ph] = p.get(st, ph.Edges[i])
					}
				}
			}
			p.paths = append(p.paths, pePath{conds: st.conds, events: st.events, outcome: "backedge", phis: carried})
			return
		}
		prev, b = b, next
	}
}

func (p *peval) edge(st *peState, from, to *ssa.BasicBlock, depth int) {
	if to.Dominates(from) && !p.loops {
		carried := map[*ssa.Phi]interface{}{}
		for _, in := range to.Instrs {
			ph, ok := in.(*ssa.Phi)
			if !ok {
				break
			}
			for i, q := range to.Preds {
				if q == from {
					carried[ph] = p.get(st, ph.Edges[i])
				}
			}
		}
		p.paths = append(p.paths, pePath{conds: st.conds, events: st.events, outcome: "backedge", phis: carried})
		return
	}
	// cells are shared by pointer: give the forked state its own copies
	p.run(st, to, from, depth+1)
}

func peCopy(v interface{}) interface{} {
	if a, ok := v.(*pArray); ok {
		c := &pArray{e: make([]interface{}, len(a.e))}
		for i, e := range a.e {
			c.e[i] = peCopy(e)
		}
		return c
	}
	if s, ok := v.(*pStruct); ok {
		c := &pStruct{f: make([]interface{}, len(s.f))}
		for i, e := range s.f {
			c.f[i] = peCopy(e)
		}
		return c
	}
	return v
}

func (p *peval) eval(st *peState, v ssa.Value) interface{} {
	switch x := v.(type) {
	case *ssa.Alloc:
		return &pCell{v: peZero(derefType(x.Type()))}
	case *ssa.FieldAddr:
		if c, ok := p.get(st, x.X).(*pCell); ok {
			return pFAddr{c, x.Field}
		}
		return pUnk{}
	case *ssa.Slice:
		if c, ok := p.get(st, x.X).(*pCell); ok && x.Low == nil && x.High == nil {
			if arr, isArr := c.v.(*pArray); isArr {
				return peCopy(arr)
			}
		}
		return pUnk{}
	case *ssa.Field:
		if s, ok := p.get(st, x.X).(*pStruct); ok && x.Field < len(s.f) {
			return s.f[x.Field]
		}
		return pUnk{}
	case *ssa.Extract:
		if t, ok := p.get(st, x.Tuple).(*pTuple); ok && x.Index < len(t.e) {
			return t.e[x.Index]
		}
		return pUnk{}
	case *ssa.ChangeType:
		return p.get(st, x.X)
	case *ssa.MakeInterface:
		if u, ok := x.X.(*ssa.UnOp); ok && u.Op == token.MUL {
			if g, isG := u.X.(*ssa.Global); isG && g.Pkg != nil && g.Pkg.Pkg.Path() == "encoding/binary" {
				return pSym("binary." + g.Name())
			}
		}
		return p.get(st, x.X)
	case *ssa.IndexAddr:
		if c, ok := p.get(st, x.X).(*pCell); ok {
			if _, isArr := c.v.(*pArray); isArr {
				if i, okI := peInt(p.get(st, x.Index)); okI && i >= 0 {
					return pEAddr{c, int(i)}
				}
			}
			return pUnk{}
		}
		if sl, ok := p.get(st, x.X).(pSlice); ok {
			if i, okI := peInt(p.get(st, x.Index)); okI && i >= 0 {
				return pTerm{data: sl.v, m: map[int64]int64{i: -1}} // shift -1: the address of the byte
			}
		}
		return pUnk{}
	case *ssa.Convert:
		a := p.get(st, x.X)
		if isByteType(x.Type()) {
			switch y := a.(type) {
			case pSym:
				return pShift{string(y), 0}
			case pShift:
				return y
			}
		}
		if _, ok := a.(pSym); ok && isAnyInt(x.Type()) {
			return a
		}
		if t, ok := a.(pTerm); ok && isAnyInt(x.Type()) {
			return t // widening keeps the bytes; a narrowing one is judged by the caller against the width
		}
		if isByteType(x.Type()) {
			switch y := a.(type) {
			case pSym:
				return pShift{string(y), 0}
			case pShift:
				return y
			}
		}
		if c, ok := a.(constant.Value); ok && c.Kind() == constant.Int && isAnyInt(x.Type()) {
			return wrapInt(c, x.Type())
		}
		return pUnk{}
	case *ssa.UnOp:
		switch x.Op {
		case token.MUL:
			if p.isTokenLoad(x) {
				if st.ttValid {
					return constant.MakeInt64(p.tok)
				}
				return pUnk{}
			}
			switch a := p.get(st, x.X).(type) {
			case pTerm:
				if len(a.m) == 1 {
					for i, sh := range a.m {
						if sh == -1 {
							return pTerm{data: a.data, m: map[int64]int64{i: 0}}
						}
					}
				}
				return pUnk{}
			case *pCell:
				return peCopy(a.v)
			case pFAddr:
				if s, ok := a.c.v.(*pStruct); ok && a.i < len(s.f) {
					return peCopy(s.f[a.i])
				}
			case pEAddr:
				if arr, ok := a.c.v.(*pArray); ok && a.i < len(arr.e) {
					return peCopy(arr.e[a.i])
				}
			}
			// a row of a package-level table
			if ia, ok := x.X.(*ssa.IndexAddr); ok {
				if g, isG := ia.X.(*ssa.Global); isG && g.Pkg != nil && core.InModule(g.Pkg.Pkg) {
					if idx, okI := peInt(p.get(st, ia.Index)); okI {
						if pk := p.r.Prog.ByPath[g.Pkg.Pkg.Path()]; pk != nil {
							if l, err := evalGlobal(pk, g.Name()); err == nil && l != nil && l.Elems != nil {
								var et types.Type
								switch u := derefType(g.Type()).Underlying().(type) {
								case *types.Array:
									et = u.Elem()
								case *types.Slice:
									et = u.Elem()
								}
								if et != nil && idx >= 0 {
									if int(idx) < len(l.Elems) {
										return peOfLit(l.Elems[idx], et)
									}
									if _, isArr := derefType(g.Type()).Underlying().(*types.Array); isArr {
										return peZero(et)
									}
								}
							}
						}
					}
				}
			}
			return pUnk{}
		case token.NOT:
			switch a := p.get(st, x.X).(type) {
			case constant.Value:
				if a.Kind() == constant.Bool {
					return constant.MakeBool(!constant.BoolVal(a))
				}
			case pCmp:
				a.op = negCmpOp(a.op)
				return a
			}
			return pUnk{}
		case token.SUB, token.XOR:
			if c, ok := p.get(st, x.X).(constant.Value); ok && c.Kind() == constant.Int {
				return wrapInt(constant.UnaryOp(x.Op, c, 0), x.Type())
			}
		}
		return pUnk{}
	case *ssa.BinOp:
		a, b := p.get(st, x.X), p.get(st, x.Y)
		ca, oka := a.(constant.Value)
		cb, okb := b.(constant.Value)
		if oka && okb {
			if isCmp(x.Op) {
				if ca.Kind() == constant.Bool || cb.Kind() == constant.Bool {
					if ca.Kind() != cb.Kind() || (x.Op != token.EQL && x.Op != token.NEQ) {
						return pUnk{}
					}
					return constant.MakeBool((constant.BoolVal(ca) == constant.BoolVal(cb)) == (x.Op == token.EQL))
				}
				if ca.Kind() == constant.String || cb.Kind() == constant.String {
					if ca.Kind() != cb.Kind() {
						return pUnk{}
					}
					return constant.MakeBool(constant.Compare(ca, x.Op, cb))
				}
				return constant.MakeBool(constant.Compare(constant.ToInt(ca), x.Op, constant.ToInt(cb)))
			}
			if ca.Kind() == constant.Int && cb.Kind() == constant.Int {
				switch x.Op {
				case token.ADD, token.SUB, token.MUL, token.AND, token.OR, token.XOR:
					return wrapInt(constant.BinaryOp(ca, x.Op, cb), x.Type())
				case token.SHL, token.SHR:
					if s, exact := constant.Uint64Val(cb); exact && s <= 64 {
						return wrapInt(constant.Shift(ca, x.Op, uint(s)), x.Type())
					}
				case token.AND_NOT:
					return wrapInt(constant.BinaryOp(ca, token.AND, constant.UnaryOp(token.XOR, cb, 0)), x.Type())
				}
			}
			return pUnk{}
		}
		if sa, isS := a.(pSym); isS && okb && x.Op == token.SHR {
			if k, okK := peInt(cb); okK && k >= 0 && k < 64 {
				return pShift{string(sa), k}
			}
		}
		// byte compositions: term << k, term | term, 0 | term
		if ta, isT := a.(pTerm); isT && okb && (x.Op == token.SHL) {
			if k, okK := peInt(cb); okK && k >= 0 && k < 64 {
				out := pTerm{data: ta.data, m: map[int64]int64{}}
				for i, sh := range ta.m {
					if sh < 0 {
						return pUnk{}
					}
					out.m[i] = sh + k
				}
				return out
			}
		}
		if x.Op == token.OR || x.Op == token.ADD {
			ta, isTa := a.(pTerm)
			tb, isTb := b.(pTerm)
			switch {
			case isTa && isTb && ta.data == tb.data:
				out := pTerm{data: ta.data, m: map[int64]int64{}}
				for i, sh := range ta.m {
					out.m[i] = sh
				}
				for i, sh := range tb.m {
					if _, dup := out.m[i]; dup || sh < 0 {
						return pUnk{}
					}
					out.m[i] = sh
				}
				return out
			case isTa && okb:
				if k, okK := peInt(cb); okK && k == 0 {
					return ta
				}
			case isTb && oka:
				if k, okK := peInt(ca); okK && k == 0 {
					return tb
				}
			}
		}
		if isCmp(x.Op) {
			// the reader's byte order against encoding/binary's
			if sa, isS := a.(pSym); isS {
				if _, isS2 := b.(pSym); !isS2 && len(sa) > 7 && sa[:7] == "binary." && (x.Op == token.EQL || x.Op == token.NEQ) {
					return pCmp{"order=" + string(sa[7:]), x.Op, 1}
				}
			}
			if sb, isS := b.(pSym); isS {
				if _, isS2 := a.(pSym); !isS2 && len(sb) > 7 && sb[:7] == "binary." && (x.Op == token.EQL || x.Op == token.NEQ) {
					return pCmp{"order=" + string(sb[7:]), x.Op, 1}
				}
			}
			// symbolic parameter against a constant
			if s, isS := a.(pSym); isS && okb {
				if k, okK := peInt(cb); okK {
					return pCmp{string(s), x.Op, k}
				}
			}
			if s, isS := b.(pSym); isS && oka {
				if k, okK := peInt(ca); okK {
					return pCmp{string(s), flipOp(x.Op), k}
				}
			}
		}
		return pUnk{}
	case *ssa.Lookup:
		// a package-level map with constant keys
		if u, ok := x.X.(*ssa.UnOp); ok && u.Op == token.MUL {
			if g, isG := u.X.(*ssa.Global); isG && g.Pkg != nil && core.InModule(g.Pkg.Pkg) {
				if key, okK := peInt(p.get(st, x.Index)); okK {
					if pk := p.r.Prog.ByPath[g.Pkg.Pkg.Path()]; pk != nil {
						if l, err := evalGlobal(pk, g.Name()); err == nil && l != nil && l.Keys != nil {
							mt, _ := derefType(g.Type()).Underlying().(*types.Map)
							if mt != nil {
								var val interface{} = peZero(mt.Elem())
								found := false
								for i, kl := range l.Keys {
									if kv, okI := kl.Int(); okI && kv == key {
										val, found = peOfLit(l.Vals[i], mt.Elem()), true
									}
								}
								if x.CommaOk {
									return &pTuple{e: []interface{}{val, constant.MakeBool(found)}}
								}
								return val
							}
						}
					}
				}
			}
		}
		return pUnk{}
	case *ssa.Call:
		if bi, isB := x.Call.Value.(*ssa.Builtin); isB {
			if bi.Name() == "append" && len(x.Call.Args) == 2 {
				st.events = append(st.events, peEvent{name: "append", args: []interface{}{p.get(st, x.Call.Args[0]), p.get(st, x.Call.Args[1])}, pos: x.Pos()})
				return pUnk{}
			}
			if bi.Name() == "len" && len(x.Call.Args) == 1 {
				if sl, ok := p.get(st, x.Call.Args[0]).(pSlice); ok {
					return pSym("len:" + sl.v.Name())
				}
			}
			return pUnk{}
		}
		f := x.Call.StaticCallee()
		var args []interface{}
		for _, a := range x.Call.Args {
			args = append(args, p.get(st, a))
		}
		if f != nil && !x.Call.IsInvoke() {
			if r, ok := p.callPure(f, args, 0); ok {
				return r
			}
		}
		if p.concrete {
			p.aborted = true
			return pUnk{}
		}
		name := "?"
		if f != nil {
			name = f.Name()
		} else if x.Call.IsInvoke() {
			name = x.Call.Method.Name()
		}
		st.events = append(st.events, peEvent{name: name, args: args, pos: x.Pos()})
		if f == nil || (f.Signature.Recv() != nil && len(p.fn.Params) > 0 && len(x.Call.Args) > 0 && x.Call.Args[0] == ssa.Value(p.fn.Params[0])) {
			st.ttValid = false // a method of the parser may advance the token
		}
		if tup, isT := x.Type().(*types.Tuple); isT {
			t := &pTuple{e: make([]interface{}, tup.Len())}
			for i := range t.e {
				t.e[i] = pUnk{}
			}
			return t
		}
		if p.bytes {
			if sl, isSl := x.Type().Underlying().(*types.Slice); isSl && isByteType(sl.Elem()) {
				return pSlice{v: x}
			}
		}
		return pUnk{}
	}
	return pUnk{}
}

// peArm runs the partial evaluation of parser method `method` for token value tok; symbolic are the parameters
// named in syms (parameter index -> symbol).
func peArm(r *core.Run, method string, tok int64, syms map[int]string) ([]pePath, *peval) {
	fn := r.Prog.SSAFunc("js", "Parser", method)
	if fn == nil || len(fn.Blocks) == 0 {
		return nil, nil
	}
	p := &peval{r: r, fn: fn, tok: tok, syms: map[*ssa.Parameter]string{}}
	for i, s := range syms {
		if i < len(fn.Params) {
			p.syms[fn.Params[i]] = s
		}
	}
	st := &peState{env: map[ssa.Value]interface{}{}, ttValid: true}
	p.run(st, fn.Blocks[0], nil, 0)
	if p.aborted {
		return nil, p
	}
	return p.paths, p
}

// peFunc: the paths of fn with some parameters bound to constants, loops followed, byte slices symbolic.
func peFunc(r *core.Run, fn *ssa.Function, bind map[int]interface{}) ([]pePath, bool) {
	if fn == nil || len(fn.Blocks) == 0 {
		return nil, false
	}
	p := &peval{r: r, fn: fn, syms: map[*ssa.Parameter]string{}, loops: true, bytes: true}
	st := &peState{env: map[ssa.Value]interface{}{}, ttValid: false}
	for i, v := range bind {
		if i < len(fn.Params) {
			st.env[fn.Params[i]] = v
		}
	}
	p.run(st, fn.Blocks[0], nil, 0)
	if p.aborted {
		return nil, false
	}
	return p.paths, true
}
