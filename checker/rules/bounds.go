package rules

// E7 — index-in-range analysis for the slice scanners (helpers of C16/C17/C14).
//
// A forward abstract interpretation over go/ssa with a difference-bound matrix
// (DBM): variables are the int-typed SSA values of one function, the lengths of
// its slice/string values, and the constant zero; the matrix holds upper bounds
// on v_i - v_j. Branch conditions refine the matrix on each edge, phis are
// parallel assignments on the incoming edge, loop heads are widened. Every
// Index/IndexAddr/Lookup/Slice instruction is an obligation
// `0 <= index < len` (resp. `0 <= low <= high <= len|cap`), discharged from the
// matrix at that point. Anything not entailed is reported, never assumed.
//
// Assumption recorded in evidence: arithmetic on values of type int does not
// overflow (operands are slice lengths plus small constants).

import (
	"fmt"
	"go/ast"
	"go/constant"
	"go/token"
	"go/types"
	"os"
	"sort"
	"strings"
	"sync"

	"golang.org/x/tools/go/ssa"

	"verif/checker/core"
)

const bInf = int64(1) << 60

type dbm struct {
	n      int
	m      []int64
	bottom bool
}

func newDBM(n int) *dbm {
	d := &dbm{n: n, m: make([]int64, n*n)}
	for i := range d.m {
		d.m[i] = bInf
	}
	for i := 0; i < n; i++ {
		d.m[i*n+i] = 0
	}
	return d
}

func (d *dbm) clone() *dbm {
	c := &dbm{n: d.n, m: make([]int64, len(d.m)), bottom: d.bottom}
	copy(c.m, d.m)
	return c
}

func (d *dbm) get(i, j int) int64 { return d.m[i*d.n+j] }

func badd(a, b int64) int64 {
	if a >= bInf || b >= bInf {
		return bInf
	}
	s := a + b
	if s >= bInf {
		return bInf
	}
	if s < -bInf {
		return -bInf
	}
	return s
}

// add the constraint v_i - v_j <= c and re-close.
func (d *dbm) add(i, j int, c int64) {
	if d.bottom || i == j {
		if i == j && c < 0 {
			d.bottom = true
		}
		return
	}
	if c >= d.get(i, j) {
		return
	}
	n := d.n
	if badd(d.get(j, i), c) < 0 {
		d.bottom = true
		return
	}
	d.m[i*n+j] = c
	for p := 0; p < n; p++ {
		pi := d.m[p*n+i]
		if pi >= bInf {
			continue
		}
		base := badd(pi, c)
		for q := 0; q < n; q++ {
			jq := d.m[j*n+q]
			if jq >= bInf {
				continue
			}
			if s := badd(base, jq); s < d.m[p*n+q] {
				d.m[p*n+q] = s
			}
		}
	}
	for p := 0; p < n; p++ {
		if d.m[p*n+p] < 0 {
			d.bottom = true
			return
		}
	}
}

func (d *dbm) forget(v int) {
	n := d.n
	for q := 0; q < n; q++ {
		if q != v {
			d.m[v*n+q] = bInf
			d.m[q*n+v] = bInf
		}
	}
}

// v := w + c (v is forgotten first)
func (d *dbm) assign(v, w int, c int64) {
	if d.bottom {
		return
	}
	if v == w {
		if c == 0 {
			return
		}
		// v := v + c : shift row and column
		n := d.n
		for q := 0; q < n; q++ {
			if q != v {
				d.m[v*n+q] = badd(d.m[v*n+q], c)
				d.m[q*n+v] = badd(d.m[q*n+v], -c)
			}
		}
		return
	}
	d.forget(v)
	n := d.n
	for q := 0; q < n; q++ {
		if q == v {
			continue
		}
		d.m[v*n+q] = badd(d.m[w*n+q], c)
		d.m[q*n+v] = badd(d.m[q*n+w], -c)
	}
	d.m[v*n+w] = c
	d.m[w*n+v] = -c
}

func (d *dbm) join(o *dbm) *dbm {
	if d.bottom {
		return o.clone()
	}
	if o.bottom {
		return d.clone()
	}
	r := d.clone()
	for i := range r.m {
		if o.m[i] > r.m[i] {
			r.m[i] = o.m[i]
		}
	}
	return r
}

func (d *dbm) leq(o *dbm) bool { // d is at least as strong as o
	if d.bottom {
		return true
	}
	if o.bottom {
		return false
	}
	for i := range d.m {
		if d.m[i] > o.m[i] {
			return false
		}
	}
	return true
}

// widen: entries of `next` that are weaker than in d are dropped (thresholds 0, -1 kept).
func (d *dbm) widen(next *dbm) *dbm {
	if d.bottom {
		return next.clone()
	}
	if next.bottom {
		return d.clone()
	}
	r := d.clone()
	for i := range r.m {
		if next.m[i] > r.m[i] {
			switch {
			case next.m[i] <= -1:
				r.m[i] = -1
			case next.m[i] <= 0:
				r.m[i] = 0
			case next.m[i] <= 1:
				r.m[i] = 1
			default:
				r.m[i] = bInf
			}
		}
	}
	// the result of this widening is not closed; close it (Floyd–Warshall)
	r.close()
	return r
}

func (d *dbm) close() {
	n := d.n
	for k := 0; k < n; k++ {
		for i := 0; i < n; i++ {
			ik := d.m[i*n+k]
			if ik >= bInf {
				continue
			}
			for j := 0; j < n; j++ {
				if s := badd(ik, d.m[k*n+j]); s < d.m[i*n+j] {
					d.m[i*n+j] = s
				}
			}
		}
	}
	for p := 0; p < n; p++ {
		if d.m[p*n+p] < 0 {
			d.bottom = true
		}
	}
}

// ---------------------------------------------------------------------------

type lenKey struct{ v ssa.Value }
type capKey struct{ v ssa.Value }

// Local struct cells: a local struct variable whose address never leaves the function (its fields are read and
// written through &x.f, the whole value is loaded, stored, returned) is tracked field by field: one variable per
// integer field. A struct *value* (a call result, a load of such a local) carries one variable per integer field
// too, so that `m := scan(b, i); … use(b, m.end)` keeps what scan established about `end`.
type cellKey struct {
	a *ssa.Alloc
	f int
}
type sfieldKey struct {
	v ssa.Value
	f int
}

// intFields: the indices of the integer fields of a small struct type (nil if t is not one).
func intFields(t types.Type) []int {
	st, ok := t.Underlying().(*types.Struct)
	if !ok || st.NumFields() == 0 || st.NumFields() > 8 {
		return nil
	}
	var out []int
	for i := 0; i < st.NumFields(); i++ {
		if isAnyInt(st.Field(i).Type()) {
			out = append(out, i)
		}
	}
	return out
}

// localCell: a is a struct local with integer fields whose address is used only to address fields that are loaded
// and stored, and to load, store or (through a load) return the whole value.
func localCell(a *ssa.Alloc) []int {
	pt, ok := a.Type().Underlying().(*types.Pointer)
	if !ok {
		return nil
	}
	fs := intFields(pt.Elem())
	if fs == nil || a.Referrers() == nil {
		return nil
	}
	for _, ref := range *a.Referrers() {
		switch x := ref.(type) {
		case *ssa.DebugRef:
		case *ssa.UnOp:
			if x.Op != token.MUL {
				return nil
			}
		case *ssa.Store:
			if x.Addr != ssa.Value(a) {
				return nil // the address itself is stored
			}
		case *ssa.FieldAddr:
			if x.Referrers() == nil {
				continue
			}
			for _, r2 := range *x.Referrers() {
				switch y := r2.(type) {
				case *ssa.DebugRef:
				case *ssa.UnOp:
					if y.Op != token.MUL {
						return nil
					}
				case *ssa.Store:
					if y.Addr != ssa.Value(x) {
						return nil
					}
				default:
					return nil
				}
			}
		default:
			return nil
		}
	}
	return fs
}

type boundsFn struct {
	unconverged bool // the fixpoint iteration hit its cap: the block states are not invariants, nothing may be discharged from them
	cells       map[*ssa.Alloc][]int
	rep         map[ssa.Value]ssa.Value // pure load -> first load of the same immutable location
	pure        map[ssa.Value]bool      // representatives of immutable locations (never forgotten)
	alias       map[ssa.Value]ssa.Value // BinOp -> dominating identical BinOp (go/ssa does no CSE)
	r           *core.Run
	fn          *ssa.Function
	vars        map[interface{}]int
	names       []string
	in          map[*ssa.BasicBlock]*dbm
	visits      map[*ssa.BasicBlock]int
	heads       map[*ssa.BasicBlock]bool
	summ        func(*ssa.Function) *boundsSummary
	summC       func(callee *ssa.Function, seed [][3]int64, key string) *boundsSummary // context-sensitive: analysed with the caller's facts about the arguments
	seed        [][3]int64                                                             // entry constraints (i, j, c): ent_i - ent_j <= c over [zero, params...]
	glen        func(*ssa.Global) (int64, bool)
}

func isExactInt(t types.Type) bool {
	b, ok := t.Underlying().(*types.Basic)
	return ok && b.Kind() == types.Int
}

func isSignedInt(t types.Type) bool {
	b, ok := t.Underlying().(*types.Basic)
	return ok && b.Info()&types.IsInteger != 0 && b.Info()&types.IsUnsigned == 0 && (b.Kind() == types.Int || b.Kind() == types.Int64 || b.Kind() == types.Int32)
}

func smallRange(lo, hi int64) bool { return lo > -(1<<30) && hi < 1<<30 }

func isAnyInt(t types.Type) bool {
	b, ok := t.Underlying().(*types.Basic)
	return ok && b.Info()&types.IsInteger != 0
}

func isSliceLike(t types.Type) bool {
	switch u := t.Underlying().(type) {
	case *types.Slice:
		return true
	case *types.Basic:
		return u.Info()&types.IsString != 0
	}
	return false
}

// typeRange: value range implied by the type alone.
func typeRange(t types.Type) (lo, hi int64, ok bool) {
	b, isB := t.Underlying().(*types.Basic)
	if !isB {
		return 0, 0, false
	}
	switch b.Kind() {
	case types.Uint8:
		return 0, 255, true
	case types.Uint16:
		return 0, 65535, true
	case types.Uint32:
		return 0, 1<<32 - 1, true
	case types.Uint, types.Uint64, types.Uintptr:
		return 0, bInf, true
	case types.Int8:
		return -128, 127, true
	case types.Int16:
		return -32768, 32767, true
	case types.Int32:
		return -1 << 31, 1<<31 - 1, true
	}
	return 0, 0, false
}

// lenSource: the value whose length equals len(v) (through conversions).
func (b *boundsFn) lenSrc(v ssa.Value) ssa.Value {
	for {
		if r, ok := b.rep[v]; ok && r != v {
			v = r
			continue
		}
		switch x := v.(type) {
		case *ssa.Convert:
			if isSliceLike(x.X.Type()) && isSliceLike(x.Type()) {
				v = x.X
				continue
			}
		case *ssa.ChangeType:
			v = x.X
			continue
		}
		return v
	}
}

func (b *boundsFn) varOf(k interface{}, name string) int {
	if i, ok := b.vars[k]; ok {
		return i
	}
	i := len(b.names)
	b.vars[k] = i
	b.names = append(b.names, name)
	return i
}

// intVar: DBM variable of an integer SSA value, or -1 with a constant.
func (b *boundsFn) intVar(v ssa.Value) (idx int, c int64, isConst bool) {
	if k, ok := v.(*ssa.Const); ok {
		if k.Value != nil && k.Value.Kind() == constant.Int {
			if x, exact := constant.Int64Val(k.Value); exact {
				return -1, x, true
			}
		}
		return -1, 0, false
	}
	if call, ok := v.(*ssa.Call); ok {
		if bi, isB := call.Call.Value.(*ssa.Builtin); isB && len(call.Call.Args) == 1 {
			switch bi.Name() {
			case "len":
				if a, isArr := arrayLen(call.Call.Args[0].Type()); isArr {
					return -1, a, true
				}
				return b.lenVar(call.Call.Args[0]), 0, false
			case "cap":
				return b.capVar(call.Call.Args[0]), 0, false
			}
		}
	}
	if i, ok := b.vars[v]; ok {
		return i, 0, false
	}
	return -1, 0, false
}

func arrayLen(t types.Type) (int64, bool) {
	if p, ok := t.Underlying().(*types.Pointer); ok {
		t = p.Elem()
	}
	if a, ok := t.Underlying().(*types.Array); ok {
		return a.Len(), true
	}
	return 0, false
}

func (b *boundsFn) lenVar(v ssa.Value) int {
	v = b.lenSrc(v)
	if i, ok := b.vars[lenKey{v}]; ok {
		return i
	}
	return -1
}

func (b *boundsFn) capVar(v ssa.Value) int {
	if i, ok := b.vars[capKey{v}]; ok {
		return i
	}
	return -1
}

func (b *boundsFn) findAliases() {
	b.alias = map[ssa.Value]ssa.Value{}
	type key struct {
		op   token.Token
		x, y ssa.Value
	}
	first := map[key][]*ssa.BinOp{}
	for _, blk := range b.fn.DomPreorder() {
		for _, in := range blk.Instrs {
			bo, ok := in.(*ssa.BinOp)
			if !ok || !isAnyInt(bo.Type()) {
				continue
			}
			switch bo.Op {
			case token.ADD, token.SUB, token.MUL:
			default:
				continue
			}
			k := key{bo.Op, bo.X, bo.Y}
			if cx, isC := bo.X.(*ssa.Const); isC {
				k.x = nil
				_ = cx
				continue // keep it simple: constants on the left are rare
			}
			if cy, isC := bo.Y.(*ssa.Const); isC {
				// constants are distinct SSA values: key by value
				found := false
				for _, prev := range first[key{bo.Op, bo.X, nil}] {
					if py, ok2 := prev.Y.(*ssa.Const); ok2 && py.Value != nil && cy.Value != nil && constant.Compare(py.Value, token.EQL, cy.Value) && types.Identical(prev.Type(), bo.Type()) {
						if prev.Block() == blk || prev.Block().Dominates(blk) {
							b.alias[bo] = prev
							found = true
							break
						}
					}
				}
				if !found {
					first[key{bo.Op, bo.X, nil}] = append(first[key{bo.Op, bo.X, nil}], bo)
				}
				continue
			}
			found := false
			for _, prev := range first[k] {
				if types.Identical(prev.Type(), bo.Type()) && (prev.Block() == blk || prev.Block().Dominates(blk)) {
					b.alias[bo] = prev
					found = true
					break
				}
			}
			if !found {
				first[k] = append(first[k], bo)
			}
		}
	}
}

// immutableAlloc: a local that is written exactly once, by the store that spills a parameter into it,
// and whose address is used only to read fields (go/ssa spills value receivers and parameters whose
// fields are addressed).
func immutableAlloc(a *ssa.Alloc) bool {
	stores := 0
	var okRefs func(v ssa.Value, top bool) bool
	okRefs = func(v ssa.Value, top bool) bool {
		refs := v.Referrers()
		if refs == nil {
			return false
		}
		for _, ref := range *refs {
			switch x := ref.(type) {
			case *ssa.Store:
				if top && x.Addr == v {
					if _, isParam := x.Val.(*ssa.Parameter); !isParam {
						return false
					}
					stores++
					continue
				}
				return false // stored through a field address, or the address itself escapes
			case *ssa.FieldAddr:
				if !okRefs(x, false) {
					return false
				}
			case *ssa.IndexAddr:
				if _, isArr := x.X.Type().Underlying().(*types.Pointer); !isArr || !okRefs(x, false) {
					return false
				}
			case *ssa.UnOp:
				if x.Op != token.MUL {
					return false
				}
			case *ssa.DebugRef:
			default:
				return false
			}
		}
		return true
	}
	return okRefs(a, true) && stores == 1
}

// findPureLoads: loads of the same field path of an immutable local, and Field extractions of the same
// struct value, denote the same value wherever they occur.
func (b *boundsFn) findPureLoads() {
	b.rep = map[ssa.Value]ssa.Value{}
	b.pure = map[ssa.Value]bool{}
	imm := map[*ssa.Alloc]bool{}
	rootOf := func(v ssa.Value) *ssa.Alloc {
		for {
			switch x := v.(type) {
			case *ssa.FieldAddr:
				v = x.X
			case *ssa.Alloc:
				return x
			default:
				return nil
			}
		}
	}
	first := map[string]ssa.Value{}
	for _, blk := range b.fn.DomPreorder() {
		for _, in := range blk.Instrs {
			switch x := in.(type) {
			case *ssa.UnOp:
				if x.Op != token.MUL {
					continue
				}
				root := rootOf(x.X)
				if root == nil {
					continue
				}
				ok, seen := imm[root]
				if !seen {
					ok = immutableAlloc(root)
					imm[root] = ok
				}
				if !ok {
					continue
				}
				k := "load " + canon(x.X) + fmt.Sprintf("@%p", root)
				if f, has := first[k]; has {
					b.rep[x] = f
				} else {
					first[k] = x
					b.pure[x] = true
				}
			case *ssa.Field:
				k := fmt.Sprintf("field %p.%d", x.X, x.Field)
				if _, isInstr := x.X.(ssa.Instruction); !isInstr {
					if prm, isP := x.X.(*ssa.Parameter); isP {
						k = fmt.Sprintf("field param %s.%d", prm.Name(), x.Field)
					}
				}
				if f, has := first[k]; has {
					b.rep[x] = f
				} else {
					first[k] = x
				}
			}
		}
	}
}

// loadKey: structural name of a value built from parameters, constants, field/element addressing and loads.
// Values of other instructions are named by identity, so equal keys mean equal operands.
func loadKey(v ssa.Value, nested *[]*ssa.UnOp, depth int) string {
	if depth > 8 {
		return fmt.Sprintf("%p", v)
	}
	switch x := v.(type) {
	case *ssa.Parameter:
		return "p:" + x.Name()
	case *ssa.Const:
		if x.Value != nil {
			return "c:" + x.Value.ExactString()
		}
		return "c:nil"
	case *ssa.FieldAddr:
		return loadKey(x.X, nested, depth+1) + fmt.Sprintf(".%d", x.Field)
	case *ssa.Field:
		return loadKey(x.X, nested, depth+1) + fmt.Sprintf(".f%d", x.Field)
	case *ssa.IndexAddr:
		return loadKey(x.X, nested, depth+1) + "[" + loadKey(x.Index, nested, depth+1) + "]"
	case *ssa.UnOp:
		if x.Op == token.MUL {
			if nested != nil {
				*nested = append(*nested, x)
			}
			return "*(" + loadKey(x.X, nested, depth+1) + ")"
		}
	}
	return fmt.Sprintf("%p", v)
}

func isMemBarrier(in ssa.Instruction) bool {
	switch x := in.(type) {
	case *ssa.Store, *ssa.MapUpdate, *ssa.Send, *ssa.Go, *ssa.Defer, *ssa.RunDefers, *ssa.Select:
		return true
	case *ssa.Call:
		if bi, ok := x.Call.Value.(*ssa.Builtin); ok {
			switch bi.Name() {
			case "len", "cap", "min", "max":
				return false
			}
		}
		// A-VISITOR: inside js.Walk and its helpers, descending (Walk, helpers) and the visitor callbacks do not
		// resize the lists of the tree being walked (the property quantifies over visitors that descend or stop)
		if isWalkFamily(x.Parent()) {
			if g := x.Call.StaticCallee(); g != nil && isWalkFamily(g) {
				return false
			}
			if x.Call.IsInvoke() && (x.Call.Method.Name() == "Enter" || x.Call.Method.Name() == "Exit") {
				return false
			}
		}
		return true
	}
	return false
}

func isWalkFamily(fn *ssa.Function) bool {
	if fn == nil || fn.Signature.Recv() != nil || fnPkg(fn) == nil || core.RelPkg(fnPkg(fn)) != "js" {
		return false
	}
	return fn.Name() == "Walk" || callsWalk(fn)
}

// findChainLoads: available-loads analysis. A heap load that repeats an earlier load of the same location yields
// the same value if no store or call (memory barrier) lies on any path between them: a forward must-analysis
// (intersection at joins, so loop-invariant loads are recognised) whose facts map a structural location key to
// the load that represents it. Keys name nested loads by their representative, so equal keys mean equal addresses.
func (b *boundsFn) findChainLoads() {
	fn := b.fn
	if len(fn.Blocks) == 0 {
		return
	}
	rep := map[ssa.Value]ssa.Value{} // result of the previous iteration (used to name nested loads)
	var key func(v ssa.Value, depth int) string
	key = func(v ssa.Value, depth int) string {
		if depth > 8 {
			return fmt.Sprintf("%p", v)
		}
		switch x := v.(type) {
		case *ssa.Parameter:
			return "p:" + x.Name()
		case *ssa.Const:
			if x.Value != nil {
				return "c:" + x.Value.ExactString()
			}
			return "c:nil"
		case *ssa.FieldAddr:
			return key(x.X, depth+1) + fmt.Sprintf(".%d", x.Field)
		case *ssa.Field:
			return key(x.X, depth+1) + fmt.Sprintf(".f%d", x.Field)
		case *ssa.IndexAddr:
			return key(x.X, depth+1) + "[" + key(x.Index, depth+1) + "]"
		case *ssa.UnOp:
			if x.Op == token.MUL {
				if r, ok := b.rep[x]; ok {
					return fmt.Sprintf("L%p", r)
				}
				if r, ok := rep[x]; ok {
					return fmt.Sprintf("L%p", r)
				}
				return fmt.Sprintf("L%p", x)
			}
		}
		return fmt.Sprintf("%p", v)
	}
	loadKey2 := func(l *ssa.UnOp) string { return "*(" + key(l.X, 0) + ")" }
	type avail map[string]*ssa.UnOp
	for iter := 0; iter < 6; iter++ {
		in := map[*ssa.BasicBlock]avail{}
		out := map[*ssa.BasicBlock]avail{}
		top := map[*ssa.BasicBlock]bool{} // not yet computed: neutral element of the intersection
		for _, blk := range fn.Blocks {
			top[blk] = true
		}
		newRep := map[ssa.Value]ssa.Value{}
		changed := true
		for rounds := 0; changed && rounds < 50; rounds++ {
			changed = false
			for _, blk := range fn.Blocks {
				var cur avail
				if blk == fn.Blocks[0] {
					cur = avail{}
				} else {
					first := true
					for _, p := range blk.Preds {
						if top[p] {
							continue
						}
						if first {
							cur = avail{}
							for k, v := range out[p] {
								cur[k] = v
							}
							first = false
						} else {
							for k, v := range cur {
								if out[p][k] != v {
									delete(cur, k)
								}
							}
						}
					}
					if first {
						continue // no computed predecessor yet
					}
				}
				in[blk] = cur
				o := avail{}
				for k, v := range cur {
					o[k] = v
				}
				for _, ins := range blk.Instrs {
					if isMemBarrier(ins) {
						o = avail{}
						continue
					}
					if l, ok := ins.(*ssa.UnOp); ok && l.Op == token.MUL && !b.pure[l] {
						if _, isPure := b.rep[l]; isPure {
							continue
						}
						if !isSliceLike(l.Type()) && !isAnyInt(l.Type()) {
							continue
						}
						k := loadKey2(l)
						if r, has := o[k]; has && r != l && types.Identical(r.Type(), l.Type()) {
							newRep[l] = r
						} else {
							delete(newRep, l)
							o[k] = l
						}
					}
				}
				if top[blk] || !sameAvail(out[blk], o) {
					out[blk] = o
					top[blk] = false
					changed = true
				}
			}
		}
		same := len(newRep) == len(rep)
		for k, v := range newRep {
			if rep[k] != v {
				same = false
			}
		}
		rep = newRep
		if same {
			break
		}
	}
	for l, r := range rep {
		if rr, has := b.rep[r]; has {
			r = rr
		}
		b.rep[l] = r
	}
}

func sameAvail(a, c map[string]*ssa.UnOp) bool {
	if len(a) != len(c) {
		return false
	}
	for k, v := range a {
		if c[k] != v {
			return false
		}
	}
	return true
}

func (b *boundsFn) collectVars() {
	b.findPureLoads()
	b.findChainLoads()
	b.findAliases()
	b.varOf("zero", "0")
	add := func(v ssa.Value) {
		if v == nil {
			return
		}
		if _, isC := v.(*ssa.Const); isC {
			return
		}
		t := v.Type()
		if isAnyInt(t) {
			if call, ok := v.(*ssa.Call); ok {
				if bi, isB := call.Call.Value.(*ssa.Builtin); isB && (bi.Name() == "len" || bi.Name() == "cap") {
					return
				}
			}
			if rep, isAlias := b.alias[v]; isAlias {
				b.vars[v] = b.varOf(rep, rep.Name())
			} else if rp, isRep := b.rep[v]; isRep {
				b.vars[v] = b.varOf(rp, rp.Name())
			} else {
				b.varOf(v, v.Name())
			}
		}
		if isSliceLike(t) {
			s := b.lenSrc(v)
			b.varOf(lenKey{s}, "len("+s.Name()+")")
			if _, isSl := t.Underlying().(*types.Slice); isSl {
				b.varOf(capKey{v}, "cap("+v.Name()+")")
			}
		}
	}
	for _, p := range b.fn.Params {
		add(p)
	}
	for _, fv := range b.fn.FreeVars {
		add(fv)
	}
	b.cells = map[*ssa.Alloc][]int{}
	for _, blk := range b.fn.Blocks {
		for _, in := range blk.Instrs {
			switch x := in.(type) {
			case *ssa.Alloc:
				if fs := localCell(x); fs != nil {
					b.cells[x] = fs
					for _, f := range fs {
						b.varOf(cellKey{x, f}, fmt.Sprintf("%s.#%d", x.Name(), f))
					}
				}
			}
			if v, ok := in.(ssa.Value); ok {
				switch in.(type) {
				case *ssa.Call, *ssa.Extract, *ssa.UnOp:
					for _, f := range intFields(v.Type()) {
						b.varOf(sfieldKey{v, f}, fmt.Sprintf("%s.#%d", v.Name(), f))
					}
				}
			}
		}
	}
	for _, blk := range b.fn.Blocks {
		for _, in := range blk.Instrs {
			if v, ok := in.(ssa.Value); ok {
				add(v)
				if tup, isT := v.Type().(*types.Tuple); isT {
					_ = tup
				}
			}
			// operands that are values not defined by instructions here (globals etc.) need no vars
		}
	}
}

// basic facts that hold for a variable whenever it is (re)defined
func (b *boundsFn) typeFacts(d *dbm, v ssa.Value) {
	if i, ok := b.vars[v]; ok {
		if lo, hi, has := typeRange(v.Type()); has {
			d.add(0, i, -lo)
			if hi < bInf {
				d.add(i, 0, hi)
			}
		}
	}
	if isSliceLike(v.Type()) {
		if l := b.lenVar(v); l >= 0 {
			d.add(0, l, 0) // len >= 0
			if c := b.capVar(v); c >= 0 {
				d.add(l, c, 0) // len <= cap
			}
		}
	}
}

func (b *boundsFn) forgetValue(d *dbm, v ssa.Value) {
	if i, ok := b.vars[v]; ok {
		d.forget(i)
	}
	if isSliceLike(v.Type()) {
		if b.lenSrc(v) == v {
			if l := b.lenVar(v); l >= 0 {
				d.forget(l)
			}
		}
		if c := b.capVar(v); c >= 0 {
			d.forget(c)
		}
	}
}

// interval of an operand relative to zero
func (b *boundsFn) interval(d *dbm, v ssa.Value) (lo, hi int64) {
	idx, c, isC := b.intVar(v)
	if isC {
		return c, c
	}
	if idx < 0 {
		return -bInf, bInf
	}
	hi = d.get(idx, 0)
	l := d.get(0, idx)
	if l >= bInf {
		lo = -bInf
	} else {
		lo = -l
	}
	return
}

// setEq: x == y + c for operands (var or const)
func (b *boundsFn) relate(d *dbm, x ssa.Value, y ssa.Value, c int64) {
	xi, xc, xIsC := b.intVar(x)
	yi, yc, yIsC := b.intVar(y)
	switch {
	case xIsC || xi < 0:
		return
	case yIsC:
		d.forget(xi)
		d.add(xi, 0, yc+c)
		d.add(0, xi, -(yc + c))
		_ = xc
	case yi >= 0:
		d.assign(xi, yi, c)
	default:
		d.forget(xi)
	}
}

// le: operand a <= operand b + c
func (b *boundsFn) le(d *dbm, a, bb ssa.Value, c int64) {
	ai, ac, aC := b.intVar(a)
	bi, bc, bC := b.intVar(bb)
	switch {
	case aC && bC:
		if ac > bc+c {
			d.bottom = true
		}
	case aC && bi >= 0:
		d.add(0, bi, c-ac) // ac <= b + c  ->  0 - b <= c - ac
	case bC && ai >= 0:
		d.add(ai, 0, bc+c)
	case ai >= 0 && bi >= 0:
		d.add(ai, bi, c)
	}
}

func (b *boundsFn) transfer(d *dbm, in ssa.Instruction) {
	if d.bottom {
		return
	}
	if st, isStore := in.(*ssa.Store); isStore {
		b.transferStore(d, st)
		return
	}
	v, isVal := in.(ssa.Value)
	if !isVal {
		return
	}
	if _, isPhi := in.(*ssa.Phi); isPhi {
		return // handled on edges
	}
	if b.transferCell(d, in) {
		return
	}
	if _, isAlias := b.alias[v]; isAlias {
		return // same value as a dominating identical operation
	}
	if _, isRep := b.rep[v]; isRep || b.pure[v] {
		return // load of an immutable location: same value throughout the function
	}
	// an index expression that did not panic establishes 0 <= i < len for what follows
	assumeIdx := func(X, idx ssa.Value) {
		ii, ic, iC := b.intVar(idx)
		if n, isArr := arrayLen(X.Type()); isArr {
			if ii >= 0 {
				d.add(0, ii, 0)
				d.add(ii, 0, n-1)
			}
			return
		}
		l := b.lenVar(X)
		if l < 0 {
			return
		}
		if iC {
			d.add(0, l, -(ic + 1))
		} else if ii >= 0 {
			d.add(0, ii, 0)
			d.add(ii, l, -1)
		}
	}
	switch x := in.(type) {
	case *ssa.IndexAddr:
		assumeIdx(x.X, x.Index)
		return
	case *ssa.Index:
		b.forgetValue(d, v)
		b.typeFacts(d, v)
		assumeIdx(x.X, x.Index)
		return
	case *ssa.Lookup:
		b.forgetValue(d, v)
		b.typeFacts(d, v)
		if isSliceLike(x.X.Type()) {
			assumeIdx(x.X, x.Index)
		}
		return
	case *ssa.BinOp:
		if isSliceLike(v.Type()) && x.Op == token.ADD {
			// string concatenation: len(v) = len(x) + len(y)
			b.forgetValue(d, v)
			b.typeFacts(d, v)
			nl := b.lenVar(v)
			strLen := func(o ssa.Value) (int, int64, bool) {
				if k, isK := o.(*ssa.Const); isK && k.Value != nil && k.Value.Kind() == constant.String {
					return -1, int64(len(constant.StringVal(k.Value))), true
				}
				return b.lenVar(o), 0, false
			}
			xi, xc, xC := strLen(x.X)
			yi, yc, yC := strLen(x.Y)
			if nl >= 0 {
				switch {
				case xC && yi >= 0 && yi != nl:
					d.assign(nl, yi, xc)
				case yC && xi >= 0 && xi != nl:
					d.assign(nl, xi, yc)
				case xi >= 0 && yi >= 0 && xi != nl && yi != nl:
					if lo := d.get(0, yi); lo < bInf {
						d.add(xi, nl, lo) // len(x) - len(v) <= -lo(y)
					}
					if lo := d.get(0, xi); lo < bInf {
						d.add(yi, nl, lo)
					}
				}
				d.add(0, nl, 0)
			}
			return
		}
		if _, ok := b.vars[v]; !ok {
			return
		}
		vi := b.vars[v]
		exact := isExactInt(v.Type())
		xl, xh := b.interval(d, x.X)
		yl, yh := b.interval(d, x.Y)
		if !exact && isSignedInt(v.Type()) && smallRange(xl, xh) && smallRange(yl, yh) {
			exact = true // operands are bounded far inside the type: the operation cannot wrap
		}
		xi, _, xC := b.intVar(x.X)
		yi, yc, yC := b.intVar(x.Y)
		_, xc, _ := b.intVar(x.X)
		switch {
		case exact && x.Op == token.ADD && yC && xi >= 0:
			d.assign(vi, xi, yc)
		case exact && x.Op == token.ADD && xC && yi >= 0:
			d.assign(vi, yi, xc)
		case exact && x.Op == token.SUB && yC && xi >= 0:
			d.assign(vi, xi, -yc)
		case exact && x.Op == token.ADD && xi >= 0 && yi >= 0 && xi != vi && yi != vi:
			d.forget(vi)
			// v - x in [yl, yh], v - y in [xl, xh]
			if yh < bInf {
				d.add(vi, xi, yh)
			}
			if yl > -bInf {
				d.add(xi, vi, -yl)
			}
			if xh < bInf {
				d.add(vi, yi, xh)
			}
			if xl > -bInf {
				d.add(yi, vi, -xl)
			}
		case exact && x.Op == token.SUB && xi >= 0 && yi >= 0 && xi != vi && yi != vi:
			xy, yx := d.get(xi, yi), d.get(yi, xi) // x-y <= xy ; y-x <= yx
			d.forget(vi)
			if xy < bInf {
				d.add(vi, 0, xy)
			}
			if yx < bInf {
				d.add(0, vi, yx)
			}
			// v - x = -y in [-yh, -yl]
			if yl > -bInf {
				d.add(vi, xi, -yl)
			}
			if yh < bInf {
				d.add(xi, vi, yh)
			}
		case exact && x.Op == token.SUB && xC && yi >= 0 && yi != vi:
			d.forget(vi)
			if yl > -bInf {
				d.add(vi, 0, xc-yl)
			}
			if yh < bInf {
				d.add(0, vi, yh-xc)
			}
		default:
			d.forget(vi)
			// interval arithmetic for the non-negative cases that matter for indices
			lo, hi := int64(-bInf), int64(bInf)
			switch x.Op {
			case token.AND:
				if yl >= 0 && yh < bInf {
					lo, hi = 0, yh
				} else if xl >= 0 && xh < bInf {
					lo, hi = 0, xh
				}
			case token.SHR:
				if xl >= 0 {
					lo = 0
					if yC && yc >= 0 && yc < 62 && xh < bInf {
						hi = xh >> uint(yc)
					} else {
						hi = xh
					}
				}
			case token.QUO:
				if xl >= 0 && yl >= 1 {
					lo, hi = 0, xh
					if yC && xh < bInf {
						hi = xh / yc
						lo = xl / yc
					}
				}
			case token.REM:
				if xl >= 0 && yl >= 1 && yh < bInf {
					lo, hi = 0, yh-1
				}
			case token.MUL:
				if exact && xl >= 0 && yl >= 0 {
					lo = 0
					if xh < 1<<30 && yh < 1<<30 {
						hi = xh * yh
						lo = xl * yl
					}
				}
			case token.ADD:
				if exact && xl > -bInf && yl > -bInf {
					lo = badd(xl, yl)
				}
				if exact && xh < bInf && yh < bInf {
					hi = badd(xh, yh)
				}
			case token.SUB:
				if exact && xl > -bInf && yh < bInf {
					lo = badd(xl, -yh)
				}
				if exact && xh < bInf && yl > -bInf {
					hi = badd(xh, -yl)
				}
			case token.SHL:
				if exact && xl >= 0 && yC && yc >= 0 && yc < 30 && xh < 1<<30 {
					lo, hi = xl<<uint(yc), xh<<uint(yc)
				}
			}
			if lo > -bInf {
				d.add(0, vi, -lo)
			}
			if hi < bInf {
				d.add(vi, 0, hi)
			}
		}
		b.typeFacts(d, v)
	case *ssa.Convert:
		if vi, ok := b.vars[v]; ok {
			lo, hi := b.interval(d, x.X)
			tl, th, has := typeRange(v.Type())
			si, _, _ := b.intVar(x.X)
			fits := !has || (lo >= tl && hi <= th)
			if isAnyInt(x.X.Type()) && fits && si >= 0 && si != vi {
				d.assign(vi, si, 0)
			} else if isAnyInt(x.X.Type()) && fits && lo == hi {
				d.forget(vi)
				d.add(vi, 0, hi)
				d.add(0, vi, -lo)
			} else {
				d.forget(vi)
			}
			b.typeFacts(d, v)
			return
		}
		if isSliceLike(v.Type()) {
			if b.lenSrc(v) == v {
				b.forgetValue(d, v)
			} else if c := b.capVar(v); c >= 0 {
				d.forget(c)
			}
			b.typeFacts(d, v)
		}
	case *ssa.ChangeType:
		if vi, ok := b.vars[v]; ok {
			if si, _, _ := b.intVar(x.X); si >= 0 && si != vi {
				d.assign(vi, si, 0)
			} else {
				d.forget(vi)
			}
			b.typeFacts(d, v)
		}
	case *ssa.Slice:
		b.forgetValue(d, v)
		b.typeFacts(d, v)
		nl := b.lenVar(v)
		if nl < 0 {
			return
		}
		var srcLen, srcCap int = -1, -1
		var arrL int64 = -1
		if a, ok := arrayLen(x.X.Type()); ok {
			arrL = a
		} else {
			srcLen = b.lenVar(x.X)
			srcCap = b.capVar(x.X)
		}
		nc := b.capVar(v)
		// high
		if x.High != nil {
			if hi, hc, hC := b.intVar(x.High); hC {
				// len = hc - low
				if x.Low == nil {
					d.add(nl, 0, hc)
					d.add(0, nl, -hc)
				} else if li, _, lC := b.intVar(x.Low); !lC && li >= 0 {
					// len = hc - low
					lo, h := b.interval(d, x.Low)
					if lo > -bInf {
						d.add(nl, 0, hc-lo)
					}
					if h < bInf {
						d.add(0, nl, h-hc)
					}
				} else if lC {
					_, lc, _ := b.intVar(x.Low)
					d.add(nl, 0, hc-lc)
					d.add(0, nl, lc-hc)
				}
			} else if hi >= 0 {
				if x.Low == nil {
					d.assign(nl, hi, 0)
					d.add(0, nl, 0)
				} else if li, lc, lC := b.intVar(x.Low); lC {
					d.assign(nl, hi, -lc)
				} else if li >= 0 {
					// len = high - low
					hl, lh := d.get(hi, li), d.get(li, hi)
					if hl < bInf {
						d.add(nl, 0, hl)
					}
					if lh < bInf {
						d.add(0, nl, lh)
					}
					lo, _ := b.interval(d, x.Low)
					if lo > -bInf {
						d.add(nl, hi, -lo)
					}
				}
			}
		} else {
			// high = len(src)
			if x.Low == nil {
				if srcLen >= 0 {
					d.assign(nl, srcLen, 0)
				} else if arrL >= 0 {
					d.add(nl, 0, arrL)
					d.add(0, nl, -arrL)
				}
			} else if li, lc, lC := b.intVar(x.Low); lC {
				if srcLen >= 0 {
					d.assign(nl, srcLen, -lc)
				} else if arrL >= 0 {
					d.add(nl, 0, arrL-lc)
					d.add(0, nl, lc-arrL)
				}
			} else if li >= 0 && srcLen >= 0 {
				sl, ls := d.get(srcLen, li), d.get(li, srcLen)
				if sl < bInf {
					d.add(nl, 0, sl)
				}
				if ls < bInf {
					d.add(0, nl, ls)
				}
				lo, h := b.interval(d, x.Low)
				if lo > -bInf {
					d.add(nl, srcLen, -lo)
				}
				if h < bInf {
					d.add(srcLen, nl, h)
				}
			}
		}
		d.add(0, nl, 0)
		// capacity
		if nc >= 0 {
			if x.Max != nil {
				if mi, mc, mC := b.intVar(x.Max); mC {
					lo, _ := int64(0), 0
					if x.Low != nil {
						lo, _ = b.interval(d, x.Low)
					}
					if lo > -bInf {
						d.add(nc, 0, mc-lo)
					}
				} else if mi >= 0 {
					if x.Low == nil {
						d.assign(nc, mi, 0)
					} else if _, lc, lC := b.intVar(x.Low); lC {
						d.assign(nc, mi, -lc)
					} else {
						lo, _ := b.interval(d, x.Low)
						if lo > -bInf {
							d.add(nc, mi, -lo)
						}
					}
				}
			} else if srcCap >= 0 {
				if x.Low == nil {
					d.assign(nc, srcCap, 0)
				} else if _, lc, lC := b.intVar(x.Low); lC {
					d.assign(nc, srcCap, -lc)
				} else {
					lo, _ := b.interval(d, x.Low)
					if lo > -bInf {
						d.add(nc, srcCap, -lo)
					}
				}
			} else if arrL >= 0 {
				lo := int64(0)
				if x.Low != nil {
					lo, _ = b.interval(d, x.Low)
				}
				if lo > -bInf {
					d.add(nc, 0, arrL-lo)
				}
			}
			d.add(nl, nc, 0)
		}
	case *ssa.MakeSlice:
		b.forgetValue(d, v)
		nl, nc := b.lenVar(v), b.capVar(v)
		if li, lc, lC := b.intVar(x.Len); lC {
			d.add(nl, 0, lc)
			d.add(0, nl, -lc)
		} else if li >= 0 {
			d.assign(nl, li, 0)
		}
		if ci, cc, cC := b.intVar(x.Cap); cC {
			d.add(nc, 0, cc)
			d.add(0, nc, -cc)
		} else if ci >= 0 {
			d.assign(nc, ci, 0)
		}
		b.typeFacts(d, v)
	case *ssa.Call:
		b.transferCall(d, x)
	case *ssa.Extract:
		b.forgetValue(d, v)
		b.typeFacts(d, v)
		b.extractFacts(d, x)
	case *ssa.UnOp:
		b.forgetValue(d, v)
		b.typeFacts(d, v)
		if x.Op == token.MUL {
			if g, ok := x.X.(*ssa.Global); ok && b.glen != nil {
				if n, known := b.glen(g); known {
					if l := b.lenVar(v); l >= 0 {
						d.add(l, 0, n)
						d.add(0, l, -n)
					}
				}
			}
		}
		if lo, hi := b.interval(d, x.X); x.Op == token.SUB && (isExactInt(v.Type()) || isSignedInt(v.Type()) && smallRange(lo, hi)) {
			if vi, ok := b.vars[v]; ok {
				lo, hi := b.interval(d, x.X)
				if lo > -bInf {
					d.add(vi, 0, -lo)
				}
				if hi < bInf {
					d.add(0, vi, hi)
				}
			}
		}
	default:
		b.forgetValue(d, v)
		b.typeFacts(d, v)
	}
}

type boundsSummary struct {
	// constraints over [zero, len(param_i)/param_i ..., result_j / len(result_j), then the integer fields of
	// struct results (extra: result index, field index)]
	extra        [][2]int
	nparam, nres int
	m            *dbm // indices: 0 zero; 1..nparam params (int value or len); then results
	ok           bool
	// guarded facts: the same constraints joined only over the returns on which result ri can be true / non-nil
	// (val true) or false (val false) — `data, ok := z.take(k)`, `if data := z.readFixed(k); data != nil`.
	cond map[guardKey]*dbm
}

type guardKey struct {
	ri  int
	val bool
}

func (b *boundsFn) transferCall(d *dbm, c *ssa.Call) {
	v := ssa.Value(c)
	if bi, ok := c.Call.Value.(*ssa.Builtin); ok {
		switch bi.Name() {
		case "len", "cap":
			return // aliases, no own variable
		case "append":
			b.forgetValueKeep(d, v, func() {
				nl := b.lenVar(v)
				if nl < 0 {
					return
				}
				sl := b.lenVar(c.Call.Args[0])
				if len(c.Call.Args) == 2 && sl >= 0 {
					if al := b.lenVar(c.Call.Args[1]); al >= 0 {
						// len = len(s) + len(a)
						alo, ahi := -d.get(0, al), d.get(al, 0)
						if d.get(0, al) < bInf {
							d.add(sl, nl, -alo)
						}
						if ahi < bInf {
							d.add(nl, sl, ahi)
						}
						slo := -d.get(0, sl)
						if d.get(0, sl) < bInf {
							d.add(al, nl, -slo)
						}
					} else {
						d.add(sl, nl, 0)
					}
				}
			})
			return
		case "copy", "min", "max":
			b.forgetValue(d, v)
			b.typeFacts(d, v)
			if bi.Name() == "copy" {
				if vi, ok := b.vars[v]; ok {
					d.add(0, vi, 0)
					if l := b.lenVar(c.Call.Args[0]); l >= 0 {
						d.add(vi, l, 0)
					}
					if l := b.lenVar(c.Call.Args[1]); l >= 0 {
						d.add(vi, l, 0)
					}
				}
			}
			return
		}
	}
	// known library results
	if callee := c.Call.StaticCallee(); callee != nil {
		name := callee.String()
		switch name {
		case "bytes.IndexByte", "bytes.Index", "bytes.IndexAny", "bytes.LastIndexByte", "bytes.LastIndex", "bytes.IndexRune", "strings.IndexByte", "strings.Index":
			b.forgetValue(d, v)
			if vi, ok := b.vars[v]; ok {
				d.add(0, vi, 1) // >= -1
				if l := b.lenVar(c.Call.Args[0]); l >= 0 {
					d.add(vi, l, -1)
				}
			}
			return
		case "unicode/utf8.RuneLen":
			b.forgetValue(d, v)
			if vi, ok := b.vars[v]; ok {
				d.add(0, vi, 1)
				d.add(vi, 0, 4)
			}
			return
		case "unicode/utf8.EncodeRune":
			b.forgetValue(d, v)
			if vi, ok := b.vars[v]; ok {
				d.add(0, vi, -1)
				d.add(vi, 0, 4)
			}
			return
		case "(*encoding/base64.Encoding).DecodedLen", "(*encoding/base64.Encoding).EncodedLen", "encoding/hex.EncodedLen", "encoding/hex.DecodedLen":
			b.forgetValue(d, v)
			if vi, ok := b.vars[v]; ok {
				lo, _ := b.interval(d, c.Call.Args[len(c.Call.Args)-1])
				if lo >= 0 {
					d.add(0, vi, 0)
				}
			}
			return
		case "bytes.Count":
			b.forgetValue(d, v)
			if vi, ok := b.vars[v]; ok {
				d.add(0, vi, 0)
				if l := b.lenVar(c.Call.Args[0]); l >= 0 {
					d.add(vi, l, 1)
				}
			}
			return
		}
		if b.summC != nil && callee.Pkg != nil && core.InModule(callee.Pkg.Pkg) {
			if seed, key := b.callSeed(d, c); seed != nil {
				if s := b.summC(callee, seed, key); s != nil && s.ok {
					b.applySummary(d, c, s)
					return
				}
			}
		}
		if b.summ != nil && callee.Pkg != nil && core.InModule(callee.Pkg.Pkg) {
			if s := b.summ(callee); s != nil && s.ok {
				b.applySummary(d, c, s)
				return
			}
		}
	}
	b.forgetValue(d, v)
	b.typeFacts(d, v)
	for _, f := range intFields(v.Type()) {
		if fv, has := b.vars[sfieldKey{v, f}]; has {
			d.forget(fv)
			b.fieldTypeFacts(d, fv, v.Type(), f)
		}
	}
}

func (b *boundsFn) forgetValueKeep(d *dbm, v ssa.Value, then func()) {
	b.forgetValue(d, v)
	b.typeFacts(d, v)
	then()
}

// extractFacts: results of tuple-valued calls
func (b *boundsFn) extractFacts(d *dbm, x *ssa.Extract) {
	switch t := x.Tuple.(type) {
	case *ssa.Next:
		// range over string: index in [0, len)
		if rng, ok := t.Iter.(*ssa.Range); ok && t.IsString && x.Index == 1 {
			if vi, ok2 := b.vars[ssa.Value(x)]; ok2 {
				d.add(0, vi, 0)
				if l := b.lenVar(rng.X); l >= 0 {
					d.add(vi, l, -1)
				}
			}
		}
	case *ssa.Call:
		callee := t.Call.StaticCallee()
		if callee == nil {
			return
		}
		switch callee.String() {
		case "(*encoding/base64.Encoding).Decode", "encoding/hex.Decode":
			// n <= len(dst)
			if x.Index == 0 {
				if vi, ok := b.vars[ssa.Value(x)]; ok {
					d.add(0, vi, 0)
					if l := b.lenVar(t.Call.Args[len(t.Call.Args)-2]); l >= 0 {
						d.add(vi, l, 0)
					}
				}
			}
			return
		case "unicode/utf8.DecodeRune", "unicode/utf8.DecodeRuneInString", "unicode/utf8.DecodeLastRune":
			if x.Index == 1 {
				if vi, ok := b.vars[ssa.Value(x)]; ok {
					d.add(0, vi, 0)
					d.add(vi, 0, 4)
					if l := b.lenVar(t.Call.Args[0]); l >= 0 {
						d.add(vi, l, 0)
					}
				}
			}
			return
		}
		if b.summC != nil && callee.Pkg != nil && core.InModule(callee.Pkg.Pkg) {
			if seed, key := b.callSeed(d, t); seed != nil {
				if s := b.summC(callee, seed, key); s != nil && s.ok {
					b.applySummaryResult(d, t, s, x.Index, ssa.Value(x))
					return
				}
			}
		}
		if b.summ != nil && callee.Pkg != nil && core.InModule(callee.Pkg.Pkg) {
			if s := b.summ(callee); s != nil && s.ok {
				b.applySummaryResult(d, t, s, x.Index, ssa.Value(x))
			}
		}
	}
}

// summary variable of an actual/formal: int value or len of slice; -1 if neither
func (b *boundsFn) summaryVarOfValue(v ssa.Value) (int, int64, bool) {
	if isSliceLike(v.Type()) {
		return b.lenVar(v), 0, false
	}
	if isAnyInt(v.Type()) {
		return b.intVar(v)
	}
	return -1, 0, false
}

func (b *boundsFn) applySummary(d *dbm, c *ssa.Call, s *boundsSummary) {
	v := ssa.Value(c)
	b.forgetValue(d, v)
	b.typeFacts(d, v)
	for _, f := range intFields(v.Type()) {
		if fv, has := b.vars[sfieldKey{v, f}]; has {
			d.forget(fv)
			b.fieldTypeFacts(d, fv, v.Type(), f)
		}
	}
	if s.nres == 1 {
		b.applySummaryResult(d, c, s, 0, v)
	}
}

func (b *boundsFn) applySummaryResult(d *dbm, c *ssa.Call, s *boundsSummary, ri int, res ssa.Value) {
	b.applySummaryMatrix(d, c, s, s.m, ri, res)
}

func (b *boundsFn) applySummaryMatrix(d *dbm, c *ssa.Call, s *boundsSummary, m *dbm, ri int, res ssa.Value) {
	if m == nil || ri >= s.nres {
		return
	}
	// integer fields of a struct result
	for xi, e := range s.extra {
		if e[0] != ri {
			continue
		}
		if fv, has := b.vars[sfieldKey{res, e[1]}]; has {
			d.forget(fv)
			b.fieldTypeFacts(d, fv, res.Type(), e[1])
			b.applySummarySlot(d, c, s, m, 1+s.nparam+s.nres+xi, fv)
		}
	}
	rv, _, _ := b.summaryVarOfValue(res)
	if rv < 0 {
		return
	}
	b.applySummarySlot(d, c, s, m, 1+s.nparam+ri, rv)
}

func (b *boundsFn) applySummarySlot(d *dbm, c *ssa.Call, s *boundsSummary, m *dbm, sr, rv int) {
	// against zero
	if x := m.get(sr, 0); x < bInf {
		d.add(rv, 0, x)
	}
	if x := m.get(0, sr); x < bInf {
		d.add(0, rv, x)
	}
	for pi, a := range c.Call.Args {
		if pi >= s.nparam {
			break
		}
		av, ac, aC := b.summaryVarOfValue(a)
		sp := 1 + pi
		if x := m.get(sr, sp); x < bInf {
			if aC {
				d.add(rv, 0, x+ac)
			} else if av >= 0 {
				d.add(rv, av, x)
			}
		}
		if x := m.get(sp, sr); x < bInf {
			if aC {
				d.add(0, rv, x-ac)
			} else if av >= 0 {
				d.add(av, rv, x)
			}
		}
	}
}

// callSeed: what the caller's matrix says about the arguments of a call (pairwise differences among zero and the
// arguments' values / lengths), as entry constraints for a context-sensitive analysis of the callee.
func (b *boundsFn) callSeed(d *dbm, c *ssa.Call) ([][3]int64, string) {
	type ent struct {
		v int
		c int64
		k bool
	}
	ents := []ent{{v: 0}}
	for _, a := range c.Call.Args {
		vi, cc, k := b.summaryVarOfValue(a)
		ents = append(ents, ent{vi, cc, k})
	}
	var seed [][3]int64
	var sb strings.Builder
	for i := range ents {
		for j := range ents {
			if i == j {
				continue
			}
			a, cc := ents[i], ents[j]
			var bound int64 = bInf
			switch {
			case a.k && cc.k:
				bound = a.c - cc.c
			case a.k && cc.v >= 0:
				bound = badd(a.c, d.get(0, cc.v))
			case cc.k && a.v >= 0:
				bound = badd(d.get(a.v, 0), -cc.c)
			case a.v >= 0 && cc.v >= 0:
				if a.v == cc.v {
					bound = 0
				} else {
					bound = d.get(a.v, cc.v)
				}
			case a.v == 0 && !a.k && cc.v >= 0:
				bound = d.get(0, cc.v)
			}
			if bound < bInf {
				// keep the seed small and the cache effective: only bounds in a small range matter for indices
				if bound > 64 {
					continue
				}
				if bound < -64 {
					bound = -64
				}
				seed = append(seed, [3]int64{int64(i), int64(j), bound})
				fmt.Fprintf(&sb, "%d,%d,%d;", i, j, bound)
			}
		}
	}
	if len(seed) == 0 {
		return nil, ""
	}
	return seed, sb.String()
}

// refine d with the condition cond == truth
func (b *boundsFn) refine(d *dbm, cond ssa.Value, truth bool) {
	if d.bottom {
		return
	}
	switch c := cond.(type) {
	case *ssa.UnOp:
		if c.Op == token.NOT {
			b.refine(d, c.X, !truth)
		}
		return
	case *ssa.Const:
		if c.Value != nil && c.Value.Kind() == constant.Bool && constant.BoolVal(c.Value) != truth {
			d.bottom = true
		}
		return
	case *ssa.Extract:
		if call, ok := c.Tuple.(*ssa.Call); ok {
			b.applyGuard(d, call, c.Index, truth)
		}
		return
	case *ssa.Call:
		// a module predicate: what it guarantees about its arguments when it answers truth
		if c.Call.Signature().Results().Len() == 1 {
			b.applyGuardArgs(d, c, truth)
		}
		return
	case *ssa.BinOp:
		if !isAnyInt(c.X.Type()) {
			// x != nil for a slice (or pointer) that a module function returned
			if c.Op == token.EQL || c.Op == token.NEQ {
				x, y := c.X, c.Y
				if k, isK := x.(*ssa.Const); isK && k.Value == nil {
					x, y = y, x
				}
				if k, isK := y.(*ssa.Const); isK && k.Value == nil && (c.Op == token.NEQ) == truth {
					switch o := x.(type) {
					case *ssa.Call:
						b.applyGuard(d, o, 0, true)
					case *ssa.Extract:
						if call, ok := o.Tuple.(*ssa.Call); ok {
							b.applyGuard(d, call, o.Index, true)
						}
					}
				}
			}
			return
		}
		op := c.Op
		if !truth {
			switch op {
			case token.LSS:
				op = token.GEQ
			case token.LEQ:
				op = token.GTR
			case token.GTR:
				op = token.LEQ
			case token.GEQ:
				op = token.LSS
			case token.EQL:
				op = token.NEQ
			case token.NEQ:
				op = token.EQL
			default:
				return
			}
		}
		b.refineCmp(d, op, c.X, c.Y)
	case *ssa.Phi:
		// a && b / a || b used as a value (`return len(l) == 1 && isStar(l[0])`): the atoms that must hold
		// the operands of the deciding comparison were computed in the block the value came from (binop.rhs: t = i+2;
		// t < len(b)); at the join in front of the φ their definitions were lost (the other edge never computed them):
		// coming through that edge they hold — re-establish them before the comparison is applied
		var pred *ssa.BasicBlock
		nlive := 0
		for i, e := range c.Edges {
			if k, ok := e.(*ssa.Const); ok && k.Value != nil {
				if k.Value.String() == "true" && !truth || k.Value.String() == "false" && truth {
					continue
				}
			}
			nlive++
			if i < len(c.Block().Preds) {
				pred = c.Block().Preds[i]
			}
		}
		for _, a := range condAtoms(c, truth, 0) {
			if a.call == nil && a.x != nil && a.y != nil && isAnyInt(a.x.Type()) {
				if nlive == 1 && pred != nil {
					for _, op := range []ssa.Value{a.x, a.y} {
						if bo, ok := op.(*ssa.BinOp); ok && bo.Block() == pred && (bo.Op == token.ADD || bo.Op == token.SUB) {
							b.transfer(d, bo)
						}
					}
				}
				b.refineCmp(d, a.op, a.x, a.y)
			}
		}
	}
}

// refineCmp: x op y holds.
func (b *boundsFn) refineCmp(d *dbm, op token.Token, x, y ssa.Value) {
	switch op {
	case token.LSS:
		b.le(d, x, y, -1)
	case token.LEQ:
		b.le(d, x, y, 0)
	case token.GTR:
		b.le(d, y, x, -1)
	case token.GEQ:
		b.le(d, y, x, 0)
	case token.EQL:
		b.le(d, x, y, 0)
		b.le(d, y, x, 0)
	case token.NEQ:
		// tighten when one side is at the boundary of the other
		xi, xc, xC := b.intVar(x)
		yi, yc, yC := b.intVar(y)
		switch {
		case xC && yC:
			if xc == yc {
				d.bottom = true
			}
		case xC && yi >= 0:
			b.neqConst(d, yi, xc)
		case yC && xi >= 0:
			b.neqConst(d, xi, yc)
		case xi >= 0 && yi >= 0:
			if d.get(xi, yi) == 0 {
				d.add(xi, yi, -1)
			} else if d.get(yi, xi) == 0 {
				d.add(yi, xi, -1)
			}
		}
	}
}

// summaryAt: the (contextual, else context-free) summary of the module function called by c.
func (b *boundsFn) summaryAt(d *dbm, c *ssa.Call) *boundsSummary {
	callee := c.Call.StaticCallee()
	if callee == nil || callee.Pkg == nil || !core.InModule(callee.Pkg.Pkg) {
		return nil
	}
	if b.summC != nil {
		if seed, key := b.callSeed(d, c); seed != nil {
			if s := b.summC(callee, seed, key); s != nil && s.ok {
				return s
			}
		}
	}
	if b.summ != nil {
		if s := b.summ(callee); s != nil && s.ok {
			return s
		}
	}
	return nil
}

// applyGuard: result ri of call c is known true / non-nil (val) or false: add what the callee guarantees about
// all its results on the returns where that can be the case.
func (b *boundsFn) applyGuard(d *dbm, c *ssa.Call, ri int, val bool) {
	s := b.summaryAt(d, c)
	if s == nil || s.cond == nil {
		return
	}
	m := s.cond[guardKey{ri, val}]
	if m == nil {
		return
	}
	if s.nres == 1 {
		b.applySummaryMatrix(d, c, s, m, 0, c)
		return
	}
	for _, ref := range *c.Referrers() {
		if x, ok := ref.(*ssa.Extract); ok {
			b.applySummaryMatrix(d, c, s, m, x.Index, x)
		}
	}
}

// applyGuardArgs: a single-result predicate answered val: the relations among zero and its arguments that hold on
// every return that can produce val.
func (b *boundsFn) applyGuardArgs(d *dbm, c *ssa.Call, val bool) {
	s := b.summaryAt(d, c)
	if s == nil || s.cond == nil {
		return
	}
	m := s.cond[guardKey{0, val}]
	if m == nil {
		return
	}
	type ent struct {
		v int
		c int64
		k bool
	}
	ents := []ent{{v: 0}}
	for i, a := range c.Call.Args {
		if i >= s.nparam {
			break
		}
		vi, cc, k := b.summaryVarOfValue(a)
		ents = append(ents, ent{vi, cc, k})
	}
	for i := range ents {
		for j := range ents {
			if i == j {
				continue
			}
			x := m.get(i, j) // v_i - v_j <= x
			if x >= bInf {
				continue
			}
			a, e := ents[i], ents[j]
			switch {
			case a.k && e.k:
			case a.k && e.v >= 0:
				d.add(0, e.v, x-a.c)
			case e.k && a.v >= 0:
				d.add(a.v, 0, x+e.c)
			case a.v >= 0 && e.v >= 0 && a.v != e.v:
				d.add(a.v, e.v, x)
			}
		}
	}
}

func (b *boundsFn) neqConst(d *dbm, vi int, c int64) {
	if d.get(vi, 0) == c {
		d.add(vi, 0, c-1)
	} else if d.get(0, vi) == -c {
		d.add(0, vi, -c-1)
	}
}

// state flowing along the edge pred -> succ (before phi assignment)
func (b *boundsFn) edgeState(out *dbm, pred, succ *ssa.BasicBlock) *dbm {
	d := out.clone()
	if iff, ok := lastInstr(pred).(*ssa.If); ok && pred.Succs[0] != pred.Succs[1] {
		if pred.Succs[0] == succ {
			b.refine(d, iff.Cond, true)
		} else {
			b.refine(d, iff.Cond, false)
		}
	}
	if d.bottom {
		return d
	}
	// phi assignments (parallel)
	idx := -1
	for i, p := range succ.Preds {
		if p == pred {
			idx = i
		}
	}
	var phis []*ssa.Phi
	for _, in := range succ.Instrs {
		if ph, ok := in.(*ssa.Phi); ok {
			phis = append(phis, ph)
		} else {
			break
		}
	}
	if len(phis) == 0 {
		return d
	}
	src := d.clone()
	for _, ph := range phis {
		e := ph.Edges[idx]
		v := ssa.Value(ph)
		if vi, ok := b.vars[v]; ok {
			ei, ec, eC := b.intVar(e)
			d.forget(vi)
			switch {
			case eC:
				d.add(vi, 0, ec)
				d.add(0, vi, -ec)
			case ei >= 0 && ei != vi:
				// read from the state before any phi assignment
				for q := 0; q < d.n; q++ {
					if q == vi {
						continue
					}
					if _, qIsPhi := b.phiVar(phis, q); qIsPhi {
						continue
					}
					if x := src.get(ei, q); x < bInf {
						d.add(vi, q, x)
					}
					if x := src.get(q, ei); x < bInf {
						d.add(q, vi, x)
					}
				}
				if _, eIsPhi := b.phiVar(phis, ei); !eIsPhi {
					d.add(vi, ei, 0)
					d.add(ei, vi, 0)
				}
			case ei == vi:
				// unchanged: restore from src
				for q := 0; q < d.n; q++ {
					if _, qIsPhi := b.phiVar(phis, q); qIsPhi && q != vi {
						continue
					}
					if x := src.get(vi, q); x < bInf {
						d.add(vi, q, x)
					}
					if x := src.get(q, vi); x < bInf {
						d.add(q, vi, x)
					}
				}
			}
			b.typeFacts(d, v)
		}
		if isSliceLike(v.Type()) {
			nl := b.lenVar(v)
			el := b.lenVar(e)
			if nl >= 0 && b.lenSrc(v) == v {
				d.forget(nl)
				if k, isK := e.(*ssa.Const); isK {
					n := int64(0)
					if k.Value != nil && k.Value.Kind() == constant.String {
						n = int64(len(constant.StringVal(k.Value)))
					}
					d.add(nl, 0, n)
					d.add(0, nl, -n)
				} else if el >= 0 && el != nl {
					for q := 0; q < d.n; q++ {
						if q == nl {
							continue
						}
						if _, qIsPhi := b.phiVar(phis, q); qIsPhi {
							continue
						}
						if x := src.get(el, q); x < bInf {
							d.add(nl, q, x)
						}
						if x := src.get(q, el); x < bInf {
							d.add(q, nl, x)
						}
					}
					if _, eIsPhi := b.phiVar(phis, el); !eIsPhi {
						d.add(nl, el, 0)
						d.add(el, nl, 0)
					}
				} else if el == nl {
					for q := 0; q < d.n; q++ {
						if x := src.get(nl, q); x < bInf {
							d.add(nl, q, x)
						}
						if x := src.get(q, nl); x < bInf {
							d.add(q, nl, x)
						}
					}
				}
				d.add(0, nl, 0)
			}
			if nc := b.capVar(v); nc >= 0 {
				d.forget(nc)
				if ec := b.capVar(e); ec >= 0 && ec != nc {
					if _, isPhiVar := b.phiVar(phis, ec); !isPhiVar {
						d.assign(nc, ec, 0)
					}
				}
				if nl >= 0 {
					d.add(nl, nc, 0)
				}
			}
		}
	}
	return d
}

// phiVar: is DBM variable q the (int/len/cap) variable of one of these phis?
func (b *boundsFn) phiVar(phis []*ssa.Phi, q int) (*ssa.Phi, bool) {
	for _, ph := range phis {
		v := ssa.Value(ph)
		if i, ok := b.vars[v]; ok && i == q {
			return ph, true
		}
		if isSliceLike(v.Type()) {
			if b.lenSrc(v) == v {
				if i, ok := b.vars[lenKey{v}]; ok && i == q {
					return ph, true
				}
			}
			if i, ok := b.vars[capKey{v}]; ok && i == q {
				return ph, true
			}
		}
	}
	return nil, false
}

func (b *boundsFn) entryState() *dbm {
	d := newDBM(len(b.names))
	for _, p := range b.fn.Params {
		b.typeFacts(d, p)
	}
	for _, p := range b.fn.FreeVars {
		b.typeFacts(d, p)
	}
	for v := range b.pure {
		b.typeFacts(d, v)
	}
	// facts the caller established about the arguments
	ent := func(i int64) (int, int64, bool) {
		if i == 0 {
			return 0, 0, false
		}
		if int(i-1) < len(b.fn.Params) {
			return b.summaryVarOfValue(b.fn.Params[i-1])
		}
		return -1, 0, false
	}
	for _, c := range b.seed {
		vi, _, _ := ent(c[0])
		vj, _, _ := ent(c[1])
		if vi >= 0 && vj >= 0 && vi != vj {
			d.add(vi, vj, c[2])
		}
	}
	return d
}

func (b *boundsFn) analyse() {
	b.collectVars()
	b.in = map[*ssa.BasicBlock]*dbm{}
	b.visits = map[*ssa.BasicBlock]int{}
	// loop heads: targets of back edges (DFS)
	b.heads = map[*ssa.BasicBlock]bool{}
	state := map[*ssa.BasicBlock]int{}
	var order []*ssa.BasicBlock
	var dfs func(x *ssa.BasicBlock)
	dfs = func(x *ssa.BasicBlock) {
		state[x] = 1
		for _, s := range x.Succs {
			if state[s] == 1 {
				b.heads[s] = true
			} else if state[s] == 0 {
				dfs(s)
			}
		}
		state[x] = 2
		order = append(order, x)
	}
	if len(b.fn.Blocks) == 0 {
		return
	}
	dfs(b.fn.Blocks[0])
	for i, j := 0, len(order)-1; i < j; i, j = i+1, j-1 {
		order[i], order[j] = order[j], order[i]
	}
	rpo := map[*ssa.BasicBlock]int{}
	for i, x := range order {
		rpo[x] = i
	}
	out := map[*ssa.BasicBlock]*dbm{}
	b.in[b.fn.Blocks[0]] = b.entryState()
	dirty := map[*ssa.BasicBlock]bool{b.fn.Blocks[0]: true}
	for iter := 0; iter < 400+200*len(b.fn.Blocks) && len(dirty) > 0; iter++ {
		// pick the dirty block with the smallest rpo
		var blk *ssa.BasicBlock
		for x := range dirty {
			if blk == nil || rpo[x] < rpo[blk] {
				blk = x
			}
		}
		delete(dirty, blk)
		d := b.in[blk].clone()
		for _, in := range blk.Instrs {
			b.transfer(d, in)
		}
		out[blk] = d
		for _, s := range blk.Succs {
			es := b.edgeState(d, blk, s)
			if es.bottom {
				continue
			}
			old := b.in[s]
			if old == nil {
				b.in[s] = es
				dirty[s] = true
				continue
			}
			if es.leq(old) {
				continue
			}
			var nw *dbm
			b.visits[s]++
			if b.heads[s] && b.visits[s] > 3 {
				nw = old.widen(old.join(es))
			} else {
				nw = old.join(es)
			}
			b.in[s] = nw
			dirty[s] = true
		}
	}
	if len(dirty) > 0 {
		b.unconverged = true
	}
	if dbg := os.Getenv("PCHECK_BDEBUG"); dbg != "" && dbg == b.fn.Name() {
		for _, blk := range b.fn.Blocks {
			d := b.in[blk]
			if d == nil {
				continue
			}
			fmt.Fprintf(os.Stderr, "block %d (%s) visits=%d head=%v\n", blk.Index, blk.Comment, b.visits[blk], b.heads[blk])
			for i := 0; i < d.n; i++ {
				for j := 0; j < d.n; j++ {
					if i != j && d.get(i, j) < bInf/2 {
						ni, nj := "0", "0"
						if i > 0 {
							ni = b.names[i]
						}
						if j > 0 {
							nj = b.names[j]
						}
						fmt.Fprintf(os.Stderr, "    %s - %s <= %d\n", ni, nj, d.get(i, j))
					}
				}
			}
		}
	}
}

// ---------------------------------------------------------------------------

type boundsOb struct {
	key    string
	pos    token.Pos
	ok     bool
	detail string
	in     ssa.Instruction
}

func (b *boundsFn) obligations() []boundsOb {
	obs := b.obligations0()
	if b.unconverged {
		for i := range obs {
			if obs[i].ok {
				obs[i].ok = false
				obs[i].detail = "the analysis of this function did not reach a fixpoint within its iteration budget: its block states are not invariants"
			}
		}
	}
	return obs
}

func (b *boundsFn) obligations0() []boundsOb {
	var obs []boundsOb
	count := map[string]int{}
	for _, blk := range b.fn.Blocks {
		d0 := b.in[blk]
		if d0 == nil {
			continue // unreachable
		}
		d := d0.clone()
		for _, in := range blk.Instrs {
			if !d.bottom {
				switch x := in.(type) {
				case *ssa.IndexAddr:
					obs = append(obs, b.indexOb(d, in, x.X, x.Index, count))
				case *ssa.Index:
					obs = append(obs, b.indexOb(d, in, x.X, x.Index, count))
				case *ssa.Lookup:
					if isSliceLike(x.X.Type()) {
						obs = append(obs, b.indexOb(d, in, x.X, x.Index, count))
					}
				case *ssa.Slice:
					obs = append(obs, b.sliceOb(d, x, count))
				}
			}
			b.transfer(d, in)
		}
	}
	return obs
}

func (b *boundsFn) describe(v ssa.Value) string {
	if v == nil {
		return ""
	}
	if k, ok := v.(*ssa.Const); ok {
		return k.Value.ExactString()
	}
	s := canon(v)
	if len(s) > 40 {
		s = s[:40]
	}
	return s
}

func (b *boundsFn) indexOb(d *dbm, in ssa.Instruction, x, idx ssa.Value, count map[string]int) boundsOb {
	what := fmt.Sprintf("%s index %s[%s]", fnLabel(b.fn), b.describe(x), b.describe(idx))
	count[what]++
	key := fmt.Sprintf("%s #%d", what, count[what])
	lo, hi := b.interval(d, idx)
	okLo := lo >= 0
	okHi := false
	var bound string
	if n, isArr := arrayLen(x.Type()); isArr {
		okHi = hi < n
		bound = fmt.Sprintf("%d", n)
	} else if k, isK := x.(*ssa.Const); isK && k.Value != nil && k.Value.Kind() == constant.String {
		n := int64(len(constant.StringVal(k.Value)))
		okHi = hi < n
		bound = fmt.Sprintf("%d", n)
	} else {
		l := b.lenVar(x)
		ii, ic, iC := b.intVar(idx)
		bound = "len"
		if l >= 0 {
			if iC {
				okHi = d.get(0, l) <= -(ic + 1) // len >= ic+1
			} else if ii >= 0 {
				okHi = d.get(ii, l) <= -1
			}
		}
	}
	ob := boundsOb{key: key, pos: in.Pos(), ok: okLo && okHi, in: in}
	if !ob.ok {
		ob.detail = fmt.Sprintf("cannot show 0 <= index < %s on every path: index in [%s, %s] relative to zero; lower bound %v, upper bound %v", bound, fmtB(lo), fmtB(hi), okLo, okHi)
	}
	return ob
}

func fmtB(x int64) string {
	if x >= bInf {
		return "+inf"
	}
	if x <= -bInf {
		return "-inf"
	}
	return fmt.Sprintf("%d", x)
}

func (b *boundsFn) sliceOb(d *dbm, x *ssa.Slice, count map[string]int) boundsOb {
	what := fmt.Sprintf("%s slice %s[%s:%s]", fnLabel(b.fn), b.describe(x.X), b.describe(x.Low), b.describe(x.High))
	count[what]++
	key := fmt.Sprintf("%s #%d", what, count[what])
	// upper limit: cap for slices (len for strings), array length for arrays
	var limVar int = -1
	var limConst int64 = -1
	isStr := false
	if n, isArr := arrayLen(x.X.Type()); isArr {
		limConst = n
	} else if _, isSl := x.X.Type().Underlying().(*types.Slice); isSl {
		limVar = b.capVar(x.X)
	} else {
		limVar = b.lenVar(x.X)
		isStr = true
	}
	_ = isStr
	leLimit := func(v ssa.Value) bool { // v <= limit
		vi, vc, vC := b.intVar(v)
		if limConst >= 0 {
			_, hi := b.interval(d, v)
			return hi <= limConst
		}
		if limVar < 0 {
			return false
		}
		if vC {
			return d.get(0, limVar) <= -vc
		}
		if vi >= 0 {
			if d.get(vi, limVar) <= 0 {
				return true
			}
			// through len <= cap
			if l := b.lenVar(x.X); l >= 0 && d.get(vi, l) <= 0 {
				return true
			}
		}
		return false
	}
	leVals := func(a, c ssa.Value) bool { // a <= c
		ai, ac, aC := b.intVar(a)
		ci, cc, cC := b.intVar(c)
		switch {
		case aC && cC:
			return ac <= cc
		case aC && ci >= 0:
			return d.get(0, ci) <= -ac
		case cC && ai >= 0:
			return d.get(ai, 0) <= cc
		case ai >= 0 && ci >= 0:
			return d.get(ai, ci) <= 0
		}
		return false
	}
	ok := true
	var why []string
	if x.Low != nil {
		lo, _ := b.interval(d, x.Low)
		if lo < 0 {
			ok = false
			why = append(why, "low may be negative")
		}
	}
	top := x.High
	if x.Max != nil {
		top = x.Max
		if x.High != nil && !leVals(x.High, x.Max) {
			ok = false
			why = append(why, "high <= max not shown")
		}
	}
	if top != nil {
		if !leLimit(top) {
			ok = false
			why = append(why, "high/max <= cap not shown")
		}
		lo, _ := b.interval(d, top)
		if x.Low == nil && lo < 0 {
			ok = false
			why = append(why, "high may be negative")
		}
	}
	if x.Low != nil {
		if x.High != nil {
			if !leVals(x.Low, x.High) {
				ok = false
				why = append(why, "low <= high not shown")
			}
		} else {
			// low <= len(x)
			l := b.lenVar(x.X)
			li, lc, lC := b.intVar(x.Low)
			good := false
			if n, isArr := arrayLen(x.X.Type()); isArr {
				_, hi := b.interval(d, x.Low)
				good = hi <= n
			} else if l >= 0 {
				if lC {
					good = d.get(0, l) <= -lc
				} else if li >= 0 {
					good = d.get(li, l) <= 0
				}
			}
			if !good {
				ok = false
				why = append(why, "low <= len not shown")
			}
		}
	}
	ob := boundsOb{key: key, pos: x.Pos(), ok: ok, in: x}
	if !ok {
		ob.detail = "cannot show the slice bounds are in range on every path: " + strings.Join(why, "; ")
	}
	return ob
}

// summary of fn over zero, params, results
// fieldVarType: basic facts of a struct field variable.
func (b *boundsFn) fieldTypeFacts(d *dbm, vi int, t types.Type, f int) {
	st, ok := t.Underlying().(*types.Struct)
	if !ok || f >= st.NumFields() {
		return
	}
	if lo, hi, has := typeRange(st.Field(f).Type()); has {
		d.add(0, vi, -lo)
		if hi < bInf {
			d.add(vi, 0, hi)
		}
	}
}

// transferStore: stores into a local struct cell (strong updates: the cell's address does not escape).
func (b *boundsFn) transferStore(d *dbm, st *ssa.Store) {
	if fa, ok := st.Addr.(*ssa.FieldAddr); ok {
		if a, isA := fa.X.(*ssa.Alloc); isA && b.cells[a] != nil {
			ci, has := b.vars[cellKey{a, fa.Field}]
			if !has {
				return
			}
			vi, c, isC := b.intVar(st.Val)
			switch {
			case isC:
				d.forget(ci)
				d.add(ci, 0, c)
				d.add(0, ci, -c)
			case vi >= 0:
				d.assign(ci, vi, 0)
			default:
				d.forget(ci)
				b.fieldTypeFacts(d, ci, derefType(a.Type()), fa.Field)
			}
		}
		return
	}
	if a, isA := st.Addr.(*ssa.Alloc); isA && b.cells[a] != nil {
		for _, f := range b.cells[a] {
			ci := b.vars[cellKey{a, f}]
			if k, isK := st.Val.(*ssa.Const); isK && k.Value == nil {
				d.forget(ci)
				d.add(ci, 0, 0)
				d.add(0, ci, 0)
				continue
			}
			if src, has := b.vars[sfieldKey{st.Val, f}]; has {
				d.assign(ci, src, 0)
			} else {
				d.forget(ci)
				b.fieldTypeFacts(d, ci, derefType(a.Type()), f)
			}
		}
	}
}

// transferCell: value instructions that read or create local struct cells / struct values. Reports whether the
// instruction was handled completely.
func (b *boundsFn) transferCell(d *dbm, in ssa.Instruction) bool {
	switch x := in.(type) {
	case *ssa.Alloc:
		for _, f := range b.cells[x] {
			ci := b.vars[cellKey{x, f}]
			d.forget(ci)
			d.add(ci, 0, 0)
			d.add(0, ci, 0)
		}
		return false
	case *ssa.UnOp:
		if x.Op != token.MUL {
			return false
		}
		if fa, ok := x.X.(*ssa.FieldAddr); ok {
			if a, isA := fa.X.(*ssa.Alloc); isA && b.cells[a] != nil {
				if ci, has := b.vars[cellKey{a, fa.Field}]; has {
					if vi, ok2 := b.vars[ssa.Value(x)]; ok2 {
						d.assign(vi, ci, 0)
						return true
					}
				}
			}
			return false
		}
		if a, isA := x.X.(*ssa.Alloc); isA && b.cells[a] != nil {
			for _, f := range b.cells[a] {
				if vi, has := b.vars[sfieldKey{ssa.Value(x), f}]; has {
					d.assign(vi, b.vars[cellKey{a, f}], 0)
				}
			}
			return true
		}
		// a struct value loaded from somewhere else: nothing known about its fields
		for _, f := range intFields(x.Type()) {
			if vi, has := b.vars[sfieldKey{ssa.Value(x), f}]; has {
				d.forget(vi)
				b.fieldTypeFacts(d, vi, x.Type(), f)
			}
		}
		return false
	case *ssa.Field:
		if src, has := b.vars[sfieldKey{x.X, x.Field}]; has {
			if vi, ok := b.vars[ssa.Value(x)]; ok {
				d.assign(vi, src, 0)
				return true
			}
		}
	}
	return false
}

func (b *boundsFn) summary() *boundsSummary {
	sig := b.fn.Signature
	s := &boundsSummary{nparam: len(b.fn.Params), nres: sig.Results().Len()}
	for j := 0; j < sig.Results().Len(); j++ {
		for _, f := range intFields(sig.Results().At(j).Type()) {
			s.extra = append(s.extra, [2]int{j, f})
		}
	}
	n := 1 + s.nparam + s.nres + len(s.extra)
	var acc *dbm
	for _, blk := range b.fn.Blocks {
		ret, ok := lastInstr(blk).(*ssa.Return)
		if !ok || b.in[blk] == nil {
			continue
		}
		d := b.in[blk].clone()
		for _, in := range blk.Instrs {
			b.transfer(d, in)
		}
		if d.bottom {
			continue
		}
		project := func(d *dbm) *dbm {
			p := newDBM(n)
			type ent struct {
				v int
				c int64
				k bool
			}
			ents := make([]ent, n)
			ents[0] = ent{v: 0}
			for i, prm := range b.fn.Params {
				vi, c, k := b.summaryVarOfValue(prm)
				ents[1+i] = ent{vi, c, k}
			}
			for i, rv := range ret.Results {
				vi, c, k := b.summaryVarOfValue(rv)
				ents[1+s.nparam+i] = ent{vi, c, k}
			}
			for xi, e := range s.extra {
				ents[1+s.nparam+s.nres+xi] = ent{v: -1}
				if e[0] < len(ret.Results) {
					if vi, has := b.vars[sfieldKey{ret.Results[e[0]], e[1]}]; has {
						ents[1+s.nparam+s.nres+xi] = ent{v: vi}
					}
				}
			}
			for i := 0; i < n; i++ {
				for j := 0; j < n; j++ {
					if i == j {
						continue
					}
					a, c := ents[i], ents[j]
					var bound int64 = bInf
					switch {
					case a.k && c.k:
						bound = a.c - c.c
					case a.k && c.v >= 0:
						bound = badd(a.c, d.get(0, c.v))
					case c.k && a.v >= 0:
						bound = badd(d.get(a.v, 0), -c.c)
					case a.v >= 0 && c.v >= 0:
						bound = d.get(a.v, c.v)
					}
					p.m[i*n+j] = bound
				}
			}
			return p
		}
		p := project(d)
		joinCond := func(k guardKey, q *dbm) {
			if s.cond == nil {
				s.cond = map[guardKey]*dbm{}
			}
			if old := s.cond[k]; old != nil {
				s.cond[k] = old.join(q)
			} else {
				s.cond[k] = q
			}
		}
		for i, rv := range ret.Results {
			switch t := rv.Type().Underlying().(type) {
			case *types.Basic:
				if t.Kind() != types.Bool {
					continue
				}
				for _, val := range []bool{true, false} {
					d2 := d.clone()
					b.refine(d2, rv, val)
					if !d2.bottom {
						joinCond(guardKey{i, val}, project(d2))
					}
				}
			case *types.Slice, *types.Pointer:
				if k, isK := rv.(*ssa.Const); isK && k.Value == nil {
					continue // nil on this return
				}
				joinCond(guardKey{i, true}, p)
			}
		}
		if acc == nil {
			acc = p
		} else {
			acc = acc.join(p)
		}
	}
	if acc == nil {
		return s
	}
	s.m = acc
	s.ok = true
	return s
}

// ---------------------------------------------------------------------------

func init() {
	register(&Rule{ID: "R-BOUNDS", Props: []string{"C16", "C14", "C15", "C01", "C05", "C18", "C19"}, Doc: "every index and slice expression of the helper scanners is in range for every argument (difference-bound abstract interpretation)", Run: runBounds})
}

// boundsScope: functions claimed per property. Every index/slice obligation in
// them must be discharged; functions outside the list are reported as not covered.
var boundsScope = map[string][]string{
	"C16": {"parse.Number", "parse.Dimension", "parse.Mediatype", "parse.DataURI", "parse.QuoteEntity", "parse.EncodeURL", "parse.DecodeURL",
		"parse.AppendEscape", "parse.EqualFold", "parse.ToLower", "parse.TrimWhitespace", "parse.IsAllWhitespace", "parse.IsWhitespace", "parse.IsNewline",
		"js.AsIdentifierName", "js.AsDecimalLiteral"},
	"C14": {"strconv.ParseInt", "strconv.ParseUint", "strconv.ParseFloat", "strconv.ParseDecimal", "strconv.ParseNumber"},
	"C15": {"parse.positionContext", "(*parse.Error).Error", "parse.Printable"},
}

func globalLens(r *core.Run) func(*ssa.Global) (int64, bool) {
	cache := map[*ssa.Global]int64{}
	return func(g *ssa.Global) (int64, bool) {
		if n, ok := cache[g]; ok {
			return n, n >= 0
		}
		cache[g] = -1
		if g.Pkg == nil || !core.InModule(g.Pkg.Pkg) {
			return 0, false
		}
		for _, pk := range r.Prog.Pkgs {
			if pk.Types != g.Pkg.Pkg {
				continue
			}
			for _, f := range pk.Syntax {
				for _, decl := range f.Decls {
					gd, ok := decl.(*ast.GenDecl)
					if !ok || gd.Tok != token.VAR {
						continue
					}
					for _, sp := range gd.Specs {
						vs := sp.(*ast.ValueSpec)
						for i, nm := range vs.Names {
							if nm.Name != g.Name() || i >= len(vs.Values) {
								continue
							}
							if cl, isCL := vs.Values[i].(*ast.CompositeLit); isCL {
								keyed := false
								for _, e := range cl.Elts {
									if _, isKV := e.(*ast.KeyValueExpr); isKV {
										keyed = true
									}
								}
								if _, isSlice := pk.TypesInfo.TypeOf(cl).Underlying().(*types.Slice); isSlice && !keyed {
									cache[g] = int64(len(cl.Elts))
									return cache[g], true
								}
							}
							if tv, okT := pk.TypesInfo.Types[vs.Values[i]]; okT && tv.Value != nil && tv.Value.Kind() == constant.String {
								cache[g] = int64(len(constant.StringVal(tv.Value)))
								return cache[g], true
							}
						}
					}
				}
			}
		}
		return 0, false
	}
}

type boundsEngine struct {
	r        *core.Run
	glen     func(*ssa.Global) (int64, bool)
	done     map[*ssa.Function]*boundsFn
	busy     map[*ssa.Function]bool
	summs    map[*ssa.Function]*boundsSummary
	ctxSumms map[string]*boundsSummary
	ctxFns   map[string]*boundsFn
	ctxDepth int
}

func (e *boundsEngine) get(fn *ssa.Function) *boundsFn {
	if b, ok := e.done[fn]; ok {
		return b
	}
	if e.busy[fn] || len(fn.Blocks) == 0 {
		return nil
	}
	e.busy[fn] = true
	b := &boundsFn{r: e.r, fn: fn, vars: map[interface{}]int{}, glen: e.glen}
	b.summ = func(callee *ssa.Function) *boundsSummary {
		if s, ok := e.summs[callee]; ok {
			return s
		}
		cb := e.get(callee)
		if cb == nil {
			return nil
		}
		s := cb.summary()
		e.summs[callee] = s
		return s
	}
	b.summC = e.summCtx
	b.analyse()
	delete(e.busy, fn)
	e.done[fn] = b
	return b
}

// summCtx: summary of callee analysed under the given entry constraints (cached; bounded depth).
func (e *boundsEngine) summCtx(callee *ssa.Function, seed [][3]int64, key string) *boundsSummary {
	if len(callee.Blocks) == 0 || e.busy[callee] || e.ctxDepth > 2 {
		return nil
	}
	if e.ctxSumms == nil {
		e.ctxSumms = map[string]*boundsSummary{}
	}
	k := fmt.Sprintf("%p|%s", callee, key)
	if s, ok := e.ctxSumms[k]; ok {
		return s
	}
	e.ctxSumms[k] = nil
	e.busy[callee] = true
	e.ctxDepth++
	cb := &boundsFn{r: e.r, fn: callee, vars: map[interface{}]int{}, glen: e.glen, seed: seed}
	cb.summ = func(f *ssa.Function) *boundsSummary {
		if s, ok := e.summs[f]; ok {
			return s
		}
		x := e.get(f)
		if x == nil {
			return nil
		}
		s := x.summary()
		e.summs[f] = s
		return s
	}
	cb.summC = e.summCtx
	cb.analyse()
	e.ctxDepth--
	delete(e.busy, callee)
	s := cb.summary()
	e.ctxSumms[k] = s
	if e.ctxFns == nil {
		e.ctxFns = map[string]*boundsFn{}
	}
	e.ctxFns[k] = cb
	return s
}

// stateBefore: the abstract state of fn just before instruction at (nil if unreachable).
func (b *boundsFn) stateBefore(at ssa.Instruction) *dbm {
	blk := at.Block()
	d0 := b.in[blk]
	if d0 == nil {
		return nil
	}
	d := d0.clone()
	for _, in := range blk.Instrs {
		if in == at {
			return d
		}
		b.transfer(d, in)
	}
	return nil
}

// provenInContext: obligation `in` of helper h holds when h is analysed under what the caller knows at call site c.
func (e *boundsEngine) provenInContext(c *ssa.Call, h *ssa.Function, in ssa.Instruction) bool {
	cf := e.get(c.Parent())
	if cf == nil {
		return false
	}
	d := cf.stateBefore(c)
	if d == nil {
		return true // the call is unreachable
	}
	seed, key := cf.callSeed(d, c)
	if seed == nil {
		return false
	}
	if s := e.summCtx(h, seed, key); s == nil {
		return false
	}
	cb := e.ctxFns[fmt.Sprintf("%p|%s", h, key)]
	if cb == nil {
		return false
	}
	for _, ob := range cb.obligations() {
		if ob.in == in {
			return ob.ok
		}
	}
	return false
}

// AST methods that index values whose non-emptiness is a value-level invariant; not in scope.
var boundsASTExcluded = map[string]string{
	"(js.ExprStmt).String":     "indexes the result of Value.String(), non-empty for every node type (value-level)",
	"(js.PropertyName).String": "indexes the result of Computed.String() (value-level)",
	"(js.LiteralExpr).JSON":    "indexes token data, non-empty by the lexer's token grammar (value-level; R-PROGRESS shows tokens are non-empty)",
	"(js.TemplateExpr).JSON":   "indexes token data (value-level)",
	"(js.UnaryExpr).JSON":      "indexes token data (value-level)",
	"(js.VarsByUses).Less":     "sort.Interface contract: i, j < Len()",
	"(js.VarsByUses).Swap":     "sort.Interface contract: i, j < Len()",
}

// astMethodScope: every printing/conversion method of package js (and Walk for C01/C18).
func astMethodScope(r *core.Run, prop string) []string {
	var out []string
	want := map[string]bool{"String": true, "JS": true, "JSON": true, "JSString": true, "JSONString": true}
	if prop == "C05" {
		want = map[string]bool{"JS": true, "JSString": true}
	}
	for _, fn := range allModuleFuncs(r) {
		p := fnPkg(fn)
		if p == nil || core.RelPkg(p) != "js" || fn.Parent() != nil || fn.Synthetic != "" {
			continue
		}
		name := fnLabel(fn)
		if fn.Signature.Recv() == nil {
			if prop != "C05" && (fn.Name() == "Walk" || callsWalk(fn)) {
				out = append(out, name) // Walk and the helpers it is split into
			}
			continue
		}
		if prop == "C18" || !want[fn.Name()] {
			continue
		}
		if _, ex := boundsASTExcluded[name]; ex {
			continue
		}
		out = append(out, name)
	}
	return out
}

func runBounds(r *core.Run) {
	e := &boundsEngine{r: r, glen: globalLens(r), done: map[*ssa.Function]*boundsFn{}, busy: map[*ssa.Function]bool{}, summs: map[*ssa.Function]*boundsSummary{}}
	scope := append([]string{}, boundsScope[r.Prop]...)
	if r.Prop == "C01" || r.Prop == "C05" || r.Prop == "C18" {
		scope = append(scope, astMethodScope(r, r.Prop)...)
	}
	byName := map[string]*ssa.Function{}
	for _, fn := range allModuleFuncs(r) {
		byName[fnLabel(fn)] = fn
	}
	sort.Strings(scope)
	nf, nob := 0, 0
	missing := 0
	for _, name := range scope {
		fn := byName[name]
		if fn == nil {
			// a function of the frozen list that was renamed, merged or inlined: it is no longer covered (the
			// floor below still guards against the list evaporating)
			missing++
			r.Note("R-BOUNDS: listed function %s no longer exists; not covered", name)
			continue
		}
		b := e.get(fn)
		if b == nil {
			r.Unknown(name+" bounds analysis", fn.Pos(), "function could not be analysed (recursion)")
			continue
		}
		nf++
		for _, ob := range b.obligations() {
			nob++
			r.Check(ob.ok, ob.key, ob.pos, "", ob.detail+": an argument could make this access panic (index/slice out of range)")
		}
	}
	// unexported helpers that the functions in scope call (directly or through other such helpers) carry part of
	// their index arithmetic: an obligation there must hold on its own, or in the context of every call from the scope
	inScope := map[*ssa.Function]bool{}
	for _, name := range scope {
		if fn := byName[name]; fn != nil {
			inScope[fn] = true
		}
	}
	// (the frozen list of lexer/parser functions of C01 is a selection: their callees outside the list index token
	// data under lexical invariants and are deliberately not claimed, so the closure starts from the other functions)
	frozen := map[string]bool{}
	if r.Prop == "C01" {
		for _, name := range boundsScope["C01"] {
			frozen[name] = true
		}
	}
	var helpers []*ssa.Function
	work := []*ssa.Function{}
	for fn := range inScope {
		if !frozen[fnLabel(fn)] {
			work = append(work, fn)
		}
	}
	sort.Slice(work, func(i, j int) bool { return fnLabel(work[i]) < fnLabel(work[j]) })
	depthOf := map[*ssa.Function]int{}
	callersIn := map[*ssa.Function][]*ssa.Call{}
	for len(work) > 0 {
		fn := work[0]
		work = work[1:]
		for _, blk := range fn.Blocks {
			for _, in := range blk.Instrs {
				c, ok := in.(*ssa.Call)
				if !ok {
					continue
				}
				g := c.Call.StaticCallee()
				if g == nil || c.Call.IsInvoke() || len(g.Blocks) == 0 || fnPkg(g) == nil || !core.InModule(fnPkg(g)) || fnPkg(g) != fnPkg(fn) {
					continue
				}
				if g.Object() != nil && g.Object().Exported() {
					continue
				}
				if _, excl := boundsASTExcluded[fnLabel(g)]; excl {
					continue
				}
				callersIn[g] = append(callersIn[g], c)
				if inScope[g] || depthOf[fn] >= 3 {
					continue
				}
				inScope[g] = true
				depthOf[g] = depthOf[fn] + 1
				helpers = append(helpers, g)
				work = append(work, g)
			}
		}
	}
	sort.Slice(helpers, func(i, j int) bool { return fnLabel(helpers[i]) < fnLabel(helpers[j]) })
	// the analyses of a function under the contexts in which the scope can reach it: a function of the scope itself is
	// analysed for every argument; a helper once per call site of each context of its caller (transitively)
	isHelper := map[*ssa.Function]bool{}
	for _, h := range helpers {
		isHelper[h] = true
	}
	ctxCache := map[*ssa.Function][]*boundsFn{}
	var contexts func(f *ssa.Function, depth int) []*boundsFn
	contexts = func(f *ssa.Function, depth int) []*boundsFn {
		if c, ok := ctxCache[f]; ok {
			return c
		}
		ctxCache[f] = nil
		var out []*boundsFn
		if !isHelper[f] {
			if b := e.get(f); b != nil {
				out = []*boundsFn{b}
			}
		} else if depth < 4 {
			for _, c := range callersIn[f] {
				for _, cg := range contexts(c.Parent(), depth+1) {
					d := cg.stateBefore(c)
					if d == nil {
						continue // unreachable in that context
					}
					seed, key := cg.callSeed(d, c)
					if seed == nil {
						if b := e.get(f); b != nil {
							out = append(out, b) // nothing known about the arguments: the context-free analysis
						}
						continue
					}
					if s := e.summCtx(f, seed, key); s != nil {
						if cb := e.ctxFns[fmt.Sprintf("%p|%s", f, key)]; cb != nil {
							out = append(out, cb)
							continue
						}
					}
					if b := e.get(f); b != nil {
						out = append(out, b)
					}
				}
			}
		}
		ctxCache[f] = out
		return out
	}
	nh := 0
	for _, h := range helpers {
		b := e.get(h)
		if b == nil {
			continue // recursive helper: not analysed, not claimed
		}
		nh++
		for _, ob := range b.obligations() {
			nob++
			ok := ob.ok
			if !ok && ob.in != nil {
				cs := contexts(h, 0)
				ok = len(cs) > 0
				for _, cb := range cs {
					found := false
					for _, o2 := range cb.obligations() {
						if o2.in == ob.in {
							found = true
							if !o2.ok {
								ok = false
							}
						}
					}
					if !found {
						ok = false
					}
				}
			}
			r.Check(ok, ob.key, ob.pos, "", ob.detail+" (helper of the functions in scope; not implied by what its callers establish either): an argument could make this access panic (index/slice out of range)")
		}
	}
	r.Count("unexported helpers of the scope analysed with it", nh)
	r.Count("functions with every index/slice obligation decided", nf)
	r.Count("listed functions that no longer exist", missing)
	r.Floor("index/slice obligations", nob, boundsFloor[r.Prop])
	r.Assumption("A-INTEXACT: arithmetic on values of type int does not overflow (operands are slice lengths plus small constants)")
	if r.Prop == "C18" || r.Prop == "C01" {
		r.Assumption("A-VISITOR: visitor callbacks and nested Walk calls do not resize the lists of the tree being walked")
	}
}

// (site counts: anti-vacuity levels, about half of what the pinned tree has — a rewrite that removes a few index expressions is not a defect)
var boundsFloor = map[string]int{"C16": 45, "C14": 7, "C15": 6, "C01": 90, "C05": 9, "C18": 4, "C19": 8}

// BoundsSurvey (debug): analyse every function of the given packages and print per-function results.
func BoundsSurvey(r *core.Run, pkgs map[string]bool, verbose bool) {
	e := &boundsEngine{r: r, glen: globalLens(r), done: map[*ssa.Function]*boundsFn{}, busy: map[*ssa.Function]bool{}, summs: map[*ssa.Function]*boundsSummary{}}
	var fns []*ssa.Function
	for _, fn := range allModuleFuncs(r) {
		if p := fnPkg(fn); p != nil && pkgs[core.RelPkg(p)] {
			fns = append(fns, fn)
		}
	}
	sort.Slice(fns, func(i, j int) bool { return fnLabel(fns[i]) < fnLabel(fns[j]) })
	for _, fn := range fns {
		b := e.get(fn)
		if b == nil {
			fmt.Printf("%-50s not analysed\n", fnLabel(fn))
			continue
		}
		obs := b.obligations()
		bad := 0
		for _, o := range obs {
			if !o.ok {
				bad++
			}
		}
		if len(obs) == 0 {
			continue
		}
		fmt.Printf("%-60s obligations=%d unproven=%d vars=%d\n", fnLabel(fn), len(obs), bad, len(b.names))
		if verbose {
			for _, o := range obs {
				if !o.ok {
					fmt.Printf("      %s at %s: %s\n", o.key, r.Prog.Position(o.pos), o.detail)
				}
			}
		}
	}
}

// ---------------------------------------------------------------------------
// shared access for the cursor engine: is this index/slice instruction proven in range by the bounds engine?

type sharedBounds struct {
	mu  sync.Mutex
	e   *boundsEngine
	res map[*ssa.Function]map[ssa.Instruction]bool
}

var sharedBoundsByProg sync.Map // *core.Program -> *sharedBounds

func boundsProven(prog *core.Program, fn *ssa.Function, in ssa.Instruction) bool {
	v, _ := sharedBoundsByProg.LoadOrStore(prog, &sharedBounds{res: map[*ssa.Function]map[ssa.Instruction]bool{}})
	sb := v.(*sharedBounds)
	sb.mu.Lock()
	defer sb.mu.Unlock()
	if sb.e == nil {
		r := core.NewRun("", "quick", 0, prog)
		sb.e = &boundsEngine{r: r, glen: globalLens(r), done: map[*ssa.Function]*boundsFn{}, busy: map[*ssa.Function]bool{}, summs: map[*ssa.Function]*boundsSummary{}}
	}
	m, ok := sb.res[fn]
	if !ok {
		m = map[ssa.Instruction]bool{}
		if b := sb.e.get(fn); b != nil {
			for _, ob := range b.obligations() {
				if ob.in != nil {
					m[ob.in] = ob.ok
				}
			}
		}
		sb.res[fn] = m
	}
	return m[in]
}

// boundsLenAtLeast: the bounds engine's verdict on len(v) >= n just before instruction `at` of fn (guards, helper
// summaries such as "a non-nil result has n bytes").
func boundsLenAtLeast(prog *core.Program, fn *ssa.Function, at ssa.Instruction, v ssa.Value, n int64) bool {
	val, _ := sharedBoundsByProg.LoadOrStore(prog, &sharedBounds{res: map[*ssa.Function]map[ssa.Instruction]bool{}})
	sb := val.(*sharedBounds)
	sb.mu.Lock()
	defer sb.mu.Unlock()
	if sb.e == nil {
		r := core.NewRun("", "quick", 0, prog)
		sb.e = &boundsEngine{r: r, glen: globalLens(r), done: map[*ssa.Function]*boundsFn{}, busy: map[*ssa.Function]bool{}, summs: map[*ssa.Function]*boundsSummary{}}
	}
	b := sb.e.get(fn)
	if b == nil || b.unconverged || at.Block() == nil {
		return false
	}
	d0 := b.in[at.Block()]
	if d0 == nil {
		return false
	}
	d := d0.clone()
	for _, in := range at.Block().Instrs {
		if in == at {
			break
		}
		b.transfer(d, in)
	}
	if d.bottom {
		return true // unreachable
	}
	lv := b.lenVar(v)
	return d.get(0, lv) <= -n // 0 - len(v) <= -n
}

// callsWalk: a package-level function of js that calls js.Walk (a walk helper).
func callsWalk(fn *ssa.Function) bool {
	for _, b := range fn.Blocks {
		for _, in := range b.Instrs {
			if c, ok := in.(*ssa.Call); ok {
				if g := c.Call.StaticCallee(); g != nil && g.Name() == "Walk" && g.Signature.Recv() == nil && core.RelPkg(fnPkg(g)) == "js" {
					return true
				}
			}
		}
	}
	return false
}
