package rules

import (
	"fmt"
	"go/constant"
	"go/token"
	"go/types"
	"sort"
	"strings"

	"golang.org/x/tools/go/ssa"

	"verif/checker/core"
)

func init() {
	register(&Rule{ID: "R-LEVEL", Props: []string{"C03", "C01"}, Doc: "js parser: nesting counters are balanced on every non-error path", Run: runLevel})
	register(&Rule{ID: "R-SCOPE", Props: []string{"C04", "C03"}, Doc: "js parser: every entered scope is exited exactly once with its own parent on every non-error path", Run: runScope})
	register(&Rule{ID: "R-CTX", Props: []string{"C03"}, Doc: "js parser: saved grammar-context flags are restored on every non-error path", Run: runCtx})
	register(&Rule{ID: "R-DECLCHK", Props: []string{"C03", "C04"}, Doc: "js parser: a failed Declare is always turned into a parse error (or handled by an audited fallback)", Run: runDeclChk})
	register(&Rule{ID: "R-ERRTREE", Props: []string{"C03"}, Doc: "js.Parse returns a tree only when no error was recorded; only fail/failMessage write Parser.err", Run: runErrTree})
}

// parserFuncs lists the functions of package js that have *Parser as receiver (plus js.Parse).
func parserFuncs(r *core.Run) []*ssa.Function {
	var out []*ssa.Function
	for _, fn := range allModuleFuncs(r) {
		if core.RelPkg(fnPkg(fn)) != "js" {
			continue
		}
		if recvName(fn) == "Parser" || (fn.Name() == "Parse" && fn.Signature.Recv() == nil) {
			out = append(out, fn)
		}
	}
	sort.Slice(out, func(i, j int) bool { return out[i].String() < out[j].String() })
	return out
}

func isParserField(v ssa.Value, field string) bool {
	fa, ok := v.(*ssa.FieldAddr)
	if !ok {
		return false
	}
	tp, ok := modTypePath(fa.X.Type())
	return ok && tp == "js.Parser" && (field == "" || fieldName(fa.X.Type(), fa.Field) == field)
}

func parserFieldName(v ssa.Value) string {
	fa := v.(*ssa.FieldAddr)
	return fieldName(fa.X.Type(), fa.Field)
}

// isErrCall: a call that records a parse error (a method that assigns the parser's error field).
func isErrCall(in ssa.Instruction) bool {
	c, ok := in.(ssa.CallInstruction)
	if !ok {
		return false
	}
	f := c.Common().StaticCallee()
	if f == nil || recvName(f) != "Parser" {
		return false
	}
	m := jsModelOf(in.Parent())
	if !m.ready {
		return f.Name() == "fail" || f.Name() == "failMessage"
	}
	return m.recorders[f]
}

// errEdge: does taking successor i of block b establish that the parse is failing?
func errEdge(b *ssa.BasicBlock, i int) bool {
	iff, ok := lastInstr(b).(*ssa.If)
	if !ok {
		return false
	}
	m := jsModelOf(b.Parent())
	cond := iff.Cond
	truth := i == 0
	for {
		u, ok := cond.(*ssa.UnOp)
		if !ok || u.Op != token.NOT {
			break
		}
		cond, truth = u.X, !truth
	}
	// a bool from a parser method that is false only after an error was recorded (consume, `(node, ok)` helpers)
	if m.boolFailure(cond) {
		return !truth
	}
	if c, ok := cond.(*ssa.Call); ok {
		if f := c.Call.StaticCallee(); f != nil && recvName(f) == "Parser" && f.Name() == "consume" && !m.ready {
			return !truth
		}
		return false
	}
	bo, ok := cond.(*ssa.BinOp)
	if !ok {
		return false
	}
	errField, ttField := m.errField, m.ttField
	if errField == "" {
		errField = "err"
	}
	if ttField == "" {
		ttField = "tt"
	}
	loadsField := func(v ssa.Value, field string) bool {
		u, ok := v.(*ssa.UnOp)
		return ok && u.Op == token.MUL && isParserField(u.X, field)
	}
	// p.err != nil
	if loadsField(bo.X, errField) && isNilConst(bo.Y) {
		return (bo.Op == token.NEQ) == truth
	}
	// p.tt == ErrorToken (the parse is ending)
	if c, ok := bo.Y.(*ssa.Const); ok && c.Value != nil && c.Value.Kind() == constant.Int && c.Int64() == 0 && loadsField(bo.X, ttField) {
		if bo.Op == token.EQL {
			return truth
		}
		if bo.Op == token.NEQ {
			return !truth
		}
	}
	// depth guards: Limit < level
	isLevel := func(a string) bool {
		if m.ready {
			for f := range m.levels {
				if hasFieldSuffix(a, f) {
					return true
				}
			}
			return false
		}
		return strings.HasSuffix(a, ".exprLevel") || strings.HasSuffix(a, ".stmtLevel")
	}
	x, y := linOf(bo.X), linOf(bo.Y)
	for a := range y.T {
		if isLevel(a) {
			if bo.Op == token.LSS || bo.Op == token.LEQ {
				return truth
			}
		}
	}
	for a := range x.T {
		if isLevel(a) {
			if bo.Op == token.GTR || bo.Op == token.GEQ {
				return truth
			}
		}
	}
	return false
}

// isEnterScope / isExitScope: the parser's scope bracket by signature, not by name:
// enter: func (p *Parser) _(*Scope, bool) *Scope      exit: func (p *Parser) _(*Scope)
func isScopePtr(t types.Type) bool {
	p, ok := t.(*types.Pointer)
	if !ok {
		return false
	}
	n, ok := p.Elem().(*types.Named)
	return ok && n.Obj().Name() == "Scope"
}

func isEnterScope(f *ssa.Function) bool {
	if f == nil || recvName(f) != "Parser" {
		return false
	}
	sig := f.Signature
	return sig.Params().Len() == 2 && sig.Results().Len() == 1 && isScopePtr(sig.Params().At(0).Type()) && isScopePtr(sig.Results().At(0).Type())
}

func isExitScope(f *ssa.Function) bool {
	if f == nil || recvName(f) != "Parser" {
		return false
	}
	sig := f.Signature
	return sig.Params().Len() == 1 && sig.Results().Len() == 0 && isScopePtr(sig.Params().At(0).Type())
}

// Wrappers of the scope protocol. enterFunc(scope, …) (*Scope, flags) { parent := p.enterScope(scope, true); …; return
// parent, … } enters a scope on behalf of its caller and hands the value to restore on; exitFunc(parent, …) { …;
// p.exitScope(parent) } exits on behalf of its caller. The pairing obligations then belong to the callers.

// enterWrapperResult: f calls enterScope (or an enter wrapper) exactly once, unconditionally, never exits, and every
// return hands that call's value out as result k. Returns k, or -1.
func enterWrapperResult(f *ssa.Function, depth int) int {
	if f == nil || recvName(f) != "Parser" || len(f.Blocks) == 0 || isEnterScope(f) || isExitScope(f) || depth > 2 {
		return -1
	}
	var enter ssa.Value
	n := 0
	for _, b := range f.Blocks {
		for _, in := range b.Instrs {
			c, ok := in.(*ssa.Call)
			if !ok {
				continue
			}
			if v := scopeEnterVal(c, depth+1); v != nil {
				enter = v
				n++
				if b != f.Blocks[0] {
					return -1
				}
			}
			if scopeExitArg(c, depth+1) != nil {
				return -1
			}
		}
	}
	if n != 1 {
		return -1
	}
	k := -1
	for _, b := range f.Blocks {
		ret, ok := lastInstr(b).(*ssa.Return)
		if !ok {
			continue
		}
		found := -1
		for i, rv := range ret.Results {
			if rv == enter {
				found = i
			}
		}
		if found < 0 || (k >= 0 && k != found) {
			return -1
		}
		k = found
	}
	return k
}

// exitWrapperParam: f calls exitScope (or an exit wrapper) exactly once, on every path, with its own parameter i, and
// never enters. Returns i (index into f.Params), or -1.
func exitWrapperParam(f *ssa.Function, depth int) int {
	if f == nil || recvName(f) != "Parser" || len(f.Blocks) == 0 || isEnterScope(f) || isExitScope(f) || depth > 2 {
		return -1
	}
	idx, n := -1, 0
	for _, b := range f.Blocks {
		for _, in := range b.Instrs {
			c, ok := in.(*ssa.Call)
			if !ok {
				continue
			}
			if scopeEnterVal(c, depth+1) != nil {
				return -1
			}
			if a := scopeExitArg(c, depth+1); a != nil {
				n++
				for i, q := range f.Params {
					if ssa.Value(q) == a {
						idx = i
					}
				}
				// on every path: the call's block dominates every return
				for _, rb := range f.Blocks {
					if _, isRet := lastInstr(rb).(*ssa.Return); isRet && rb != b && !b.Dominates(rb) {
						return -1
					}
				}
			}
		}
	}
	if n != 1 {
		return -1
	}
	return idx
}

// scopeEnterVal: c enters a scope; the value that must later be passed to the exit (the call itself, or the extract of
// the wrapper's scope result). nil if c is not an enter.
func scopeEnterVal(c *ssa.Call, depth int) ssa.Value {
	f := c.Call.StaticCallee()
	if f == nil || recvName(f) != "Parser" {
		return nil
	}
	if isEnterScope(f) {
		return c
	}
	k := enterWrapperResult(f, depth)
	if k < 0 {
		return nil
	}
	if f.Signature.Results().Len() == 1 {
		return c
	}
	if refs := c.Referrers(); refs != nil {
		for _, ref := range *refs {
			if ex, ok := ref.(*ssa.Extract); ok && ex.Index == k {
				return ex
			}
		}
	}
	return nil
}

// scopeExitArg: c exits a scope; the value it restores. nil if c is not an exit.
func scopeExitArg(c *ssa.Call, depth int) ssa.Value {
	f := c.Call.StaticCallee()
	if f == nil || recvName(f) != "Parser" {
		return nil
	}
	if isExitScope(f) {
		return c.Call.Args[1]
	}
	if i := exitWrapperParam(f, depth); i >= 0 && i < len(c.Call.Args) {
		return c.Call.Args[i]
	}
	return nil
}

// pstate is one path state of the small typestate analyses: a vector of small
// counters plus the error flag.
type pstate struct {
	v   [6]int8
	err bool
}

// pathFlow runs a forward may-analysis with sets of states per block.
// step transforms a state at an instruction; atReturn is called for every
// (state, return) pair.
func pathFlow(fn *ssa.Function, init pstate, step func(s pstate, in ssa.Instruction) pstate, atReturn func(s pstate, ret *ssa.Return)) {
	if len(fn.Blocks) == 0 {
		return
	}
	in := map[*ssa.BasicBlock]map[pstate]bool{fn.Blocks[0]: {init: true}}
	work := []*ssa.BasicBlock{fn.Blocks[0]}
	done := map[*ssa.BasicBlock]map[pstate]bool{}
	for len(work) > 0 {
		b := work[len(work)-1]
		work = work[:len(work)-1]
		for s := range in[b] {
			if done[b] == nil {
				done[b] = map[pstate]bool{}
			}
			if done[b][s] {
				continue
			}
			done[b][s] = true
			cur := s
			for _, ins := range b.Instrs {
				if isErrCall(ins) {
					cur.err = true
				}
				cur = step(cur, ins)
				if ret, ok := ins.(*ssa.Return); ok {
					atReturn(cur, ret)
				}
			}
			for i, succ := range b.Succs {
				ns := cur
				if errEdge(b, i) {
					ns.err = true
				}
				if in[succ] == nil {
					in[succ] = map[pstate]bool{}
				}
				if !in[succ][ns] {
					in[succ][ns] = true
					work = append(work, succ)
				}
			}
		}
	}
}

func clamp(x int8) int8 {
	if x > 3 {
		return 3
	}
	if x < -3 {
		return -3
	}
	return x
}

// ------------------------------------------------------------------ R-LEVEL

func runLevel(r *core.Run) {
	sites := 0
	for _, fn := range parserFuncs(r) {
		var levelFields []string
		for f := range jsModelOf(fn).levels {
			levelFields = append(levelFields, f)
		}
		sort.Strings(levelFields)
		for fi, field := range levelFields {
			if fi > 5 {
				break
			}
			incs, decs := 0, 0
			for _, st := range allStores(fn) {
				if !isParserField(st.Addr, field) {
					continue
				}
				d := linOf(st.Val).add(linAtom(canon(st.Addr)), -1)
				if d.isConst() && d.C == 1 {
					incs++
				} else if d.isConst() && d.C == -1 {
					decs++
				} else {
					r.Unknown(fmt.Sprintf("%s writes %s", fnLabel(fn), field), st.Pos(), "nesting counter is assigned something other than ±1")
				}
			}
			if incs == 0 && decs == 0 {
				continue
			}
			sites += incs
			key := fmt.Sprintf("%s balances %s", fnLabel(fn), field)
			bad := ""
			var badPos token.Pos
			pathFlow(fn, pstate{}, func(s pstate, in ssa.Instruction) pstate {
				if st, ok := in.(*ssa.Store); ok && isParserField(st.Addr, field) {
					d := linOf(st.Val).add(linAtom(canon(st.Addr)), -1)
					if d.isConst() {
						s.v[fi] = clamp(s.v[fi] + int8(d.C))
					}
				}
				return s
			}, func(s pstate, ret *ssa.Return) {
				if !s.err && s.v[fi] != 0 && bad == "" {
					bad = fmt.Sprintf("a non-error path reaches the return at %s with %s changed by %+d", r.Prog.Position(ret.Pos()), field, s.v[fi])
					badPos = ret.Pos()
				}
			})
			r.Check(bad == "", key, func() token.Pos {
				if bad != "" {
					return badPos
				}
				return fn.Pos()
			}(), fmt.Sprintf("%d increments, %d decrements", incs, decs),
				bad+": after such a construct the depth budget leaks (long flat programs hit the nesting limit) or the guard is weakened (deep nesting is no longer refused)")
		}
	}
	r.Floor("nesting counter increments", sites, 2)
}

// ------------------------------------------------------------------ R-SCOPE

var scopeOwners = map[string]string{
	"js.Parse":                 "inline mode: the global scope of the AST stays open for the whole parse",
	"(*js.Parser).parseModule": "module scope stays open for the whole parse",
}

func runScope(r *core.Run) {
	sites := 0
	for _, fn := range parserFuncs(r) {
		var enters []*ssa.Call
		var exits []*ssa.Call
		for _, b := range fn.Blocks {
			for _, in := range b.Instrs {
				c, ok := in.(*ssa.Call)
				if !ok {
					continue
				}
				f := c.Call.StaticCallee()
				if f == nil || recvName(f) != "Parser" {
					continue
				}
				switch {
				case scopeEnterVal(c, 0) != nil:
					enters = append(enters, c)
				case scopeExitArg(c, 0) != nil:
					exits = append(exits, c)
				}
			}
		}
		if isEnterScope(fn) || isExitScope(fn) || enterWrapperResult(fn, 0) >= 0 || exitWrapperParam(fn, 0) >= 0 {
			continue // the protocol's own primitives and wrappers: the obligations are their callers'
		}
		for _, x := range exits {
			arg := scopeExitArg(x, 0)
			ok := false
			for _, e := range enters {
				if arg == scopeEnterVal(e, 0) {
					ok = true
				}
			}
			r.Check(ok, fmt.Sprintf("%s exitScope argument", fnLabel(fn)), x.Pos(), "", "exitScope is called with a value that is not the result of an enterScope call in the same function: the wrong parent scope is restored")
		}
		for i, e := range enters {
			sites++
			key := fmt.Sprintf("%s scope #%d", fnLabel(fn), i+1)
			if why, ok := scopeOwners[fnLabel(fn)]; ok {
				r.Except(key, e.Pos(), why)
				continue
			}
			if i >= 6 {
				r.Unknown(key, e.Pos(), "too many scopes in one function for the typestate vector")
				continue
			}
			bad := ""
			var badPos token.Pos
			idx := i
			pathFlow(fn, pstate{}, func(s pstate, in ssa.Instruction) pstate {
				c, ok := in.(*ssa.Call)
				if !ok {
					return s
				}
				if c == e {
					if s.v[idx] == 1 && bad == "" { // re-entered while open (loop)
						bad = "the scope can be entered again while still open"
						badPos = c.Pos()
					}
					s.v[idx] = 1
					return s
				}
				if a := scopeExitArg(c, 0); a != nil && a == scopeEnterVal(e, 0) {
					if s.v[idx] != 1 && !s.err && bad == "" {
						bad = "exitScope can run although the scope is not open (exited twice, or before being entered)"
						badPos = c.Pos()
					}
					s.v[idx] = 2
				}
				return s
			}, func(s pstate, ret *ssa.Return) {
				if !s.err && s.v[idx] == 1 && bad == "" {
					bad = fmt.Sprintf("a non-error path returns at %s with the scope still open", r.Prog.Position(ret.Pos()))
					badPos = ret.Pos()
				}
			})
			pos := e.Pos()
			if bad != "" {
				pos = badPos
			}
			r.Check(bad == "", key, pos, "entered and exited exactly once on every non-error path", bad+": identifiers parsed afterwards are resolved in a stale scope")
		}
	}
	r.Floor("enterScope sites", sites, 6)
}

// -------------------------------------------------------------------- R-CTX

func runCtx(r *core.Run) {
	saves := 0
	for _, fn := range parserFuncs(r) {
		// saves: loads of a Parser field whose value is stored back into the same field
		type save struct {
			load  *ssa.UnOp
			field string
		}
		var ss []save
		for _, b := range fn.Blocks {
			for _, in := range b.Instrs {
				u, ok := in.(*ssa.UnOp)
				if !ok || u.Op != token.MUL || !isParserField(u.X, "") {
					continue
				}
				f := parserFieldName(u.X)
				if jsModelOf(fn).levels[f] {
					continue // nesting counters are balanced, not restored (R-LEVEL)
				}
				if _, isPtr := u.Type().Underlying().(*types.Pointer); isPtr {
					continue // the current-scope pointer is handled by R-SCOPE
				}
				// a save: the loaded value is later written back into some field of the parser
				// (restoring it into a *different* field is exactly what the rule must notice)
				for _, st := range allStores(fn) {
					if isParserField(st.Addr, "") && st.Val == ssa.Value(u) {
						ss = append(ss, save{u, f})
						break
					}
				}
			}
		}
		for i, sv := range ss {
			saves++
			key := fmt.Sprintf("%s restores %s (save #%d)", fnLabel(fn), sv.field, i+1)
			bad := ""
			var badPos token.Pos
			sv := sv
			pathFlow(fn, pstate{}, func(s pstate, in ssa.Instruction) pstate {
				if in == ssa.Instruction(sv.load) {
					s.v[0] = 1 // saved, field unchanged since
					return s
				}
				if st, ok := in.(*ssa.Store); ok && isParserField(st.Addr, sv.field) && s.v[0] != 0 {
					if st.Val == ssa.Value(sv.load) {
						s.v[0] = 0 // restored: the save/restore pair is closed
					} else {
						s.v[0] = 2 // holds another value
					}
				}
				return s
			}, func(s pstate, ret *ssa.Return) {
				if !s.err && s.v[0] == 2 && bad == "" {
					bad = fmt.Sprintf("a non-error path returns at %s with p.%s still holding the temporary value", r.Prog.Position(ret.Pos()), sv.field)
					badPos = ret.Pos()
				}
			})
			pos := sv.load.Pos()
			if bad != "" {
				pos = badPos
			}
			r.Check(bad == "", key, pos, "", bad+": the grammar parameter leaks into everything parsed after this construct")
		}
	}
	r.Floor("context save/restore pairs", saves, 10)
}

// ---------------------------------------------------------------- R-DECLCHK

// Declare sites whose result cannot be false, with the reason.
var declCannotFail = map[string]string{
	"(*js.Parser).parseFunc ExprDecl":                    "the name of a function expression is declared in the fresh function scope entered just before",
	"(*js.Parser).parseAsyncArrowFunc ArgumentDecl":      "the single parameter is the first declaration in the fresh arrow-function scope",
	"(*js.Parser).parseIdentifierArrowFunc ArgumentDecl": "the single parameter is re-declared in the fresh arrow-function scope",
}

func runDeclChk(r *core.Run) {
	sites := 0
	pk := r.Prog.Pkg("js")
	declConst := map[int64]string{}
	if pk != nil {
		for n, c := range constsOfType(pk, "DeclType") {
			declConst[mustInt(c.ExactString())] = n
		}
	}
	for _, fn := range parserFuncs(r) {
		n := 0
		for _, b := range fn.Blocks {
			for _, in := range b.Instrs {
				c, ok := in.(*ssa.Call)
				if !ok {
					continue
				}
				f := c.Call.StaticCallee()
				if f == nil || recvName(f) != "Scope" || f.Name() != "Declare" {
					continue
				}
				sites++
				n++
				kind := "decl"
				if k, ok := c.Call.Args[1].(*ssa.Const); ok {
					kind = declConst[k.Int64()]
				}
				key := fmt.Sprintf("%s Declare(%s) #%d", fnLabel(fn), kind, n)
				// the ok result
				var okVal *ssa.Extract
				for _, ref := range *c.Referrers() {
					if ex, isEx := ref.(*ssa.Extract); isEx && ex.Index == 1 {
						okVal = ex
					}
				}
				if okVal == nil || len(*okVal.Referrers()) == 0 {
					if why, has := declCannotFail[fmt.Sprintf("%s %s", fnLabel(fn), kind)]; has {
						r.Except(key, c.Pos(), why)
					} else {
						r.Fail(key, c.Pos(), "the boolean result of Scope.Declare is discarded: a conflicting redeclaration is accepted silently instead of being a parse error")
					}
					continue
				}
				// every use of ok is a branch; on the false edge either an error is recorded or Use() is the fallback
				good := true
				why := ""
				branches, handedOn := 0, false
				for _, ref := range *okVal.Referrers() {
					iff, isIf := ref.(*ssa.If)
					if !isIf {
						// `!ok`
						if u, isU := ref.(*ssa.UnOp); isU && u.Op == token.NOT {
							for _, r2 := range *u.Referrers() {
								if iff2, ok2 := r2.(*ssa.If); ok2 {
									branches++
									if !declFailHandled(iff2.Block().Succs[0]) {
										good, why = false, "the `!ok` branch neither records a parse error nor falls back to Use"
									}
								}
							}
							continue
						}
						if _, isRet := ref.(*ssa.Return); isRet {
							handedOn = true // also reported to the caller (declare(decl, name) (*Var, bool)): fine once a branch here handles the failure
							continue
						}
						if _, isDbg := ref.(*ssa.DebugRef); isDbg {
							continue
						}
						good, why = false, "ok is used other than in a branch"
						continue
					}
					branches++
					if !declFailHandled(iff.Block().Succs[1]) {
						good, why = false, "the branch taken when Declare fails neither records a parse error nor falls back to Use"
					}
				}
				if good && handedOn && branches == 0 {
					good, why = false, "ok is only handed to the caller, no branch here handles the failure"
				}
				r.Check(good, key, c.Pos(), "", why+": a conflicting redeclaration is not rejected")
			}
		}
	}
	r.Floor("Declare call sites", sites, 5)
}

func mustInt(s string) int64 {
	var v int64
	fmt.Sscan(s, &v)
	return v
}

// declFailHandled: starting at block b (the failure branch), a call to
// fail/failMessage or to Scope.Use is reached before leaving through a return
// or rejoining code that continues normally (bounded search).
func declFailHandled(b *ssa.BasicBlock) bool {
	seen := map[*ssa.BasicBlock]bool{}
	var walk func(x *ssa.BasicBlock, depth int) bool
	walk = func(x *ssa.BasicBlock, depth int) bool {
		if seen[x] || depth > 3 {
			return false
		}
		seen[x] = true
		for _, in := range x.Instrs {
			if isErrCall(in) {
				return true
			}
			if c, ok := in.(ssa.CallInstruction); ok {
				if f := c.Common().StaticCallee(); f != nil && recvName(f) == "Scope" && f.Name() == "Use" {
					return true
				}
				// a parse function that itself handles the cover grammar
				if f := c.Common().StaticCallee(); f != nil && recvName(f) == "Parser" && (f.Name() == "parseAsyncExpression" || f.Name() == "parseIdentifierExpression") {
					return true
				}
			}
			if _, ok := in.(*ssa.Return); ok {
				return false
			}
		}
		for _, s := range x.Succs {
			if !walk(s, depth+1) {
				return false
			}
		}
		return len(x.Succs) > 0
	}
	return walk(b, 0)
}

// ---------------------------------------------------------------- R-ERRTREE

func runErrTree(r *core.Run) {
	// who may write Parser.err
	for _, fn := range allModuleFuncs(r) {
		for _, st := range allStores(fn) {
			m := jsModelOf(fn)
			if m.errField != "" && isParserField(st.Addr, m.errField) && !isNilConst(st.Val) {
				// whoever records an error must also end the token stream (store ErrorToken into the current-token field)
				ends := false
				for _, s2 := range allStores(fn) {
					if isParserField(s2.Addr, m.ttField) {
						if c, isC := s2.Val.(*ssa.Const); isC && c.Value != nil && c.Value.Kind() == constant.Int && c.Int64() == 0 {
							ends = true
						}
					}
				}
				r.Check(recvName(fn) == "Parser" && ends, fmt.Sprintf("writer of the parser's error field #%d ends the token stream", len(m.recorders)), st.Pos(), "", fmt.Sprintf("%s assigns the parser's error without setting the current token to ErrorToken: parsing would continue after the error and a tree could still be returned", fnLabel(fn)))
			}
		}
	}
	fn := r.Prog.SSAFunc("js", "", "Parse")
	if fn == nil {
		r.BrokenAnchor("js.Parse")
		return
	}
	// every return of a non-nil *AST is dominated by the false edge of `p.err != nil`
	n := 0
	for _, b := range fn.Blocks {
		ret, ok := lastInstr(b).(*ssa.Return)
		if !ok || len(ret.Results) != 2 {
			continue
		}
		if isNilConst(ret.Results[0]) {
			r.Check(!isNilConst(ret.Results[1]), "Parse nil tree comes with an error", ret.Pos(), "", "Parse returns (nil, nil)")
			continue
		}
		n++
		guarded := false
		for p := b; p != nil; p = p.Idom() {
			d := p.Idom()
			if d == nil {
				break
			}
			for i, s := range d.Succs {
				if s == p && len(p.Preds) == 1 && !errEdge(d, i) && errEdge(d, 1-i) {
					if iff, ok := lastInstr(d).(*ssa.If); ok {
						if bo, ok := iff.Cond.(*ssa.BinOp); ok && hasFieldSuffix(canon(bo.X), jsModelOf(fn).errField) {
							guarded = true
						}
					}
				}
			}
		}
		r.Check(guarded && isNilConst(ret.Results[1]), "Parse returns a tree only without error", ret.Pos(), "", "a tree is returned on a path that has not established p.err == nil (or together with an error): ill-formed programs would be returned as trees")
	}
	r.Check(n == 1, "Parse has one tree-returning exit", fn.Pos(), "", fmt.Sprintf("%d returns yield a tree", n))
}

var _ = types.Typ

// ------------------------------------------------------------------- R-MARK

func init() {
	register(&Rule{ID: "R-MARK", Props: []string{"C04"}, Doc: "js parser: MarkFuncArgs after every parameter list, MarkForStmt once between a loop head and its body", Run: runMark})
}

func isScopeCall(in ssa.Instruction, name string) bool {
	c, ok := in.(ssa.CallInstruction)
	if !ok {
		return false
	}
	f := c.Common().StaticCallee()
	return f != nil && recvName(f) == "Scope" && f.Name() == name
}

func runMark(r *core.Run) {
	// (a) functions that finish a parameter list
	for _, name := range []string{"parseFuncParams", "parseArrowFuncBody"} {
		fn := r.Prog.SSAFunc("js", "Parser", name)
		if fn == nil {
			r.BrokenAnchor("js.Parser." + name)
			continue
		}
		bad := ""
		var badPos token.Pos
		pathFlow(fn, pstate{}, func(s pstate, in ssa.Instruction) pstate {
			if isScopeCall(in, "MarkFuncArgs") {
				s.v[0] = clamp(s.v[0] + 1)
			}
			return s
		}, func(s pstate, ret *ssa.Return) {
			if !s.err && s.v[0] != 1 && bad == "" {
				bad = fmt.Sprintf("a non-error path returns at %s after %d calls of MarkFuncArgs", r.Prog.Position(ret.Pos()), s.v[0])
				badPos = ret.Pos()
			}
		})
		pos := fn.Pos()
		if bad != "" {
			pos = badPos
		}
		r.Check(bad == "", fnLabel(fn)+" marks the parameter scope exactly once", pos, "", bad+": uses in parameter default values are not separated from same-named declarations in the body (`function f(a=b){var b}` merges the two b)")
	}
	// (b) for statements: between entering the loop scope and leaving it, MarkForStmt runs exactly once
	// (directly, or inside a helper that the loop arm calls)
	memo := map[*ssa.Function]int{}
	var marksIn func(f *ssa.Function, depth int) int // MarkForStmt calls on every non-error path: n >= 0, or -1 if it varies
	marksIn = func(f *ssa.Function, depth int) int {
		if v, ok := memo[f]; ok {
			return v
		}
		if f == nil || len(f.Blocks) == 0 || depth > 3 {
			return 0
		}
		memo[f] = 0
		res, set := 0, false
		// only marks applied to the scope that is current when f is entered count: v[1] tracks f's own scope nesting
		pathFlow(f, pstate{}, func(s pstate, in ssa.Instruction) pstate {
			if c, ok := in.(*ssa.Call); ok {
				if g := c.Call.StaticCallee(); g != nil && recvName(g) == "Parser" {
					switch {
					case isEnterScope(g):
						s.v[1] = clamp(s.v[1] + 1)
						return s
					case isExitScope(g):
						s.v[1] = clamp(s.v[1] - 1)
						return s
					}
				}
			}
			if s.v[1] != 0 {
				return s
			}
			if isScopeCall(in, "MarkForStmt") {
				s.v[0] = clamp(s.v[0] + 1)
			} else if c, ok := in.(*ssa.Call); ok {
				if g := c.Call.StaticCallee(); g != nil && recvName(g) == "Parser" && g != f {
					if k := marksIn(g, depth+1); k > 0 {
						s.v[0] = clamp(s.v[0] + int8(k))
					} else if k < 0 {
						s.v[0] = 3
					}
				}
			}
			return s
		}, func(s pstate, ret *ssa.Return) {
			if s.err {
				return
			}
			if !set {
				res, set = int(s.v[0]), true
			} else if res != int(s.v[0]) {
				res = -1
			}
		})
		memo[f] = res
		return res
	}
	loops := 0
	for _, fn := range parserFuncs(r) {
		var enters []*ssa.Call
		for _, b := range fn.Blocks {
			for _, in := range b.Instrs {
				if c, ok := in.(*ssa.Call); ok {
					if f := c.Call.StaticCallee(); f != nil && isEnterScope(f) {
						enters = append(enters, c)
					}
				}
			}
		}
		marksAt := func(in ssa.Instruction) int {
			if isScopeCall(in, "MarkForStmt") {
				return 1
			}
			if c, ok := in.(*ssa.Call); ok {
				if g := c.Call.StaticCallee(); g != nil && recvName(g) == "Parser" && g != fn {
					return marksIn(g, 0)
				}
			}
			return 0
		}
		for _, e := range enters {
			// is this the loop scope? some MarkForStmt (direct or through a helper) is dominated by it
			isLoop := false
			for _, b := range fn.Blocks {
				for _, in := range b.Instrs {
					if marksAt(in) != 0 && (e.Block() == b && instrIndex(e) < instrIndex(in) || e.Block() != b && e.Block().Dominates(b)) {
						isLoop = true
					}
				}
			}
			if !isLoop {
				continue
			}
			loops++
			bad := ""
			var badPos token.Pos
			pathFlow(fn, pstate{}, func(s pstate, in ssa.Instruction) pstate {
				if in == ssa.Instruction(e) {
					s.v[0], s.v[1] = 1, 0
					return s
				}
				if s.v[0] == 1 {
					if k := marksAt(in); k > 0 {
						s.v[1] = clamp(s.v[1] + int8(k))
					} else if k < 0 {
						s.v[1] = 3
					}
				}
				if c, ok := in.(*ssa.Call); ok && s.v[0] == 1 {
					if f := c.Call.StaticCallee(); f != nil && isExitScope(f) && c.Call.Args[1] == ssa.Value(e) {
						if !s.err && s.v[1] != 1 && bad == "" {
							bad = fmt.Sprintf("a non-error path leaves the loop scope at %s after %d calls of MarkForStmt", r.Prog.Position(c.Pos()), s.v[1])
							badPos = c.Pos()
						}
						s.v[0] = 0
					}
				}
				return s
			}, func(s pstate, ret *ssa.Return) {})
			pos := e.Pos()
			if bad != "" {
				pos = badPos
			}
			r.Check(bad == "", "each for-loop head is marked exactly once", pos, "", bad+": declarations and uses of the loop head are not separated from the body's")
		}
	}
	r.Check(loops == 1, "for-statement scope found", token.NoPos, "", fmt.Sprintf("%d loop scopes with MarkForStmt found in the parser", loops))
}
