package rules

import (
	"fmt"
	"go/ast"
	"go/constant"
	"go/token"
	"go/types"
	"sort"

	"golang.org/x/tools/go/packages"

	"verif/checker/core"
)

func init() {
	register(&Rule{ID: "T-KEYWORDS", Props: []string{"C06"}, Doc: "Keywords map <-> reservedWordBytes/identifierBytes <-> TokenType constant blocks", Run: runKeywords})
	register(&Rule{ID: "T-OPERATORS", Props: []string{"C06"}, Doc: "op*Tokens maps <-> operatorBytes; punctuator spellings", Run: runOperators})
	register(&Rule{ID: "T-IDTABLES", Props: []string{"C06"}, Doc: "identifierStartTable/identifierTable membership", Run: runIDTables})
}

// constGroups returns, for the const declarations of type typeName in pk, the
// declaration groups: first name of the group -> member names in order.
func constGroups(pk *packages.Package, typeName string) (map[string][]string, map[string]string) {
	groups := map[string][]string{}
	groupOf := map[string]string{}
	for _, f := range pk.Syntax {
		for _, d := range f.Decls {
			gd, ok := d.(*ast.GenDecl)
			if !ok || gd.Tok != token.CONST {
				continue
			}
			var first string
			for _, sp := range gd.Specs {
				vs := sp.(*ast.ValueSpec)
				for _, n := range vs.Names {
					c, ok := pk.TypesInfo.Defs[n].(*types.Const)
					if !ok {
						continue
					}
					nt, ok := c.Type().(*types.Named)
					if !ok || nt.Obj().Name() != typeName || nt.Obj().Pkg() != pk.Types {
						continue
					}
					if first == "" {
						first = n.Name
					}
					groups[first] = append(groups[first], n.Name)
					groupOf[n.Name] = first
				}
			}
		}
	}
	return groups, groupOf
}

func cval(pk *packages.Package, name string) (int64, bool) { return constInt(pk, name) }

// bytesTable evaluates a [][]byte package-level literal to strings.
func bytesTable(pk *packages.Package, name string) ([]string, error) {
	l, err := evalGlobal(pk, name)
	if err != nil {
		return nil, err
	}
	out := make([]string, len(l.Elems))
	for i, e := range l.Elems {
		s, ok := e.Str()
		if !ok {
			return nil, fmt.Errorf("%s[%d] is not a constant byte string", name, i)
		}
		out[i] = s
	}
	return out, nil
}

func runKeywords(r *core.Run) {
	pk := r.Prog.Pkg("js")
	if pk == nil {
		r.BrokenAnchor("package js")
		return
	}
	kw, err := evalGlobal(pk, "Keywords")
	if err != nil {
		r.Unknown("Keywords", token.NoPos, err.Error())
		return
	}
	groups, groupOf := constGroups(pk, "TokenType")
	tables := map[string]string{"ReservedToken": "reservedWordBytes", "IdentifierToken": "identifierBytes"}
	spell := map[string][]string{}
	for base, tn := range tables {
		if _, ok := groups[base]; !ok {
			r.BrokenAnchor("const block " + base)
			return
		}
		t, err := bytesTable(pk, tn)
		if err != nil {
			r.Unknown(tn, token.NoPos, err.Error())
			return
		}
		spell[base] = t
		// table length equals block size
		r.Check(len(t) == len(groups[base]), "len("+tn+")==block "+base, token.NoPos,
			fmt.Sprintf("%d entries for %d constants", len(t), len(groups[base])),
			fmt.Sprintf("table %s has %d entries but const block %s has %d constants: TokenType.Bytes() indexes the table by tt-%s", tn, len(t), base, len(groups[base]), base))
		// block values are consecutive from the base
		bv, _ := cval(pk, base)
		for i, n := range groups[base] {
			v, _ := cval(pk, n)
			r.Check(v == bv+int64(i), "consecutive "+n, token.NoPos, "", fmt.Sprintf("constant %s = %#x is not %s+%d", n, v, base, i))
		}
	}
	used := map[string]int{}
	nkw := 0
	for i, k := range kw.Keys {
		ks, ok := k.Str()
		v := kw.Vals[i]
		if !ok || v.Obj == nil {
			r.Unknown(fmt.Sprintf("Keywords entry %d", i), k.Pos, "key or value is not a constant")
			continue
		}
		nkw++
		vn := v.Obj.Name()
		used[vn]++
		base := groupOf[vn]
		t, isKW := spell[base]
		key := fmt.Sprintf("Keywords[%q]", ks)
		if !isKW || vn == base {
			r.Fail(key, k.Pos, fmt.Sprintf("maps to %s which is not a member of the reserved-word or identifier constant blocks", vn))
			continue
		}
		bv, _ := cval(pk, base)
		vv, _ := v.Int()
		idx := int(vv - bv)
		if idx < 0 || idx >= len(t) {
			r.Fail(key, k.Pos, fmt.Sprintf("%s-%s = %d is outside %s", vn, base, idx, tables[base]))
			continue
		}
		r.Check(t[idx] == ks, key, k.Pos, fmt.Sprintf("%s spells %q", vn, t[idx]),
			fmt.Sprintf("the lexer returns %s for the text %q but %s.Bytes() is %q: the type's canonical spelling differs from the token text", vn, ks, vn, t[idx]))
	}
	// every non-base block constant is the value of exactly one keyword
	for base := range tables {
		for _, n := range groups[base][1:] {
			r.Check(used[n] == 1, "keyword for "+n, token.NoPos, "", fmt.Sprintf("constant %s is the value of %d Keywords entries (want exactly 1): its spelling would never/ambiguously be lexed as this type", n, used[n]))
		}
	}
	r.Floor("Keywords entries", nkw, 50)

	// predicate bit tests agree with the blocks
	expect := map[string][]string{
		"IsNumeric":        {"NumericToken"},
		"IsPunctuator":     {"PunctuatorToken", "OperatorToken"},
		"IsOperator":       {"OperatorToken"},
		"IsIdentifierName": {"ReservedToken", "IdentifierToken"},
		"IsReservedWord":   {"ReservedToken"},
		"IsIdentifier":     {"IdentifierToken"},
	}
	var fnames []string
	for fn := range expect {
		fnames = append(fnames, fn)
	}
	sort.Strings(fnames)
	for _, fn := range fnames {
		fd, _ := r.Prog.FuncDecl("js", "", fn)
		if fd == nil {
			r.BrokenAnchor("js." + fn)
			continue
		}
		mask, ok := maskTest(pk, fd)
		if !ok {
			r.Unknown("bit test "+fn, fd.Pos(), "body is not `return tt&MASK != 0`")
			continue
		}
		want := map[string]bool{}
		for _, b := range expect[fn] {
			for _, n := range groups[b] {
				want[n] = true
			}
		}
		bad := ""
		for n := range groupOf {
			v, _ := cval(pk, n)
			if (v&mask != 0) != want[n] {
				bad = n
			}
		}
		r.Check(bad == "", "bit test "+fn, fd.Pos(), fmt.Sprintf("mask %#x agrees with blocks %v for all %d constants", mask, expect[fn], len(groupOf)),
			fmt.Sprintf("%s(%s) disagrees with membership in const blocks %v (mask %#x)", fn, bad, expect[fn], mask))
	}
}

// maskTest recognises `return tt&MASK != 0`.
func maskTest(pk *packages.Package, fd *ast.FuncDecl) (int64, bool) {
	if fd.Body == nil || len(fd.Body.List) != 1 {
		return 0, false
	}
	ret, ok := fd.Body.List[0].(*ast.ReturnStmt)
	if !ok || len(ret.Results) != 1 {
		return 0, false
	}
	be, ok := ast.Unparen(ret.Results[0]).(*ast.BinaryExpr)
	if !ok || be.Op != token.NEQ {
		return 0, false
	}
	z := pk.TypesInfo.Types[be.Y].Value
	if z == nil || constant.Sign(constant.ToInt(z)) != 0 {
		return 0, false
	}
	and, ok := ast.Unparen(be.X).(*ast.BinaryExpr)
	if !ok || and.Op != token.AND {
		return 0, false
	}
	mv := pk.TypesInfo.Types[and.Y].Value
	if mv == nil {
		mv = pk.TypesInfo.Types[and.X].Value
	}
	if mv == nil {
		return 0, false
	}
	m, ok := constant.Int64Val(constant.ToInt(mv))
	return m, ok
}

// jsSpellings statically evaluates TokenType.Bytes() for the fixed-spelling
// token types: operator table + the punctuator switch arms.
func jsSpellings(r *core.Run, pk *packages.Package) (map[string]string, bool) {
	out := map[string]string{}
	groups, _ := constGroups(pk, "TokenType")
	ops, err := bytesTable(pk, "operatorBytes")
	if err != nil {
		r.Unknown("operatorBytes", token.NoPos, err.Error())
		return nil, false
	}
	og := groups["OperatorToken"]
	if len(og) == 0 {
		r.BrokenAnchor("const block OperatorToken")
		return nil, false
	}
	r.Check(len(ops) == len(og), "len(operatorBytes)==block OperatorToken", token.NoPos, "",
		fmt.Sprintf("operatorBytes has %d entries, const block has %d", len(ops), len(og)))
	for i, n := range og {
		if i < len(ops) && i > 0 {
			out[n] = ops[i]
		}
	}
	// punctuators: switch arms `case X: return []byte("lit")` in Bytes()
	fd, _ := r.Prog.FuncDecl("js", "TokenType", "Bytes")
	if fd == nil {
		r.BrokenAnchor("js.TokenType.Bytes")
		return nil, false
	}
	n := 0
	ast.Inspect(fd.Body, func(nd ast.Node) bool {
		cc, ok := nd.(*ast.CaseClause)
		if !ok || len(cc.Body) != 1 {
			return true
		}
		ret, ok := cc.Body[0].(*ast.ReturnStmt)
		if !ok || len(ret.Results) != 1 {
			return true
		}
		l, err := evalExpr(pk, ret.Results[0])
		if err != nil {
			return true
		}
		s, ok := l.Str()
		if !ok {
			return true
		}
		for _, e := range cc.List {
			if id, ok := ast.Unparen(e).(*ast.Ident); ok {
				if _, ok := pk.TypesInfo.Uses[id].(*types.Const); ok {
					out[id.Name] = s
					n++
				}
			}
		}
		return true
	})
	if n < 20 {
		r.Unknown("TokenType.Bytes switch", fd.Pos(), fmt.Sprintf("only %d `case X: return []byte(\"..\")` arms recognised", n))
		return nil, false
	}
	return out, true
}

// ECMAScript punctuators that the lexer has dedicated types for.
var ecmaPunct = map[string]string{
	"OpenBraceToken": "{", "CloseBraceToken": "}", "OpenParenToken": "(", "CloseParenToken": ")",
	"OpenBracketToken": "[", "CloseBracketToken": "]", "DotToken": ".", "SemicolonToken": ";",
	"CommaToken": ",", "QuestionToken": "?", "ColonToken": ":", "ArrowToken": "=>", "EllipsisToken": "...",
}

func runOperators(r *core.Run) {
	pk := r.Prog.Pkg("js")
	if pk == nil {
		r.BrokenAnchor("package js")
		return
	}
	spell, ok := jsSpellings(r, pk)
	if !ok {
		return
	}
	for n, s := range ecmaPunct {
		r.Check(spell[n] == s, "Bytes("+n+")", token.NoPos, "", fmt.Sprintf("%s.Bytes() is %q, ECMAScript punctuator is %q", n, spell[n], s))
	}
	// all operator spellings are distinct among lexer-produced operators
	// (the six "unused in lexer" unary/update aliases after OptChainToken excepted)
	groups, _ := constGroups(pk, "TokenType")
	og := groups["OperatorToken"]
	seen := map[string]string{}
	lexerOps := 0
	for _, n := range og[1:] {
		if n == "PosToken" {
			break
		}
		lexerOps++
		if prev, dup := seen[spell[n]]; dup {
			r.Fail("distinct spelling "+n, token.NoPos, fmt.Sprintf("%s and %s share the spelling %q", prev, n, spell[n]))
		} else {
			r.OK("distinct spelling "+n, token.NoPos, spell[n])
		}
		seen[spell[n]] = n
	}
	forms := []struct {
		name string
		form func(c byte) string
	}{
		{"c", func(c byte) string { return string([]byte{c}) }},
		{"c=", func(c byte) string { return string([]byte{c, '='}) }},
		{"cc", func(c byte) string { return string([]byte{c, c}) }},
		{"cc=", func(c byte) string { return string([]byte{c, c, '='}) }},
	}
	// the operator look-up maps are found by type (package-level map[byte]TokenType), and the spelling form each
	// one stands for (c, c=, cc, cc=) by what the majority of its entries spell; every entry must then agree
	var maps []string
	sc := pk.Types.Scope()
	for _, n := range sc.Names() {
		v, ok := sc.Lookup(n).(*types.Var)
		if !ok {
			continue
		}
		m, ok := v.Type().Underlying().(*types.Map)
		if !ok {
			continue
		}
		kb, ok1 := m.Key().Underlying().(*types.Basic)
		en, ok2 := m.Elem().(*types.Named)
		if ok1 && kb.Kind() == types.Uint8 && ok2 && en.Obj().Name() == "TokenType" && en.Obj().Pkg() == pk.Types {
			maps = append(maps, n)
		}
	}
	if len(maps) == 0 {
		// the lexer does not look operators up in per-form byte maps (one map keyed by (byte, form), a switch, ...):
		// there is no table to compare; that every operator token returned was spelled by the bytes consumed is
		// decided path by path by R-SPELL(js)
		r.Note("T-OPERATORS: no package-level map[byte]TokenType: the per-form operator tables do not exist in this tree; operator spellings are decided by R-SPELL only")
		r.Count("operator types with a spelling", lexerOps)
		return
	}
	total := 0
	covered := map[string]bool{}
	claimed := map[string]string{}
	for _, mn := range maps {
		l, err := evalGlobal(pk, mn)
		if err != nil {
			r.Unknown(mn, token.NoPos, err.Error())
			continue
		}
		best, bestN := -1, -1
		for fi, f := range forms {
			n := 0
			for i, k := range l.Keys {
				kv, ok1 := k.Int()
				v := l.Vals[i]
				if ok1 && v.Obj != nil && spell[v.Obj.Name()] == f.form(byte(kv)) {
					n++
				}
			}
			if n > bestN {
				best, bestN = fi, n
			}
		}
		if best < 0 || 2*bestN <= len(l.Keys) {
			r.Unknown("operator map "+mn, l.Pos, "cannot tell which spelling form (c, c=, cc, cc=) this map[byte]TokenType stands for: no form is spelled by a majority of its entries")
			continue
		}
		f := forms[best]
		if prev, dup := claimed[f.name]; dup {
			r.Fail("operator map for form "+f.name, l.Pos, fmt.Sprintf("both %s and %s look like the map for the form %s", prev, mn, f.name))
		}
		claimed[f.name] = mn
		for i, k := range l.Keys {
			kv, ok1 := k.Int()
			v := l.Vals[i]
			if !ok1 || v.Obj == nil {
				r.Unknown(fmt.Sprintf("operator map (form %s) entry %d", f.name, i), k.Pos, "non-constant entry")
				continue
			}
			total++
			want := f.form(byte(kv))
			got, has := spell[v.Obj.Name()]
			covered[v.Obj.Name()] = true
			r.Check(has && got == want, fmt.Sprintf("operator map (form %s)[%q]", f.name, string([]byte{byte(kv)})), k.Pos, v.Obj.Name()+" spells "+got,
				fmt.Sprintf("the lexer returns %s after consuming %q but %s.Bytes() is %q", v.Obj.Name(), want, v.Obj.Name(), got))
		}
	}
	for _, f := range forms {
		if _, ok := claimed[f.name]; !ok {
			r.Fail("operator map for form "+f.name, token.NoPos, "no package-level map[byte]TokenType spells the form "+f.name)
		}
	}
	r.Floor("op*Tokens entries", total, 30)
	r.Count("operator types with a spelling", lexerOps)
}

func runIDTables(r *core.Run) {
	pk := r.Prog.Pkg("js")
	if pk == nil {
		r.BrokenAnchor("package js")
		return
	}
	isStart := func(c int) bool {
		return c == '$' || c == '_' || (c >= 'a' && c <= 'z') || (c >= 'A' && c <= 'Z')
	}
	wants := []struct {
		name string
		want func(int) bool
		doc  string
	}{
		{"identifier start table", isStart, "[$_A-Za-z]"},
		{"identifier part table", func(c int) bool { return isStart(c) || (c >= '0' && c <= '9') }, "[$_0-9A-Za-z]"},
	}
	// the two ASCII class tables are found by type — a package-level [256]bool, or one bit of a package-level
	// [256]<integer> class table (charTable[c]&identifierStart != 0) — and matched to the class they are closest to
	var tabs []string
	derived := map[string]*[256]bool{}
	sc := pk.Types.Scope()
	for _, n := range sc.Names() {
		v, ok := sc.Lookup(n).(*types.Var)
		if !ok {
			continue
		}
		if a, ok := v.Type().Underlying().(*types.Array); ok && a.Len() == 256 {
			b, ok := a.Elem().Underlying().(*types.Basic)
			if !ok {
				continue
			}
			if b.Kind() == types.Bool {
				tabs = append(tabs, n)
			} else if b.Info()&types.IsInteger != 0 {
				l, err := evalGlobal(pk, n)
				if err != nil || len(l.Elems) != 256 {
					continue
				}
				var vals [256]int64
				good := true
				for i, e := range l.Elems {
					if e == nil {
						continue // zero
					}
					x, ok := e.Int()
					if !ok {
						good = false
						break
					}
					vals[i] = x
				}
				if !good {
					continue
				}
				for bit := 0; bit < 16; bit++ {
					var t [256]bool
					any := false
					for c := range vals {
						if vals[c]&(1<<bit) != 0 {
							t[c], any = true, true
						}
					}
					if any {
						nm := fmt.Sprintf("%s&%#x", n, 1<<bit)
						derived[nm] = &t
						tabs = append(tabs, nm)
					}
				}
			}
		}
	}
	used := map[string]bool{}
	for _, tc := range wants {
		bestName, bestDist := "", 257
		var bestT *[256]bool
		for _, n := range tabs {
			if used[n] {
				continue
			}
			t := derived[n]
			if t == nil {
				var err error
				if t, err = boolTable(pk, n); err != nil {
					continue
				}
			}
			d := 0
			for c := 0; c < 256; c++ {
				if t[c] != tc.want(c) {
					d++
				}
			}
			if d < bestDist {
				bestName, bestDist, bestT = n, d, t
			}
		}
		if bestT == nil || bestDist > 16 {
			r.Unknown(tc.name, token.NoPos, "no package-level [256]bool table (or bit of a [256]integer class table) of package js resembles "+tc.doc)
			continue
		}
		used[bestName] = true
		bad := -1
		for c := 0; c < 256; c++ {
			if bestT[c] != tc.want(c) {
				bad = c
			}
		}
		r.Check(bad < 0, tc.name, token.NoPos, bestName+" equals "+tc.doc+" on all 256 byte values",
			fmt.Sprintf("%s[%#x] = %v, but ASCII IdentifierStart/Part membership %s says %v", bestName, bad, bad >= 0 && bestT[bad], tc.doc, bad >= 0 && tc.want(bad)))
	}
}
