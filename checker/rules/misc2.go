package rules

import (
	"fmt"
	"go/constant"
	"go/token"
	"go/types"
	"strings"

	"golang.org/x/tools/go/ssa"

	"verif/checker/core"
)

func init() {
	register(&Rule{ID: "R-SEEKREAD", Props: []string{"C19"}, Doc: "binaryReaderSeeker.Bytes seeks to the requested offset before every read, under its mutex", Run: runSeekRead})
	register(&Rule{ID: "R-CTORERR", Props: []string{"C12"}, Doc: "NewInput/NewLexer with a failing reader yield the empty cursor carrying the reader's error", Run: runCtorErr})
	register(&Rule{ID: "R-STREAMBUF", Props: []string{"C13"}, Doc: "StreamLexer.read: writes go only into the buffer obtained from the pool; delivered bytes are always counted; the retired block is exactly buf[:start]", Run: runStreamBuf})
}

func callsNamed(fn *ssa.Function, name string) []*ssa.Call {
	var out []*ssa.Call
	for _, b := range fn.Blocks {
		for _, in := range b.Instrs {
			if c, ok := in.(*ssa.Call); ok {
				if c.Call.IsInvoke() && c.Call.Method.Name() == name {
					out = append(out, c)
				} else if f := c.Call.StaticCallee(); f != nil && f.Name() == name {
					out = append(out, c)
				}
			}
		}
	}
	return out
}

func instrBefore(a, b ssa.Instruction) bool {
	if a.Block() == b.Block() {
		return instrIndex(a) < instrIndex(b)
	}
	return a.Block().Dominates(b.Block())
}

// ---------------------------------------------------------------- R-SEEKREAD

// hasSeekReadField: the struct (or a struct embedded in it) has a field of an interface type with Seek and Read.
func hasSeekReadField(st *types.Struct, depth int) bool {
	for i := 0; i < st.NumFields(); i++ {
		switch ft := st.Field(i).Type().Underlying().(type) {
		case *types.Interface:
			hasSeek, hasRead := false, false
			for j := 0; j < ft.NumMethods(); j++ {
				switch ft.Method(j).Name() {
				case "Seek":
					hasSeek = true
				case "Read":
					hasRead = true
				}
			}
			if hasSeek && hasRead {
				return true
			}
		case *types.Struct:
			if st.Field(i).Embedded() && depth < 2 && hasSeekReadField(ft, depth+1) {
				return true
			}
		}
	}
	return false
}

func runSeekRead(r *core.Run) {
	// the back end over an io.ReadSeeker: the type of package parse with a field of an interface type that has both
	// Seek and Read, and its Bytes method (with the unexported helpers of the same receiver it calls)
	var fn *ssa.Function
	for _, f := range methodsNamed(r, "", "Bytes") {
		if t, ok := f.Signature.Recv().Type().(*types.Pointer); ok {
			if st, ok := t.Elem().Underlying().(*types.Struct); ok && hasSeekReadField(st, 0) {
				fn = f
			}
		}
	}
	if fn == nil {
		r.BrokenAnchor("the Bytes method of the io.ReadSeeker back end")
		return
	}
	unit := []*ssa.Function{fn}
	seen := map[*ssa.Function]bool{fn: true}
	site := map[*ssa.Function]*ssa.Call{}
	for i := 0; i < len(unit); i++ {
		for _, b := range unit[i].Blocks {
			for _, in := range b.Instrs {
				if c, ok := in.(*ssa.Call); ok {
					g := c.Call.StaticCallee()
					sameRecv := g != nil && g.Signature.Recv() != nil && recvName(g) == recvName(fn)
					plainHelper := g != nil && g.Signature.Recv() == nil && fnPkg(g) == fnPkg(fn) // readLoop(r.r, b, n): a package-level helper the reader is handed to
					if g != nil && !seen[g] && (sameRecv || plainHelper) && g.Object() != nil && !g.Object().Exported() && len(g.Blocks) > 0 {
						seen[g] = true
						site[g] = c
						unit = append(unit, g)
					}
				}
			}
		}
	}
	var seeks, reads, locks, unlocks []*ssa.Call
	for _, f := range unit {
		seeks = append(seeks, callsNamed(f, "Seek")...)
		reads = append(reads, callsNamed(f, "Read")...)
		// io.ReadFull / io.ReadAtLeast stand for the Read calls they make on the reader they are given (possibly through
		// an adapter type): the Seek has to precede them just the same
		for _, n := range []string{"ReadFull", "ReadAtLeast"} {
			for _, c := range callsNamed(f, n) {
				if g := c.Call.StaticCallee(); g != nil && g.Pkg != nil && g.Pkg.Pkg.Path() == "io" {
					reads = append(reads, c)
				}
			}
		}
		locks = append(locks, callsNamed(f, "Lock")...)
		unlocks = append(unlocks, callsNamed(f, "Unlock")...)
	}
	if len(reads) == 0 {
		r.Unknown("seeker back end shape", fn.Pos(), "no Read call")
		return
	}
	off := ssa.Value(fn.Params[3])
	// is v the requested offset (the method's own parameter, possibly handed to a helper)?
	var isOff func(v ssa.Value, depth int) bool
	isOff = func(v ssa.Value, depth int) bool {
		if v == off {
			return true
		}
		if p, ok := v.(*ssa.Parameter); ok && depth < 3 {
			if c := site[p.Parent()]; c != nil {
				for i, q := range p.Parent().Params {
					if q == p && i < len(c.Call.Args) {
						return isOff(c.Call.Args[i], depth+1)
					}
				}
			}
		}
		return false
	}
	// does a precede b, possibly across the helper boundary (a in the caller before the call of b's function)?
	before := func(a, b ssa.Instruction) bool {
		for depth := 0; depth < 3; depth++ {
			if a.Parent() == b.Parent() {
				return instrBefore(a, b)
			}
			c := site[b.Parent()]
			if c == nil {
				return false
			}
			b = c
		}
		return false
	}
	for i, rd := range reads {
		ok := false
		for _, sk := range seeks {
			if len(sk.Call.Args) == 2 && isOff(sk.Call.Args[0], 0) && before(sk, rd) {
				if c, isC := sk.Call.Args[1].(*ssa.Const); isC && ssaIntConst(c) && c.Int64() == 0 {
					ok = true
				}
			}
		}
		r.Check(ok, fmt.Sprintf("seeker back end read #%d preceded by Seek(off, SeekStart)", i+1), rd.Pos(), "", "a Read is not dominated by Seek(off, io.SeekStart) with the requested offset: the result depends on where an earlier call left the underlying reader (ReadAt/Seek contracts break after a short read or an interleaved reader)")
		locked := false
		for _, l := range locks {
			if before(l, rd) {
				locked = true
			}
		}
		r.Check(locked, fmt.Sprintf("seeker back end read #%d under the mutex", i+1), rd.Pos(), "", "Seek+Read are not serialised by the mutex")
	}
	// fields: the wrapped reader, the size and the mutex; a second integer (a cached position) would be state shared between clones
	if t, ok := fn.Signature.Recv().Type().(*types.Pointer); ok {
		if st, ok := t.Elem().Underlying().(*types.Struct); ok {
			ints := 0
			var extra []string
			var census func(st *types.Struct, depth int)
			census = func(st *types.Struct, depth int) {
				for i := 0; i < st.NumFields(); i++ {
					ft := st.Field(i).Type()
					switch u := ft.Underlying().(type) {
					case *types.Basic:
						if u.Info()&types.IsInteger != 0 {
							ints++
							if ints > 1 {
								extra = append(extra, st.Field(i).Name())
							}
						} else {
							extra = append(extra, st.Field(i).Name())
						}
					case *types.Interface:
					case *types.Struct:
						if n, ok := ft.(*types.Named); ok && n.Obj().Pkg() != nil && n.Obj().Pkg().Path() == "sync" {
							continue
						}
						if st.Field(i).Embedded() && depth < 2 {
							census(u, depth+1) // the fields of an embedded struct are the struct's own
							continue
						}
						extra = append(extra, st.Field(i).Name())
					default:
						extra = append(extra, st.Field(i).Name())
					}
				}
			}
			census(st, 0)
			r.Check(len(extra) == 0, "seeker back end keeps no position state", fn.Pos(), "", fmt.Sprintf("extra fields %v: BinaryReader.Clone shares the back end, so back-end position state makes clones interfere", extra))
		}
	}
	r.Check(len(unlocks) >= 1 && len(locks) >= 1, "seeker back end locks and unlocks", fn.Pos(), "", "the mutex is not both locked and unlocked")
}

// ----------------------------------------------------------------- R-CTORERR

// readAllErrors: the values of fn that carry the error of an io.ReadAll call — its second result, or the
// corresponding result of an unexported helper whose error result is either nil or that error.
func readAllErrors(fn *ssa.Function, depth int) []ssa.Value {
	var out []ssa.Value
	if depth > 2 {
		return nil
	}
	for _, b := range fn.Blocks {
		for _, in := range b.Instrs {
			c, ok := in.(*ssa.Call)
			if !ok {
				continue
			}
			g := c.Call.StaticCallee()
			if g == nil {
				continue
			}
			idx := -1
			switch {
			case g.Name() == "ReadAll" && g.Pkg != nil && (g.Pkg.Pkg.Path() == "io" || g.Pkg.Pkg.Path() == "io/ioutil"):
				idx = 1
			case fnPkg(g) != nil && core.InModule(fnPkg(g)) && len(g.Blocks) > 0 && (g.Object() == nil || !g.Object().Exported()):
				// helper: find the error result fed by ReadAll inside
				inner := readAllErrors(g, depth+1)
				if len(inner) == 0 {
					continue
				}
				res := g.Signature.Results()
				for i := 0; i < res.Len(); i++ {
					if !isErrorType(res.At(i).Type()) {
						continue
					}
					okAll, fed := true, false
					for _, gb := range g.Blocks {
						ret, isRet := lastInstr(gb).(*ssa.Return)
						if !isRet {
							continue
						}
						for _, leaf := range phiLeaves(ret.Results[i], 0) {
							isInner := false
							for _, iv := range inner {
								if leaf == iv {
									isInner = true
								}
							}
							switch {
							case isInner:
								fed = true
							case isNilConst(leaf):
							default:
								okAll = false
							}
						}
					}
					if okAll && fed {
						idx = i
					}
				}
			}
			if idx < 0 {
				continue
			}
			for _, ref := range *c.Referrers() {
				if ex, isEx := ref.(*ssa.Extract); isEx && ex.Index == idx {
					out = append(out, ex)
				}
			}
		}
	}
	return out
}

// isNulOnlyGlobal: g is a package-level []byte whose literal is the single terminator byte.
func isNulOnlyGlobal(r *core.Run, g *ssa.Global) bool {
	if g == nil || g.Pkg == nil {
		return false
	}
	pk := r.Prog.ByPath[g.Pkg.Pkg.Path()]
	if pk == nil {
		return false
	}
	l, err := evalGlobal(pk, g.Name())
	if err != nil || l == nil {
		return false
	}
	if l.Const != nil && l.IsBytes {
		return constant.StringVal(l.Const) == "\x00"
	}
	if len(l.Elems) != 1 {
		return false
	}
	if l.Elems[0] == nil {
		return true
	}
	v, ok := l.Elems[0].Int()
	return ok && v == 0
}

func runCtorErr(r *core.Run) {
	for _, tc := range []struct{ rel, fn, typ string }{{"", "NewInput", "Input"}, {"buffer", "NewLexer", "Lexer"}} {
		fn := r.Prog.SSAFunc(tc.rel, "", tc.fn)
		if fn == nil {
			r.BrokenAnchor(tc.fn)
			continue
		}
		cr, why := discoverCursorRoles(r, cursorType{tc.rel, tc.typ})
		if cr == nil {
			r.Unknown(tc.fn+" shape", fn.Pos(), "cursor fields cannot be identified: "+why)
			continue
		}
		errs := readAllErrors(fn, 0)
		if len(errs) != 1 {
			r.Unknown(tc.fn+" shape", fn.Pos(), fmt.Sprintf("expected one value carrying the error of io.ReadAll (directly or through an unexported helper), found %d", len(errs)))
			continue
		}
		errVal := errs[0]
		found := false
		for _, b := range fn.Blocks {
			ret, ok := lastInstr(b).(*ssa.Return)
			if !ok {
				continue
			}
			// is this return on the err != nil edge?
			onErr := false
			for _, a := range guardsAt(b) {
				if a.op == token.NEQ && (a.x == errVal && isNilConst(a.y) || a.y == errVal && isNilConst(a.x)) {
					onErr = true
				}
			}
			if !onErr {
				continue
			}
			found = true
			// returned value: fresh struct whose buffer is the terminator-only buffer, whose error is errVal, nothing else
			al, ok := ret.Results[0].(*ssa.Alloc)
			good := ok
			var bufOK, errOK bool
			if ok {
				for _, ref := range *al.Referrers() {
					fa, isFA := ref.(*ssa.FieldAddr)
					if !isFA {
						continue
					}
					role := cr.field[fieldName(fa.X.Type(), fa.Field)]
					for _, r2 := range *fa.Referrers() {
						st, isSt := r2.(*ssa.Store)
						if !isSt {
							continue
						}
						switch role {
						case "buf":
							if g, _ := globalRoot(st.Val, nil, 0); isNulOnlyGlobal(r, g) {
								bufOK = true
							} else {
								good = false
							}
						case "err":
							errOK = st.Val == errVal
						default:
							if c, isC := st.Val.(*ssa.Const); !isC || !(c.Value == nil || ssaIntConst(c) && c.Int64() == 0) {
								good = false
							}
						}
					}
				}
			}
			r.Check(good && bufOK && errOK, tc.fn+" on reader failure returns the empty cursor with the reader's error", ret.Pos(), "", "when io.ReadAll fails the constructor must return a cursor over the terminator-only buffer that carries that error: a cursor that keeps partial data reports the error at every position while Peek still yields bytes (contract: the reader's own error with no data)")
		}
		r.Check(found, tc.fn+" handles reader failure", fn.Pos(), "", "no return on the `err != nil` edge of io.ReadAll")
	}
}

// ---------------------------------------------------------------- R-STREAMBUF

// streamRoles: the fields of buffer.StreamLexer by role: buf is the []byte field; start and pos are the int
// fields that Lexeme() uses as the low and high bound of z.buf[start:pos]; err is the error field.
type streamRoles struct{ buf, start, pos, err string }

func discoverStreamRoles(r *core.Run) (*streamRoles, string) {
	lx := r.Prog.SSAFunc("buffer", "StreamLexer", "Lexeme")
	if lx == nil {
		return nil, "no Lexeme method"
	}
	sr := &streamRoles{}
	if ret := singleReturn(lx); ret != nil && len(ret.Results) == 1 {
		if sl, ok := ret.Results[0].(*ssa.Slice); ok && sl.Low != nil && sl.High != nil {
			fld := func(v ssa.Value) string {
				if u, ok := v.(*ssa.UnOp); ok && u.Op == token.MUL {
					if fa, ok := u.X.(*ssa.FieldAddr); ok && fa.X == ssa.Value(lx.Params[0]) {
						return fieldName(fa.X.Type(), fa.Field)
					}
				}
				return ""
			}
			sr.buf, sr.start, sr.pos = fld(sl.X), fld(sl.Low), fld(sl.High)
		}
	}
	if sr.buf == "" || sr.start == "" || sr.pos == "" {
		return nil, "Lexeme() is not z.<buf>[z.<start>:z.<pos>]"
	}
	if st, ok := derefType(lx.Params[0].Type()).Underlying().(*types.Struct); ok {
		for i := 0; i < st.NumFields(); i++ {
			if types.Identical(st.Field(i).Type(), types.Universe.Lookup("error").Type()) {
				sr.err = st.Field(i).Name()
			}
		}
	}
	return sr, ""
}

// readUnit: the refill function of StreamLexer (the unexported method that calls io.Reader.Read) together with the
// unexported helpers of the same receiver it is split into.
func readUnit(r *core.Run) []*ssa.Function {
	var root *ssa.Function
	ms := streamMethods(r)
	isStream := map[*ssa.Function]bool{}
	for _, f := range ms {
		isStream[f] = true
	}
	reaches := map[*ssa.Function]bool{}
	for _, f := range ms {
		for _, c := range callsNamed(f, "Read") {
			if c.Call.IsInvoke() {
				reaches[f] = true
			}
		}
	}
	for changed := true; changed; {
		changed = false
		for _, f := range ms {
			if reaches[f] || f.Object() == nil || f.Object().Exported() {
				continue
			}
			for _, b := range f.Blocks {
				for _, in := range b.Instrs {
					if c, ok := in.(*ssa.Call); ok {
						if g := c.Call.StaticCallee(); g != nil && reaches[g] && !reaches[f] {
							reaches[f] = true
							changed = true
						}
					}
				}
			}
		}
	}
	// the root: the unexported refill method that no other refill method calls
	called := map[*ssa.Function]bool{}
	for f := range reaches {
		for _, b := range f.Blocks {
			for _, in := range b.Instrs {
				if c, ok := in.(*ssa.Call); ok {
					if g := c.Call.StaticCallee(); g != nil && reaches[g] && g != f {
						called[g] = true
					}
				}
			}
		}
	}
	for f := range reaches {
		if !called[f] && f.Object() != nil && !f.Object().Exported() {
			if root != nil && root != f {
				return nil // ambiguous
			}
			root = f
		}
	}
	if root == nil {
		return nil
	}
	unit := []*ssa.Function{root}
	seen := map[*ssa.Function]bool{root: true}
	for i := 0; i < len(unit); i++ {
		for _, b := range unit[i].Blocks {
			for _, in := range b.Instrs {
				if c, ok := in.(*ssa.Call); ok {
					if g := c.Call.StaticCallee(); g != nil && isStream[g] && !seen[g] && g.Object() != nil && !g.Object().Exported() {
						seen[g] = true
						unit = append(unit, g)
					}
				}
			}
		}
	}
	return unit
}

func runStreamBuf(r *core.Run) {
	sr, why := discoverStreamRoles(r)
	if sr == nil {
		r.Unknown("StreamLexer field roles", token.NoPos, why)
		return
	}
	unit := readUnit(r)
	if len(unit) == 0 {
		r.BrokenAnchor("buffer.StreamLexer refill method (the unexported method that calls io.Reader.Read)")
		return
	}
	inUnit := map[*ssa.Function]bool{}
	for _, f := range unit {
		inUnit[f] = true
	}
	isSwapShaped := func(g *ssa.Function) bool {
		sig := g.Signature
		if sig.Recv() == nil || sig.Params().Len() != 2 || sig.Results().Len() != 1 {
			return false
		}
		_, p0 := sig.Params().At(0).Type().Underlying().(*types.Slice)
		_, r0 := sig.Results().At(0).Type().Underlying().(*types.Slice)
		return p0 && r0 && isIntType(sig.Params().At(1).Type())
	}
	// wrappers of the swap on the pool's side (func (p *pool) next(buf, start, need) { ... p.swap(buf[:start], size) ... })
	// belong to the refill code: unexported methods of the package, called from the unit, that call a swap-shaped method
	for i := 0; i < len(unit); i++ {
		for _, b := range unit[i].Blocks {
			for _, in := range b.Instrs {
				c, ok := in.(*ssa.Call)
				if !ok || c.Call.IsInvoke() {
					continue
				}
				g := c.Call.StaticCallee()
				if g == nil || inUnit[g] || g.Signature.Recv() == nil || fnPkg(g) != fnPkg(unit[0]) || g.Object() == nil || g.Object().Exported() || isSwapShaped(g) {
					continue
				}
				wraps := false
				for _, gb := range g.Blocks {
					for _, gi := range gb.Instrs {
						if gc, isC := gi.(*ssa.Call); isC && !gc.Call.IsInvoke() {
							if h := gc.Call.StaticCallee(); h != nil && h != g && h.Signature.Recv() != nil && core.InModule(fnPkg(h)) && isSwapShaped(h) {
								wraps = true
							}
						}
					}
				}
				if wraps {
					inUnit[g] = true
					unit = append(unit, g)
				}
			}
		}
	}
	// resolveArg: a parameter of a unit function with a single call site stands for the argument passed there
	var resolveArg func(v ssa.Value, depth int) ssa.Value
	resolveArg = func(v ssa.Value, depth int) ssa.Value {
		p, ok := v.(*ssa.Parameter)
		if !ok || depth > 3 || !inUnit[p.Parent()] {
			return v
		}
		sites := callSitesOf(r, p.Parent())
		if len(sites) != 1 {
			return v
		}
		for i, q := range p.Parent().Params {
			if q == p && i < len(sites[0].Call.Args) {
				return resolveArg(sites[0].Call.Args[i], depth+1)
			}
		}
		return v
	}
	// the pool's swap: the call, inside the unit, of a method on the pool object that takes ([]byte, int) and returns []byte
	var swaps []*ssa.Call
	for _, f := range unit {
		for _, b := range f.Blocks {
			for _, in := range b.Instrs {
				c, ok := in.(*ssa.Call)
				if !ok || c.Call.IsInvoke() {
					continue
				}
				g := c.Call.StaticCallee()
				if g == nil || g.Signature.Recv() == nil || inUnit[g] || !core.InModule(fnPkg(g)) {
					continue
				}
				if isSwapShaped(g) {
					swaps = append(swaps, c)
				}
			}
		}
	}
	if len(swaps) != 1 {
		r.Fail("read obtains its buffer from the pool exactly once", unit[0].Pos(), fmt.Sprintf("%d calls of the pool's swap method in the refill code: the new buffer must come from the pool exactly once (the pool decides whether memory still referenced by unfreed tokens may be reused)", len(swaps)))
		return
	}
	sw := swaps[0]
	r.OK("read obtains its buffer from the pool exactly once", sw.Pos(), "")
	// (1) retired block is z.buf[:z.start]
	okArg := false
	if sl, ok := sw.Call.Args[1].(*ssa.Slice); ok && sl.Low == nil && sl.High != nil {
		x, hi := resolveArg(sl.X, 0), resolveArg(sl.High, 0)
		if xi, isI := x.(ssa.Instruction); isI && xi.Parent() != nil && len(xi.Parent().Params) > 0 && recvName(xi.Parent()) == "StreamLexer" {
			z := xi.Parent().Params[0].Name()
			okArg = canon(x) == z+"."+sr.buf && linOf(hi).equal(linAtom(z+"."+sr.start))
		}
	}
	r.Check(okArg, "read retires exactly buf[:start]", sw.Pos(), "", "the block handed to the pool is not z.buf[:z.start]: the pool counts freed bytes against len(block); a longer block can never be fully freed (memory grows with the stream), a shorter one is reused while tokens still point into it")
	// (2) every write into buffer memory targets memory derived from the slice returned by swap
	derived := map[ssa.Value]bool{sw: true}
	for changed := true; changed; {
		changed = false
		mark := func(v ssa.Value) {
			if !derived[v] {
				derived[v], changed = true, true
			}
		}
		for _, f := range unit {
			// a parameter is derived if every call site inside the unit passes a derived value
			for i, p := range f.Params {
				if derived[p] || i == 0 {
					continue
				}
				sites := callSitesOf(r, f)
				all := len(sites) > 0
				for _, c := range sites {
					if !inUnit[c.Parent()] || i >= len(c.Call.Args) || !derived[c.Call.Args[i]] {
						all = false
					}
				}
				if all {
					mark(p)
				}
			}
			for _, b := range f.Blocks {
				for _, in := range b.Instrs {
					v, ok := in.(ssa.Value)
					if !ok || derived[v] {
						continue
					}
					switch x := in.(type) {
					case *ssa.Slice:
						if derived[x.X] {
							mark(v)
						}
					case *ssa.Phi:
						all := len(x.Edges) > 0
						for _, e := range x.Edges {
							if !derived[e] {
								all = false
							}
						}
						if all {
							mark(v)
						}
					case *ssa.Extract:
						if c, ok := x.Tuple.(*ssa.Call); ok {
							if g := c.Call.StaticCallee(); g != nil && inUnit[g] {
								all, any := true, false
								for _, gb := range g.Blocks {
									if ret, ok := lastInstr(gb).(*ssa.Return); ok && x.Index < len(ret.Results) {
										any = true
										if !derived[ret.Results[x.Index]] {
											all = false
										}
									}
								}
								if all && any {
									mark(v)
								}
							}
						}
					case *ssa.Call:
						// result of a helper of the unit all of whose returns are derived
						if g := x.Call.StaticCallee(); g != nil && inUnit[g] && g.Signature.Results().Len() >= 1 {
							all, any := true, false
							for _, gb := range g.Blocks {
								if ret, ok := lastInstr(gb).(*ssa.Return); ok && len(ret.Results) >= 1 {
									any = true
									if !derived[ret.Results[0]] {
										all = false
									}
								}
							}
							if all && any && g.Signature.Results().Len() == 1 {
								mark(v)
							}
						}
					}
				}
			}
		}
	}
	writes := 0
	for _, f := range unit {
		for _, b := range f.Blocks {
			for _, in := range b.Instrs {
				c, ok := in.(*ssa.Call)
				if !ok {
					continue
				}
				var dst ssa.Value
				what := ""
				if bi, ok := c.Call.Value.(*ssa.Builtin); ok && bi.Name() == "copy" {
					dst, what = c.Call.Args[0], "copy"
				} else if c.Call.IsInvoke() && c.Call.Method.Name() == "Read" {
					dst, what = c.Call.Args[0], "Read"
				}
				if dst == nil {
					continue
				}
				writes++
				r.Check(derived[dst], fmt.Sprintf("read %s #%d writes into the pool's buffer", what, writes), c.Pos(), "", "bytes are written into memory that does not come from the pool's swap in this call (e.g. compaction inside the current buffer): slices returned by Shift/Lexeme that have not been freed are overwritten")
			}
		}
		for _, st := range allStores(f) {
			if ia, ok := st.Addr.(*ssa.IndexAddr); ok && strings.HasSuffix(canon(ia.X), "."+sr.buf) {
				r.Fail("read stores into z.buf", st.Pos(), "element store into the current buffer")
			}
		}
	}
	r.Floor("buffer writes in read()", writes, 2)
	// (3) bytes delivered by Read are counted on every path: the count is added in the block of the Read call (unconditional)
	ri := 0
	for _, f := range unit {
		for _, rd := range callsNamed(f, "Read") {
			if !rd.Call.IsInvoke() {
				continue
			}
			ri++
			var nVal ssa.Value
			for _, ref := range *rd.Referrers() {
				if ex, ok := ref.(*ssa.Extract); ok && ex.Index == 0 {
					nVal = ex
				}
			}
			counted := false
			if nVal != nil {
				for _, ref := range *nVal.Referrers() {
					if bo, ok := ref.(*ssa.BinOp); ok && bo.Op == token.ADD && bo.Block() == rd.Block() {
						counted = true
					}
				}
			}
			r.Check(counted, fmt.Sprintf("read counts the bytes of Read #%d unconditionally", ri), rd.Pos(), "", "the byte count returned by Read is not added to the buffer length on every path (e.g. skipped when err != nil): io.Reader may deliver n > 0 together with io.EOF or an error, and those bytes would be lost")
		}
	}
	// (4) the new z.buf is a prefix of the pool's buffer
	for _, f := range unit {
		fz := f.Params[0].Name()
		for _, st := range storesToField(f, fz+"."+sr.buf) {
			r.Check(derived[st.Val], "read installs the pool's buffer", st.Pos(), "", "z.buf is replaced by memory that does not come from the pool's swap")
		}
	}
}

var _ = core.ModPath
